"""D24 (C20): HttpServer.start() leaves the listening socket bound when Thread.start() raises.

Run: PYTHONPATH=/repo /venv/bin/python docs/findings/D24_http_start_thread_failure_demo.py
Expected on the unchanged repo: start() raises RuntimeError, afterwards the port is still bound although
_running is False, stop() changes nothing, and a second start() fails with EADDRINUSE.  (TftpServer.start()
closes its socket in the except branch of its try: the same fault leaves the TFTP port free.)
"""
import socket
import threading
import types

from vinegar.http import server as H


def port_bound(port):
    s = socket.socket(socket.AF_INET6, socket.SOCK_STREAM)
    s.setsockopt(socket.SOL_SOCKET, socket.SO_REUSEADDR, 1)
    try:
        s.bind(("::1", port))
        return False
    except OSError:
        return True
    finally:
        s.close()


probe = socket.socket(socket.AF_INET6, socket.SOCK_STREAM)
probe.bind(("::1", 0))
port = probe.getsockname()[1]
probe.close()

armed = [True]


class FailingThread(threading.Thread):
    def start(self):
        if armed[0]:
            armed[0] = False
            raise RuntimeError("can't start new thread")
        return super().start()


shim = types.SimpleNamespace(**{k: getattr(threading, k) for k in dir(threading) if not k.startswith("__")})
shim.Thread = FailingThread
H.threading = shim
srv = H.HttpServer([], "::1", port)
try:
    srv.start()
    print("start() returned?!")
except RuntimeError as e:
    print("start() raised:", e)
print("running:", srv._running, " port bound after the failed start():", port_bound(port))
srv.stop()
print("port bound after stop():", port_bound(port))
try:
    srv.start()
    print("second start() ok")
    srv.stop()
except OSError as e:
    print("second start() raised:", e)
