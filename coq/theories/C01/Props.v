(* property theorems: see below; filled in when the proofs are complete *)
