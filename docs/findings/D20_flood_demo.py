import io, socket, sys, threading, time, subprocess, os
sys.path.insert(0, sys.argv[1] if len(sys.argv) > 1 else "/repo")
from vinegar.tftp.server import TftpServer, TftpRequestHandler

class H(TftpRequestHandler):
    def can_handle(self, filename, context): return True
    def handle(self, filename, client_address, server_address, context):
        return io.BytesIO(b"x" * 100)

FLOOD = r'''
import socket, sys, time
s = socket.socket(socket.AF_INET6, socket.SOCK_DGRAM)
tid = ("::1", int(sys.argv[1])); end = time.monotonic() + float(sys.argv[2])
while time.monotonic() < end:
    for _ in range(200):
        try: s.sendto(b"\0\4\0\7", tid)
        except OSError: pass
'''
def main(nproc, dur):
    srv = TftpServer([H()], bind_address="::1", bind_port=0, default_timeout=1, max_retries=1)
    srv.start()
    try:
        port = srv._socket.getsockname()[1]
        c = socket.socket(socket.AF_INET6, socket.SOCK_DGRAM); c.bind(("::1", 0))
        c.settimeout(0.2)
        c.sendto(b"\0\1f\0octet\0", ("::1", port))
        d, tid = c.recvfrom(2000)
        t0 = time.monotonic()
        ps = [subprocess.Popen([sys.executable, "-c", FLOOD, str(tid[1]), str(dur)]) for _ in range(nproc)]
        got = []
        ended = None
        while time.monotonic() - t0 < dur + 4:
            try:
                d2, a = c.recvfrom(2000)
                if d2[:2] == b"\0\3": got.append(round(time.monotonic() - t0, 2))
            except socket.timeout:
                pass
            n = sum(1 for t in threading.enumerate() if t.daemon and t.name.startswith("Thread"))
            if ended is None and not any("read" in (t.name or "").lower() or t.name.startswith("Thread-") for t in threading.enumerate() if t is not threading.current_thread() and t is not srv._main_thread):
                ended = round(time.monotonic() - t0, 2)
        for p in ps: p.wait()
        print(nproc, "flood processes for", dur, "s: DATA 1 retransmitted at", got, "; transfer thread ended at", ended, "(bound by the property: retransmit at 1.0, end at 2.0)")
    finally:
        srv.stop()
main(int(sys.argv[2]), float(sys.argv[3]))
