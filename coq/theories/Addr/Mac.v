(* Model of vinegar/transform/mac_address.py.  Definitions only. *)
From Coq Require Import String.
From Coq Require Import List NArith Bool.
From VF Require Import Base.Sx Addr.Text.
Import ListNotations.
Open Scope N_scope.

(* [0-9A-Fa-f]{1,2} followed by something that is not a hex digit: one or two hex digits *)
Definition hex12 (s : str) : option (str * str) :=
  match s with
  | a :: b :: r => if is_hex a then if is_hex b then Some ([a; b], r) else Some ([a], b :: r) else None
  | [a] => if is_hex a then Some ([a], []) else None
  | [] => None
  end.

Definition delim_then (d : N) (r : str) : option str :=
  match r with c :: r' => if c =? d then Some r' else None | [] => None end.

(* _MAC_REGEXP.fullmatch: six groups of one or two hex digits separated by the SAME delimiter,
   ":" or "-" (back-reference (?P=delimiter)) *)
Definition mac_match (s : str) : option (list str) :=
  match hex12 s with None => None | Some (a, r) =>
  match r with [] => None | d :: r =>
  if negb ((d =? COLON) || (d =? DASH)) then None else
  match hex12 r with None => None | Some (b, r) =>
  match delim_then d r with None => None | Some r =>
  match hex12 r with None => None | Some (c, r) =>
  match delim_then d r with None => None | Some r =>
  match hex12 r with None => None | Some (e, r) =>
  match delim_then d r with None => None | Some r =>
  match hex12 r with None => None | Some (f, r) =>
  match delim_then d r with None => None | Some r =>
  match hex12 r with
  | Some (g, []) => Some [a; b; c; e; f; g]
  | _ => None
  end end end end end end end end end end end.

Definition mac_bytes (s : str) : option (list N) := option_map (map hex_val_list) (mac_match s).

(* the delimiter and target_case arguments; None = ValueError("Invalid delimiter"/"Invalid target case") *)
Definition mac_delim_arg (a : str) : option N :=
  if str_eqb a [COLON] || str_eqb a (bytes_of_string "colon") then Some COLON
  else if str_eqb a [DASH] || str_eqb a (bytes_of_string "dash") || str_eqb a (bytes_of_string "minus") then Some DASH
  else None.
Definition mac_case_arg (a : str) : option bool :=
  if str_eqb a (bytes_of_string "upper") then Some true
  else if str_eqb a (bytes_of_string "lower") then Some false else None.

Definition fmt_mac (upper : bool) (d : N) (bs : list N) : str :=
  intercalate [d] (map (print_hex2 upper) bs).

Definition normalize_mac (case_arg delim_arg : str) (raise_error : bool) (s : str) : res :=
  match mac_delim_arg delim_arg with
  | None => Exc ValueError
  | Some d =>
      match mac_case_arg case_arg with
      | None => Exc ValueError
      | Some up =>
          match mac_bytes s with
          | None => malformed raise_error s
          | Some bs => Ok (fmt_mac up d bs)
          end
      end
  end.
