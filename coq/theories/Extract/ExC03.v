From Coq Require Import ExtrOcamlBasic.
From Coq Require Extraction.
From VF Require Import Base.Sx C03.Entry.
Definition main := wrap entry.
Extraction "../ocaml/gen/c03_model.ml" main.
