From Coq Require Import List Arith Bool Lia.
From VF Require Import Lifecycle.Transfer.
Import ListNotations.

(* a trace fragment that leaves the resource stack as it found it and contains no ThreadEnd *)
Definition neutral (t : list action) : Prop := forall stk t', scan stk (t ++ t') = scan stk t'.

Lemma neutral_nil : neutral [].
Proof. intros stk t'. reflexivity. Qed.

Lemma neutral_app a b : neutral a -> neutral b -> neutral (a ++ b).
Proof. intros Ha Hb stk t'. rewrite <- app_assoc. rewrite Ha. apply Hb. Qed.

Definition plain (a : action) : bool :=
  match a with SendError | LogInfo | LogExc | Blocks => true | _ => false end.

Lemma neutral_plain t : forallb plain t = true -> neutral t.
Proof.
  induction t as [|a t IH]; cbn; intros H; [apply neutral_nil|].
  apply andb_prop in H. destruct H as [Ha Ht]. intros stk t'. specialize (IH Ht stk t').
  destruct a; cbn in Ha; try discriminate; cbn; exact IH.
Qed.

Lemma neutral_with r body : neutral body -> neutral (Open r :: body ++ [Close r]).
Proof.
  intros Hb stk t'. cbn [app scan]. rewrite <- app_assoc. rewrite Hb. cbn.
  destruct r; cbn; reflexivity.
Qed.

Lemma seqc_neutral a b : neutral (fst a) -> neutral (fst b) -> neutral (fst (seqc a b)).
Proof.
  intros Ha Hb. unfold seqc. destruct (snd a); cbn; auto using neutral_app.
Qed.

Lemma send_error_neutral e : neutral (fst (send_error e)).
Proof. apply neutral_plain. reflexivity. Qed.

Lemma process_request_neutral e : neutral (fst (process_request e)).
Proof.
  unfold process_request. apply seqc_neutral; [apply neutral_plain; reflexivity|].
  destruct (xend e); try (apply neutral_plain; reflexivity);
    (apply seqc_neutral; [apply neutral_plain; reflexivity | apply send_error_neutral]).
Qed.

Lemma in_socket_neutral e : with_file e = true -> neutral (fst (in_socket e)).
Proof.
  intros Hf. unfold in_socket. destruct (hres e).
  - unfold with_block_x, with_block. rewrite Hf. cbn [fst]. apply neutral_with.
    destruct (tsize_raises e); [apply neutral_nil | apply process_request_neutral].
  - apply seqc_neutral; [apply neutral_plain; reflexivity | apply send_error_neutral].
  - apply seqc_neutral; [apply neutral_plain; reflexivity | apply send_error_neutral].
Qed.

Lemma rev_snoc_end t u : ends_with_thread_end (t ++ [ThreadEnd u]) = true.
Proof. unfold ends_with_thread_end. rewrite rev_app_distr. reflexivity. Qed.

(* every exit path closes what it opened (file first, then socket) and ends the thread *)
Theorem transfer_releases e : with_sock e = true -> with_file e = true -> released (run_transfer e) = true.
Proof.
  intros Hs Hf. unfold run_transfer. destruct (sock_ok e); [|reflexivity].
  unfold with_block. rewrite Hs. cbn [fst snd]. unfold released.
  pose proof (neutral_with RSock _ (in_socket_neutral e Hf) [] [ThreadEnd (snd (in_socket e))]) as N.
  rewrite N. cbn [scan]. apply rev_snoc_end.
Qed.

Lemma count_app f a b : count_act f (a ++ b) = count_act f a + count_act f b.
Proof. unfold count_act. rewrite filter_app, app_length. reflexivity. Qed.

(* the file is opened exactly when the handler returned one, and the thread never dies with an
   uncaught exception unless a send of the final ERROR packet or the tsize computation failed *)
Theorem transfer_opens e :
  count_act (is_open RSock) (run_transfer e) = (if sock_ok e then 1 else 0) /\
  count_act (is_open RFile) (run_transfer e) =
    (if sock_ok e then match hres e with HFile => 1 | _ => 0 end else 0).
Proof.
  unfold run_transfer. destruct (sock_ok e); [|split; reflexivity].
  destruct e as [so hr ts xe se cf ws wf]; cbn.
  destruct hr, ts, xe, se, cf, ws, wf; split; reflexivity.
Qed.
