From Coq Require Import ExtrOcamlBasic.
From Coq Require Extraction.
From VF Require Import Base.Sx C19.Entry.
Definition main := wrap entry.
Extraction "../ocaml/gen/c19_model.ml" main.
