From Coq Require Import ExtrOcamlBasic.
From Coq Require Extraction.
From VF Require Import Base.Sx Tftp.HandlerOutcome.
Definition main := wrap outcome_entry.
Extraction "../ocaml/gen/c09out_model.ml" main.
