From Coq Require Import ExtrOcamlBasic.
From Coq Require Extraction.
From VF Require Import Base.Sx C15.Entry.
Definition main := wrap entry.
Extraction "../ocaml/gen/c15_model.ml" main.
