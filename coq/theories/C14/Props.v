(* C14 - Text-file source: line semantics, reverse lookup, complete reload on change.
   Property theorems only; each is closed by a lemma from the proof files.
   O is the oracle record (regex engine, transformation chains, version hash), c the configuration. *)
From Coq Require Import String.
From Coq Require Import List NArith ZArith Bool Arith.
From VF Require Import Base.Sx TextFile.Model TextFile.Proofs TextFile.Lines C14.Entry C14.EntryProofs.
Import ListNotations.
Open Scope N_scope.

(* Line semantics of open(newline="") iteration plus the strip loop: the raw lines concatenate to the
   content (nothing lost, nothing reordered); each raw line is a CR/LF-free body followed by one of
   "", "\n", "\r", "\r\n"; stripping leaves exactly the body, so no parsed line contains CR or LF. *)
Theorem C14_lines_partition : forall s, concat (raw_lines s []) = s.
Proof. exact raw_lines_concat. Qed.
Print Assumptions C14_lines_partition.

Theorem C14_lines_shape : forall s,
  Forall (fun l => exists b t, l = b ++ t /\ noeol b /\ term t /\ strip_eol l = b) (raw_lines s []).
Proof.
  intros s. eapply Forall_impl; [|apply raw_lines_ok].
  intros l (b & t & -> & Hb & Ht). exists b, t. repeat split; auto. now apply strip_eol_body.
Qed.
Print Assumptions C14_lines_shape.

Theorem C14_lines_noeol : forall s, Forall noeol (file_lines s).
Proof. exact file_lines_noeol. Qed.
Print Assumptions C14_lines_noeol.

(* A successful parse gives every id the data and version of the FIRST line that yields this id
   (a line yields an id when it is not ignored, matches, and its system-id variable evaluates to the id);
   that line has well-formed data; an id no line yields is absent. *)
Theorem C14_first_line_wins : forall O c ls s, parse_lines O c ls empty = Ok s -> forall id,
  get_in s id = match find (yields O c id) ls with
                | Some l => option_map fst (line_rec O c l)
                | None => None
                end
  /\ (forall l, find (yields O c id) ls = Some l -> line_rec O c l <> None).
Proof. exact first_line_wins. Qed.
Print Assumptions C14_first_line_wins.

(* ... or the parse raises: exactly the exception of the first line whose step raises
   (mismatch with action error, system id None / unhashable / raising chain, duplicate with action error,
   a variable whose chain raises, item assignment into a non-dict). *)
Theorem C14_parse_raises_first : forall O c ls e, parse_lines O c ls empty = Exc e <->
  exists pre l post s, ls = pre ++ l :: post /\ parse_lines O c pre empty = Ok s /\ step O c s l = Exc e.
Proof. exact parse_raises_first. Qed.
Print Assumptions C14_parse_raises_first.

(* the parse loop with its two index dicts computes the reference semantics used by the checker *)
Theorem C14_parse_refines : forall O c ls,
  parse_lines O c ls empty =
  match first_error O c [] ls with
  | Some e => Exc e
  | None => Ok (ext empty (systems O c [] ls))
  end.
Proof.
  intros O c ls. pose proof (parse_refines O c ls empty) as H. change (ids empty) with (@nil val) in H.
  destruct (first_error O c [] ls); exact H.
Qed.
Print Assumptions C14_parse_refines.

(* find_system: the ids, in file order, of the systems whose variable [key] has the value [v];
   the single one, or the first under find_first_match, else None.  One statement for hashable and
   unhashable values (the two indexes agree). *)
Theorem C14_find_spec : forall O c ls s, parse_lines O c ls empty = Ok s -> forall key v,
  find_in c s key v = pick (ffm c) (systems_with key v (systems O c [] ls)).
Proof. exact find_spec. Qed.
Print Assumptions C14_find_spec.

(* each system occurs once in the list the lookup scans ("the unique system") *)
Theorem C14_systems_unique : forall O c ls, NoDup (map (fun se => s_id (fst se)) (systems O c [] ls)).
Proof. intros; apply systems_unique. Qed.
Print Assumptions C14_systems_unique.

(* For EVERY history of edits (rewrite, delete, re-create, failing or undecodable content) and calls,
   provided the stat version determines the content, each call of the long-lived source answers exactly
   what a fresh parse of the content current at that call answers (value or exception): no remnant. *)
Theorem C14_reload_complete : forall O c (content_of : N -> fstate) h fs src,
  consistent content_of fs h -> inv O c content_of src ->
  run O c fs src h = spec_run O c (fver src) fs h.
Proof. exact run_spec. Qed.
Print Assumptions C14_reload_complete.

Theorem C14_fresh_source_is_spec : forall O c fs cl,
  snd (do_call O c fs fresh cl) = spec_answer O c (snd fs) cl.
Proof. intros. rewrite fresh_call. apply loaded_answer_spec. Qed.
Print Assumptions C14_fresh_source_is_spec.

(* a system's version changes whenever its data changes (hash injective) *)
Theorem C14_version_tracks_line : forall O c,
  (forall a b, o_hash O a = o_hash O b -> a = b) ->
  forall ls1 ls2 s1 s2 id r1 r2,
  parse_lines O c ls1 empty = Ok s1 -> parse_lines O c ls2 empty = Ok s2 ->
  get_in s1 id = Some r1 -> get_in s2 id = Some r2 ->
  s_kids r1 <> s_kids r2 -> s_ver r1 <> s_ver r2.
Proof. intros O c Hi ls1 ls2 s1 s2 id r1 r2 H1 H2 G1 G2 Hk Hv. apply Hk. exact (version_tracks_line O c Hi ls1 ls2 s1 s2 id r1 r2 H1 H2 G1 G2 Hv). Qed.
Print Assumptions C14_version_tracks_line.

(* the executable checker used on the implementation's observations accepts the model *)
Theorem C14_holds : forall c, valid c -> holds c (run_model c) = [].
Proof. exact holds_model. Qed.
Print Assumptions C14_holds.

(* the hypotheses of C14_holds as a boolean computed for every evaluated case (5th item of the driver's answer) *)
Theorem C14_validb_valid : forall c, validb c = true -> valid c.
Proof. exact validb_valid. Qed.
Print Assumptions C14_validb_valid.

Theorem C14_covered_cases : forall c, validb c = true -> holds c (run_model c) = [].
Proof. intros c H. apply holds_model, validb_valid, H. Qed.
Print Assumptions C14_covered_cases.

(* non-vacuity: a concrete oracle (lines "id=value", '#' comments ignored, identity hash), a history with a
   duplicate line, a rewrite, a deletion; the hypotheses hold and the answers are the expected ones *)
Definition ex_oracle : oracle :=
  {| o_ignored := fun l => match l with 35 :: _ => true | _ => false end;
     o_match := fun l => match l with [a; 61; b] => Some [Some [a]; Some [b]] | _ => None end;
     o_xform := fun _ g => match g with Some s => Ok (VStr s) | None => Ok VNone end;
     o_hash := fun l => l |}.
Definition ex_cfg : cfg :=
  {| cache := true; ffm := false; mis := AWarn; dup := AWarn; has_ign := true;
     sid := {| vkey := []; tnone := false; unone := false |};
     vars := [{| vkey := [110; 58; 118]; tnone := false; unone := false |}] |}.
Definition ex_hist : list hstep :=
  [SCall (CGet (VStr [97])); SEdit 2 (FText [98; 61; 50; 10]); SCall (CGet (VStr [97]));
   SCall (CFind [110; 58; 118] (VStr [50])); SEdit 0 FMissing; SCall (CGet (VStr [98]))].
Example C14_nonvacuous :
  consistent (fun v => match v with 1 => FText [35; 120; 13; 10; 97; 61; 49; 13; 97; 61; 50]
                                  | 2 => FText [98; 61; 50; 10] | _ => FMissing end)
             (1, FText [35; 120; 13; 10; 97; 61; 49; 13; 97; 61; 50]) ex_hist
  /\ (forall a b, o_hash ex_oracle a = o_hash ex_oracle b -> a = b)
  /\ map fst (run ex_oracle ex_cfg (1, FText [35; 120; 13; 10; 97; 61; 49; 13; 97; 61; 50]) fresh ex_hist)
     = [AGet [([110], Node [([118], Leaf (VStr [49]))])] (Some [97; 61; 49]);
        AGet [] None; AFind (Some (VStr [98])); ARaise EFileNotFound].
Proof.
  split; [|split].
  - split; [reflexivity|]. unfold ex_hist. repeat constructor.
  - intros a b H. exact H.
  - vm_compute. reflexivity.
Qed.

(* non-vacuity of the fault dimension: with a valid snapshot the faulted call does not touch the file and answers;
   after an edit the fault is the result of that call, and the next call is correct again *)
Example C14_nonvacuous_fault :
  let f1 := FText [97; 61; 49; 10] in let f2 := FText [98; 61; 50; 10] in
  let h := [SCall (CGet (VStr [97])); SCallF (CGet (VStr [97])) (FIO 5); SEdit 2 f2;
            SCallF (CGet (VStr [98])) (FIO 5); SCall (CGet (VStr [98])); SCallF (CGet (VStr [98])) (FStat 77)] in
  consistent (fun v => match v with 1 => f1 | _ => f2 end) (1, f1) h
  /\ map fst (run ex_oracle ex_cfg (1, f1) fresh h)
     = [AGet [([110], Node [([118], Leaf (VStr [49]))])] (Some [97; 61; 49]);
        AGet [([110], Node [([118], Leaf (VStr [49]))])] (Some [97; 61; 49]);
        ARaise 5;
        AGet [([110], Node [([118], Leaf (VStr [50]))])] (Some [98; 61; 50]);
        AGet [([110], Node [([118], Leaf (VStr [50]))])] (Some [98; 61; 50])].
Proof. split; [cbn; repeat split|vm_compute; reflexivity]. Qed.
