"""C08 - netascii conversion independent of block and read boundaries."""
import itertools
import struct

import common
from common import Check, sx, all_chunkings, hist
import fake_net
from vinegar.tftp import server as S


def direct_blocks(content, chunks, bs):
    """the loop of _send_data over the real reader closure"""
    read = S._netascii_reader_function(fake_net.ChunkedStream(content, chunks))
    out = []
    for _ in range(2 * len(content) + 2):
        try:
            d = read(bs)
        except Exception as ex:     # a reader that raises delivers what it delivered so far, then a marker block
            return out + [b"<raised " + type(ex).__name__.encode() + b">"]
        out.append(bytes(d))
        if len(d) != bs:
            return out
    return out + [b"<no-end>"]


def transfer_blocks(c):
    """through the real _TftpReadRequest with a client that acknowledges everything;
    returns (blocks, tsize_announced)"""
    import tftp_common as T
    content, bs = c["content"], c["bs"]
    options = list(c.get("options", []))
    if bs != 512 and not any(k.lower() == "blksize" for k, _ in options):
        options.append(("blksize", str(bs)))
    nblocks = 2 * len(content) // bs + 2
    tc = T.mk_case(content, c["chunks"], netascii=True, options=options, default_tmo=255, max_tmo=255, kind=c.get("kind", ("noreg",)),
                   max_bs=c.get("max_bs", 65464),
                   events=[(1 + i, 0, T.ack(i & 0xFFFF)) for i in range(nblocks + 1)])
    log = T.run_impl(tc)
    out = []
    tsize = False
    last = None
    announced = [512]
    for e in log:
        if e[0] == 1 and e[2] == 0 and e[3][0] == 3:
            if e[3] != last:
                out.append(e[3][2])
            last = e[3]
        elif e[0] == 1 and e[3][0] == 6:
            if any(k.lower() == b"tsize" for k, _ in e[3][1]):
                tsize = True
            for k, v in e[3][1]:
                if k.lower() == b"blksize" and v.isdigit():
                    announced[0] = int(v)
    # the client frames the blocks by the block size the OACK ANNOUNCED (512 without one): that is the size the
    # model is asked about (for the unchanged code it is the size the case was built for)
    c["_announced_bs"] = announced[0]
    return out, tsize


class C08(Check):
    ident = "C08"
    extra_bins = ("c01pkt",)
    technique = "Coq proof (streaming lemma over any chunking/block size) + differential correspondence"
    rule = ("case = (content over {CR,LF,a,b}, chunking of the source reads, block size); exhaustive over lengths "
            "<= L with every composition as chunking for bs in 1..3 (direct reader) and bs=8 (real transfer), plus "
            "seeded random binary inputs; tsize requests (3 spellings x 3 values x 6 stream kinds) in netascii mode; "
            "non-trivial = content contains CR or LF and chunking has >= 2 reads, or a tsize request; "
            "distinct by (content, chunking, bs)")
    assumptions = ["file.read(n) returns 1..n bytes while data remains and b'' only at EOF"]

    def gen(self, tier, rng):
        L = 6 if tier == "quick" else 8
        alpha = [13, 10, 97]
        for n in range(0, L + 1):
            for content in itertools.product(alpha, repeat=n):
                content = bytes(content)
                chs = list(all_chunkings(n))
                for bs in (1, 2, 3):
                    for ch in chs:
                        yield {"content": content, "chunks": ch, "bs": bs, "via": "reader"}
        # through the real transfer, bs = 8 and 9
        for n in range(0, L + 4):
            for _ in range(6 if tier == "quick" else 40):
                content = bytes(rng.choice(alpha + [98]) for _ in range(n + rng.randrange(0, 12)))
                ch = [rng.randrange(1, 5) for _ in range(len(content))]
                yield {"content": content, "chunks": ch, "bs": rng.choice([8, 9, 16]), "via": "transfer"}
        for _ in range(300 if tier == "quick" else 3000):
            n = rng.randrange(0, 4096 if tier == "thorough" else 1500)
            content = bytes(rng.choice([13, 10, 13, 10, rng.randrange(256)]) for _ in range(n))
            ch = [rng.randrange(1, 700) for _ in range(rng.randrange(0, 40))]
            yield {"content": content, "chunks": ch, "bs": rng.choice([512, 1428, 8, 100]), "via": "reader"}
        for _ in range(10 if tier == "quick" else 60):
            n = rng.randrange(0, 3000)
            content = bytes(rng.choice([13, 10, rng.randrange(256)]) for _ in range(n))
            ch = [rng.randrange(1, 700) for _ in range(rng.randrange(0, 40))]
            yield {"content": content, "chunks": ch, "bs": rng.choice([512, 1428]), "via": "transfer"}
        # the carry-over state (a CR that ended a read) across LONG reads without CR/LF: any size-gated shortcut in
        # the reader must keep it; reads are cut exactly at the segment boundaries [..CR][plain x n][LF..]
        for n in (1, 2, 63, 64, 65, 255, 256, 257, 511, 512, 513, 1000, 1428, 4096):
            for bs in (512, 1428) if tier == "quick" else (8, 512, 1428, 4096):
                for (head, tail) in ((b"ab\r", b"\ncd"), (b"\r", b"\n"), (b"x\r", b"y\n"), (b"ab\r", b"\r\ncd"), (b"\n\r", b"\n\n")):
                    content = head + b"p" * n + tail
                    chunks = [len(head), n, len(tail)]
                    yield {"content": content, "chunks": chunks, "bs": bs, "via": "reader"}
                    yield {"content": content, "chunks": [len(head), max(1, n // 2), n - max(1, n // 2) or 1, len(tail)], "bs": bs, "via": "reader"}
                    if bs >= 512:
                        yield {"content": content, "chunks": chunks, "bs": bs, "via": "transfer"}
        # a server block-size limit below the request: the blocks have the size the OACK announces
        for (max_bs, req) in ((1024, 1468), (512, 8192), (600, 600), (600, 601)):
            n = 3 * min(max_bs, req) + 5
            content = bytes(rng.choice([13, 10, 97, 98, 99]) for _ in range(n))
            yield {"content": content, "chunks": [], "bs": min(max_bs, req), "via": "transfer",
                   "options": [("blksize", str(req))], "max_bs": max_bs}
        # a transfer size must never be announced in netascii mode: every stream kind x option spellings
        for kind in (("bytesio", 0), ("bytesio", 3), ("file", 0), ("file", 2), ("pipe",), ("noreg",), ("sized",)):
            for name in ("tsize", "TSIZE", "tSize"):
                for val in ("0", "1", "00"):
                    for extra in ((), (("blksize", "16"),), (("timeout", "3"),)):
                        n = rng.randrange(0, 60)
                        content = bytes(rng.choice([13, 10, 97, 98]) for _ in range(n))
                        opts = [(name, val)] + list(extra)
                        if rng.random() < 0.5:
                            opts.reverse()
                        yield {"content": content, "chunks": [], "bs": 16 if extra and extra[0][0] == "blksize" else 512,
                               "via": "transfer", "options": opts, "kind": kind}

    def extra_checks(self, tier, rng, report):
        # the packet builders as values: a packet kept for retransmission is not changed by later packets
        import c01_pkt
        c01_pkt.pkt_checks(tier, rng, report, "C08")

    def accept_case(self, c):
        import fake_net
        return fake_net.can_drive(255, 255, 1, c.get("max_bs", 65464), 0)

    def impl(self, c):
        if c["via"] == "reader":
            return (direct_blocks(c["content"], c["chunks"], c["bs"]), False)
        return transfer_blocks(c)

    def line(self, c, obs):
        import tftp_common as T
        kind = c.get("kind", ("noreg",))
        ksx = T.kind_sx({"kind": kind, "content": c["content"]})
        opts = [[a, b] for a, b in c.get("options", [])]
        bs = c.get("_announced_bs", c["bs"]) if c["via"] == "transfer" else c["bs"]
        return sx([c["content"], c["chunks"], bs, 0, opts, [c.get("max_bs", 65464), 30 * 1024, 4096 * 1024], ksx,
                   [obs[0], obs[1]]])

    def canon(self, obs):
        return [[bytes(b) for b in obs[0]], 1 if obs[1] else 0]

    def nontrivial(self, c, obs):
        if (b"\r" in c["content"] or b"\n" in c["content"]) and len(c["chunks"]) >= 2:
            return (c["content"], tuple(c["chunks"]), c["bs"], c["via"])
        if c.get("options"):
            return (c["content"], tuple(c["options"]), c.get("kind"))
        return None

    def show(self, c):
        return {"content": c["content"].hex(), "chunks": c["chunks"], "bs": c["bs"], "via": c["via"],
                "options": c.get("options", []), "kind": c.get("kind", ("noreg",))}

    def shrink(self, c):
        ct, ch = c["content"], c["chunks"]
        for i in range(len(ct)):
            yield dict(c, content=ct[:i] + ct[i + 1:])
        for i in range(len(ch)):
            yield dict(c, chunks=ch[:i] + ch[i + 1:])
        for i in range(len(ch)):
            if ch[i] > 1:
                yield dict(c, chunks=ch[:i] + [ch[i] - 1] + ch[i + 1:])


if __name__ == "__main__":
    raise SystemExit(C08().main())
