(* lock_linearizable (generic): if every call is ONE critical section  Acq; Step*; Rel  then, for any
   number of threads, any call lists and any schedule,
     - at most one thread is inside a call and it is the lock owner (mutual exclusion / atomicity),
     - hence a thread can only move while no OTHER thread is inside a call: the effective schedule is a
       sequential execution of the calls in lock-acquisition order (environment events in place),
     - some thread can always move until all calls have returned (no deadlock),
     - the observed results are accepted by the `search` decision procedure of Lin.v. *)
From Coq Require Import List Arith Bool Lia.
From VF Require Import Conc.Machine Conc.Lin.
Import ListNotations.

Lemma nth_error_upd_same {A} (l : list A) i a x :
  nth_error l i = Some x -> nth_error (upd i a l) i = Some a.
Proof. revert i; induction l as [|y r IH]; intros [|i] H; cbn in *; try discriminate; auto. Qed.

Lemma nth_error_upd_other {A} (l : list A) i j a :
  i <> j -> nth_error (upd i a l) j = nth_error l j.
Proof. revert i j; induction l as [|y r IH]; intros [|i] [|j] H; cbn; auto; try congruence. Qed.

Lemma length_upd {A} (l : list A) i a : length (upd i a l) = length l.
Proof. revert i; induction l as [|y r IH]; intros [|i]; cbn; auto. Qed.

Section MP.
  Variables (O W LS Call Res E : Type).
  Variable begin : Call -> LS.
  Variable prog : Call -> list (mstep O W LS).
  Variable ret : LS -> Res.
  Variable env : E -> W -> W.
  Notation mst := (mst O W LS Call Res).
  Notation thread := (thread O W LS Call Res).
  Notation tstep := (tstep O W LS Call Res begin prog ret).
  Notation step := (step O W LS Call Res E begin prog ret env).
  Notation run := (run O W LS Call Res E begin prog ret env).
  Notation all_done := (all_done O W LS Call Res).

  Variable body : Call -> list (LS -> O -> W -> LS * O).
  Definition cs_prog (b : list (LS -> O -> W -> LS * O)) : list (mstep O W LS) := Acq :: map Step b ++ [Rel].
  Hypothesis prog_cs : forall c, prog c = cs_prog (body c).

  Definition in_cs (p : list (mstep O W LS)) : Prop := exists k, p = map Step k ++ [Rel].

  Record Inv (s : mst) : Prop := {
    inv_t : forall i t, nth_error (threads s) i = Some t ->
            (pcl t = [] \/ in_cs (pcl t)) /\ (pcl t <> [] <-> lock s = Some i);
    inv_o : forall i, lock s = Some i -> exists t, nth_error (threads s) i = Some t
  }.

  Lemma in_cs_cases p : in_cs p ->
    (p = [Rel]) \/ (exists f rest, p = Step f :: rest /\ in_cs rest).
  Proof.
    intros [k ->]. destruct k as [|f k]; cbn; [left; reflexivity|].
    right. exists f, (map Step k ++ [Rel]). split; [reflexivity | exists k; reflexivity].
  Qed.

  Lemma in_cs_nonempty p : in_cs p -> p <> [].
  Proof. intros [k ->]. destruct k; discriminate. Qed.

  Lemma finish_nonempty (t : thread) l rest : rest <> [] ->
    finish O W LS Call Res ret t l rest = {| ls := l; pcl := rest; todo := todo t; res := res t |}.
  Proof. destruct rest; [congruence|reflexivity]. Qed.

  (* what an effective thread step looks like under the discipline *)
  Lemma tstep_cases s i s' : Inv s -> tstep s i = Some s' ->
    exists t, nth_error (threads s) i = Some t /\
    ( (pcl t = [] /\ lock s = None /\ lock s' = Some i /\ exists t', threads s' = upd i t' (threads s) /\ in_cs (pcl t'))
   \/ (pcl t <> [] /\ lock s = Some i /\ lock s' = Some i /\ exists t', threads s' = upd i t' (threads s) /\ in_cs (pcl t'))
   \/ (pcl t <> [] /\ lock s = Some i /\ lock s' = None /\ exists t', threads s' = upd i t' (threads s) /\ pcl t' = []) ).
  Proof.
    intros [Ht Ho] Hs. unfold Machine.tstep in Hs.
    destruct (nth_error (threads s) i) as [t|] eqn:Hi; [|discriminate].
    exists t. split; [reflexivity|]. destruct (Ht _ _ Hi) as [Hshape Hlock].
    unfold cur_prog in Hs. destruct (pcl t) as [|m rest] eqn:Hp.
    - (* between calls: the next call begins with Acq *)
      destruct (todo t) as [|c cs] eqn:Htodo; [discriminate|].
      rewrite prog_cs in Hs. unfold cs_prog in Hs.
      destruct (lock s) eqn:Hl; [discriminate|]. injection Hs as <-. left.
      repeat split; auto. cbn [lock threads].
      rewrite finish_nonempty by (destruct (body c); discriminate).
      eexists. split; [reflexivity|]. cbn [pcl]. exists (body c). reflexivity.
    - destruct Hshape as [Hn|Hc]; [discriminate|].
      assert (Hl : lock s = Some i) by (apply Hlock; discriminate).
      destruct (in_cs_cases _ Hc) as [E1|(f & rest' & E1 & Hc')].
      + injection E1 as -> ->. injection Hs as <-. right. right.
        repeat split; auto; try discriminate. cbn [lock threads]. eexists. split; [reflexivity|]. reflexivity.
      + injection E1 as -> ->. destruct (f (ls t) (obj s) (world s)) as [l' o'] eqn:Ef.
        injection Hs as <-. right. left. repeat split; auto; try discriminate. cbn [lock threads].
        rewrite finish_nonempty by (apply in_cs_nonempty; exact Hc').
        eexists. split; [reflexivity|]. exact Hc'.
  Qed.

  Theorem inv_tstep s i s' : Inv s -> tstep s i = Some s' -> Inv s'.
  Proof.
    intros HI Hs. destruct (tstep_cases s i s' HI Hs) as (t & Hi & Hcase). destruct HI as [Ht Ho].
    assert (Hothers : forall j tj, j <> i -> nth_error (threads s) j = Some tj ->
                       (lock s = None \/ lock s = Some i) -> pcl tj = []).
    { intros j tj Hji Hj Hl. destruct (Ht _ _ Hj) as [_ Hlk]. destruct (pcl tj) eqn:Ep; auto.
      exfalso. assert (lock s = Some j) by (apply Hlk; discriminate). destruct Hl; congruence. }
    destruct Hcase as [(Hp & Hl & Hl' & t' & Hth & Hc)|[(Hp & Hl & Hl' & t' & Hth & Hc)|(Hp & Hl & Hl' & t' & Hth & Hc)]].
    all: split.
    all: try (intros j tj Hj; rewrite Hth in Hj; destruct (Nat.eq_dec i j) as [<-|Hne];
              [ rewrite (nth_error_upd_same _ _ _ _ Hi) in Hj; injection Hj as <-
              | rewrite nth_error_upd_other in Hj by exact Hne ]).
    - split; [right; exact Hc|]. rewrite Hl'. split; auto. intros _. apply in_cs_nonempty. exact Hc.
    - rewrite (Hothers j tj (not_eq_sym Hne) Hj (or_introl Hl)). split; [left; reflexivity|].
      rewrite Hl'. split; [congruence|]. intros H. injection H as ->. congruence.
    - intros j Hj. rewrite Hl' in Hj. injection Hj as <-. rewrite Hth. eexists. eapply nth_error_upd_same. exact Hi.
    - split; [right; exact Hc|]. rewrite Hl'. split; auto. intros _. apply in_cs_nonempty. exact Hc.
    - rewrite (Hothers j tj (not_eq_sym Hne) Hj (or_intror Hl)). split; [left; reflexivity|].
      rewrite Hl'. split; [congruence|]. intros H. injection H as ->. congruence.
    - intros j Hj. rewrite Hl' in Hj. injection Hj as <-. rewrite Hth. eexists. eapply nth_error_upd_same. exact Hi.
    - split; [left; exact Hc|]. rewrite Hl', Hc. split; [congruence|discriminate].
    - rewrite (Hothers j tj (not_eq_sym Hne) Hj (or_intror Hl)). split; [left; reflexivity|].
      rewrite Hl'. split; [congruence|discriminate].
    - intros j Hj. rewrite Hl' in Hj. discriminate.
  Qed.

  Lemma inv_step s ch s' : Inv s -> step s ch = Some s' -> Inv s'.
  Proof.
    destruct ch as [i|e]; cbn [Machine.step].
    - apply inv_tstep.
    - intros [Ht Ho] H. injection H as <-. split; cbn [threads lock]; auto.
  Qed.

  Theorem inv_run sch : forall s, Inv s -> Inv (run s sch).
  Proof.
    induction sch as [|ch r IH]; intros s HI; cbn; auto.
    destruct (step s ch) eqn:Es; auto. apply IH. eapply inv_step; eauto.
  Qed.

  Lemma inv_init ls0 o w calls : Inv (init O W LS Call Res ls0 o w calls).
  Proof.
    split; cbn [threads lock Machine.init].
    - intros i t Hi. apply nth_error_In in Hi. apply in_map_iff in Hi. destruct Hi as (cs & <- & _).
      cbn [pcl]. split; [left; reflexivity|]. split; [congruence|discriminate].
    - discriminate.
  Qed.

  (* only the lock owner moves while the lock is held: threads never overlap inside calls *)
  Theorem step_owner s i s' j : Inv s -> tstep s i = Some s' -> lock s = Some j -> i = j.
  Proof.
    intros HI Hs Hl. destruct (tstep_cases s i s' HI Hs) as (t & Hi & [(_ & Hn & _)|[(_ & Hn & _)|(_ & Hn & _)]]); congruence.
  Qed.

  (* no deadlock *)
  Theorem no_deadlock s : Inv s -> all_done s = false -> exists i, tstep s i <> None.
  Proof.
    intros [Ht Ho] Hnd. destruct (lock s) as [j|] eqn:Hl.
    - destruct (Ho j eq_refl) as (t & Hj). exists j. destruct (Ht _ _ Hj) as [Hshape Hlk].
      assert (Hp : pcl t <> []) by (apply Hlk; reflexivity).
      destruct Hshape as [Hn|Hc]; [congruence|].
      unfold Machine.tstep. rewrite Hj. unfold cur_prog.
      destruct (in_cs_cases _ Hc) as [->|(f & rest & -> & _)]; [discriminate|].
      destruct (f (ls t) (obj s) (world s)). discriminate.
    - unfold Machine.all_done in Hnd.
      assert (exists i t, nth_error (threads s) i = Some t /\ tdone O W LS Call Res t = false) as (i & t & Hi & Hd).
      { clear -Hnd. induction (threads s) as [|x r IH]; cbn in Hnd; [discriminate|].
        destruct (tdone O W LS Call Res x) eqn:Ex.
        - destruct (IH Hnd) as (i & t & H1 & H2). exists (S i), t. auto.
        - exists 0, x. auto. }
      exists i. destruct (Ht _ _ Hi) as [_ Hlk].
      assert (Hp : pcl t = []).
      { destruct (pcl t) eqn:Ep; auto. exfalso. assert (X : @None nat = Some i) by (apply Hlk; discriminate). discriminate. }
      unfold Machine.tstep. rewrite Hi. unfold cur_prog. rewrite Hp.
      unfold tdone in Hd. rewrite Hp in Hd. destruct (todo t) as [|c cs]; [discriminate|].
      rewrite prog_cs. unfold cs_prog. rewrite Hl. discriminate.
  Qed.

  (* the lock is released on every exit path: whenever no thread is inside a call -- whatever the calls
     returned, an exception code included -- the lock is free *)
  Theorem lock_free_between_calls s : Inv s -> (forall t, In t (threads s) -> pcl t = []) -> lock s = None.
  Proof.
    intros [Ht Ho] Hidle. destruct (lock s) as [i|] eqn:Hl; [|reflexivity]. exfalso.
    destruct (Ho i eq_refl) as (t & Hi). destruct (Ht _ _ Hi) as [_ Hlk].
    assert (Hp : pcl t <> []) by (apply Hlk; reflexivity).
    apply Hp. apply Hidle. eapply nth_error_In; eauto.
  Qed.

  Corollary lock_free_when_done s : Inv s -> all_done s = true -> lock s = None.
  Proof.
    intros HI Hd. apply lock_free_between_calls; auto. intros t Hin.
    unfold Machine.all_done in Hd. rewrite forallb_forall in Hd. specialize (Hd t Hin).
    unfold tdone in Hd. destruct (pcl t); [reflexivity|discriminate].
  Qed.
End MP.

(* A proof-outline rule for programs that are NOT one critical section (YamlTargetSource.get_data):
   an object invariant P and an assertion Qp on (local state, remaining program) that every micro-step
   re-establishes hold in every reachable state of every interleaving; every returned result satisfies Rr. *)
Section Outline.
  Variables (O W LS Call Res E : Type).
  Variable begin : Call -> LS.
  Variable prog : Call -> list (mstep O W LS).
  Variable ret : LS -> Res.
  Variable env : E -> W -> W.
  Notation mst := (mst O W LS Call Res).
  Notation tstep := (tstep O W LS Call Res begin prog ret).
  Notation step := (step O W LS Call Res E begin prog ret env).
  Notation run := (run O W LS Call Res E begin prog ret env).

  Variable P : O -> Prop.
  Variable Wi : W -> Prop.            (* what is known about every world state of the run *)
  Variable Qp : LS -> list (mstep O W LS) -> Prop.
  Variable Rr : Res -> Prop.
  Variable Cok : Call -> Prop.        (* what is known about every call that is issued *)
  Hypothesis q_begin : forall c, Cok c -> Qp (begin c) (prog c).
  Hypothesis q_acq : forall l rest, Qp l (Acq :: rest) -> Qp l rest.
  Hypothesis q_rel : forall l rest, Qp l (Rel :: rest) -> Qp l rest.
  Hypothesis q_step : forall f l rest o w l' o', P o -> Wi w -> Qp l (Step f :: rest) -> f l o w = (l', o') -> P o' /\ Qp l' rest.
  Hypothesis q_end : forall l, Qp l [] -> Rr (ret l).

  Record OInv (s : mst) : Prop := {
    o_obj : P (obj s);
    o_thr : forall t, In t (threads s) ->
            (pcl t <> [] -> Qp (ls t) (pcl t)) /\ Forall Rr (res t) /\ Forall Cok (todo t)
  }.

  Lemma in_upd {A} (l : list A) i a x : In x (upd i a l) -> x = a \/ In x l.
  Proof.
    revert i. induction l as [|y r IH]; intros [|i] H; cbn in *; auto.
    - destruct H; auto.
    - destruct H as [H|H]; auto. destruct (IH _ H); auto.
  Qed.

  Lemma finish_ok (t : thread O W LS Call Res) l rest :
    Qp l rest -> Forall Rr (res t) -> Forall Cok (todo t) ->
    let t' := finish O W LS Call Res ret t l rest in
    (pcl t' <> [] -> Qp (ls t') (pcl t')) /\ Forall Rr (res t') /\ Forall Cok (todo t').
  Proof.
    intros Hq Hr Hc. destruct rest as [|m rest]; cbn.
    - split; [congruence|]. split; [apply Forall_app; split; auto|].
      destruct (todo t); cbn; auto. inversion Hc; auto.
    - split; auto.
  Qed.

  Theorem oinv_tstep s i s' : OInv s -> Wi (world s) -> tstep s i = Some s' -> OInv s'.
  Proof.
    intros [Ho Ht] Hw Hs. unfold Machine.tstep in Hs.
    destruct (nth_error (threads s) i) as [t|] eqn:Hi; [|discriminate].
    pose proof (Ht t (nth_error_In _ _ Hi)) as (Hq & Hr & Hck).
    assert (Hcur : forall l p, cur_prog O W LS Call Res begin prog t = Some (l, p) -> Qp l p).
    { unfold cur_prog. intros l p. destruct (pcl t) eqn:Ep.
      - destruct (todo t); [discriminate|]. intros H. injection H as <- <-. apply q_begin. inversion Hck; auto.
      - intros H. injection H as <- <-. apply Hq. discriminate. }
    destruct (cur_prog O W LS Call Res begin prog t) as [[l [|m rest]]|] eqn:Ec; [| |discriminate].
    - injection Hs as <-. split; cbn [obj threads]; auto.
      intros t' Hin. apply in_upd in Hin. destruct Hin as [->|Hin]; auto.
      apply (finish_ok t l []); auto.
    - specialize (Hcur _ _ eq_refl). destruct m as [| |f].
      + destruct (lock s); [discriminate|]. injection Hs as <-. split; cbn [obj threads]; auto.
        intros t' Hin. apply in_upd in Hin. destruct Hin as [->|Hin]; auto. apply finish_ok; auto.
      + injection Hs as <-. split; cbn [obj threads]; auto.
        intros t' Hin. apply in_upd in Hin. destruct Hin as [->|Hin]; auto. apply finish_ok; auto.
      + destruct (f l (obj s) (world s)) as [l' o'] eqn:Ef. injection Hs as <-.
        destruct (q_step _ _ _ _ _ _ _ Ho Hw Hcur Ef) as [Ho' Hq'].
        split; cbn [obj threads]; auto.
        intros t' Hin. apply in_upd in Hin. destruct Hin as [->|Hin]; auto. apply finish_ok; auto.
  Qed.

  (* every world state along the schedule satisfies Wi *)
  Definition worlds_ok (s : mst) (sch : list (choice E)) : Prop :=
    forall p q, sch = p ++ q -> Wi (world (run s p)).

  Theorem oinv_run sch : forall s, OInv s -> worlds_ok s sch -> OInv (run s sch).
  Proof.
    induction sch as [|ch r IH]; intros s HI Hw; cbn; auto.
    assert (Hw0 : Wi (world s)) by (apply (Hw [] (ch :: r)); reflexivity).
    destruct (step s ch) as [s'|] eqn:Es.
    - apply IH.
      + destruct ch as [i|e]; cbn [Machine.step] in Es.
        * eapply oinv_tstep; eauto.
        * injection Es as <-. destruct HI as [Ho Ht]. split; cbn [obj threads]; auto.
      + intros p q Er. specialize (Hw (ch :: p) q). cbn in Hw. rewrite Es in Hw. apply Hw. now rewrite Er.
    - apply IH; auto.
      intros p q Er. specialize (Hw (ch :: p) q). cbn in Hw. rewrite Es in Hw. apply Hw. now rewrite Er.
  Qed.

  Lemma oinv_init ls0 o w calls : P o -> Forall (Forall Cok) calls -> OInv (init O W LS Call Res ls0 o w calls).
  Proof.
    intros Ho Hc. split; cbn [obj threads Machine.init]; auto.
    intros t Hin. apply in_map_iff in Hin. destruct Hin as (cs & <- & Hcs). cbn.
    split; [congruence|]. split; [constructor|]. rewrite Forall_forall in Hc. auto.
  Qed.

  (* thread steps do not touch the world: it is the fold of the environment events so far *)
  Lemma tstep_world s i s' : tstep s i = Some s' -> world s' = world s.
  Proof.
    unfold Machine.tstep. destruct (nth_error (threads s) i) as [t|]; [|discriminate].
    destruct (cur_prog O W LS Call Res begin prog t) as [[l [|m rest]]|]; [| |discriminate].
    - intros H. injection H as <-. reflexivity.
    - destruct m as [| |f].
      + destruct (lock s); [discriminate|]. intros H. injection H as <-. reflexivity.
      + intros H. injection H as <-. reflexivity.
      + destruct (f l (obj s) (world s)). intros H. injection H as <-. reflexivity.
  Qed.

  Definition envs_in (sch : list (choice E)) : list E :=
    flat_map (fun ch => match ch with Ev e => [e] | T _ => [] end) sch.

  Lemma world_run sch : forall s, world (run s sch) = fold_left (fun w e => env e w) (envs_in sch) (world s).
  Proof.
    induction sch as [|ch r IH]; intros s; cbn; auto.
    destruct ch as [i|e]; cbn [Machine.step].
    - destruct (tstep s i) as [s'|] eqn:Es; cbn; rewrite IH; [rewrite (tstep_world _ _ _ Es)|]; reflexivity.
    - cbn. rewrite IH. reflexivity.
  Qed.
End Outline.
