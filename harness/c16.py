"""C16 - address normalisation transforms are canonical, idempotent and total."""
import ipaddress
import itertools
import socket

import common
from common import Check, sx

from vinegar.transform import ip_address as T_ip
from vinegar.transform import ipv4_address as T_v4
from vinegar.transform import ipv6_address as T_v6
from vinegar.transform import mac_address as T_mac

FAM = {"v4": 0, "v6": 1, "mac": 2, "ip": 3}
FN = {"normalize": 0, "strip_mask": 1, "net_address": 2, "broadcast_address": 3}
MODS = {"v4": T_v4, "v6": T_v6, "mac": T_mac, "ip": T_ip}
FNS = {"v4": ["normalize", "strip_mask", "net_address", "broadcast_address"],
       "v6": ["normalize", "strip_mask", "net_address"],
       "ip": ["normalize", "strip_mask", "net_address"],
       "mac": ["normalize"]}


# ----------------------------------------------------------------------------- oracles (libc, called directly)
def pton6(s):
    try:
        return (0, socket.inet_pton(socket.AF_INET6, s))
    except OSError:
        return (1, b"")
    except ValueError:
        return (2, b"")


def ntop6(b):
    return socket.inet_ntop(socket.AF_INET6, b)


def mask_candidates(strings):
    out = set()
    for s in strings:
        if "/" in s:
            t = s.split("/", 1)[1]
            try:
                v = int(t)
            except ValueError:
                continue
            if 0 <= v <= 128:
                out.add(v)
    return out


_TAB_CACHE = {}


def S(s):
    """a str for the driver: itself (-> #hex) when Latin-1, otherwise the list of its code points"""
    try:
        s.encode("latin-1")
        return s
    except UnicodeEncodeError:
        return [ord(ch) for ch in s]


def tables(strings):
    """inet_pton / inet_ntop tables for every argument the model can ask for on these inputs
    (closed under ntop and under masking with the masks that occur)"""
    key = tuple(sorted(set(strings)))
    if key in _TAB_CACHE:
        return _TAB_CACHE[key]
    pt, nt = {}, {}
    masks = mask_candidates(strings)
    work = list(key)
    while work:
        x = work.pop()
        for y in (x, x.split("/", 1)[0]):
            if y in pt:
                continue
            pt[y] = pton6(y)
            if pt[y][0] == 0:
                b = pt[y][1]
                cands = [b]
                v = int.from_bytes(b, "big")
                for m in masks:
                    cands.append((((v >> (128 - m)) << (128 - m)) if m else 0).to_bytes(16, "big"))
                for bb in cands:
                    if bb not in nt:
                        nt[bb] = ntop6(bb)
                        work.append(nt[bb])
    res = ([[S(k), v[0], v[1]] for k, v in sorted(pt.items())], [[k, v] for k, v in sorted(nt.items())])
    if len(_TAB_CACHE) > 20000:
        _TAB_CACHE.clear()
    _TAB_CACHE[key] = res
    return res


# ----------------------------------------------------------------------------- text variants
def v4_text(bs, zeros=(0, 0, 0, 0)):
    return ".".join("0" * z + str(b) for b, z in zip(bs, zeros))


def v4_variants(bs, rng, n=4):
    out = [v4_text(bs), v4_text(bs, (1, 0, 2, 0)), v4_text(bs, (0, 3, 0, 1))]
    for _ in range(n):
        out.append(v4_text(bs, [rng.choice([0, 0, 1, 2, 5]) for _ in range(4)]))
    return out


def v6_groups(b):
    return [int.from_bytes(b[i:i + 2], "big") for i in range(0, 16, 2)]


def v6_variants(b, rng=None, limit=None):
    """textual forms of the 16 bytes: full, padded, upper case, every legal '::' placement,
    embedded dotted IPv4 tail"""
    g = v6_groups(b)
    out = []

    def forms(groups, tail):
        # groups: list of ints printed in hex; tail: None or dotted quad standing for the last 2 groups
        n = len(groups)
        for fmt in ("%x", "%04x", "%X", "%04X"):
            hx = [fmt % x for x in groups]
            full = hx + ([tail] if tail else [])
            yield ":".join(full)
            for i in range(n):
                for j in range(i + 1, n + 1):
                    if all(x == 0 for x in groups[i:j]):
                        left, right = hx[:i], hx[j:] + ([tail] if tail else [])
                        yield ":".join(left) + "::" + ":".join(right)
    out.extend(forms(g, None))
    tail = ".".join(str(x) for x in b[12:])
    out.extend(forms(g[:6], tail))
    # dedupe keeping order
    seen, res = set(), []
    for s in out:
        if s not in seen:
            seen.add(s)
            res.append(s)
    if limit and len(res) > limit and rng is not None:
        head = res[:4]
        res = head + rng.sample(res[4:], limit - 4)
    return res


def mac_variants(bs, rng, n=4):
    out = []
    for d in ":-":
        out.append(d.join("%02X" % b for b in bs))
        out.append(d.join("%02x" % b for b in bs))
        out.append(d.join("%x" % b for b in bs))
        out.append(d.join("%X" % b for b in bs))
    for _ in range(n):
        d = rng.choice(":-")
        parts = []
        for b in bs:
            t = rng.choice(["%02x", "%02X", "%x", "%X"]) % b
            t = "".join(rng.choice([ch.upper(), ch.lower()]) for ch in t)
            parts.append(t)
        out.append(d.join(parts))
    return out


MUT_ALPHA = list(" ./:-+_0a9fgG%\x00\n\t\xb2\xff1")


def mutate(s, rng):
    k = rng.randrange(7)
    i = rng.randrange(len(s) + 1)
    if k == 0 and s:
        i = min(i, len(s) - 1)
        return s[:i] + s[i + 1:]
    if k == 1:
        return s[:i] + rng.choice(MUT_ALPHA) + s[i:]
    if k == 2 and s:
        i = min(i, len(s) - 1)
        return s[:i] + rng.choice(MUT_ALPHA) + s[i + 1:]
    if k == 3 and s:
        i = min(i, len(s) - 1)
        return s[:i] + s[i] + s[i:]
    if k == 4:
        return s + rng.choice(["\n", " ", "/", "/33", "/129", "/+8", "/ 8", "/8 ", "/0_8", "/-0", "/", ".", ":", "%eth0"])
    if k == 5:
        return rng.choice([" ", "\n", "+", "0", ":", "::"]) + s
    return s.replace(rng.choice("./:-"), rng.choice(".:-/"), 1)


V4_BYTES = [0, 1, 9, 10, 99, 100, 127, 128, 199, 200, 249, 250, 254, 255]
V4_BAD_BYTES = [256, 260, 300, 999, 1000]
V4_MASK_TEXT = ["", "/0", "/1", "/7", "/8", "/9", "/15", "/16", "/17", "/23", "/24", "/25", "/30", "/31", "/32",
                "/032", "/008", "/00"]
V4_BAD_MASK_TEXT = ["/33", "/128", "/", "/+8", "/ 8", "/8 ", "/0_8", "/-0", "/8/8", "/1e1", "/0x8"]
V6_ADDRS = ["::", "::1", "1::", "ffff:ffff:ffff:ffff:ffff:ffff:ffff:ffff", "2001:db8::1", "2001:db8:0:0:1::1",
            "fe80::1:0:0:1", "::ffff:1.2.3.4", "::ffff:255.255.255.255", "::ffff:0.0.0.0", "::1.2.3.4", "::0.0.3.4",
            "0:0:0:0:0:fffe:102:304", "0:0:0:0:1:ffff:102:304", "1:2:3:4:5:6:7:8", "1:0:0:2:0:0:0:3", "0:1:0:1:0:1:0:1",
            "8000::", "::8000:0:0:0", "7fff:ffff:ffff:ffff:8000::",
            # look like IPv4-mapped in part only: marker in the fifth group, non-zero first 80 bits, doubled marker
            "::ffff:0:102:304", "0:0:0:0:ffff::1", "::ffff:0:0:1", "::ffff:ffff:102:304", "2001:db8::ffff:102:304",
            "::1:0:ffff:102:304", "ffff::102:304", "::fffe:102:304"]
V6_MASK_TEXT = ["", "/0", "/1", "/7", "/8", "/9", "/63", "/64", "/65", "/96", "/120", "/127", "/128", "/064", "/0128", "/00"]
V6_BAD_MASK_TEXT = ["/129", "/256", "/", "/+64", "/ 64", "/64 ", "/6_4", "/-0", "/-1", "/64/64", "/0x40", "/\xb2"]
MAC_BYTES = [0, 1, 9, 10, 15, 16, 17, 0x7f, 0x80, 0x9a, 0xa9, 0xaf, 0xfa, 0xff]
MAC_OPTS = [("upper", ":"), ("lower", ":"), ("upper", "-"), ("lower", "minus"), ("upper", "colon"), ("lower", "dash")]
MAC_BAD_OPTS = [("UPPER", ":"), ("upper", "."), ("", ":"), ("lower", "")]
NON_LATIN1 = ["\ud800", "1.2.3.٤", "１.2.3.4", "::1/６４", "::１", "1.2.3.4/٨",
              "00:00:00:00:00:００", "ⅰ::1", "1.2.3.4 ", "a\x00Ā"]


def rc(kind, name="ValueError"):
    return (1, name)


# decimal digits of other scripts (str.isdigit / int() / \\d accept them; [0-9] and inet_pton do not), and
# characters that isdigit accepts but int() rejects
UDIGIT_ZERO = {"arabic-indic": 0x0660, "ext-arabic-indic": 0x06F0, "devanagari": 0x0966, "bengali": 0x09E6,
               "thai": 0x0E50, "fullwidth": 0xFF10, "math-bold": 0x1D7CE}
SUPERSCRIPT = "\u2070\u00b9\u00b2\u00b3\u2074\u2075\u2076\u2077\u2078\u2079"
CIRCLED = "\u24ea\u2460\u2461\u2462\u2463\u2464\u2465\u2466\u2467\u2468"
SCRIPTS = list(UDIGIT_ZERO) + ["superscript", "circled"]


def udigit(script, d):
    if script == "superscript":
        return SUPERSCRIPT[d]
    if script == "circled":
        return CIRCLED[d]
    return chr(UDIGIT_ZERO[script] + d)


def udigit_variants(text):
    """ONE ASCII digit, or ONE whole run of digits (octet, mask, digits of a hex group), in another script"""
    import re
    out = []
    for script in SCRIPTS:
        for m in re.finditer("[0-9]+", text):
            a, b = m.start(), m.end()
            out.append(text[:a] + "".join(udigit(script, int(ch)) for ch in text[a:b]) + text[b:])
            if b - a > 1:
                out.append(text[:a] + udigit(script, int(text[a])) + text[a + 1:])
    seen, res = set(), []
    for x in out:
        if x not in seen:
            seen.add(x)
            res.append(x)
    return res


# routes to a transform: direct call, apply_transformation, and transformation chains built from every
# configuration form (vinegar.transform.get_transformation_chain / apply_transformation_chain): str entry, dict with
# a bare scalar (True/False, 1/0, "x"/"", None), list, tuple, dict of keyword arguments, non-dict Mapping
ROUTES = ["apply", "chain_scalar_bool", "chain_list", "chain_dict", "chain_scalar_int", "chain_scalar_str", "chain_tuple",
          "chain_mapping", "apply_chain", "chain_str", "chain_none", "chain_after_identity", "chain_smartdict",
          "ctx0", "ctx1", "ctx2", "ctx3", "ctx4", "ctx5", "ctx6", "ctx7"]
ROUTES_MAC = ["apply", "chain_list", "chain_dict", "chain_tuple", "chain_mapping", "apply_chain", "chain_scalar_case",
              "chain_after_identity", "chain_smartdict", "ctx0", "ctx3", "ctx4", "ctx6", "ctx7"]
NEEDS_NO_RAISE = ("chain_str", "chain_none")
_CTX_CACHE = {}
# neighbours in a multi-entry chain: entries BEFORE the one under test (each in a different configuration form,
# with its own flags) and entries AFTER it.  A neighbour is used for an input only if it is the identity on it
# (checked with the real code), so that the case remains the single transform of the model; what is exercised is that
# the configuration of one entry does not reach another (args / kwargs / flags per entry).
CTX = [
    ([{"ip_address.strip_mask": {"raise_error_if_malformed": True}}], []),
    ([{"ip_address.normalize": {"raise_error_if_malformed": True}}], []),
    ([{"ipv4_address.strip_mask": {"raise_error_if_malformed": True}}, "string.to_lower"], []),
    ([{"mac_address.normalize": {"target_case": "lower", "delimiter": "minus", "raise_error_if_malformed": False}}], []),
    ([{"string.add_suffix": {"suffix": ""}}], [{"string.add_prefix": {"prefix": ""}}]),
    ([{"ipv6_address.strip_mask": [True]}, {"ip_address.strip_mask": True}], ["string.to_lower"]),
    ([{"string.add_suffix": [""]}, {"ip_address.normalize": {"raise_error_if_malformed": True}}, "ip_address.strip_mask"],
     [{"ip_address.strip_mask": {"raise_error_if_malformed": True}}]),
    ([], [{"mac_address.normalize": {"raise_error_if_malformed": True, "target_case": "upper"}}, "string.to_upper"]),
]
MODNAME = {"v4": "ipv4_address", "v6": "ipv6_address", "mac": "mac_address", "ip": "ip_address"}


def route_callable(c):
    import types
    from vinegar import transform as TR
    from vinegar.utils.smart_dict import SmartLookupDict
    fam, fn, r, via = c["fam"], c["fn"], c["raise"], c.get("via", "direct")
    f = getattr(MODS[fam], fn)
    name = f"{MODNAME[fam]}.{fn}"
    mac = fam == "mac"
    kw = ({"target_case": c["mc"], "delimiter": c["md"], "raise_error_if_malformed": r} if mac
          else {"raise_error_if_malformed": r})
    pos = [c["mc"], c["md"], r] if mac else [r]
    direct = (lambda s: f(s, **kw)) if mac else (lambda s: f(s, r))
    if via == "direct":
        return direct
    if via.startswith("ctx"):
        before, after = CTX[int(via[3:])]
        default = (not r) and (not mac or (c["mc"] == "upper" and c["md"] == ":"))
        entry = name if default else {name: dict(kw)}          # bare name wherever the defaults are wanted

        key = (via, repr(entry))
        if key not in _CTX_CACHE:
            mk_chain = TR.get_transformation_chain
            _CTX_CACHE[key] = (mk_chain(before) if before else None, mk_chain(after) if after else None,
                               mk_chain(list(before) + [entry] + list(after)), mk_chain(list(before) + [entry]))
        ch_before, ch_after, ch_full, ch_notail = _CTX_CACHE[key]

        def identity(ch, x):
            if ch is None:
                return True
            try:
                return ch(x) == x
            except Exception:   # noqa: BLE001
                return False

        def in_context(s):
            if not identity(ch_before, s):
                return direct(s)
            try:
                mid = direct(s)
            except Exception:   # noqa: BLE001
                mid = None
            return (ch_full if (isinstance(mid, str) and identity(ch_after, mid)) else ch_notail)(s)
        return in_context
    if via == "apply":
        return (lambda s: TR.apply_transformation(name, s, **kw)) if mac else (lambda s: TR.apply_transformation(name, s, r))
    cfg = {"chain_scalar_bool": bool(r), "chain_scalar_int": 1 if r else 0, "chain_scalar_str": "yes" if r else "",
           "chain_list": list(pos), "chain_tuple": tuple(pos), "chain_dict": dict(kw),
           "chain_mapping": types.MappingProxyType(dict(kw)), "apply_chain": list(pos), "chain_none": None,
           "chain_smartdict": SmartLookupDict(kw),
           "chain_scalar_case": c["mc"], "chain_after_identity": dict(kw)}.get(via)
    if via == "chain_str":
        chain = [name]
    elif via == "chain_after_identity":
        chain = [{"string.add_suffix": ""}, {name: cfg}]
    else:
        chain = [{name: cfg}]
    if via == "apply_chain":
        return lambda s: TR.apply_transformation_chain(chain, s)
    return lambda s: TR.get_transformation_chain(chain)(s)


class C16(Check):
    ident = "C16"
    technique = "Coq proofs over hand-written recognisers/arithmetic + extracted-model correspondence with libc oracles"
    rule = ("case = (family, function, raise flag, [MAC options], s1, s2); observation = f(s1), f(s2), f(f(s1)); "
            "strings: every textual variant (leading zeros / case / delimiter / every '::' placement / embedded IPv4 / "
            "mask spellings) of boundary and random addresses, paired same-address and near-address, plus mutated "
            "malformed strings incl. NUL and non-ASCII; non-trivial = at least one of s1,s2 well-formed and s1 != s2; "
            "distinct by (family, function, raise, s1, s2)")
    assumptions = [
        "inet_pton(AF_INET6, s) = bytes b  =>  len(b) = 16, '/' not in s, ':' in s, inet_pton(inet_ntop(b)) = b "
        "(checked for every table entry of every case against libc)",
        "CPython int() refuses more than 4300 digits with ValueError (modelled)",
        "strings are sequences of arbitrary code points (non-Latin-1 text reaches the model as code-point lists)",
    ]

    def __init__(self):
        self._hist = {}

    # ---- case construction
    def mk(self, fam, fn, raise_, a, b, ref1=None, ref2=None, mc="upper", md=":", tag=""):
        k = f"{fam}/{fn}/{tag}"
        self._hist[k] = self._hist.get(k, 0) + 1
        # the route by which the function is reached: half of the cases directly, the others spread over
        # apply_transformation and every configuration form of a transformation chain
        self._n = getattr(self, "_n", 0) + 1
        routes = ROUTES_MAC if fam == "mac" else ROUTES
        via = "direct" if self._n % 2 else routes[(self._n // 2) % len(routes)]
        if via in NEEDS_NO_RAISE and raise_:
            via = "chain_list"
        if via in ("chain_scalar_case",) and (md != ":" or raise_):
            via = "chain_dict"
        k2 = f"via/{via}"
        self._hist[k2] = self._hist.get(k2, 0) + 1
        return {"fam": fam, "fn": fn, "raise": raise_, "s1": a, "s2": b, "ref1": ref1, "ref2": ref2,
                "mc": mc, "md": md, "via": via}

    # references built on the ipaddress module (address arithmetic / independent text parser)
    @staticmethod
    def ref_v4(fn, bs, addr_text, mask_text):
        a = ipaddress.IPv4Address(bytes(bs))
        m = int(mask_text[1:]) if mask_text else None
        if fn == "normalize":
            return (0, str(a) + (f"/{m}" if m is not None else ""))
        if fn == "strip_mask":
            return (0, addr_text)
        if m is None:
            return None
        itf = ipaddress.IPv4Interface((int(a), m))
        if fn == "net_address":
            return (0, str(itf.network))
        return (0, str(itf.network.broadcast_address))

    @staticmethod
    def ref_v6(fn, addr_text, mask_text, generic=False):
        a = ipaddress.IPv6Address(addr_text)       # independent parser of the textual variant
        m = int(mask_text[1:]) if mask_text else None
        if fn == "normalize":
            if generic and m is None and a.ipv4_mapped is not None:
                return (0, str(a.ipv4_mapped))
            return (0, ntop6(a.packed) + (f"/{m}" if m is not None else ""))
        if fn == "strip_mask":
            return (0, addr_text)
        if m is None:
            return None
        net = ipaddress.IPv6Interface((int(a), m)).network
        return (0, ntop6(net.network_address.packed) + f"/{m}")

    def gen(self, tier, rng):
        q = tier == "quick"
        # witnesses of the refuted variants (D11, D16) and friends run first
        for fam in ("v6", "ip"):
            for fn in FNS[fam]:
                for raise_ in (False, True):
                    for s in ("::1/+64", "::1/ 64", "::1/6_4", "::1/-0", "::1/64\n", "a\x00b", "::1\x00", "\x00",
                              "::ffff:1.2.3.4\x00", "1.2.3.4\x00", "", "/", "::/", "/64", "::ffff:1.2.3.4/120",
                              "::ffff:01.2.3.4", "::ffff:1.2.3.256", "1.2.3.4/8/8", "1:2:3:4:5:6:7:8:9", ":::", "1::2::3"):
                        yield self.mk(fam, fn, raise_, s, "::1/64", tag="witness")
        # strings outside Latin-1 (lone surrogate, non-ASCII digits and letters): through the model like any other case
        for st in NON_LATIN1:
            for fam in FNS:
                for fn in FNS[fam]:
                    for raise_ in (False, True):
                        yield self.mk(fam, fn, raise_, st, st, tag="non-latin1")
        # non-ASCII decimal digits in every numeric position: malformed for every module
        ub = {"v4": ["192.168.0.1/24", "10.0.0.255/8", "1.2.3.4"],
              "ip": ["192.168.0.1/24", "1.2.3.4", "2001:db8::1/64", "::ffff:1.2.3.4", "::ffff:1.2.3.4/120"],
              "v6": ["2001:db8::1/64", "::1/128", "::ffff:1.2.3.4/96", "1:2:3:4:5:6:7:8"],
              "mac": ["00:1A:2b:03:04:05", "0-1-2-3-4-5"]}
        for fam, bases in ub.items():
            for base in bases:
                vs = udigit_variants(base)
                if q:
                    vs = vs[::3] + [v for v in vs if "/" in base and v.split("/")[0] == base.split("/")[0]][::2]
                for v in vs:
                    for fn in FNS[fam]:
                        for raise_ in (False, True):
                            mal = (1, "ValueError") if raise_ else (0, v)
                            yield self.mk(fam, fn, raise_, v, base, ref1=mal, tag="unicode-digits")
        # after the slash: things that look like another notation (dotted netmasks, hex, octal-looking, floats, a
        # second slash or address, signs, blanks ...) after IPv4, IPv6 and mapped addresses; the model decides which
        # of them are CIDR (only all-ASCII-digit masks in range, leading zeros allowed) - everything else is malformed
        suffixes = ["255.255.255.0", "255.0.255.0", "0.0.0.255", "255.255.255.255", "0.0.0.0", "255.255.255", "0x18", "0X18",
                    "18h", "0b11000", "0o30", "24.0", "24.", ".24", "2.4e1", "24/24", "/24", "24/", "24 ", " 24", "\t24",
                    "24\n", "+24", "-24", "-0", "24,16", "192.168.77.255", "ffff:ff00::", "twenty-four", "24%", "*",
                    "024", "0024", "000", "032", "033", "0128", "0129", "00000000000000000000000000000000000000024"]
        for fam, bases in (("v4", ["192.168.77.1", "010.1.2.3"]), ("v6", ["2001:db8::1", "::ffff:1.2.3.4"]),
                           ("ip", ["192.168.77.1", "2001:db8::1", "::ffff:1.2.3.4"])):
            for base in bases:
                for suf in (suffixes if not q else suffixes[::2] + suffixes[-8:]):
                    for fn in FNS[fam]:
                        yield self.mk(fam, fn, rng.random() < 0.3, base + "/" + suf, base + "/24", tag="other-notation")
        # legal inputs at natural limits: many leading zeros (int() stops at 4300 digits), longest forms
        for nz in (254, 255, 256, 1000, 4096):
            z = "0" * nz
            for fn in FNS["v4"]:
                yield self.mk("v4", fn, False, f"{z}1.{z}2.{z}3.{z}4/{z}8", "1.2.3.4/8", tag="limits")
            for fn in FNS["v6"]:
                yield self.mk("v6", fn, False, f"2001:db8::1/{z}64", "2001:db8::1/64", tag="limits")
                yield self.mk("ip", fn, False, f"2001:db8::1/{z}64", f"{z}1.2.3.4/{z}8", tag="limits")
        for st in ("ffff:ffff:ffff:ffff:ffff:ffff:255.255.255.255/128", "FFFF:FFFF:FFFF:FFFF:FFFF:FFFF:FFFF:FFFF/128",
                   "0000:0000:0000:0000:0000:ffff:192.168.77.129", "0000:0000:0000:0000:0000:FFFF:C0A8:4D81/128",
                   "255.255.255.255/32", "000.000.000.000/00"):
            for fam in ("v6", "ip", "v4"):
                for fn in FNS[fam]:
                    yield self.mk(fam, fn, False, st, st.lower(), tag="limits")
        # histories: the SAME string through every function, repeatedly and in several orders, within one
        # process (the transforms are pure: module-level state such as a parse cache must not show)
        hist_strings = {"v4": ["192.168.77.129/20", "10.1.2.3/9", "010.001.002.003/09", "172.16.5.6", "1.2.3.4/33"],
                        "ip": ["192.168.77.129/20", "::ffff:1.2.3.4", "2001:db8:85a3::8a2e:370:7334/61", "2001:db8::1"],
                        "v6": ["2001:db8:85a3::8a2e:370:7334/61", "::1/127", "ffff::ffff/9"],
                        "mac": ["0:1a:2B:3:4:5", "AA-BB-CC-DD-EE-FF"]}
        for fam, strs in hist_strings.items():
            orders = list(itertools.permutations(FNS[fam]))
            if len(orders) > 6:
                orders = [orders[0], orders[-1]] + rng.sample(orders[1:-1], 4 if q else 12)
            for st in strs:
                for order in orders:
                    for fn in list(order) + list(order):
                        yield self.mk(fam, fn, False, st, st, tag="history")
        # ================= IPv4 (and the generic module on IPv4 text) =================
        addrs = [[0, 0, 0, 0], [255, 255, 255, 255], [192, 168, 0, 1], [10, 0, 0, 255], [127, 128, 199, 200],
                 [1, 9, 10, 99], [100, 249, 250, 254], [128, 0, 0, 0], [0, 0, 0, 1], [172, 16, 254, 3]]
        addrs += [[rng.choice(V4_BYTES + [rng.randrange(256)]) for _ in range(4)] for _ in range(6 if q else 60)]
        for fam in ("v4", "ip"):
            fns = FNS[fam]
            # every prefix length for net/broadcast
            for bs in addrs[:8 if q else len(addrs)]:
                for m in range(0, 34):
                    for fn in fns[2:]:
                        t = v4_text(bs)
                        mt = f"/{m}"
                        ok = m <= 32
                        r1 = self.ref_v4(fn, bs, t, mt) if ok else None
                        nb = list(bs)
                        nb[rng.randrange(4)] ^= 1 << rng.randrange(8)
                        yield self.mk(fam, fn, False, t + mt, v4_text(nb, (1, 0, 0, 2)) + mt, r1,
                                      self.ref_v4(fn, nb, "", mt) if ok else None, tag="allmasks")
            for bs in addrs:
                vs = v4_variants(bs, rng, 2 if q else 6)
                for fn in fns:
                    for raise_ in (False, True):
                        masks = rng.sample(V4_MASK_TEXT, 3 if q else 8)
                        for mt in masks:
                            a, b = rng.sample(vs, 2)
                            mt2 = rng.choice([mt, mt, "/0" + mt[1:] if mt else mt, rng.choice(V4_MASK_TEXT)])
                            yield self.mk(fam, fn, raise_, a + mt, b + mt2, self.ref_v4(fn, bs, a, mt),
                                          self.ref_v4(fn, bs, b, mt2), tag="same-addr")
                            nb = list(bs)
                            nb[rng.randrange(4)] = rng.choice(V4_BYTES)
                            c = rng.choice(v4_variants(nb, rng, 1))
                            yield self.mk(fam, fn, raise_, a + mt, c + mt, self.ref_v4(fn, bs, a, mt),
                                          self.ref_v4(fn, nb, c, mt), tag="near-addr")
                        # malformed: byte out of range, bad mask, mutations
                        bb = list(bs)
                        bb[rng.randrange(4)] = rng.choice(V4_BAD_BYTES)
                        mal = (0, None)
                        bad = v4_text(bb) + rng.choice(V4_MASK_TEXT)
                        yield self.mk(fam, fn, raise_, bad, vs[0], tag="bad-byte")
                        bad = vs[1] + rng.choice(V4_BAD_MASK_TEXT)
                        yield self.mk(fam, fn, raise_, bad, vs[0] + "/24", tag="bad-mask")
                        for _ in range(2 if q else 10):
                            base = rng.choice(vs) + rng.choice(V4_MASK_TEXT)
                            mu = mutate(base, rng)
                            if rng.random() < 0.3:
                                mu = mutate(mu, rng)
                            yield self.mk(fam, fn, raise_, mu, base, tag="mutated")
        # digit-limit of int(): well-formed by the regular expression, refused by int()
        for fam in ("v4", "ip"):
            for fn in FNS[fam]:
                for n in (4297, 4299, 4300, 4301):
                    yield self.mk(fam, fn, False, "0" * (n - 1) + "1.2.3.4/8", "1.2.3.4/" + "0" * (n - 1) + "8", tag="digit-limit")
        # ================= IPv6 (and the generic module on IPv6 text) =================
        v6 = [socket.inet_pton(socket.AF_INET6, a) for a in V6_ADDRS]
        v6 += [bytes(rng.choice([0, 0, 0, 1, 0xff, rng.randrange(256)]) for _ in range(16)) for _ in range(4 if q else 40)]
        v6 += [b"\x00" * 10 + b"\xff\xff" + bytes(rng.randrange(256) for _ in range(4)) for _ in range(2 if q else 10)]
        for fam in ("v6", "ip"):
            fns = FNS[fam]
            gen = fam == "ip"
            # every prefix length
            for b in v6[:6 if q else 20]:
                t = ntop6(b)
                for m in range(0, 130):
                    mt = f"/{m}"
                    ok = m <= 128
                    nb = bytearray(b)
                    bit = min(127, m)
                    nb[bit // 8] ^= 0x80 >> (bit % 8)
                    t2 = rng.choice(v6_variants(bytes(nb), rng, 8))
                    yield self.mk(fam, "net_address", False, t + mt, t2 + mt,
                                  self.ref_v6("net_address", t, mt, gen) if ok else None,
                                  self.ref_v6("net_address", t2, mt, gen) if ok else None, tag="allmasks")
            for b in v6:
                vs = v6_variants(b, rng, 10 if q else 40)
                for fn in fns:
                    for raise_ in (False, True):
                        # canonical: all variants against the first
                        for k, a in enumerate(vs if raise_ is False and fn == "normalize" else vs[:3]):
                            mt = rng.choice(V6_MASK_TEXT)
                            a2 = vs[(k + 1) % len(vs)]
                            yield self.mk(fam, fn, raise_, a + mt, a2 + mt, self.ref_v6(fn, a, mt, gen),
                                          self.ref_v6(fn, a2, mt, gen), tag="same-addr")
                        for mt in rng.sample(V6_MASK_TEXT, 2 if q else 6):
                            a = rng.choice(vs)
                            nb = bytearray(b)
                            nb[rng.randrange(16)] ^= 1 << rng.randrange(8)
                            c = rng.choice(v6_variants(bytes(nb), rng, 6))
                            mt2 = rng.choice([mt, mt, rng.choice(V6_MASK_TEXT)])
                            yield self.mk(fam, fn, raise_, a + mt, c + mt2, self.ref_v6(fn, a, mt, gen),
                                          self.ref_v6(fn, c, mt2, gen), tag="near-addr")
                        a = rng.choice(vs)
                        yield self.mk(fam, fn, raise_, a + rng.choice(V6_BAD_MASK_TEXT), a + "/64", tag="bad-mask")
                        yield self.mk(fam, fn, raise_, a + "%eth0", a + "%1/64", tag="scoped")
                        for _ in range(2 if q else 10):
                            base = rng.choice(vs) + rng.choice(V6_MASK_TEXT)
                            mu = mutate(base, rng)
                            if rng.random() < 0.3:
                                mu = mutate(mu, rng)
                            yield self.mk(fam, fn, raise_, mu, base, tag="mutated")
        # generic module: mapped forms against their IPv4 address
        for _ in range(30 if q else 300):
            bs = [rng.choice(V4_BYTES + [rng.randrange(256)]) for _ in range(4)]
            b = b"\x00" * 10 + b"\xff\xff" + bytes(bs)
            vs = v6_variants(b, rng, 12)
            a = rng.choice(vs)
            for raise_ in (False, True):
                yield self.mk("ip", "normalize", raise_, a, v4_text(bs, (0, 1, 0, 2)), self.ref_v6("normalize", a, "", True),
                              self.ref_v4("normalize", bs, "", ""), tag="mapped")
                a2 = rng.choice(vs)
                yield self.mk("ip", "normalize", raise_, a, a2 + "/128", self.ref_v6("normalize", a, "", True),
                              self.ref_v6("normalize", a2, "/128", True), tag="mapped")
        # ================= MAC =================
        macs = [[0] * 6, [255] * 6, [0, 1, 9, 10, 15, 16], [0xa9, 0x9a, 0xaf, 0xfa, 0x7f, 0x80], [2, 0, 0, 0, 0, 1]]
        macs += [[rng.choice(MAC_BYTES + [rng.randrange(256)]) for _ in range(6)] for _ in range(10 if q else 100)]
        for bs in macs:
            vs = mac_variants(bs, rng, 3 if q else 8)
            for (mc, md) in MAC_OPTS + MAC_BAD_OPTS:
                d = {":": ":", "colon": ":", "-": "-", "dash": "-", "minus": "-"}.get(md)
                okopt = d is not None and mc in ("upper", "lower")

                def ref(b_):
                    if not okopt:
                        return (1, "ValueError")
                    return (0, d.join(("%02X" if mc == "upper" else "%02x") % x for x in b_))
                for raise_ in (False, True):
                    for k in range(0, len(vs), 2):
                        a, b2 = vs[k], vs[(k + 3) % len(vs)]
                        yield self.mk("mac", "normalize", raise_, a, b2, ref(bs), ref(bs), mc, md, tag="same-addr")
                    nb = list(bs)
                    nb[rng.randrange(6)] = rng.choice(MAC_BYTES)
                    c = rng.choice(mac_variants(nb, rng, 1))
                    yield self.mk("mac", "normalize", raise_, vs[0], c, ref(bs), ref(nb), mc, md, tag="near-addr")
                    a = rng.choice(vs)
                    dl = ":" if ":" in a else "-"
                    other = "-" if dl == ":" else ":"
                    parts = a.split(dl)
                    k = rng.randrange(1, 6)      # one delimiter (any position) differs from the first
                    mixed = "".join(p + (other if i + 1 == k else dl) for i, p in enumerate(parts[:-1])) + parts[-1]
                    mixed_last = dl.join(parts[:-1]) + other + parts[-1]
                    bads = [mixed, mixed_last, other.join(parts[:1]) + other + dl.join(parts[1:]),
                            a + a[-1], ("0" if len(parts[0]) == 2 else "00") + a,
                            a[:-1] + "g", a + dl + "00", dl.join(parts[:5]),
                            ".".join(parts), "".join(parts), a + "\n", " " + a, dl.join(parts[:2] + [""] + parts[3:])]
                    for bad in (bads if not q else bads[:3] + rng.sample(bads[3:], 2)):
                        yield self.mk("mac", "normalize", raise_, bad, a, None, None, mc, md, tag="malformed")
                    for _ in range(1 if q else 6):
                        mu = mutate(a, rng)
                        yield self.mk("mac", "normalize", raise_, mu, a, None, None, mc, md, tag="mutated")

    # ---- implementation
    def fcall(self, c):
        return route_callable(c)

    @staticmethod
    def call(f, s):
        try:
            r = f(s)
        except Exception as e:   # noqa: BLE001 - the class is the observation
            return (1, "ValueError" if isinstance(e, ValueError) else type(e).__name__)
        if not isinstance(r, str):
            return (1, "not-a-str:" + type(r).__name__)
        return (0, r)

    def impl(self, c):
        f = self.fcall(c)
        a = self.call(f, c["s1"])
        b = self.call(f, c["s2"])
        aa = self.call(f, a[1]) if a[0] == 0 else a
        return [a, b, aa]

    @staticmethod
    def _ref(r):
        return [] if r is None else [[r[0], S(r[1]) if r[0] == 0 else r[1]]]

    def line(self, c, obs):
        strs = [c["s1"], c["s2"]]
        for o in obs:
            if o[0] == 0:
                strs.append(o[1])
        for r in (c["ref1"], c["ref2"]):
            if r is not None and r[0] == 0:
                strs.append(r[1])
        if c["fam"] in ("v6", "ip"):
            pt, nt = tables(strs)
        else:
            pt, nt = [], []
        return sx([FAM[c["fam"]], FN[c["fn"]], c["raise"], S(c["s1"]), S(c["s2"]), c["mc"], c["md"], pt, nt,
                   self._ref(c["ref1"]), self._ref(c["ref2"]), c.get("lenient", 0), c.get("ve_esc", 0),
                   [[o[0], S(o[1]) if o[0] == 0 else o[1]] for o in obs]])

    def canon(self, obs):
        def enc(t):
            try:
                return t.encode("latin-1")
            except UnicodeEncodeError:
                return [ord(ch) for ch in t]
        return [[o[0], enc(o[1])] for o in obs]

    def nontrivial(self, c, obs):
        if c["s1"] != c["s2"] and (obs[0][0] == 0 or obs[1][0] == 0) and \
                (obs[0] != (0, c["s1"]) or obs[1] != (0, c["s2"])):
            return (c["fam"], c["fn"], c["raise"], c["s1"], c["s2"], c["mc"], c["md"])
        return None

    def show(self, c):
        return {k: (v if not isinstance(v, str) else v.encode("unicode_escape").decode()) for k, v in c.items()}

    def shrink(self, c):
        if c["s2"] != c["s1"]:
            yield dict(c, s2=c["s1"], ref2=c["ref1"])
            yield dict(c, s1=c["s2"], ref1=c["ref2"])
        for key, rk in (("s1", "ref1"), ("s2", "ref2")):
            s = c[key]
            for i in range(len(s)):
                yield dict(c, **{key: s[:i] + s[i + 1:], rk: None})
            for i in range(len(s)):
                if s[i] not in "01:./-" and s[i].isalnum():
                    yield dict(c, **{key: s[:i] + "1" + s[i + 1:], rk: None})

    # ---- things outside the model's alphabet: code points >= 256 / lone surrogates (total clause only)
    def extra_checks(self, tier, rng, report):
        report["hist"] = dict(self._hist)
        n = 0
        # the oracle facts assumed by the theorems, on random and boundary addresses, directly against libc
        bad = 0
        for _ in range(2000 if tier == "quick" else 20000):
            b = bytes(rng.choice([0, 0, 0xff, rng.randrange(256)]) for _ in range(16))
            t = ntop6(b)
            if socket.inet_pton(socket.AF_INET6, t) != b or "/" in t or ":" not in t:
                bad += 1
                report["extra"]["oracle_roundtrip_failures"] = bad
        if bad:
            report.setdefault("extra_failing", []).append(
                ({"_extra": True, "what": "inet_pton(inet_ntop(b)) != b"}, ["oracle_roundtrip"], bad, 0))


if __name__ == "__main__":
    raise SystemExit(C16().main())
