(* C13: case/observation types, executable checker [holds], sx entry point. *)
From Coq Require Import String.
From Coq Require Import List NArith ZArith Bool Arith.
From VF Require Import Base.Sx PyVal.Val PyVal.Codec Merge.Merge.
Import ListNotations.

(* a constituent: a recording source with a fixed answer (or exception) - or a composite of constituents with its own
   merge flags (get_composite_data_source accepts data sources, and a composite is one) *)
Inductive src_desc :=
| SConst (g : res (dict * str)) (f : res (option str))
| SComp (ml ms : bool) (l : list src_desc).
(* one call pair (get_data, find_system) on a composite whose sources answer like this at that moment *)
Record cstep := { st_srcs : list src_desc; st_sys : str; st_pd : dict; st_pv : str; st_fk : str; st_fv : val }.
Definition ostep := (list call * res (dict * str) * list nat * res (option str))%type.

Inductive case :=
| CMerge (ml ms : bool) (a b : dict)
| CChain (ml ms : bool) (ht : list (str * str)) (srcs : list src_desc)
         (sys : str) (pd : dict) (pv : str) (fk : str) (fv : val)
| CAssoc (ml ms : bool) (a b c : dict)                          (* three trees, both groupings *)
| CHist (ml ms : bool) (ht : list (str * str)) (steps : list cstep)    (* ONE composite, sources change between calls *)
(* a composite built from (name, config) descriptions: creating constituent j raises [fexc] the first fails_j times it
   is attempted; the caller retries the construction up to [tries] times and then uses the composite *)
| CBuild (ml ms : bool) (ht : list (str * str)) (fails : list nat) (fexc : exc) (tries : nat) (steps : list cstep).

Inductive obs :=
| OMerge (r : res dict) (a' b' : dict)                         (* result, arguments afterwards *)
| OChain (glog : list call) (gres : res (dict * str))          (* get_data: calls seen by the sources, result *)
         (flog : list nat) (fres : res (option str))           (* find_system: who was asked, result or exception *)
| OAssoc (l r : res dict)                                       (* merge (merge a b) c, merge a (merge b c) *)
| OHist (os : list ostep)
| OBuild (cns : list (res unit)) (os : list ostep).             (* outcome of every construction attempt, then the calls *)

(* the hash as a table filled by the harness with the real _hash_str *)
Definition table_H (t : list (str * str)) (s : str) : str :=
  match find (fun p => str_eqb s (fst p)) t with Some p => snd p | None => 63%N :: s end.
Fixpoint mk_source (ht : list (str * str)) (d : src_desc) : source :=
  match d with
  | SConst g f => const_source g f
  | SComp ml ms l =>
      let ss := map (mk_source ht) l in
      {| get_data := fun sys pd pv => snd (comp_get (table_H ht) ml ms 0 ss sys pd pv);
         find_system := fun k v => snd (comp_find 0 ss k v) |}
  end.

(* get_composite_data_source creates the constituents in order; the first one that cannot be created makes the whole
   construction fail with its error - nothing is half built, later constituents are not attempted *)
Fixpoint construct_once (fails : list nat) : bool * list nat :=
  match fails with
  | [] => (true, [])
  | O :: r => let (ok, r') := construct_once r in (ok, O :: r')
  | S n :: r => (false, n :: r)
  end.
Fixpoint construct (fexc : exc) (tries : nat) (fails : list nat) : list (res unit) :=
  match tries with
  | O => []
  | S t => let (ok, f') := construct_once fails in
           if ok then [Ok tt] else Err fexc :: construct fexc t f'
  end.
Definition built (cs : list (res unit)) : bool := match last cs (Err TypeError) with Ok _ => true | Err _ => false end.
Definition hist_model (ml ms : bool) (ht : list (str * str)) (steps : list cstep) : list ostep :=
  map (fun st =>
         let ss := map (mk_source ht) (st_srcs st) in
         let (glog, gres) := comp_get (table_H ht) ml ms 0 ss (st_sys st) (st_pd st) (st_pv st) in
         let (flog, fres) := comp_find 0 ss (st_fk st) (st_fv st) in
         (glog, gres, flog, fres)) steps.

Definition run_model (c : case) : obs :=
  match c with
  | CMerge ml ms a b => OMerge (merge ml ms a b) a b
  | CChain ml ms ht srcs sys pd pv fk fv =>
      let ss := map (mk_source ht) srcs in
      let (glog, gres) := comp_get (table_H ht) ml ms 0 ss sys pd pv in
      let (flog, fres) := comp_find 0 ss fk fv in
      OChain glog gres flog fres
  | CAssoc ml ms a b c =>
      OAssoc (bind (merge ml ms a b) (fun m => merge ml ms m c)) (bind (merge ml ms b c) (fun m => merge ml ms a m))
  | CHist ml ms ht steps =>
      (* the composite keeps no state: every call is the call of a new composite over the sources as they answer now *)
      OHist (hist_model ml ms ht steps)
  | CBuild ml ms ht fails fexc tries steps =>
      let cs := construct fexc tries fails in
      OBuild cs (if built cs then hist_model ml ms ht steps else [])
  end.

(* ---------------------------------------------------------------- checker *)
Definition same_dict (a b : dict) : bool := same (VDict a) (VDict b).
Definition spec_keys (a b : dict) : list val := keys a ++ filter (fun k => negb (has k a)) (keys b).
Definition value_ok (ml ms : bool) (a b m : dict) (k : val) : bool :=
  match lookup k a, lookup k b with
  | Some x, Some y => match combine ml ms x y, lookup k m with Ok z, Some z' => same z z' | _, _ => false end
  | Some x, None => match lookup k m with Some z' => same x z' | None => false end
  | None, Some y => match lookup k m with Some z' => same y z' | None => false end
  | None, None => false
  end.
Definition clash_item (ml ms : bool) (b : dict) (kv : val * val) : bool :=
  match lookup (fst kv) b with
  | Some y => match combine ml ms (snd kv) y with Err _ => true | Ok _ => false end
  | None => false
  end.

Definition holds_merge (ml ms : bool) (a b : dict) (r : res dict) (a' b' : dict) : list string :=
  (match r with
   | Ok m =>
       (if list_eqb same (keys m) (spec_keys a b) then [] else ["key_order"%string]) ++
       (if forallb (value_ok ml ms a b m) (spec_keys a b) then [] else ["value_at_key"%string]) ++
       (if existsb (clash_item ml ms b) a then ["type_error_expected"%string] else [])
   | Err e =>
       (if existsb (clash_item ml ms b) a then [] else ["unexpected_error"%string]) ++
       (if exc_eqb e TypeError then [] else ["error_class"%string])
   end) ++
  (if same_dict a a' && same_dict b b' then [] else ["args_unchanged"%string]).

Definition call_eqb (c1 c2 : call) : bool :=
  match c1, c2 with
  | (i, s, d, v), (i', s', d', v') => (i =? i')%nat && str_eqb s s' && same_dict d d' && str_eqb v v'
  end.
Definition gres_eqb (r1 r2 : res (dict * str)) : bool :=
  match r1, r2 with
  | Ok (d, v), Ok (d', v') => same_dict d d' && str_eqb v v'
  | Err e, Err e' => exc_eqb e e'
  | _, _ => false
  end.
Definition ostr_eqb (a b : option str) : bool :=
  match a, b with Some x, Some y => str_eqb x y | None, None => true | _, _ => false end.
Definition fres_eqb (a b : res (option str)) : bool :=
  match a, b with Ok x, Ok y => ostr_eqb x y | Err e, Err e' => exc_eqb e e' | _, _ => false end.

Definition holds_chain ml ms ht (srcs : list src_desc) sys pd pv fk fv
           (glog : list call) (gres : res (dict * str)) (flog : list nat) (fres : res (option str)) : list string :=
  let ss := map (mk_source ht) srcs in
  let Hh := table_H ht in
  (if gres_eqb gres (chain_state Hh ml ms sys pd pv ss) then [] else ["get_data_is_fold"%string]) ++
  (if list_eqb call_eqb glog (flat_map (call_at Hh ml ms 0 sys pd pv ss) (seq 0 (length ss)))
   then [] else ["source_arguments"%string]) ++
  (let (sl, sr) := find_spec 0 ss fk fv in
   if list_eqb Nat.eqb flog sl && fres_eqb fres sr then [] else ["find_first_non_none"%string]).

(* "changes its version whenever a constituent's version changes": two calls of a history with the same preceding
   version and the same number of plain constituents, all answering, whose version lists differ, return different
   versions.  (For the model this is an instance of the hypothesis that the hash does not collide on the strings of the
   case, C13_composite_version_injective; it is checked per case, see validb.) *)
Definition step_versions (st : cstep) : option (list str) :=
  omap' (fun d => match d with SConst (Ok (_, v)) _ => Some v | _ => None end) (st_srcs st).
Definition ostep_version (o : ostep) : option str :=
  match o with (_, Ok (_, v), _, _) => Some v | _ => None end.
Definition version_pair_ok (a b : cstep * ostep) : bool :=
  match step_versions (fst a), step_versions (fst b), ostep_version (snd a), ostep_version (snd b) with
  | Some va, Some vb, Some ra, Some rb =>
      negb (str_eqb (st_pv (fst a)) (st_pv (fst b)) && (length va =? length vb)%nat && negb (list_eqb str_eqb va vb)) ||
      negb (str_eqb ra rb)
  | _, _, _, _ => true
  end.
Definition version_tracks (steps : list cstep) (os : list ostep) : bool :=
  let l := List.combine steps os in forallb (fun a => forallb (version_pair_ok a) l) l.

Fixpoint holds_hist ml ms ht (steps : list cstep) (os : list ostep) : list string :=
  match steps, os with
  | [], [] => []
  | st :: sr, (glog, gres, flog, fres) :: orest =>
      holds_chain ml ms ht (st_srcs st) (st_sys st) (st_pd st) (st_pv st) (st_fk st) (st_fv st) glog gres flog fres ++
      holds_hist ml ms ht sr orest
  | _, _ => ["observation_length"%string]
  end.

Definition res_same (r1 r2 : res dict) : bool :=
  match r1, r2 with
  | Ok a, Ok b => same (VDict a) (VDict b)
  | Err e, Err e' => exc_eqb e e'
  | _, _ => false
  end.
(* associativity including the exception: not a theorem of this development (see Props.v); the clause
   judges the implementation's two groupings against each other *)
Definition holds_assoc (l r : res dict) : list string :=
  if res_same l r then [] else ["merge_assoc"%string].

Definition holds (c : case) (o : obs) : list string :=
  match c, o with
  | CAssoc _ _ _ _ _, OAssoc l r => holds_assoc l r
  | CHist ml ms ht steps, OHist os =>
      holds_hist ml ms ht steps os ++
      (if version_tracks steps os then [] else ["version_changes_with_constituents"%string])
  | CBuild ml ms ht fails fexc tries steps, OBuild cns os =>
      (* every failed attempt raises the constituent's error, a composite exists only after an attempt without failure,
         and then every call is the fold over ALL configured sources *)
      (if list_eqb (fun a b => match a, b with Ok _, Ok _ => true | Err e, Err e' => exc_eqb e e' | _, _ => false end)
                   cns (construct fexc tries fails) then [] else ["construction"%string]) ++
      (if built cns then holds_hist ml ms ht steps os
       else match os with [] => [] | _ => ["used_without_construction"%string] end)
  | CMerge ml ms a b, OMerge r a' b' => holds_merge ml ms a b r a' b'
  | CChain ml ms ht srcs sys pd pv fk fv, OChain glog gres flog fres =>
      holds_chain ml ms ht srcs sys pd pv fk fv glog gres flog fres
  | _, _ => ["observation_kind"%string]
  end.

Definition valid (c : case) : Prop :=
  match c with
  | CMerge _ _ a b => wf (VDict a) = true /\ wf (VDict b) = true
  | CChain _ _ _ _ _ _ _ _ _ => True
  | CHist ml ms ht steps => version_tracks steps (hist_model ml ms ht steps) = true
  | CBuild _ _ _ _ _ _ _ => True
  | CAssoc ml ms a b c =>
      (* the triple is one on which the model's two groupings agree (checked, not proved, for every generated triple) *)
      res_same (bind (merge ml ms a b) (fun m => merge ml ms m c)) (bind (merge ml ms b c) (fun m => merge ml ms a m)) = true
  end.

(* the hypotheses of C13_holds as a boolean: everything in [valid] is decidable from the case *)
Definition validb (c : case) : bool :=
  match c with
  | CMerge _ _ a b => wf (VDict a) && wf (VDict b)
  | CChain _ _ _ _ _ _ _ _ _ => true
  | CHist ml ms ht steps => version_tracks steps (hist_model ml ms ht steps)
  | CBuild _ _ _ _ _ _ _ => true
  | CAssoc ml ms a b c =>
      res_same (bind (merge ml ms a b) (fun m => merge ml ms m c)) (bind (merge ml ms b c) (fun m => merge ml ms a m))
  end.

(* ---------------------------------------------------------------- sx *)
Definition sx_of_gres (r : res (dict * str)) : sx :=
  sx_of_res (fun dv => L [sx_of_dict (fst dv); B (snd dv)]) r.
Definition gres_of_sx : sx -> option (res (dict * str)) :=
  res_of_sx (fun p => match p with
                      | L [d; B v] => option_map (fun d' => (d', v)) (dict_of_sx d)
                      | _ => None
                      end).
Definition sx_of_ostr (o : option str) : sx := match o with Some s => L [B s] | None => L [] end.
Definition ostr_of_sx (x : sx) : option (option str) :=
  match x with L [B s] => Some (Some s) | L [] => Some None | _ => None end.
(* find_system answers: () None, (#s) an id, (code) the class of the exception raised *)
Definition sx_of_fres (r : res (option str)) : sx :=
  match r with Ok o => sx_of_ostr o | Err e => L [I (exc_code e)] end.
Definition fres_of_sx (x : sx) : option (res (option str)) :=
  match x with
  | L [I c] => Some (Err (exc_of_code c))
  | _ => option_map Ok (ostr_of_sx x)
  end.
Definition sx_of_call (c : call) : sx :=
  match c with (i, s, d, v) => L [sxNat i; B s; sx_of_dict d; B v] end.
Definition call_of_sx (x : sx) : option call :=
  match x with
  | L [i; B s; d; B v] =>
      match asNat i, dict_of_sx d with Some i', Some d' => Some (i', s, d', v) | _, _ => None end
  | _ => None
  end.

Definition sx_of_obs (o : obs) : sx :=
  match o with
  | OMerge r a' b' => L [sx_of_res sx_of_dict r; sx_of_dict a'; sx_of_dict b']
  | OChain glog gres flog fres =>
      L [L (map sx_of_call glog); sx_of_gres gres; L (map sxNat flog); sx_of_fres fres]
  | OAssoc l r => L [sx_of_res sx_of_dict l; sx_of_res sx_of_dict r]
  | OBuild cns os =>
      L [L (map (fun r => match r with Ok _ => I 0 | Err e => I (exc_code e) end) cns);
         L (map (fun o => match o with (glog, gres, flog, fres) =>
                    L [L (map sx_of_call glog); sx_of_gres gres; L (map sxNat flog); sx_of_fres fres] end) os)]
  | OHist os => L (map (fun o => match o with (glog, gres, flog, fres) =>
                         L [L (map sx_of_call glog); sx_of_gres gres; L (map sxNat flog); sx_of_fres fres] end) os)
  end.
Definition aobs_of_sx (x : sx) : option obs :=
  match x with
  | L [l; r] => match res_of_sx dict_of_sx l, res_of_sx dict_of_sx r with
                | Some l', Some r' => Some (OAssoc l' r')
                | _, _ => None
                end
  | _ => None
  end.
Definition obs_of_sx (merge_case : bool) (x : sx) : option obs :=
  if merge_case then
    match x with
    | L [r; a'; b'] =>
        match res_of_sx dict_of_sx r, dict_of_sx a', dict_of_sx b' with
        | Some r', Some a'', Some b'' => Some (OMerge r' a'' b'')
        | _, _, _ => None
        end
    | _ => None
    end
  else
    match x with
    | L [L glog; gres; flog; fres] =>
        match omap' call_of_sx glog, gres_of_sx gres, asListOf asNat flog, fres_of_sx fres with
        | Some g, Some r, Some f, Some fr => Some (OChain g r f fr)
        | _, _, _, _ => None
        end
    | _ => None
    end.
Definition ostep_of_sx (x : sx) : option ostep :=
  match x with
  | L [L glog; gres; flog; fres] =>
      match omap' call_of_sx glog, gres_of_sx gres, asListOf asNat flog, fres_of_sx fres with
      | Some g, Some r, Some f, Some fr => Some (g, r, f, fr)
      | _, _, _, _ => None
      end
  | _ => None
  end.

Fixpoint src_of_sx (x : sx) : option src_desc :=
  match x with
  | L [I 9%Z; ml; ms; L inner] =>
      match asBool ml, asBool ms, omap' src_of_sx inner with
      | Some ml', Some ms', Some l => Some (SComp ml' ms' l)
      | _, _, _ => None
      end
  | L [r; f] => match gres_of_sx r, fres_of_sx f with Some r', Some f' => Some (SConst r' f') | _, _ => None end
  | _ => None
  end.
Definition cstep_of_sx (x : sx) : option cstep :=
  match x with
  | L [L srcs; B sys; pd; B pv; B fk; fv] =>
      match omap' src_of_sx srcs, dict_of_sx pd, val_of_sx fv with
      | Some ss, Some pd', Some fv' =>
          Some {| st_srcs := ss; st_sys := sys; st_pd := pd'; st_pv := pv; st_fk := fk; st_fv := fv' |}
      | _, _, _ => None
      end
  | _ => None
  end.
Definition pair_of_sx (x : sx) : option (str * str) :=
  match x with L [B a; B b] => Some (a, b) | _ => None end.

Definition decode (x : sx) : option (case * obs) :=
  match x with
  | L [I 0%Z; ml; ms; a; b; io] =>
      match asBool ml, asBool ms, dict_of_sx a, dict_of_sx b, obs_of_sx true io with
      | Some ml', Some ms', Some a', Some b', Some o => Some (CMerge ml' ms' a' b', o)
      | _, _, _, _, _ => None
      end
  | L [I 4%Z; ml; ms; L ht; fails; I fx; tries; L steps; L [L cns; L io]] =>
      match asBool ml, asBool ms, omap' pair_of_sx ht, asListOf asNat fails, asNat tries, omap' cstep_of_sx steps,
            omap' (fun x => match x with I 0%Z => Some (Ok tt) | I c => Some (Err (exc_of_code c)) | _ => None end) cns,
            omap' ostep_of_sx io with
      | Some ml', Some ms', Some ht', Some fl, Some tr, Some st, Some cs, Some o =>
          Some (CBuild ml' ms' ht' fl (exc_of_code fx) tr st, OBuild cs o)
      | _, _, _, _, _, _, _, _ => None
      end
  | L [I 3%Z; ml; ms; L ht; L steps; L io] =>
      match asBool ml, asBool ms, omap' pair_of_sx ht, omap' cstep_of_sx steps, omap' ostep_of_sx io with
      | Some ml', Some ms', Some ht', Some st, Some o => Some (CHist ml' ms' ht' st, OHist o)
      | _, _, _, _, _ => None
      end
  | L [I 2%Z; ml; ms; a; b; c; io] =>
      match asBool ml, asBool ms, dict_of_sx a, dict_of_sx b, dict_of_sx c, aobs_of_sx io with
      | Some ml', Some ms', Some a', Some b', Some c', Some o => Some (CAssoc ml' ms' a' b' c', o)
      | _, _, _, _, _, _ => None
      end
  | L [I 1%Z; ml; ms; L ht; L srcs; B sys; pd; B pv; B fk; fv; io] =>
      match asBool ml, asBool ms, omap' pair_of_sx ht, omap' src_of_sx srcs, dict_of_sx pd,
            val_of_sx fv, obs_of_sx false io with
      | Some ml', Some ms', Some ht', Some srcs', Some pd', Some fv', Some o =>
          Some (CChain ml' ms' ht' srcs' sys pd' pv fk fv', o)
      | _, _, _, _, _, _, _ => None
      end
  | _ => None
  end.

Definition entry (x : sx) : sx :=
  match decode x with
  | None => sxS "bad-case"
  | Some (c, io) =>
      let m := run_model c in
      L [ sx_of_obs m; L (map sxS (holds c m)); L (map sxS (holds c io)); L []; sxBool (validb c) ]
  end.
