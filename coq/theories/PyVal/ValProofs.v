(* Lemmas about Python value trees: equality on hashable values is Leibniz
   equality, reflexivity of both comparisons, dict lookup facts. *)
From Coq Require Import List NArith ZArith Bool Arith Lia.
From VF Require Import PyVal.Val.
Import ListNotations.

Lemma str_eqb_eq a : forall b, str_eqb a b = true <-> a = b.
Proof.
  induction a as [|x a IH]; intros [|y b]; cbn [str_eqb]; try (split; [discriminate|discriminate]); [tauto|].
  rewrite andb_true_iff, N.eqb_eq, IH. split; [intros [-> ->]; reflexivity | intros E; injection E; auto].
Qed.
Lemma str_eqb_refl a : str_eqb a a = true.
Proof. now apply str_eqb_eq. Qed.

Lemma list_eqb_refl {A} (eq : A -> A -> bool) l : Forall (fun x => eq x x = true) l -> list_eqb eq l l = true.
Proof. induction 1 as [|x l Hx _ IH]; cbn [list_eqb]; [reflexivity | now rewrite Hx, IH]. Qed.

Lemma list_eqb_eq {A} (eq : A -> A -> bool) l :
  Forall (fun x => forall y, eq x y = true -> x = y) l -> forall l', list_eqb eq l l' = true -> l = l'.
Proof.
  induction 1 as [|x l Hx _ IH]; intros [|y l']; cbn [list_eqb]; try discriminate; [reflexivity|].
  intros E. apply andb_true_iff in E as [E1 E2]. f_equal; auto.
Qed.

(* comparing anything with a hashable value that turns out equal: identical *)
Lemma veq_hashable_r o k : forall k', hashable k' = true -> veq o k k' = true -> k = k'.
Proof.
  induction k as [| b | z | s | s | l IH | l IH | l IH | d IH | t] using val_ind';
    intros k' Hh E; destruct k'; cbn [veq hashable] in *; try discriminate; try reflexivity.
  - f_equal. now apply Bool.eqb_prop.
  - f_equal. now apply Z.eqb_eq.
  - f_equal. now apply str_eqb_eq.
  - f_equal. now apply str_eqb_eq.
  - f_equal. revert l0 Hh E. induction IH as [|x l Hx _ IHl]; intros [|y l'] Hh E; cbn [list_eqb] in E; try discriminate; [reflexivity|].
    cbn [forallb] in Hh. apply andb_true_iff in Hh as [H1 H2]. apply andb_true_iff in E as [E1 E2]. f_equal; auto.
Qed.

Lemma veq_hashable_l o k : hashable k = true -> forall k', veq o k k' = true -> k = k'.
Proof.
  induction k as [| b | z | s | s | l IH | l IH | l IH | d IH | t] using val_ind';
    intros Hh k' E; destruct k'; cbn [veq hashable] in *; try discriminate; try reflexivity.
  - f_equal. now apply Bool.eqb_prop.
  - f_equal. now apply Z.eqb_eq.
  - f_equal. now apply str_eqb_eq.
  - f_equal. now apply str_eqb_eq.
  - f_equal. revert l0 Hh E. induction IH as [|x l Hx _ IHl]; intros [|y l'] Hh E; cbn [list_eqb] in E; try discriminate; [reflexivity|].
    cbn [forallb] in Hh. apply andb_true_iff in Hh as [H1 H2]. apply andb_true_iff in E as [E1 E2]. f_equal; auto.
Qed.

Lemma veq_hashable_refl o k : hashable k = true -> veq o k k = true.
Proof.
  induction k as [| b | z | s | s | l IH | l IH | l IH | d IH | t] using val_ind';
    intros Hh; cbn [veq hashable] in *; try discriminate; try reflexivity.
  - apply Bool.eqb_reflx. - apply Z.eqb_refl. - apply str_eqb_refl. - apply str_eqb_refl.
  - apply list_eqb_refl. induction IH as [|x l Hx _ IHl]; [constructor|].
    cbn [forallb] in Hh. apply andb_true_iff in Hh as [H1 H2]. constructor; auto.
Qed.

(* ---- the order-sensitive comparison is reflexive on every tree ---- *)
Lemma existsb_self {A} (f : A -> A -> bool) l x : In x l -> f x x = true -> existsb (f x) l = true.
Proof. intros Hin Hx. apply existsb_exists. now exists x. Qed.

Lemma same_refl v : veq true v v = true.
Proof.
  induction v as [| b | z | s | s | l IH | l IH | l IH | d IH | t] using val_ind'; cbn [veq]; try reflexivity.
  - apply Bool.eqb_reflx. - apply Z.eqb_refl. - apply str_eqb_refl. - apply str_eqb_refl.
  - now apply list_eqb_refl. - now apply list_eqb_refl.
  - rewrite Nat.eqb_refl. cbn [andb]. apply forallb_forall. intros x Hx.
    rewrite Forall_forall in IH. apply existsb_self; auto.
  - apply list_eqb_refl. eapply Forall_impl; [|exact IH]. cbn beta. intros [k x] [H1 H2]. cbn [fst snd] in *. now rewrite H1, H2.
  - apply N.eqb_refl.
Qed.

(* ---- lookup facts ---- *)
Lemma mem_in_hashable x l : Forall (fun y => hashable y = true) l -> mem x l = true -> In x l.
Proof.
  unfold mem. intros Hl E. apply existsb_exists in E as [y [Hy E]].
  rewrite Forall_forall in Hl. unfold py_eq in E. apply veq_hashable_r in E; [subst; auto | auto].
Qed.
Lemma mem_false_notin x l : hashable x = true -> mem x l = false -> ~ In x l.
Proof.
  unfold mem. intros Hx E Hin. assert (existsb (py_eq x) l = true); [|congruence].
  apply existsb_exists. exists x. split; [assumption|]. now apply veq_hashable_refl.
Qed.

Lemma nodupb_NoDup l : Forall (fun y => hashable y = true) l -> nodupb l = true -> NoDup l.
Proof.
  induction 1 as [|x l Hx Hl IH]; cbn [nodupb]; intros E; [constructor|].
  apply andb_true_iff in E as [E1 E2]. constructor; [|auto].
  apply mem_false_notin; [assumption|]. now destruct (mem x l).
Qed.

Lemma assoc_ext f g d : (forall k, In k (map fst d) -> f k = g k) -> assoc f d = assoc g d.
Proof.
  induction d as [|[k v] r IH]; intros E; cbn [assoc]; [reflexivity|].
  rewrite (E k) by (cbn; auto). destruct (g k); [reflexivity|]. apply IH. intros k' Hk'. apply E. cbn; auto.
Qed.

(* in a dict with hashable, pairwise different keys a stored pair is what lookup finds *)
Lemma lookup_in d : Forall (fun y => hashable y = true) (map fst d) -> NoDup (map fst d) ->
  forall k v, In (k, v) d -> lookup k d = Some v.
Proof.
  unfold lookup. induction d as [|[k' v'] r IH]; intros Hh Hn k v Hin; [destruct Hin|].
  cbn [map fst] in Hh, Hn. inversion Hh as [|? ? Hk' Hr]; subst. inversion Hn as [|? ? Hni Hnr]; subst.
  cbn [assoc]. destruct Hin as [E|Hin].
  - injection E as -> ->. unfold py_eq. now rewrite veq_hashable_refl.
  - destruct (py_eq k k') eqn:E.
    + unfold py_eq in E. apply veq_hashable_r in E; [|assumption]. subst k'.
      exfalso. apply Hni. change k with (fst (k, v)). now apply in_map.
    + now apply IH.
Qed.

Lemma lookup_some_in k d v : Forall (fun y => hashable y = true) (map fst d) ->
  lookup k d = Some v -> In (k, v) d.
Proof.
  unfold lookup. induction d as [|[k' v'] r IH]; cbn [assoc map fst]; intros Hh E; [discriminate|].
  inversion Hh as [|? ? Hk' Hr]; subst.
  destruct (py_eq k k') eqn:Ek.
  - unfold py_eq in Ek. apply veq_hashable_r in Ek; [|assumption]. subst. injection E as ->. now left.
  - right. auto.
Qed.

Lemma lookup_none_notin k d : hashable k = true -> lookup k d = None -> ~ In k (map fst d).
Proof.
  unfold lookup. induction d as [|[k' v'] r IH]; cbn [assoc map fst]; intros Hh E; [tauto|].
  destruct (py_eq k k') eqn:Ek; [discriminate|]. intros [->|Hin]; [|now apply IH].
  unfold py_eq in Ek. now rewrite veq_hashable_refl in Ek.
Qed.

(* ---- Python == is reflexive on well-formed trees ---- *)
Lemma wf_dict_parts d : wf (VDict d) = true ->
  Forall (fun y => hashable y = true) (map fst d) /\ NoDup (map fst d) /\ Forall (fun kv => wf (snd kv) = true) d.
Proof.
  cbn [wf]. intros E. apply andb_true_iff in E as [E1 E2].
  assert (Hh : Forall (fun y => hashable y = true) (map fst d)).
  { rewrite forallb_forall in E1. apply Forall_forall. intros k Hk. apply in_map_iff in Hk as [[k' v] [<- Hin]].
    specialize (E1 _ Hin). cbn [fst snd] in *. now apply andb_true_iff in E1. }
  split; [assumption|]. split; [now apply nodupb_NoDup|].
  rewrite forallb_forall in E1. apply Forall_forall. intros kv Hin. specialize (E1 _ Hin). now apply andb_true_iff in E1.
Qed.

Lemma veq_refl o v : wf v = true -> veq o v v = true.
Proof.
  induction v as [| b | z | s | s | l IH | l IH | l IH | d IH | t] using val_ind'; cbn [veq]; intros W; try reflexivity.
  - apply Bool.eqb_reflx. - apply Z.eqb_refl. - apply str_eqb_refl. - apply str_eqb_refl.
  - apply list_eqb_refl. cbn [wf] in W. rewrite forallb_forall in W. rewrite Forall_forall in *. auto.
  - apply list_eqb_refl. cbn [wf] in W. rewrite forallb_forall in W. rewrite Forall_forall in *. auto.
  - rewrite Nat.eqb_refl. cbn [andb]. apply forallb_forall. intros x Hx.
    cbn [wf] in W. apply andb_true_iff in W as [W1 _]. rewrite forallb_forall in W1.
    apply existsb_self; [assumption|]. apply veq_hashable_refl. auto.
  - destruct o.
    + apply list_eqb_refl. pose proof (wf_dict_parts _ W) as (Hh & Hn & Hw).
      rewrite Forall_forall in *. intros [k x] Hin. cbn [fst snd].
      destruct (IH _ Hin) as [_ H2]. cbn [snd] in H2. rewrite veq_hashable_refl, H2; auto.
      * apply (Hw _ Hin).
      * apply Hh. change k with (fst (k, x)). now apply in_map.
    + rewrite Nat.eqb_refl. cbn [andb]. pose proof (wf_dict_parts _ W) as (Hh & Hn & Hw).
      apply forallb_forall. intros [k x] Hin. cbn [fst snd].
      pose proof (lookup_in d Hh Hn k x Hin) as L. unfold lookup, py_eq in L. rewrite L.
      rewrite Forall_forall in IH, Hw. destruct (IH _ Hin) as [_ H2]. apply H2. apply (Hw _ Hin).
  - apply N.eqb_refl.
Qed.
