From Coq Require Import List Arith Bool.
From Coq Require Import Lia.
From VF Require Import Lifecycle.Pool Lifecycle.PoolProofs Lifecycle.Explore.
Import ListNotations.

Section ExploreProofs.
  Variables (G PC OP : Type).
  Variable lkof : G -> lk.
  Variable cstep : G -> bool -> PC -> option OP -> option (G * PC * bool).
  Variable mstep : G -> option G.
  Variable is_idle : PC -> bool.
  Variables (gcode : G -> nat) (pccode : PC -> nat) (opcode : OP -> nat).
  Notation st := (st G PC OP).
  Notation step := (step G PC OP lkof cstep mstep).
  Notation explore := (explore G PC OP lkof cstep mstep gcode pccode opcode).
  Notation succs := (succs G PC OP lkof cstep mstep).

  Variable P : st -> Prop.
  Hypothesis P_step : forall s ch s', P s -> step s ch = Some s' -> P s'.

  Lemma succs_P s : P s -> Forall P (succs s).
  Proof.
    intros Hs. unfold Explore.succs. apply Forall_forall. intros x Hx.
    apply in_flat_map in Hx. destruct Hx as (ch & _ & Hx).
    destruct (step s ch) eqn:E; [|destruct Hx]. destruct Hx as [<-|[]]. eauto.
  Qed.

  (* every state the exploration returns satisfies any step-invariant that the start states satisfy *)
  Theorem explore_sound fuel : forall work visited,
    Forall P work -> Forall P visited -> Forall P (fst (explore fuel work visited)).
  Proof.
    induction fuel as [|f IH]; intros work visited Hw Hv; cbn; auto.
    destruct work as [|s r]; cbn; auto.
    inversion Hw as [|? ? Hs Hr]; subst.
    destruct (existsb _ visited).
    - apply IH; auto.
    - apply IH; auto. apply Forall_app. split; auto. apply succs_P. exact Hs.
  Qed.
End ExploreProofs.

Lemma insert_nat_in x l y : In y (insert_nat x l) -> y = x \/ In y l.
Proof.
  induction l as [|z r IH]; cbn [insert_nat].
  - intros [H|[]]. left. congruence.
  - destruct (Nat.ltb x z).
    + intros [H|H]; [left; congruence | right; exact H].
    + destruct (Nat.eqb x z); [intros H; right; exact H|].
      intros [H|H]; [right; left; exact H|]. destruct (IH H); [left; assumption | right; right; assumption].
Qed.

Lemma nat_set_in l y : In y (nat_set l) -> In y l.
Proof.
  induction l as [|z r IH]; cbn; [tauto|]. intros H. apply insert_nat_in in H. destruct H; auto.
Qed.

Section ConcObs.
  Variables (G PC OP : Type).
  Variable lkof : G -> lk.
  Variable cstep : G -> bool -> PC -> option OP -> option (G * PC * bool).
  Variable mstep : G -> option G.
  Variable is_idle : PC -> bool.
  Variables (gcode : G -> nat) (pccode : PC -> nat) (opcode : OP -> nat).
  Variables (errf : G -> bool) (finalf : G -> nat).
  Notation st := (st G PC OP).
  Notation step := (step G PC OP lkof cstep mstep).

  Lemma some_enabled_of (s : st) ch : step s ch <> None -> some_enabled G PC OP lkof cstep mstep s = true.
  Proof.
    intros H. unfold Pool.some_enabled. apply existsb_exists. exists ch. split.
    - unfold Pool.choices. destruct ch as [i|]; [right|left; reflexivity].
      apply in_map. apply in_seq. split; [lia|]. cbn.
      cbn [Pool.step] in H. destruct (nth_error (callers s) i) eqn:E; [|congruence].
      apply nth_error_Some. congruence.
    - unfold Pool.enabled. destruct (step s ch); congruence.
  Qed.

  (* P: any step-invariant with the three consequences below *)
  Variable P : st -> Prop.
  Hypothesis P_step : forall s ch s', P s -> step s ch = Some s' -> P s'.
  Hypothesis P_err : forall s, P s -> errf (g s) = false.
  Hypothesis P_live : forall s, P s -> all_done G PC OP is_idle s = false -> exists ch, step s ch <> None.
  Hypothesis P_final : forall s, P s -> all_done G PC OP is_idle s = true -> finalf (g s) <= 1.

  Theorem conc_obs_ok fuel s0 :
    P s0 -> snd (explore G PC OP lkof cstep mstep gcode pccode opcode fuel [s0] []) = true ->
    exists f, conc_obs G PC OP lkof cstep mstep is_idle gcode pccode opcode errf finalf fuel s0 = (0, 0, f)
              /\ forallb (fun x => Nat.leb x 1) f = true.
  Proof.
    intros H0 Hc. unfold conc_obs.
    pose proof (explore_sound G PC OP lkof cstep mstep gcode pccode opcode P P_step fuel [s0] []
                  (Forall_cons _ H0 (Forall_nil _)) (Forall_nil _)) as HF.
    destruct (explore G PC OP lkof cstep mstep gcode pccode opcode fuel [s0] []) as [vis complete].
    cbn [fst snd] in *. subst complete. rewrite Forall_forall in HF.
    assert (E1 : existsb (fun s => errf (g s)) vis = false).
    { apply not_true_is_false. intros H. apply existsb_exists in H. destruct H as (s & Hs & He).
      rewrite (P_err _ (HF _ Hs)) in He. discriminate. }
    assert (E2 : existsb (fun s => negb (all_done G PC OP is_idle s) && negb (some_enabled G PC OP lkof cstep mstep s)) vis = false).
    { apply not_true_is_false. intros H. apply existsb_exists in H. destruct H as (s & Hs & He).
      apply andb_prop in He. destruct He as [Ha Hb].
      destruct (all_done G PC OP is_idle s) eqn:Ed; [discriminate|].
      destruct (P_live _ (HF _ Hs) Ed) as (ch & Hch). rewrite (some_enabled_of _ _ Hch) in Hb. discriminate. }
    rewrite E1, E2. eexists. split; [reflexivity|].
    apply forallb_forall. intros x Hx. apply nat_set_in in Hx. cbn [app] in Hx.
    apply in_map_iff in Hx. destruct Hx as (s & <- & Hs). apply filter_In in Hs. destruct Hs as [Hs Hd].
    apply Nat.leb_le. apply P_final; auto.
  Qed.
End ConcObs.
