(* Model of vinegar/tftp/server.py:_octet_reader_function and
   _netascii_reader_function, and of the block loop of _send_data.
   Definitions only; proofs are in ReadersProofs.v. *)
From Coq Require Import List NArith Bool Arith.
Import ListNotations.
Open Scope N_scope.

Definition CR : N := 13.
Definition LF : N := 10.

(* ---- the handler's stream: content plus the pattern of short reads ----
   file.read(n) returns between 1 and n bytes while data remains and b"" only
   at end of file.  [chunks] bounds the successive reads; once it is used up
   reads are full. *)
Record src := { rest : list N; chunks : list nat }.
Definition src_read (n : nat) (s : src) : list N * src :=
  let k := match chunks s with [] => n | c :: _ => Nat.min n (Nat.max 1 c) end in
  (firstn k (rest s), {| rest := skipn k (rest s); chunks := tl (chunks s) |}).

(* ---- per-chunk netascii scan, as the index loop of the code ----
   [variant_always_skip] = the pre-fix behaviour (defect D4): the first byte
   after a read-final CR was skipped whatever it was. *)
Fixpoint scan_loop (l : list N) : list N * bool :=
  match l with
  | [] => ([], false)
  | x :: r =>
      if x =? CR then
        match r with
        | [] => ([CR; LF], true)
        | y :: r' =>
            if y =? LF then let (o, f) := scan_loop r' in (CR :: LF :: o, f)
            else let (o, f) := scan_loop r in (CR :: LF :: o, f)
        end
      else if x =? LF then let (o, f) := scan_loop r in (CR :: LF :: o, f)
      else let (o, f) := scan_loop r in (x :: o, f)
  end.

Definition scan_chunk (always_skip : bool) (last_cr : bool) (new : list N) : list N * bool :=
  if last_cr then
    match new with
    | [] => ([], false)
    | x :: r => if always_skip || (x =? LF) then scan_loop r else scan_loop new
    end
  else scan_loop new.

(* ---- generic buffered reader: `while size > len(data): ...` ---- *)
Section Reader.
  Variable F : Type.                                   (* carry-over state *)
  Variable scan : F -> list N -> list N * F.           (* conversion of one chunk *)
  Record rst := { buf : list N; carry : F; source : src }.

  Fixpoint fill (fuel : nat) (size : nat) (st : rst) : rst :=
    match fuel with
    | O => st
    | S f =>
        if (size <=? length (buf st))%nat then st else
        let (new, s') := src_read (size - length (buf st)) (source st) in
        match new with
        | [] => {| buf := buf st; carry := carry st; source := s' |}
        | _ => let (out, c') := scan (carry st) new in
               fill f size {| buf := buf st ++ out; carry := c'; source := s' |}
        end
    end.

  (* one call of the closure read(size).  [ffuel] bounds the iterations of the
     while loop; every iteration consumes >= 1 source byte, so any value above
     the number of source bytes left is enough (it is computed once per transfer). *)
  Definition read (ffuel : nat) (size : nat) (st : rst) : list N * rst :=
    let st' := fill ffuel size st in
    (firstn size (buf st'),
     {| buf := skipn size (buf st'); carry := carry st'; source := source st' |}).

  (* _send_data's loop: read blocks of bs until the first short one *)
  Fixpoint read_blocks (ffuel : nat) (fuel : nat) (bs : nat) (st : rst) : list (list N) :=
    match fuel with
    | O => []
    | S f => let (d, st') := read ffuel bs st in
             if (length d =? bs)%nat then d :: read_blocks ffuel f bs st' else [d]
    end.
End Reader.
Arguments buf {F}. Arguments carry {F}. Arguments source {F}.
Arguments Build_rst {F}.

Definition octet_scan (_ : unit) (new : list N) : list N * unit := (new, tt).
Definition octet_init (content : list N) (ch : list nat) : rst unit :=
  {| buf := []; carry := tt; source := {| rest := content; chunks := ch |} |}.
Definition netascii_init (content : list N) (ch : list nat) : rst bool :=
  {| buf := []; carry := false; source := {| rest := content; chunks := ch |} |}.

(* all blocks of a transfer; fuel = upper bound on the number of blocks *)
Definition octet_blocks (bs : nat) (content : list N) (ch : list nat) : list (list N) :=
  read_blocks unit octet_scan (S (length content)) (S (length content)) bs (octet_init content ch).
Definition netascii_blocks (always_skip : bool) (bs : nat) (content : list N) (ch : list nat) : list (list N) :=
  read_blocks bool (scan_chunk always_skip) (S (length content)) (S (2 * length content)) bs (netascii_init content ch).

(* ---- specifications ---- *)
(* whole-buffer reference conversion: CR LF kept, every other CR or LF -> CR LF *)
Fixpoint netascii_spec (l : list N) : list N :=
  match l with
  | [] => []
  | x :: r =>
      if x =? CR then
        match r with
        | y :: r' => if y =? LF then CR :: LF :: netascii_spec r' else CR :: LF :: netascii_spec r
        | [] => [CR; LF]
        end
      else if x =? LF then CR :: LF :: netascii_spec r
      else x :: netascii_spec r
  end.

(* block framing: full blocks, then one block shorter than bs (possibly empty) *)
(* [shorter l n] = (length l <? n), in time O(n) *)
Fixpoint shorter (l : list N) (n : nat) : bool :=
  match n, l with
  | O, _ => false
  | S _, [] => true
  | S n', _ :: r => shorter r n'
  end.
Fixpoint split_go (fuel : nat) (bs : nat) (l : list N) : list (list N) :=
  match fuel with
  | O => [l]
  | S f => if shorter l bs then [l] else firstn bs l :: split_go f bs (skipn bs l)
  end.
Definition split_blocks (bs : nat) (l : list N) : list (list N) := split_go (length l) bs l.
