#!/bin/sh
# build.sh <id-lowercase>  : compile ocaml/gen/<id>_model.ml + generic driver into bin/<id>
set -e
cd "$(dirname "$0")"
id="$1"
mkdir -p bin build/$id
cp gen/${id}_model.ml gen/${id}_model.mli build/$id/
Mod=$(echo "${id}_model" | sed 's/^./\U&/')
{ echo "open $Mod"; cat driver_body.ml; } > build/$id/main.ml
cd build/$id
ocamlfind ocamlopt -w -a -o ../../bin/$id ${id}_model.mli ${id}_model.ml main.ml
