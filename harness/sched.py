"""
Deterministic scheduler for REAL Python threads (used by C19 and C20).

Threads of a scenario are real `threading.Thread`s, but only one of them runs at a time: each thread
stops at *yield points* and hands control back to the controller, which picks the next thread
according to a schedule.  Yield points are
  * every traced source line (sys.settrace 'line' events) of the chosen files / functions,
  * every operation on the cooperative replacements of threading.Lock/RLock/Event/Thread.join
    (`shim()` gives a namespace to put in place of a module's `threading`).
Threads spawned by scheduled code through the shim's Thread are adopted as *background* threads.

A schedule is a list of pre-emptions (k, t, n): at decision point k run thread t (for n decision
points if n is not None).  Without pre-emption the current foreground thread keeps running until it
blocks or ends; background threads run only when no foreground thread can.  `explore()` enumerates
all schedules with at most `max_preempt` pre-emptions (every decision point x every other runnable
thread), replaying the deterministic prefix each time.

This is test machinery (part of the unverified glue): it serialises execution at source-line
granularity; it does not model CPython's bytecode-level switching or the GIL release inside C calls.
"""
import os
import sys
import threading
import time
import types

import _thread

_RealThread = threading.Thread
_RealLock = threading.Lock


class _Gate:
    """binary signal on a raw lock (a hand-off costs two C-level lock operations)"""
    __slots__ = ("l",)

    def __init__(self, _n=0):
        self.l = _thread.allocate_lock()
        self.l.acquire()

    def acquire(self):
        self.l.acquire()

    def release(self):
        try:
            self.l.release()
        except RuntimeError:
            pass


_RealSem = _Gate

_current = None          # the active Scheduler (one at a time)


class Abandoned(Exception):
    """raised inside a scheduled thread that is still blocked when the run is torn down"""


class _TState:
    __slots__ = ("tid", "fg", "gate", "status", "block", "result", "thread", "name")

    def __init__(self, tid, fg, name):
        self.tid = tid
        self.fg = fg
        self.gate = _RealSem(0)
        self.status = "ready"          # ready | blocked | done
        self.block = None              # callable -> bool (can run) while blocked
        self.result = None
        self.thread = None
        self.name = name


class Scheduler:
    def __init__(self, files, funcs=None, schedule=(), max_decisions=4000):
        self.files = set(os.path.realpath(f) for f in files)
        # funcs: None = every function of the files; list/set of names; or dict name -> max number of
        # line events per invocation that count as yield points (None = all)
        if funcs is None:
            self.funcs = None
        elif isinstance(funcs, dict):
            self.funcs = dict(funcs)
        else:
            self.funcs = {f: None for f in funcs}
        self.schedule = sorted(schedule)
        self.max_decisions = max_decisions
        self.threads = []              # _TState by tid
        self.by_ident = {}
        self.main = _RealSem(0)
        self.free = False              # free-running (teardown) mode
        self.decisions = []
        self.alternatives = []         # per decision: tuple of runnable tids
        self.status = "ok"
        self.trace = []                # (tid, file, line) of executed yield points (optional)
        self.keep_trace = False
        self._guard = _RealLock()

    # ------------------------------------------------------------------ threads
    def _register(self, fn, fg, name):
        st = _TState(len(self.threads), fg, name)
        self.threads.append(st)

        def target():
            self.by_ident[threading.get_ident()] = st
            st.gate.acquire()
            if not self.free:
                sys.settrace(self._tracer(st))
            try:
                r = fn()
                if not fg and not self.free:
                    # "the thread function has returned but the thread is still alive" is a state of its
                    # own (what Thread.join waits for)
                    sys.settrace(None)
                    self.yield_point(st)
                st.result = ("ok", r)
            except Abandoned:
                st.result = ("abandoned",)
            except BaseException as e:      # noqa
                st.result = ("exc", type(e).__name__, str(e)[:200])
            finally:
                sys.settrace(None)
                st.status = "done"
                if not self.free:
                    self.main.release()
        st.thread = _RealThread(target=target, daemon=True, name=f"sched-{name}")
        st.thread.start()
        return st

    def me(self):
        return self.by_ident.get(threading.get_ident())

    # ------------------------------------------------------------------ yield points
    def _tracer(self, st):
        files, funcs = self.files, self.funcs

        def make_local(limit):
            left = [limit]

            def local(frame, event, arg):
                if event == "line" and not self.free:
                    if left[0] is not None:
                        if left[0] <= 0:
                            return local
                        left[0] -= 1
                    if self.keep_trace:
                        self.trace.append((st.tid, os.path.basename(frame.f_code.co_filename), frame.f_lineno))
                    self.yield_point(st)
                return local
            return local

        def glob(frame, event, arg):
            code = frame.f_code
            if code.co_filename in files or os.path.realpath(code.co_filename) in files:
                if funcs is None:
                    return make_local(None)
                star = funcs.get("*")
                if star and (code.co_filename in star or os.path.realpath(code.co_filename) in star):
                    return make_local(None)
                if code.co_name in funcs:
                    return make_local(funcs[code.co_name])
            return None
        return glob

    def yield_point(self, st, block=None):
        """hand control to the controller; `block` (callable -> bool) says when this thread may continue"""
        if self.free:
            if block is not None:
                t0 = time.time()
                while not block():
                    time.sleep(0.0005)
                    if time.time() - t0 > 2.0:
                        raise Abandoned()
            return
        if block is not None:
            st.status = "blocked"
            st.block = block
        self.main.release()
        st.gate.acquire()
        if self.free and block is not None:
            return self.yield_point(st, block)
        st.status = "ready"
        st.block = None

    # ------------------------------------------------------------------ controller
    def _runnable(self, st):
        if st.status == "done":
            return False
        if st.status == "blocked":
            return bool(st.block())
        return True

    def run(self, bodies, names=None, prologue=None):
        """run the foreground bodies to completion under the schedule.
        returns (results per foreground thread, status) with status ok | deadlock | livelock.
        `prologue` (optional callable) runs first, alone, as a scheduled thread (threads it spawns are
        adopted as background threads and get no turn before the bodies start)."""
        global _current
        _current = self
        if prologue is not None:
            p = self._register(prologue, True, "prologue")
            while p.status != "done":
                if not self._runnable(p):
                    self.status = "deadlock"
                    return [p.result], self.status
                p.gate.release()
                self.main.acquire()
            p.fg = False
            self.prologue_result = p.result
        fg = [self._register(b, True, (names[i] if names else f"t{i}")) for i, b in enumerate(bodies)]
        cur = None
        sticky = None            # (tid, remaining decisions) forced by a pre-emption
        pos = 0
        while True:
            if all(s.status == "done" for s in fg):
                break
            runnable = [s.tid for s in self.threads if self._runnable(s)]
            if not runnable:
                self.status = "deadlock"
                break
            if len(self.decisions) >= self.max_decisions:
                self.status = "livelock"
                break
            k = len(self.decisions)
            choice = None
            bounded = False         # a pre-emption for a fixed number of decisions: afterwards the pre-empted thread goes on
            while pos < len(self.schedule) and self.schedule[pos][0] < k:
                pos += 1
            if pos < len(self.schedule) and self.schedule[pos][0] == k:
                _, want, n = self.schedule[pos]
                pos += 1
                if want in runnable:
                    choice = want
                    bounded = n is not None
                    sticky = (want, n - 1) if n is not None and n > 1 else None
                    if n is None:
                        cur = want
                        if not self.threads[want].fg:
                            # a background thread chosen "until it blocks or ends"
                            sticky = (want, 10 ** 9)
            if choice is None and sticky is not None:
                tid, left = sticky
                if tid in runnable:
                    choice = tid
                    bounded = True
                    sticky = (tid, left - 1) if left > 1 else None
                else:
                    sticky = None
            if choice is None:
                if cur is not None and cur in runnable and self.threads[cur].fg:
                    choice = cur
                else:
                    fgr = [t for t in runnable if self.threads[t].fg]
                    choice = fgr[0] if fgr else runnable[0]
            if self.threads[choice].fg and not bounded:
                cur = choice
            self.decisions.append(choice)
            self.alternatives.append(tuple(runnable))
            self.threads[choice].gate.release()
            self.main.acquire()
        return [s.result for s in fg], self.status

    def live_background(self):
        return [s for s in self.threads if not s.fg and s.status != "done"]

    def teardown(self):
        """switch to free-running mode and let every thread go (daemon threads; blocked ones give up)"""
        self.free = True
        for s in self.threads:
            s.gate.release()
            s.gate.release()


# ---------------------------------------------------------------------- cooperative primitives
class CoopLock:
    """replacement for threading.Lock / RLock (reentrant=True)"""
    def __init__(self, reentrant=False):
        self.owner = None
        self.count = 0
        self.reentrant = reentrant
        self.log = None               # optional list receiving ("acq"/"rel", tid)

    def _who(self):
        s = _current
        st = s.me() if s is not None else None
        return s, st

    def acquire(self, blocking=True, timeout=-1):
        s, st = self._who()
        me = st.tid if st is not None else ("ext", threading.get_ident())
        if self.reentrant and self.owner == me:
            self.count += 1
            return True
        if st is None or s.free:
            t0 = time.time()
            while True:
                with s._guard if s is not None else _RealLock():
                    if self.owner is None:
                        self.owner = me
                        self.count = 1
                        if self.log is not None:
                            self.log.append(("acq", me))
                        return True
                if not blocking:
                    return False
                if st is None and s is not None and not s.free:
                    # called from the controller while every scheduled thread is frozen: nobody can release
                    raise Abandoned()
                time.sleep(0.0005)
                if time.time() - t0 > 2.0:
                    raise Abandoned()
        # a yield point before the attempt, then block until free
        s.yield_point(st)
        while self.owner is not None:
            if not blocking:
                return False
            s.yield_point(st, lambda: self.owner is None)
        self.owner = me
        self.count = 1
        if self.log is not None:
            self.log.append(("acq", me))
        return True

    def release(self):
        s, st = self._who()
        if self.owner is None:
            raise RuntimeError("release unlocked lock")
        if self.reentrant and self.count > 1:
            self.count -= 1
            return
        if self.log is not None:
            self.log.append(("rel", self.owner))
        self.owner = None
        self.count = 0
        if st is not None and not s.free:
            s.yield_point(st)

    def locked(self):
        return self.owner is not None

    def __enter__(self):
        self.acquire()
        return self

    def __exit__(self, *a):
        self.release()


class CoopEvent:
    def __init__(self):
        self.flag = False

    def is_set(self):
        return self.flag

    def set(self):
        self.flag = True

    def clear(self):
        self.flag = False

    def wait(self, timeout=None):
        s = _current
        st = s.me() if s is not None else None
        if st is None or s.free:
            t0 = time.time()
            while not self.flag:
                time.sleep(0.0005)
                if time.time() - t0 > 2.0:
                    raise Abandoned()
            return True
        s.yield_point(st)
        while not self.flag:
            s.yield_point(st, lambda: self.flag)
        return True


class SchedThread:
    """replacement for threading.Thread inside scheduled code: the new thread is adopted by the
    active scheduler as a background thread"""
    def __init__(self, group=None, target=None, name=None, args=(), kwargs=None, daemon=None):
        self._target = target
        self._args = args
        self._kwargs = kwargs or {}
        self.daemon = daemon
        self.name = name or "thread"
        self._st = None
        self._real = None

    def run(self):
        if self._target is not None:
            self._target(*self._args, **self._kwargs)

    def start(self):
        s = _current
        if s is None or s.free or s.me() is None:
            self._real = _RealThread(target=self.run, daemon=True)
            self._real.start()
            return
        self._st = s._register(self.run, False, self.name)

    def is_alive(self):
        if self._st is not None:
            return self._st.status != "done"
        return self._real is not None and self._real.is_alive()

    def join(self, timeout=None):
        s = _current
        if self._st is None:
            if self._real is not None:
                self._real.join(timeout)
            return
        st = s.me() if s is not None else None
        if st is None or s.free:
            self._st.thread.join(2.0 if timeout is None else timeout)
            return
        s.yield_point(st)
        if timeout is not None and self._st.status != "done":
            # virtual time: the target thread was busy / not scheduled for longer than the finite time-out
            return
        while self._st.status != "done":
            s.yield_point(st, lambda: self._st.status == "done")


def shim(real=threading):
    """namespace to put in place of a module's `threading`"""
    ns = types.SimpleNamespace(**{k: getattr(real, k) for k in dir(real) if not k.startswith("__")})
    ns.Lock = lambda: CoopLock(False)
    ns.RLock = lambda: CoopLock(True)
    ns.Event = CoopEvent
    ns.Thread = SchedThread
    return ns


# ---------------------------------------------------------------------- schedule enumeration
class Outcome:
    __slots__ = ("results", "status", "decisions", "alternatives", "verdict", "extra", "bg", "fg", "names")


def patch_module_use(mod, real, shim, setter):
    """Replace what module `mod` uses of the module `real` by the corresponding members of `shim`, wherever they are
    in its namespace: `import threading` (the module object) and `from threading import Thread, Lock` (the members)
    are the same to the harness.  setter(mod, name, new) performs (and remembers) one replacement.  Returns the
    number of replacements."""
    n = 0
    members = {}
    for k in dir(real):
        if k.startswith("__"):
            continue
        try:
            v, w = getattr(real, k), getattr(shim, k, None)
        except Exception:      # noqa
            continue
        if w is not None and w is not v and callable(v):
            members[id(v)] = (v, w)
    for name, val in list(vars(mod).items()):
        if val is real:
            setter(mod, name, shim)
            n += 1
        elif id(val) in members and members[id(val)][0] is val:
            setter(mod, name, members[id(val)][1])
            n += 1
    return n


def with_fallback(funcs, groups):
    """groups: [(file, [names])].  The traced functions are given by NAME; when a refactoring has renamed one of
    them (no `def name(` in its file any more), every function of that file becomes a yield-point function instead
    (key "*" of the result).  More points than before, never fewer."""
    import re
    if funcs is None:
        return None
    out = dict(funcs) if isinstance(funcs, dict) else {f: None for f in funcs}
    star = set()
    for path, names in groups:
        try:
            with open(path) as f:
                src = f.read()
        except OSError:
            continue
        if any(not re.search(r"^\s*def\s+%s\s*\(" % re.escape(n), src, re.M) for n in names):
            star.add(path)
            star.add(os.path.realpath(path))
    if star:
        out["*"] = star
    return out


def run_one(make, files, funcs, schedule, max_decisions=4000, keep_trace=False):
    """make() -> scenario with .bodies (list of callables), .finish(results, status, sched) -> verdict
    (called while the world is still frozen) and .cleanup() (called after teardown)"""
    global _current
    sc = make()
    s = Scheduler(files, funcs, schedule, max_decisions)
    s.keep_trace = keep_trace
    _current = s
    try:
        results, status = s.run(sc.bodies, getattr(sc, "names", None), getattr(sc, "prologue", None))
        out = Outcome()
        out.fg = set(t.tid for t in s.threads if t.fg)
        out.names = {t.tid: t.name for t in s.threads}
        out.results, out.status = results, status
        out.decisions, out.alternatives = s.decisions, s.alternatives
        out.bg = [(b.name, b.status) for b in s.threads if not b.fg]
        out.extra = s.trace if keep_trace else None
        out.verdict = sc.finish(results, status, s)
    finally:
        s.teardown()
        try:
            sc.cleanup()
        finally:
            _current = None
    return out


def explore(make, files, funcs=None, max_preempt=1, bg_lens=(1, 4, 24), max_bg_preempt=1, unit_names=(), max_decisions=4000, budget=None,
            deadline=None, max_points=None, cpu_deadline=None):
    """enumerate all schedules with <= max_preempt pre-emptions; yields (schedule, Outcome)"""
    count = [0]

    def rec(prefix):
        if budget is not None and count[0] >= budget:
            return
        if deadline is not None and time.time() > deadline:
            return
        if cpu_deadline is not None and time.process_time() > cpu_deadline:
            return          # budget in CPU time of this worker: what is covered does not depend on the machine's load
        out = run_one(make, files, funcs, prefix, max_decisions)
        count[0] += 1
        yield list(prefix), out
        if len(prefix) >= max_preempt:
            return
        start = prefix[-1][0] + 1 if prefix else 0
        n = len(out.decisions)
        if max_points is not None:
            n = min(n, max_points)
        for k in range(start, n):
            for t in out.alternatives[k]:
                if t == out.decisions[k]:
                    continue
                # background threads: run for a bounded number of decision points; foreground: until blocked
                is_fg = t in out.fg
                if not is_fg and sum(1 for p in prefix if p[1] not in out.fg) >= max_bg_preempt:
                    continue        # at most max_bg_preempt pre-emptions in favour of background threads
                # threads named in unit_names (the environment: one file edit per decision) get exactly one decision
                unit = out.names.get(t) in unit_names
                for ln in ((1,) if unit else (None,) if is_fg else bg_lens):
                    yield from rec(prefix + [(k, t, ln)])
    yield from rec([])
