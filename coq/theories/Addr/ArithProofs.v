(* Bit-mask arithmetic of net_address / broadcast_address equals the div/mul definition. *)
From Coq Require Import List NArith ZArith Bool Lia.
From VF Require Import Addr.Text Addr.IPv4 Addr.IPv6.
Import ListNotations.
Open Scope N_scope.

Lemma pow2_pos k : 0 < 2 ^ k.
Proof. apply N.neq_0_lt_0. apply N.pow_nonzero. discriminate. Qed.

Lemma pred_pow2_ones k : 2 ^ k - 1 = N.ones k.
Proof. rewrite N.ones_equiv. now rewrite N.sub_1_r. Qed.

Lemma testbit_high a n i : a < 2 ^ n -> n <= i -> N.testbit a i = false.
Proof.
  intros Ha Hi. destruct (N.eq_dec a 0) as [->|Hz]; [apply N.bits_0|].
  apply N.bits_above_log2. apply N.log2_lt_pow2 in Ha; lia.
Qed.

(* a & ((2^bits - 1) & ~(2^(bits-m) - 1)) *)
Lemma netmask_land bits m a : a < 2 ^ bits -> m <= bits ->
  N.land a (netmask_int bits m) = a / 2 ^ (bits - m) * 2 ^ (bits - m).
Proof.
  intros Ha Hm. unfold netmask_int. rewrite !pred_pow2_ones.
  rewrite <- N.shiftr_div_pow2, <- N.shiftl_mul_pow2.
  apply N.bits_inj. intros i.
  rewrite N.land_spec, N.ldiff_spec.
  destruct (N.lt_ge_cases i (bits - m)) as [Hlt|Hge].
  - rewrite (N.ones_spec_low (bits - m) i Hlt), N.shiftl_spec_low by assumption.
    cbn [negb]. now rewrite andb_false_r, andb_false_r.
  - rewrite (N.ones_spec_high (bits - m) i Hge), N.shiftl_spec_high' by assumption.
    rewrite N.shiftr_spec', N.sub_add by assumption. cbn [negb]. rewrite andb_true_r.
    destruct (N.lt_ge_cases i bits) as [Hb|Hb].
    + rewrite (N.ones_spec_low bits i Hb). apply andb_true_r.
    + rewrite (N.ones_spec_high bits i Hb), andb_false_r. symmetry. now apply testbit_high with bits.
Qed.

(* a | (2^(bits-m) - 1) *)
Lemma hostmask_lor bits m a :
  N.lor a (hostmask_int bits m) = a / 2 ^ (bits - m) * 2 ^ (bits - m) + (2 ^ (bits - m) - 1).
Proof.
  unfold hostmask_int. set (k := bits - m). rewrite !pred_pow2_ones.
  rewrite <- N.shiftr_div_pow2, <- N.shiftl_mul_pow2.
  assert (D : N.land (N.shiftl (N.shiftr a k) k) (N.ones k) = 0).
  { apply N.bits_inj. intros i. rewrite N.land_spec, N.bits_0.
    destruct (N.lt_ge_cases i k) as [Hlt|Hge].
    - now rewrite N.shiftl_spec_low.
    - now rewrite (N.ones_spec_high k i Hge), andb_false_r. }
  rewrite (N.add_nocarry_lxor _ _ D), (N.lxor_lor _ _ D).
  apply N.bits_inj. intros i. rewrite !N.lor_spec.
  destruct (N.lt_ge_cases i k) as [Hlt|Hge].
  - now rewrite (N.ones_spec_low k i Hlt), !orb_true_r.
  - rewrite (N.ones_spec_high k i Hge), !orb_false_r.
    now rewrite N.shiftl_spec_high', N.shiftr_spec', N.sub_add.
Qed.

Lemma div_mul_le a d : d <> 0 -> a / d * d <= a.
Proof. intros Hd. rewrite N.mul_comm. now apply N.mul_div_le. Qed.

Lemma net_lt bits m a : a < 2 ^ bits -> a / 2 ^ (bits - m) * 2 ^ (bits - m) < 2 ^ bits.
Proof.
  intros Ha. eapply N.le_lt_trans; [apply div_mul_le|exact Ha]. apply N.pow_nonzero. discriminate.
Qed.

Lemma bcast_lt bits m a : a < 2 ^ bits -> m <= bits ->
  a / 2 ^ (bits - m) * 2 ^ (bits - m) + (2 ^ (bits - m) - 1) < 2 ^ bits.
Proof.
  intros Ha Hm. set (k := bits - m).
  assert (E : 2 ^ bits = 2 ^ m * 2 ^ k). { rewrite <- N.pow_add_r. f_equal. unfold k. lia. }
  pose proof (pow2_pos k) as Pk.
  assert (Q : a / 2 ^ k < 2 ^ m). { apply N.div_lt_upper_bound; [lia|]. rewrite N.mul_comm, <- E. exact Ha. }
  rewrite E. nia.
Qed.

(* ---- 4 bytes ---- *)
Lemma land_255 y : N.land y 255 = y mod 256.
Proof. change 255 with (N.ones 8). rewrite N.land_ones. reflexivity. Qed.

Ltac Zify.zify_post_hook ::= Z.to_euclidean_division_equations.

Lemma to_N32_bytes32 x : x < 2 ^ 32 -> to_N32 (bytes32 x) = x.
Proof.
  intros Hx. unfold to_N32, bytes32. rewrite !land_255, !N.shiftr_div_pow2, !N.shiftl_mul_pow2.
  change (2 ^ 32) with 4294967296 in Hx. change (2 ^ 24) with 16777216. change (2 ^ 16) with 65536.
  change (2 ^ 8) with 256. lia.
Qed.

Lemma bytes32_bytes x : forallb (fun b => b <=? 255) (bytes32 x) = true.
Proof.
  unfold bytes32. cbn [forallb]. rewrite !land_255.
  repeat (apply andb_true_iff; split); try reflexivity; apply N.leb_le;
  match goal with |- ?y mod 256 <= 255 => pose proof (N.mod_upper_bound y 256); lia end.
Qed.

Lemma to_N32_lt a b c d : a <= 255 -> b <= 255 -> c <= 255 -> d <= 255 -> to_N32 [a; b; c; d] < 2 ^ 32.
Proof.
  intros. unfold to_N32. rewrite !N.shiftl_mul_pow2.
  change (2 ^ 32) with 4294967296. change (2 ^ 24) with 16777216. change (2 ^ 16) with 65536.
  change (2 ^ 8) with 256. lia.
Qed.

Lemma to_N32_to_N a b c d : to_N32 [a; b; c; d] = to_N [a; b; c; d].
Proof.
  unfold to_N32, to_N. cbn [fold_left]. rewrite !N.shiftl_mul_pow2.
  change (2 ^ 24) with 16777216. change (2 ^ 16) with 65536. change (2 ^ 8) with 256. lia.
Qed.

(* ---- n bytes, big endian ---- *)
Definition be_bytes (n : nat) (x : N) : list N :=
  map (fun i => N.land (N.shiftr x (8 * (N.of_nat n - 1 - N.of_nat i))) 255) (seq 0 n).

Lemma to_N_snoc l b : to_N (l ++ [b]) = to_N l * 256 + b.
Proof. unfold to_N. rewrite fold_left_app. reflexivity. Qed.

Lemma be_bytes_S n x : be_bytes (S n) x = be_bytes n (x / 256) ++ [x mod 256].
Proof.
  unfold be_bytes. rewrite seq_S, map_app. cbn [map plus]. f_equal.
  - apply map_ext_in. intros i Hi. apply in_seq in Hi. f_equal.
    rewrite !N.shiftr_div_pow2. change 256 with (2 ^ 8). rewrite N.div_div by (apply N.pow_nonzero; discriminate).
    rewrite <- N.pow_add_r. f_equal. f_equal. lia.
  - f_equal. match goal with |- N.land (N.shiftr x ?k) 255 = _ => replace k with 0 by lia end.
    rewrite N.shiftr_0_r. apply land_255.
Qed.

Lemma to_N_be_bytes n : forall x, x < 256 ^ N.of_nat n -> to_N (be_bytes n x) = x.
Proof.
  induction n as [|n IH]; intros x Hx.
  - cbn in Hx. assert (x = 0) by lia. subst. reflexivity.
  - rewrite be_bytes_S, to_N_snoc, IH.
    + pose proof (N.div_mod x 256). lia.
    + rewrite Nat2N.inj_succ, N.pow_succ_r' in Hx. apply N.div_lt_upper_bound; lia.
Qed.

Lemma be_bytes_length n x : length (be_bytes n x) = n.
Proof. unfold be_bytes. now rewrite map_length, seq_length. Qed.

Lemma be_bytes_all n x : all_bytes (be_bytes n x) = true.
Proof.
  unfold all_bytes, be_bytes. rewrite forallb_forall. intros b Hb. apply in_map_iff in Hb.
  destruct Hb as (i & <- & _). rewrite land_255. apply N.ltb_lt. apply N.mod_upper_bound. discriminate.
Qed.

Lemma bytes128_be x : bytes128 x = be_bytes 16 x.
Proof.
  unfold bytes128, be_bytes. apply map_ext_in. intros i Hi. apply in_seq in Hi. f_equal. f_equal. lia.
Qed.

Lemma to_N_bytes128 x : x < 2 ^ 128 -> to_N (bytes128 x) = x.
Proof. intros Hx. rewrite bytes128_be. apply to_N_be_bytes. exact Hx. Qed.

Lemma to_N_lt bs : all_bytes bs = true -> to_N bs < 256 ^ N.of_nat (length bs).
Proof.
  induction bs as [|b bs IH] using rev_ind; intros H.
  - cbn. lia.
  - unfold all_bytes in H. rewrite forallb_app in H. apply andb_true_iff in H. destruct H as [H1 H2].
    cbn [forallb] in H2. rewrite andb_true_r in H2. apply N.ltb_lt in H2.
    rewrite to_N_snoc, app_length. cbn [length]. rewrite Nat.add_1_r, Nat2N.inj_succ, N.pow_succ_r'.
    specialize (IH H1). nia.
Qed.
