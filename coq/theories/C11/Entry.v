(* C11: case/observation types, executable checker [holds], sx entry point. *)
From Coq Require Import String.
From Coq Require Import List NArith ZArith Bool Arith.
From VF Require Import Base.Sx PyVal.Val PyVal.Codec Merge.Merge Yaml.Target Yaml.Exec.
Import ListNotations.

Record case := { cV : variants; cC : config; cO : oracles; cT : fstree; cPv : str }.
Definition obs := res dict.                 (* the data returned by get_data, or the exception class *)

Definition run_model (c : case) : obs :=
  match run_compile (cV c) (cC c) (cO c) (cT c) (cPv c) empty_item with
  | Ok (d, _, _) => Ok d
  | Err e => Err e
  end.

Definition same_dict (a b : dict) : bool := same (VDict a) (VDict b).

Definition holds (c : case) (o : obs) : list string :=
  match o, run_spec (no_marker (cV c)) (cC c) (cO c) (cT c) with
  | Ok d, Ok d' => if same_dict d d' then [] else ["data_equals_spec"%string]
  | Err e, Err e' => if exc_eqb e e' then [] else ["error_class"%string]
  | Ok _, Err _ => ["error_expected"%string]
  | Err e, Ok _ =>
      if run_empty_case (no_marker (cV c)) (cC c) (cO c) (cT c) && exc_eqb e ValueError
      then ["empty_piece_list_raises"%string] else ["unexpected_error"%string]
  end.

Definition res_wf (r : str * res val) : bool := match snd r with Ok v => wf v | Err _ => true end.
Definition variants_eqb (a b : variants) : bool :=
  Bool.eqb (tag_after a) (tag_after b) && Bool.eqb (rerender a) (rerender b) && Bool.eqb (empty_raises a) (empty_raises b) &&
  Bool.eqb (marker_compared a) (marker_compared b).

Definition validb (c : case) : bool :=
  variants_eqb (cV c) current_variants &&
  forallb res_wf (o_yload (cO c)).
Definition valid (c : case) : Prop := validb c = true.

Definition decode (x : sx) : option (case * obs) :=
  match x with
  | L [v; cfg; orc; tr; B pv; io] =>
      match variants_of_sx v, config_of_sx cfg, oracles_of_sx orc, tree_of_sx tr, res_of_sx dict_of_sx io with
      | Some v', Some c', Some o', Some t', Some io' =>
          Some ({| cV := v'; cC := c'; cO := o'; cT := t'; cPv := pv |}, io')
      | _, _, _, _, _ => None
      end
  | _ => None
  end.

Definition entry (x : sx) : sx :=
  match decode x with
  | None => sxS "bad-case"
  | Some (c, io) =>
      let m := run_model c in
      L [ sx_of_res sx_of_dict m; L (map sxS (holds c m)); L (map sxS (holds c io));
          sx_of_res sx_of_dict (run_spec (no_marker (cV c)) (cC c) (cO c) (cT c)); sxBool (validb c) ]
  end.
