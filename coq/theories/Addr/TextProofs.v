(* Lemmas about the text helpers: span, cut, the decimal and hexadecimal round trips
   (finite sweeps over the printable range lifted with forallb_forall). *)
From Coq Require Import List NArith Bool Lia.
From VF Require Import Addr.Text.
Import ListNotations.
Open Scope N_scope.

(* ---- span ---- *)
Lemma span_all p g : forallb p g = true -> span p g = (g, []).
Proof.
  induction g as [|x g IH]; cbn [span forallb]; [reflexivity|].
  intros H. apply andb_true_iff in H. destruct H as [Hx Hg]. rewrite Hx, (IH Hg). reflexivity.
Qed.

Lemma span_app_stop p g c r : forallb p g = true -> p c = false -> span p (g ++ c :: r) = (g, c :: r).
Proof.
  induction g as [|x g IH]; cbn [span forallb app]; intros Hg Hc.
  - rewrite Hc. reflexivity.
  - apply andb_true_iff in Hg. destruct Hg as [Hx Hg]. rewrite Hx, (IH Hg Hc). reflexivity.
Qed.

Lemma span_spec p s : forall g r, span p s = (g, r) ->
  s = g ++ r /\ forallb p g = true /\ (r = [] \/ exists c r', r = c :: r' /\ p c = false).
Proof.
  induction s as [|x s IH]; cbn [span]; intros g r H.
  - inversion H; subst. repeat split; auto.
  - destruct (p x) eqn:Hx.
    + destruct (span p s) as [a b] eqn:Hs. inversion H; subst.
      destruct (IH a r eq_refl) as (E & Fa & Hr). subst s. cbn [forallb app]. rewrite Hx, Fa. repeat split; auto.
    + inversion H; subst. repeat split; auto. right. exists x, s. auto.
Qed.

(* ---- str_eqb ---- *)
Lemma str_eqb_eq a : forall b, str_eqb a b = true <-> a = b.
Proof.
  induction a as [|x a IH]; destruct b as [|y b]; cbn [str_eqb]; split; intros H; try discriminate; auto.
  - apply andb_true_iff in H. destruct H as [H1 H2]. apply N.eqb_eq in H1. apply IH in H2. now subst.
  - inversion H; subst. rewrite N.eqb_refl. cbn. now apply IH.
Qed.
Lemma str_eqb_refl a : str_eqb a a = true.
Proof. now apply str_eqb_eq. Qed.

Lemma exc_eqb_eq a b : exc_eqb a b = true <-> a = b.
Proof.
  destruct a, b; cbn [exc_eqb]; split; intros H; try discriminate; auto.
  - apply str_eqb_eq in H. now subst.
  - inversion H; subst. apply str_eqb_refl.
Qed.
Lemma res_eqb_eq a b : res_eqb a b = true <-> a = b.
Proof.
  destruct a, b; cbn [res_eqb]; split; intros H; try discriminate; auto.
  - apply str_eqb_eq in H. now subst.
  - inversion H; subst. apply str_eqb_refl.
  - apply exc_eqb_eq in H. now subst.
  - inversion H; subst. now apply exc_eqb_eq.
Qed.
Lemma res_eqb_refl a : res_eqb a a = true.
Proof. now apply res_eqb_eq. Qed.

(* ---- has / cut ---- *)
Lemma has_false_In c s : has c s = false <-> ~ In c s.
Proof.
  unfold has. induction s as [|x s IH]; cbn [existsb In]; [tauto|].
  rewrite orb_false_iff, IH, N.eqb_neq. intuition congruence.
Qed.
Lemma has_true_In c s : has c s = true <-> In c s.
Proof.
  unfold has. rewrite existsb_exists. split.
  - intros (x & Hx & E). apply N.eqb_eq in E. now subst.
  - intros H. exists c. split; [assumption|apply N.eqb_refl].
Qed.

Lemma cut_none c s : has c s = false -> cut c s = (s, None).
Proof.
  unfold has. induction s as [|x s IH]; cbn [cut existsb]; [reflexivity|].
  intros H. apply orb_false_iff in H. destruct H as [H1 H2].
  rewrite N.eqb_sym, H1, (IH H2). reflexivity.
Qed.
Lemma cut_app c a r : has c a = false -> cut c (a ++ c :: r) = (a, Some r).
Proof.
  unfold has. induction a as [|x a IH]; cbn [cut existsb app].
  - intros _. rewrite N.eqb_refl. reflexivity.
  - intros H. apply orb_false_iff in H. destruct H as [H1 H2].
    rewrite N.eqb_sym, H1, (IH H2). reflexivity.
Qed.
Lemma cut_spec c s : forall a m, cut c s = (a, m) ->
  has c a = false /\ match m with None => s = a | Some r => s = a ++ c :: r end.
Proof.
  unfold has. induction s as [|x s IH]; cbn [cut]; intros a m H.
  - inversion H; subst. auto.
  - destruct (x =? c) eqn:E.
    + inversion H; subst. apply N.eqb_eq in E. subst. auto.
    + destruct (cut c s) as [a' m'] eqn:Hc. inversion H; subst.
      destruct (IH a' m eq_refl) as [H1 H2]. cbn [existsb]. rewrite N.eqb_sym, E, H1. split; [reflexivity|].
      destruct m; subst; reflexivity.
Qed.
Lemma has_app c a b : has c (a ++ b) = has c a || has c b.
Proof. unfold has. apply existsb_app. Qed.

(* ---- finite sweeps ---- *)
Lemma below_sweep (k : nat) (P : N -> bool) :
  forallb P (map N.of_nat (seq 0 k)) = true -> forall n, n < N.of_nat k -> P n = true.
Proof.
  intros H n Hn. rewrite forallb_forall in H. apply H.
  rewrite <- (N2Nat.id n). apply in_map. apply in_seq. lia.
Qed.

Definition dec_ok (n : N) : bool :=
  (dec_val (print_dec n) =? n) && forallb is_digit (print_dec n)
  && negb (str_eqb (print_dec n) []) && (N.of_nat (length (print_dec n)) <=? 3).

Lemma dec_sweep : forallb dec_ok (map N.of_nat (seq 0 1000)) = true.
Proof. vm_compute. reflexivity. Qed.

Lemma print_dec_facts n : n < 1000 ->
  dec_val (print_dec n) = n /\ forallb is_digit (print_dec n) = true /\ print_dec n <> [] /\
  (length (print_dec n) <= 3)%nat.
Proof.
  intros Hn. pose proof (below_sweep 1000 dec_ok dec_sweep n Hn) as H. unfold dec_ok in H.
  repeat (apply andb_true_iff in H; destruct H as [H ?]).
  apply N.eqb_eq in H. repeat split; auto.
  - intros E. rewrite E in *. discriminate.
  - apply N.leb_le in H0. lia.
Qed.

Lemma py_int_print_dec n : n < 1000 -> py_int_digits (print_dec n) = Some n.
Proof.
  intros Hn. destruct (print_dec_facts n Hn) as (V & _ & _ & L). unfold py_int_digits, MAX_STR_DIGITS.
  destruct (4300 <? N.of_nat (length (print_dec n))) eqn:E; [apply N.ltb_lt in E; lia|]. now rewrite V.
Qed.

Definition hex_ok (v : N) : bool :=
  (hex_val_list (print_hex2 true v) =? v) && (hex_val_list (print_hex2 false v) =? v)
  && forallb is_hex (print_hex2 true v) && forallb is_hex (print_hex2 false v).
Lemma hex_sweep : forallb hex_ok (map N.of_nat (seq 0 256)) = true.
Proof. vm_compute. reflexivity. Qed.

Lemma print_hex2_facts up v : v < 256 ->
  hex_val_list (print_hex2 up v) = v /\ forallb is_hex (print_hex2 up v) = true.
Proof.
  intros Hv. pose proof (below_sweep 256 hex_ok hex_sweep v Hv) as H. unfold hex_ok in H.
  repeat (apply andb_true_iff in H; destruct H as [H ?]).
  apply N.eqb_eq in H. apply N.eqb_eq in H2. destruct up; auto.
Qed.

(* one or two hex digits denote a byte *)
Lemma hex_val_lt c : is_hex c = true -> hex_val c < 16.
Proof.
  unfold is_hex, hex_val, is_digit. intros H.
  destruct (48 <=? c) eqn:A; destruct (c <=? 57) eqn:B; cbn [andb orb] in *;
  destruct (65 <=? c) eqn:C; destruct (c <=? 70) eqn:D; cbn [andb orb] in *;
  destruct (97 <=? c) eqn:E; destruct (c <=? 102) eqn:F; cbn [andb orb] in *; try discriminate;
  repeat match goal with
  | H : (_ <=? _) = true |- _ => apply N.leb_le in H
  | H : (_ <=? _) = false |- _ => apply N.leb_gt in H
  end; lia.
Qed.
