(* Proofs for the HTTP half of C09. *)
From Coq Require Import String.
From Coq Require Import List NArith ZArith Bool Arith Lia.
From VF Require Import Base.Sx Http.Response Http.Emit Http.EmitProofs Http.Classify.
Import ListNotations.
Open Scope N_scope.

Lemma beqb_eq a b : beqb a b = true <-> a = b.
Proof. unfold beqb. destruct (list_eq_dec N.eq_dec a b); split; congruence. Qed.
Lemma beqb_refl a : beqb a a = true.
Proof. now apply beqb_eq. Qed.

(* ---------- the stream never blocks once the client has shut down ---------- *)
Lemma readline_eof s : forall n, readline true n s <> None.
Proof.
  induction s as [|c r IH]; intros n; cbn [readline].
  - destruct (n =? 0); discriminate.
  - destruct (n =? 0); [discriminate|]. destruct (c =? 10); [discriminate|].
    specialize (IH (n - 1)). destruct (readline true (n - 1) r) as [[l rest]|]; [discriminate|congruence].
Qed.

Lemma read_headers_eof budget : forall s, read_headers budget true s <> None.
Proof.
  induction budget as [|k IH]; intros s; cbn [read_headers]; [discriminate|].
  pose proof (readline_eof s (MAXLINE + 1)) as Hr.
  destruct (readline true (MAXLINE + 1) s) as [[line rest]|]; [|congruence].
  destruct (MAXLINE <? blen line); [discriminate|].
  destruct k; [discriminate|].
  destruct (beqb line [13; 10] || beqb line [10] || beqb line []); [discriminate|apply IH].
Qed.

Lemma read_headers_codes budget eof : forall s c, read_headers budget eof s = Some (Some c) -> c = 431.
Proof.
  induction budget as [|k IH]; intros s c; cbn [read_headers]; [now intros [= <-]|].
  destruct (readline eof (MAXLINE + 1) s) as [[line rest]|]; [|discriminate].
  destruct (MAXLINE <? blen line); [now intros [= <-]|].
  destruct k; [now intros [= <-]|].
  destruct (beqb line [13; 10] || beqb line [10] || beqb line []); [discriminate|apply IH].
Qed.

Definition env_codes : list N := [400; 414; 431; 501; 505].

Definition head_ok (eof : bool) (h : head) : Prop :=
  match h with
  | HClose => True
  | HWait => eof = false
  | HError _ c _ => In c env_codes
  | HDispatch _ m _ => is_method m = true
  end.

Lemma after_request_line_ok eof rv command path rest : head_ok eof (after_request_line eof rv command path rest).
Proof.
  unfold after_request_line.
  destruct (read_headers 101 eof rest) as [[c|]|] eqn:E; cbn [head_ok].
  - apply read_headers_codes in E. subst c. cbn. tauto.
  - destruct (is_method command) eqn:Em; cbn [head_ok]; [exact Em|cbn; tauto].
  - destruct eof; [|reflexivity]. exfalso. exact (read_headers_eof _ _ E).
Qed.

(* every byte string, whether or not the client has shut down, gets one of the head verdicts *)
Theorem parse_head_ok eof data : head_ok eof (parse_head eof data).
Proof.
  unfold parse_head.
  destruct (readline eof (MAXLINE + 1) data) as [[raw rest]|] eqn:E.
  2:{ cbn. destruct eof; [|reflexivity]. exfalso. exact (readline_eof _ _ E). }
  destruct (MAXLINE <? blen raw); [cbn; tauto|].
  destruct raw as [|c0 raw]; [exact Logic.I|].
  destruct (words (c0 :: raw)) as [|command [|path more]]; [exact Logic.I|cbn; tauto|].
  destruct more as [|w more'].
  - destruct (beqb command S_GET); [apply after_request_line_ok|cbn; tauto].
  - destruct (check_version (last (w :: more') [])); [cbn; tauto|cbn; tauto|].
    destruct more'; [apply after_request_line_ok|cbn; tauto].
Qed.

(* ---------- vinegar's part ---------- *)
Definition faulty (path : bytes) (h : hspec) : bool := h_boom h path || act_raises (h_act h).

Lemma logs_exception_witness path (hs : list hspec) :
  logs_exception (map (to_handler path) hs) = true -> exists h, In h hs /\ faulty path h = true.
Proof.
  unfold faulty.
  induction hs as [|h r IH]; cbn [map logs_exception to_handler prep_raises can_raises can act]; [discriminate|].
  destruct (h_boom h path) eqn:Eb; cbn [orb].
  - intros _. exists h. split; [now left|]. now rewrite Eb.
  - destruct (h_pred h path).
    + intros H. exists h. split; [now left|]. now rewrite Eb.
    + intros H. destruct (IH H) as (h' & Hin & Hr). exists h'. split; [now right|exact Hr].
Qed.

Definition hspecs_ok (hs : list hspec) : bool := forallb (fun h => hact_ok (h_act h)) hs.

Lemma case_ok_map e m path hs : env_ok e = true -> hspecs_ok hs = true ->
  case_ok (set_head e m) (map (to_handler path) hs) = true.
Proof.
  intros He Hh. unfold case_ok. apply andb_true_iff. split; [exact He|].
  unfold hspecs_ok in Hh. rewrite forallb_forall in *. intros h' Hin. apply in_map_iff in Hin as (h & <- & Hin).
  cbn [to_handler act]. now apply Hh.
Qed.

Definition reaction_ok (eof : bool) (hs : list hspec) (r : reaction) : Prop :=
  match r with
  | RClosed => True
  | RWait => eof = false
  | REnvError _ c _ => In c env_codes
  | RVinegar simple w resp internal =>
      response_ok resp = true /\
      (simple = false -> parse_response w = Some resp) /\
      (simple = true -> w = r_body resp) /\
      (internal = true -> exists h path, In h hs /\ faulty path h = true)
  end.

Lemma vinegar_react_ok eof e hs simple m path : env_ok e = true -> hspecs_ok hs = true ->
  reaction_ok eof hs (vinegar_react e hs simple m path).
Proof.
  intros He Hh. unfold vinegar_react. cbn [reaction_ok].
  pose proof (case_ok_map e m path hs He Hh) as Hc.
  split; [now apply expected_ok|]. split; [|split].
  - intros ->. now apply emit_wellformed.
  - now intros ->.
  - destruct (bad_path path); [discriminate|]. intros H.
    destruct (logs_exception_witness _ _ H) as (h & Hin & Hf). now exists h, path.
Qed.

(* For EVERY byte string a client sends, with or without shutting down its side: nothing and close;
   waiting for the rest of an incomplete head (only while the client keeps the connection open); one
   of http.server's own errors; or what _delegate_request produces, which is exactly one well-formed
   response (or its bare body for HTTP/0.9) - and an exception is logged only if some handler's handle
   raises or returns a failing stream. *)
Theorem http_total e hs eof data : env_ok e = true -> hspecs_ok hs = true ->
  reaction_ok eof hs (react e hs eof data).
Proof.
  intros He Hh. unfold react. pose proof (parse_head_ok eof data) as H.
  destruct (parse_head eof data) as [| |s c h|s m p]; cbn [reaction_ok head_ok] in *; auto.
  now apply vinegar_react_ok.
Qed.

(* client bytes alone never reach the catch-all branches *)
Theorem http_no_internal_error e hs eof data :
  (forall h path, In h hs -> faulty path h = false) -> internal_of (react e hs eof data) = false.
Proof.
  intros Hn. unfold react. destruct (parse_head eof data) as [| |s c h|s m p]; try reflexivity.
  unfold vinegar_react. cbn [internal_of]. destruct (bad_path p); [reflexivity|].
  destruct (logs_exception (map (to_handler p) hs)) eqn:E; [|reflexivity].
  destruct (logs_exception_witness _ _ E) as (h & Hin & Hr). rewrite (Hn h p Hin) in Hr. discriminate.
Qed.

Theorem bad_path_400 e hs simple m path : bad_path path = true ->
  exists w, vinegar_react e hs simple m path = RVinegar simple w (error_response (set_head e m) 400) false /\
            (simple = false -> parse_response w = Some (error_response (set_head e m) 400) \/ env_ok e = false).
Proof.
  intros Hb. unfold vinegar_react. unfold expected. rewrite Hb. eexists. split; [reflexivity|].
  intros ->. destruct (env_ok e) eqn:He; [left|now right].
  unfold delegate. rewrite Hb.
  destruct (send_error_delivered (set_head e m) 400) as (Hw & _ & _). rewrite Hw.
  apply parse_render. now apply error_response_ok.
Qed.

Lemma expected_loop_none e path (hs : list hspec) :
  (forall h, In h hs -> h_pred h path = false /\ h_boom h path = false) ->
  expected_loop e (map (to_handler path) hs) = error_response e 404 /\
  logs_exception (map (to_handler path) hs) = false.
Proof.
  induction hs as [|h r IH]; intros Hn; cbn [map expected_loop logs_exception to_handler prep_raises can_raises can act orb];
    [auto|].
  destruct (Hn h (or_introl eq_refl)) as [-> ->]. cbn [orb]. apply IH. intros h' Hin. apply Hn. now right.
Qed.

Theorem no_handler_404 e hs simple m path : bad_path path = false ->
  (forall h, In h hs -> h_pred h path = false /\ h_boom h path = false) ->
  exists w, vinegar_react e hs simple m path = RVinegar simple w (error_response (set_head e m) 404) false.
Proof.
  intros Hb Hn. unfold vinegar_react, expected. rewrite Hb.
  destruct (expected_loop_none (set_head e m) path hs Hn) as [-> ->]. eexists. reflexivity.
Qed.

(* ---------- a head as a client means it: method SP target SP version CRLF *(line CRLF) CRLF ---------- *)
Lemma blen_cons c (l : bytes) : blen (c :: l) = blen l + 1.
Proof. unfold blen. cbn [length]. lia. Qed.
Lemma blen_app (a b : bytes) : blen (a ++ b) = blen a + blen b.
Proof. unfold blen. rewrite app_length. lia. Qed.

Lemma blen_single c : blen [c] = 1.
Proof. reflexivity. Qed.

Definition nolf (l : bytes) : bool := forallb (fun c => negb (c =? 10)) l.

Lemma readline_line eof (line : bytes) : forall n rest, nolf line = true -> blen line < n ->
  readline eof n (line ++ 10 :: rest) = Some (line ++ [10], rest).
Proof.
  induction line as [|c l IH]; intros n rest Hn Hl.
  - cbn [app readline]. destruct (N.eqb_spec n 0); [cbn in Hl; lia|]. reflexivity.
  - cbn [nolf forallb] in Hn. apply andb_true_iff in Hn as [Hc Hn]. apply negb_true_iff in Hc.
    rewrite blen_cons in Hl. cbn [app readline]. destruct (N.eqb_spec n 0); [lia|]. rewrite Hc.
    rewrite (IH (n - 1) rest Hn) by lia. reflexivity.
Qed.

Lemma token_inv (w : bytes) : token w = true -> w <> [] /\ forallb (fun c => negb (is_ws c)) w = true.
Proof. unfold token. intros H. apply andb_true_iff in H as [H1 H2]. split; [|exact H2]. now destruct w. Qed.

Lemma nows_nolf (w : bytes) : forallb (fun c => negb (is_ws c)) w = true -> nolf w = true.
Proof.
  unfold nolf. rewrite !forallb_forall. intros H c Hin. specialize (H c Hin).
  destruct (N.eqb_spec c 10) as [->|]; [discriminate H|reflexivity].
Qed.

Lemma words_go_token (w : bytes) : forallb (fun c => negb (is_ws c)) w = true ->
  forall s cur, words_go (w ++ s) cur = words_go s (rev w ++ cur).
Proof.
  induction w as [|c w IH]; intros H s cur; [reflexivity|].
  cbn [forallb] in H. apply andb_true_iff in H as [Hc Hw]. apply negb_true_iff in Hc.
  cbn [app words_go rev]. rewrite Hc, (IH Hw). now rewrite <- app_assoc.
Qed.

Lemma words_go_ws_flush c s (w : bytes) : is_ws c = true -> w <> [] ->
  words_go (c :: s) (rev w) = w :: words_go s [].
Proof.
  intros Hc Hw. cbn [words_go]. rewrite Hc. destruct (rev w) eqn:E.
  - apply (f_equal (@rev N)) in E. rewrite rev_involutive in E. cbn in E. congruence.
  - rewrite <- E, rev_append_rev, app_nil_r, rev_involutive. reflexivity.
Qed.

Lemma words_request_line m t v : token m = true -> token t = true -> token v = true ->
  words (m ++ 32 :: t ++ 32 :: v ++ [13; 10]) = [m; t; v].
Proof.
  intros Hm Ht Hv. destruct (token_inv _ Hm) as [Hm1 Hm2]. destruct (token_inv _ Ht) as [Ht1 Ht2].
  destruct (token_inv _ Hv) as [Hv1 Hv2]. unfold words.
  rewrite (words_go_token m Hm2), app_nil_r, (words_go_ws_flush 32 _ m eq_refl Hm1).
  rewrite (words_go_token t Ht2), app_nil_r, (words_go_ws_flush 32 _ t eq_refl Ht1).
  rewrite (words_go_token v Hv2), app_nil_r, (words_go_ws_flush 13 _ v eq_refl Hv1).
  reflexivity.
Qed.

Lemma header_line_inv (l : bytes) : header_line_ok l = true -> l <> [] /\ nolf l = true /\ blen l < 65000.
Proof.
  unfold header_line_ok. intros H. apply andb_true_iff in H as [H H3]. apply andb_true_iff in H as [H1 H2].
  apply N.ltb_lt in H3. repeat split; auto. now destruct l.
Qed.

Lemma nolf_app (a b : bytes) : nolf (a ++ b) = nolf a && nolf b.
Proof. apply forallb_app. Qed.

Lemma read_headers_step k eof s :
  read_headers (S (S k)) eof s =
  match readline eof (MAXLINE + 1) s with
  | None => None
  | Some (line, rest) =>
      if MAXLINE <? blen line then Some (Some 431)
      else if beqb line [13; 10] || beqb line [10] || beqb line [] then Some None
      else read_headers (S k) eof rest
  end.
Proof. reflexivity. Qed.

Lemma read_headers_block eof (lines : list bytes) body : forallb header_line_ok lines = true ->
  forall budget, (length lines + 2 <= budget)%nat ->
  read_headers budget eof (flat_map (fun l => l ++ CRLF2) lines ++ CRLF2 ++ body) = Some None.
Proof.
  induction lines as [|l r IH]; intros Hok budget Hb.
  - destruct budget as [|[|k]]; [cbn in Hb; lia|cbn in Hb; lia|].
    cbn [flat_map app CRLF2]. rewrite read_headers_step.
    change (13 :: 10 :: body) with ([13] ++ 10 :: body).
    rewrite (readline_line eof [13] (MAXLINE + 1) body eq_refl) by (cbn; lia). reflexivity.
  - cbn [forallb] in Hok. apply andb_true_iff in Hok as [Hl Hr].
    destruct (header_line_inv _ Hl) as (Hne & Hnl & Hlen).
    destruct budget as [|[|k]]; [cbn in Hb; lia|cbn in Hb; lia|].
    cbn [flat_map]. unfold CRLF2 at 1.
    replace (((l ++ [13; 10]) ++ flat_map (fun l0 => l0 ++ CRLF2) r) ++ CRLF2 ++ body)
      with ((l ++ [13]) ++ 10 :: (flat_map (fun l0 => l0 ++ CRLF2) r ++ CRLF2 ++ body))
      by (rewrite <- !app_assoc; reflexivity).
    rewrite read_headers_step. rewrite readline_line.
    2:{ rewrite nolf_app, Hnl. reflexivity. }
    2:{ rewrite blen_app. unfold MAXLINE. rewrite ?blen_single. lia. }
    assert (Hlen2 : (MAXLINE <? blen ((l ++ [13]) ++ [10])) = false).
    { apply N.ltb_ge. rewrite !blen_app. unfold MAXLINE. rewrite ?blen_single. lia. }
    rewrite Hlen2.
    assert (Hnt : beqb ((l ++ [13]) ++ [10]) [13; 10] || beqb ((l ++ [13]) ++ [10]) [10] || beqb ((l ++ [13]) ++ [10]) [] = false).
    { destruct l as [|a [|b l']]; [congruence| |].
      - cbn [app]. unfold beqb.
        repeat match goal with |- context [list_eq_dec N.eq_dec ?x ?y] => destruct (list_eq_dec N.eq_dec x y); try discriminate end.
        reflexivity.
      - cbn [app]. unfold beqb.
        repeat match goal with |- context [list_eq_dec N.eq_dec ?x ?y] => destruct (list_eq_dec N.eq_dec x y); try discriminate end.
        all: try reflexivity. all: destruct l'; discriminate. }
    rewrite Hnt. apply IH; [exact Hr|cbn [length] in Hb; lia].
Qed.

(* a syntactically sound head with a known method reaches _delegate_request with the target as
   written (up to http.server's collapsing of a leading "//"), whatever follows the head *)
Theorem structured_head_dispatch e hs eof m t v lines body :
  token m = true -> token t = true -> token v = true ->
  check_version v = VOk -> is_method m = true ->
  blen m + blen t + blen v + 4 <= MAXLINE ->
  forallb header_line_ok lines = true -> (length lines <= 99)%nat ->
  react e hs eof (render_head m t v lines ++ body) = vinegar_react e hs (beqb v S_HTTP09) m (collapse t).
Proof.
  intros Hm Ht Hv Hver Hmeth Hlen Hlines Hcount.
  unfold react, parse_head, render_head.
  set (rest := flat_map (fun l => l ++ CRLF2) lines ++ CRLF2 ++ body).
  replace ((m ++ 32 :: t ++ 32 :: v ++ CRLF2 ++ flat_map (fun l => l ++ CRLF2) lines ++ CRLF2) ++ body)
    with ((m ++ 32 :: t ++ 32 :: v ++ [13]) ++ 10 :: rest).
  2:{ unfold rest, CRLF2. repeat (rewrite <- app_assoc || rewrite <- app_comm_cons). reflexivity. }
  destruct (token_inv _ Hm) as [Hm1 Hm2]. destruct (token_inv _ Ht) as [Ht1 Ht2]. destruct (token_inv _ Hv) as [Hv1 Hv2].
  rewrite readline_line.
  2:{ rewrite nolf_app, (nows_nolf _ Hm2). cbn [nolf forallb andb]. fold (nolf (t ++ 32 :: v ++ [13])).
      rewrite nolf_app, (nows_nolf _ Ht2). cbn [nolf forallb andb]. fold (nolf (v ++ [13])).
      rewrite nolf_app, (nows_nolf _ Hv2). reflexivity. }
  2:{ rewrite blen_app, blen_cons, blen_app, blen_cons, blen_app. rewrite ?blen_single. unfold MAXLINE in *. lia. }
  assert (Hl : (MAXLINE <? blen ((m ++ 32 :: t ++ 32 :: v ++ [13]) ++ [10])) = false).
  { apply N.ltb_ge. rewrite !blen_app, blen_cons, blen_app, blen_cons, blen_app. rewrite ?blen_single. unfold MAXLINE in *. lia. }
  rewrite Hl.
  replace ((m ++ 32 :: t ++ 32 :: v ++ [13]) ++ [10]) with (m ++ 32 :: t ++ 32 :: v ++ [13; 10])
    by (repeat (rewrite <- app_assoc || rewrite <- app_comm_cons); reflexivity).
  destruct (m ++ 32 :: t ++ 32 :: v ++ [13; 10]) as [|c0 raw] eqn:Eraw; [destruct m; [congruence|discriminate]|].
  rewrite <- Eraw, (words_request_line m t v Hm Ht Hv). cbn [last]. rewrite Hver.
  unfold after_request_line, rest. rewrite (read_headers_block eof lines body Hlines) by lia.
  rewrite Hmeth. reflexivity.
Qed.
