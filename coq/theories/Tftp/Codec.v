(* Model of vinegar/tftp/protocol.py: decode_read_request (RFC 1350/2347 RRQ),
   and of the option handling in _TftpReadRequest.__init__ /
   _process_transfer_size_option (RFC 2348/2349).  Definitions only. *)
From Coq Require Import String.
From Coq Require Import List NArith ZArith Bool.
From VF Require Import Base.Sx.
Import ListNotations.
Open Scope N_scope.

Definition str := list N.
Fixpoint str_eqb (a b : str) : bool :=
  match a, b with
  | [], [] => true
  | x :: a', y :: b' => (x =? y) && str_eqb a' b'
  | _, _ => false
  end.
Definition lit (s : string) : str := bytes_of_string s.

(* bytes.split(b"\0") *)
Fixpoint split0 (cur : str) (l : str) : list str :=
  match l with
  | [] => [rev cur]
  | x :: r => if x =? 0 then rev cur :: split0 [] r else split0 (x :: cur) r
  end.
(* bytes.decode("ascii", "ignore") *)
Definition ascii_ignore (s : str) : str := filter (fun c => c <? 128) s.
(* str.lower() on ASCII text *)
Definition lower1 (c : N) : N := if (65 <=? c) && (c <=? 90) then c + 32 else c.
Definition lower (s : str) : str := map lower1 s.

Inductive mode := Netascii | Octet | Mail.
Definition mode_of_str (s : str) : option mode :=
  let l := lower s in
  if str_eqb l (lit "netascii") then Some Netascii
  else if str_eqb l (lit "octet") then Some Octet
  else if str_eqb l (lit "mail") then Some Mail
  else None.

(* Python dict assignment d[k] = v on an association list in insertion order *)
Fixpoint dict_set (d : list (str * str)) (k v : str) : list (str * str) :=
  match d with
  | [] => [(k, v)]
  | (k', v') :: r => if str_eqb k' k then (k', v) :: r else (k', v') :: dict_set r k v
  end.
Fixpoint dict_get (d : list (str * str)) (k : str) : option str :=
  match d with
  | [] => None
  | (k', v') :: r => if str_eqb k' k then Some v' else dict_get r k
  end.

(* option pairs: `while next_index <= len(parts) - 3`, then exactly one empty part must remain *)
Fixpoint rrq_opts (rest : list str) (acc : list (str * str)) : option (list (str * str)) :=
  match rest with
  | [] => None
  | [last] => match last with [] => Some acc | _ => None end
  | n :: vl :: r =>
      match r with
      | [] => None
      | _ => rrq_opts r (dict_set acc (ascii_ignore n) (ascii_ignore vl))
      end
  end.

(* decode_read_request: None = ValueError *)
Definition decode_rrq (d : str) : option (str * mode * list (str * str)) :=
  match d with
  | 0 :: 1 :: body =>
      match split0 [] body with
      | fn :: md :: rest =>
          match rest with
          | [] => None
          | _ => match mode_of_str (ascii_ignore md) with
                 | None => None
                 | Some m => match rrq_opts rest [] with
                             | None => None
                             | Some o => Some (ascii_ignore fn, m, o)
                             end
                 end
          end
      | _ => None
      end
  | _ => None
  end.

(* encoder used to state the round-trip (what an RFC 2347 client sends) *)
Definition mode_str (m : mode) : str :=
  match m with Netascii => lit "netascii" | Octet => lit "octet" | Mail => lit "mail" end.
Definition encode_rrq (fn : str) (m : str) (opts : list (str * str)) : str :=
  0 :: 1 :: fn ++ 0 :: m ++ 0 :: flat_map (fun p => fst p ++ 0 :: snd p ++ [0]) opts.

(* ---------- option negotiation ---------- *)
(* _REGEXP_POSITIVE_INT = [1-9][0-9]* (fullmatch), then int() *)
Definition is_digit (c : N) : bool := (48 <=? c) && (c <=? 57).
Definition positive_int (s : str) : option N :=
  match s with
  | [] => None
  | c :: r =>
      if (49 <=? c) && (c <=? 57) && forallb is_digit r
      then Some (fold_left (fun acc d => acc * 10 + (d - 48)) s 0)
      else None
  end.
(* str(n) *)
Definition dec (n : N) : str :=
  match n with 0 => [48] | _ => dec_uint (N.to_uint n) end.

(* options = {name.lower(): value for name, value in options.items()} *)
Definition lower_keys (o : list (str * str)) : list (str * str) :=
  fold_left (fun acc p => dict_set acc (lower (fst p)) (snd p)) o [].

(* what the handler's file object is, as far as tsize is concerned *)
Inductive stream_kind :=
| KBytesIO (size pos : N)                   (* io.BytesIO: len(getbuffer()) - tell() *)
| KRealFile (size pos : N) (regular : bool) (* has fileno(): fstat; regular file or not *)
| KNoFileno.                                (* fileno() raises io.UnsupportedOperation *)

Record nvariants := {
  blksize_drop_over_max : bool;  (* D2: request above max_block_size rejected, not clamped *)
  tsize_ignores_pos : bool       (* D3: st_size without subtracting the position, pipes report 0 *)
}.
Definition ncurrent := {| blksize_drop_over_max := false; tsize_ignores_pos := false |}.

(* Times are in clock ticks of 1/1024 s: the server's default_timeout and max_timeout are numbers of
   seconds that may be fractional (floats; TftpServer clamps them but does not round), e.g. 1.5 s =
   1536 ticks.  A timeout OPTION is a whole number of seconds n, used as n * 1024 ticks. *)
Definition TICKS_PER_SECOND : N := 1024.
Record limits := { max_bs : N; max_tmo : N (* ticks *); default_tmo : N (* ticks *) }.
Record negotiated := { n_bs : N; n_tmo : N (* ticks *); n_oack : list (str * str) }.

Definition negotiate (nv : nvariants) (lim : limits) (netascii : bool) (k : stream_kind)
           (opts : list (str * str)) : negotiated :=
  let o := lower_keys opts in
  let '(bs, a1) :=
    match dict_get o (lit "blksize") with
    | Some s => match positive_int s with
                | Some n =>
                    if blksize_drop_over_max nv then
                      if (n <=? max_bs lim) && (8 <=? n) then (n, [(lit "blksize", dec n)]) else (512, [])
                    else if 8 <=? n then let m := N.min n (max_bs lim) in (m, [(lit "blksize", dec m)])
                    else (512, [])
                | None => (512, [])
                end
    | None => (512, [])
    end in
  let '(tm, a2) :=
    match dict_get o (lit "timeout") with
    | Some s => match positive_int s with
                | Some n => if (n * TICKS_PER_SECOND <=? max_tmo lim) && (1 <=? n)
                            then (n * TICKS_PER_SECOND, [(lit "timeout", dec n)])
                            else (default_tmo lim, [])
                | None => (default_tmo lim, [])
                end
    | None => (default_tmo lim, [])
    end in
  let a3 :=
    match dict_get o (lit "tsize") with
    | Some s =>
        if str_eqb s (lit "0") then
          if netascii then [] else
          match k with
          | KBytesIO size pos => [(lit "tsize", dec (size - pos))]
          | KRealFile size pos regular =>
              if tsize_ignores_pos nv then [(lit "tsize", dec size)]
              else if regular then [(lit "tsize", dec (size - pos))] else []
          | KNoFileno => []
          end
        else []
    | None => []
    end in
  {| n_bs := bs; n_tmo := tm; n_oack := a1 ++ a2 ++ a3 |}.
