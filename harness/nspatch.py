"""
Patching a module under test by SCANNING its namespace for the real objects instead of assigning to fixed global
names: works whether the module says `import socket` / `import socket as s` / `from socket import socket, timeout`,
`import time` / `from time import monotonic`, `import threading` / `from threading import Thread`, and whatever the
module logger's variable is called.

    undo = patch_namespace(module, make_socket=..., monotonic=..., thread_class=..., replace={real_obj: fake_obj})

* every global that IS the `socket` module is replaced by a copy of it whose `socket` attribute is `make_socket`;
  every global that IS the class `socket.socket` by `make_socket` itself (called as socket(family=..., type=...));
* every global that IS the `time` module by a copy with `monotonic` replaced; `time.monotonic` itself likewise;
* every global that IS the `threading` module by a copy whose `Thread` is `thread_class`; `threading.Thread` itself;
* `replace`: further identity-based replacements (e.g. a helper function imported from another module).
`loggers(module)` returns the logging.Logger objects among the module's globals (found by type, not by name).
"""
import logging
import socket as real_socket
import threading as real_threading
import time as real_time
import types


def _copy(mod, **over):
    ns = types.SimpleNamespace(**{k: getattr(mod, k) for k in dir(mod) if not k.startswith("__")})
    for k, v in over.items():
        setattr(ns, k, v)
    return ns


def patch_namespace(module, make_socket=None, monotonic=None, thread_class=None, replace=None):
    replace = dict(replace or {})
    saved = {}
    for name, val in list(vars(module).items()):
        new = None
        if val is real_socket and make_socket is not None:
            new = _copy(real_socket, socket=make_socket)
        elif val is real_socket.socket and make_socket is not None:
            new = make_socket
        elif val is real_time and monotonic is not None:
            new = _copy(real_time, monotonic=monotonic)
        elif val is real_time.monotonic and monotonic is not None:
            new = monotonic
        elif val is real_threading and thread_class is not None:
            new = _copy(real_threading, Thread=thread_class)
        elif val is real_threading.Thread and thread_class is not None:
            new = thread_class
        else:
            for real, fake in replace.items():
                if val is real:
                    new = fake
                    break
        if new is not None:
            saved[name] = val
            setattr(module, name, new)

    def undo():
        for name, val in saved.items():
            setattr(module, name, val)
    undo.patched = sorted(saved)
    return undo


def loggers(module):
    return [v for v in vars(module).values() if isinstance(v, logging.Logger)]


def find_class(module, wanted_params):
    """a class defined in `module` whose __init__ has all the parameters `wanted_params` (None if there is none)"""
    import inspect
    for v in vars(module).values():
        if isinstance(v, type) and v.__module__ == module.__name__:
            try:
                params = inspect.signature(v.__init__).parameters
            except (TypeError, ValueError):
                continue
            if all(p in params for p in wanted_params):
                return v
    return None
