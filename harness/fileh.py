"""
Shared helpers of the file-request-handler checks (C06, C04): temp tree, recording data source,
construction of the real handlers, running one request, request-string generators.
The handlers are the real classes from vinegar.request_handler.file; nothing is copied from /repo.
"""
import atexit
import http.client
import itertools
import json
import logging
import os
import shutil
import sys
import tempfile

import common

import jinja2

import pubscan

from vinegar.data_source import DataSource
from vinegar.http.server import HttpRequestHandler, HttpRequestInfo
from vinegar.request_handler import file as F
from vinegar.tftp.protocol import ErrorCode
from vinegar.tftp.server import TftpError, TftpRequestHandler



class _FormatOnly(logging.Handler):
    """formats every record (so that a broken log call shows as the exception it raises) and drops it"""

    def emit(self, record):
        self.format(record)

    def handleError(self, record):       # the default prints and continues; a broken log call must not be silent
        raise


_vlog = logging.getLogger("vinegar")
_vlog.addHandler(_FormatOnly())
_vlog.propagate = False
logging.raiseExceptions = True


def set_log_level(name):
    """the logging level is a dimension of the cases (DEBUG / INFO / WARNING)"""
    _vlog.setLevel(getattr(logging, name))


set_log_level("DEBUG")

DUMP_TEMPLATE = "{{ dump() }}"


def dump_file(path):
    """content of a served file of the C06 runs: the context dump plus (as a template comment) the file's own path, so
    that WHICH file was served is visible in the reply with and without a template engine"""
    return DUMP_TEMPLATE + "{#FILE:" + path + "#}"


def served_from_raw(body):
    """the path marker of a file served without template engine"""
    try:
        t = body.decode("utf-8")
        i = t.index("{#FILE:")
        return t[i + 7:t.index("#}", i)]
    except Exception:
        return None

PH_DEFAULT = "..."

_BASE = None


def base_dir():
    """fresh scratch tree for this process (removed at exit); realpath so that it is normalised"""
    global _BASE
    if _BASE is None:
        _BASE = os.path.realpath(tempfile.mkdtemp(prefix="vf-fileh-"))
        atexit.register(shutil.rmtree, _BASE, True)
    return _BASE


def write_file(rel, content):
    p = os.path.join(base_dir(), rel)
    os.makedirs(os.path.dirname(p), exist_ok=True)
    with open(p, "wb") as f:
        f.write(content if isinstance(content, bytes) else content.encode())
    return p


def regular_files_below(rel):
    out = []
    top = os.path.join(base_dir(), rel)
    for d, _dirs, files in os.walk(top):
        for fn in files:
            out.append(os.path.join(d, fn))
    return sorted(out)


# ----------------------------------------------------------------------------- data source
def tag(x):
    """values are compared together with their type: "s:<text>" for str, "<type name>:<repr>" otherwise
    (12 -> "int:12", "12" -> "s:12", ["a", "b"] -> "list:['a', 'b']")"""
    if isinstance(x, str):
        return "s:" + x
    return type(x).__name__ + ":" + repr(x)


class HarnessBaseException(BaseException):
    """an exception that is not derived from Exception (like KeyboardInterrupt / SystemExit)"""


class WeirdError(Exception):
    """an Exception subclass outside the usual families (not LookupError / OSError / RuntimeError / ValueError)"""


class RecordingSource(DataSource):
    """find_system answers from a table {(key, tag(value)): ("id", x) | ("raise",) | ("none",)};
    get_data raises for ids whose tag is in `raising`, else returns {"tag": "data-of-<tag(id)>"}.
    The log records the arguments with their types (tag)."""

    def __init__(self, table, raising, empties=()):
        self.table = table
        # tagged id -> exception class (a plain list means RuntimeError)
        self.raising = dict(raising) if isinstance(raising, dict) else {r: RuntimeError for r in raising}
        self.empties = set(empties)       # (tagged) ids whose data is the empty tree
        self.log = []

    def find_system(self, lookup_key, lookup_value):
        self.log.append((0, lookup_key, tag(lookup_value)))
        row = self.table.get((lookup_key, tag(lookup_value)), ("none",))
        if row[0] == "raise":
            raise (row[1] if len(row) > 1 else RuntimeError)("find_system failed")
        if row[0] == "id":
            return row[1]
        return None

    def get_data(self, system_id, preceding_data, preceding_data_version):
        ok_args = (preceding_data == {}) and (preceding_data_version == "")
        self.log.append((1, tag(system_id) if ok_args else tag(system_id) + "?unexpected-arguments"))
        if tag(system_id) in self.raising:
            raise self.raising[tag(system_id)]("get_data failed")
        if tag(system_id) in self.empties:
            return {}, "v0"
        return {"tag": "data-of-" + tag(system_id)}, "v1"


@jinja2.pass_context
def _dump(ctx):
    """what the template sees: context keys that are not environment globals, id, data tag, uri"""
    env_globals = set(ctx.environment.globals)
    allv = ctx.get_all()
    keys = sorted(k for k in allv if k not in env_globals and k != "dump")
    out = {"keys": keys}
    if "id" in allv:
        out["id"] = tag(allv["id"])
    if "data" in allv:
        try:
            out["data"] = allv["data"].get("tag", None)
        except Exception as ex:      # not the SmartLookupDict the documentation promises
            out["data"] = "?" + type(ex).__name__
    out["name"] = ctx.name            # the template that is being rendered = the file that is served
    ri = allv.get("request_info")
    try:
        out["uri"] = ri["uri"]
    except Exception:
        out["uri"] = None
    return json.dumps(out)


# ----------------------------------------------------------------------------- handlers
def target_configured(cfg):
    """the string given to the handler as `file` / `root_dir`.  cfg["target"] is a name below the scratch tree and
    is configured as an absolute normalised path; cfg["target_raw"] (optional) is configured verbatim ("$BASE" =
    scratch tree) and may be relative to the working directory (the check chdirs into the scratch tree), carry a
    trailing slash or be non-normalised."""
    raw = cfg.get("target_raw")
    if raw is None:
        return os.path.join(base_dir(), cfg["target"])
    return raw.replace("$BASE", base_dir())


def target_for_model(cfg):
    """the models work on the absolute normalised form of the configured path"""
    t = target_configured(cfg)
    if cfg.get("target_raw") is None:
        return t
    if cfg.get("target_literal"):
        # spellings that are not lexically normalised ("./x", "a/../x", a symbolic link followed by ".."): the model gets
        # the configured text, only made absolute - lexical normalisation would change what it denotes to the OS
        return t if t.startswith("/") else base_dir() + "/" + t
    return os.path.abspath(os.path.join(base_dir(), t))


def config_dict(cfg, template_cache=True):
    """cfg: dict(rpath, filemode, target (relative to the scratch tree), suffix, key, ph (None = default),
    cont, ign, template, tpre, tsuf)"""
    d = {"request_path": cfg["rpath"]}
    target = target_configured(cfg)
    if cfg["filemode"]:
        d["file"] = target
    else:
        d["root_dir"] = target
    if cfg.get("suffix"):
        d["file_suffix"] = cfg["suffix"]
    if cfg.get("key"):
        d["lookup_key"] = cfg["key"]
    if cfg.get("ph") is not None:
        d["lookup_value_placeholder"] = cfg["ph"]
    d["lookup_no_result_action"] = "continue" if cfg.get("cont") else "not_found"
    if cfg.get("ign"):
        d["data_source_error_action"] = "ignore" if cfg["ign"] == 1 else "warn"
    chain = []
    if cfg.get("tpre"):
        chain.append({"string.add_prefix": cfg["tpre"]})
    if cfg.get("tsuf"):
        chain.append({"string.add_suffix": [cfg["tsuf"]]})
    if cfg.get("chain"):
        chain = cfg["chain"]          # an explicit chain (may end in a function returning a non-str value)
    if chain:
        d["lookup_value_transform"] = chain
    if cfg.get("template"):
        d["template"] = "jinja"
        d["template_config"] = {"context": {"dump": _dump}, "cache_enabled": bool(template_cache)}
    return d


def cfg_sx(cfg):
    """the configuration as the models read it (target absolute)"""
    return [cfg["rpath"], bool(cfg["filemode"]), target_for_model(cfg), cfg.get("suffix") or "",
            cfg.get("key") or "", PH_DEFAULT if cfg.get("ph") is None else cfg["ph"], bool(cfg.get("cont")),
            bool(cfg.get("ign")), bool(cfg.get("template"))]


def build(cfg, tftp, source=None, template_cache=True):
    """-> handler or None when the constructor rejects the configuration with ValueError"""
    d = config_dict(cfg, template_cache)
    try:
        h = F.get_instance_tftp(d) if tftp else F.get_instance_http(d)
    except ValueError:
        return None
    if source is not None:
        h.set_data_source(source)
    return h


CLIENT = ("192.0.2.7", 40000)
SERVER = ("192.0.2.1", 69)
NOTFOUND, FORBIDDEN, ERROR, CONTENT = 0, 1, 2, 3


def run_handle(h, tftp, uri, ctx):
    """calls the real handle(); -> (class, body bytes or None)"""
    try:
        if tftp:
            try:
                f = h.handle(uri, CLIENT, SERVER, ctx)
            except TftpError as e:
                if e.error_code == ErrorCode.FILE_NOT_FOUND:
                    return NOTFOUND, None
                if e.error_code == ErrorCode.ACCESS_VIOLATION:
                    return FORBIDDEN, None
                return ERROR, None
            with f:
                return CONTENT, f.read()
        ri = HttpRequestInfo(client_address=CLIENT, headers=http.client.HTTPMessage(), method="GET",
                             server_address=(SERVER[0], 80), uri=uri)
        status, _headers, f = h.handle(ri, None, ctx)
        if status == 200 and f is not None:
            with f:
                return CONTENT, f.read()
        if status == 404:
            return NOTFOUND, None
        if status == 403:
            return FORBIDDEN, None
        return ERROR, None
    except (Exception, HarnessBaseException):    # anything that would reach the server's internal-error path
        return ERROR, None


# ----------------------------------------------------------------------------- the real servers in front of a handler
class _Recording:
    """stands in the server's handler list in front of the real handler: forwards every call and records what the
    server passed in and what came back"""

    def __init__(self):
        self.inner = None
        self.seen = None          # (string passed to prepare_context, context, can_handle result)

    def prepare_context(self, uri):
        ctx = self.inner.prepare_context(uri)
        self.seen = [uri, ctx, None]
        return ctx

    def can_handle(self, uri, context):
        r = self.inner.can_handle(uri, context)
        if self.seen is not None:
            self.seen[2] = bool(r)
        return r


class _HttpFront(_Recording, HttpRequestHandler):
    def handle(self, request_info, body, context):
        return self.inner.handle(request_info, body, context)


class _TftpFront(_Recording, TftpRequestHandler):
    def handle(self, filename, client_address, server_address, context):
        return self.inner.handle(filename, client_address, server_address, context)


class _HttpFallback(HttpRequestHandler):
    """answers whatever the handler in front declined"""

    def prepare_context(self, uri):
        return None

    def can_handle(self, uri, context):
        return True

    def handle(self, request_info, body, context):
        import io as _io
        from http import HTTPStatus as _S
        return _S.IM_A_TEAPOT, None, _io.BytesIO(b"declined")


class _TftpFallback(TftpRequestHandler):
    def prepare_context(self, filename):
        return None

    def can_handle(self, filename, context):
        return True

    def handle(self, filename, client_address, server_address, context):
        import io as _io
        return _io.BytesIO(b"\x00declined\x00")


DECLINED = 4
_servers = {}
_prev_excepthook = None


def _quiet_excepthook(args):
    # a BaseException-derived exception of the recording data source ends the server's request thread (that is the
    # expected behaviour); do not print its traceback
    if isinstance(args.exc_value, HarnessBaseException):
        return
    _prev_excepthook(args)


def _http_server():
    global _prev_excepthook
    if _prev_excepthook is None:
        import threading as _th
        _prev_excepthook = _th.excepthook
        _th.excepthook = _quiet_excepthook
    if "http" not in _servers:
        from vinegar.http.server import HttpServer
        front = _HttpFront()
        srv = HttpServer([front, _HttpFallback()], "::1", 0)
        srv.start()
        atexit.register(srv.stop)
        _servers["http"] = (srv, front, pubscan.base_server(srv).socket.getsockname()[1])
    return _servers["http"]


def _tftp_server():
    if "tftp" not in _servers:
        from vinegar.tftp.server import TftpServer
        front = _TftpFront()
        srv = TftpServer([front, _TftpFallback()], "::1", common.free_udp_port(), default_timeout=2.0, max_retries=1)
        srv.start()
        atexit.register(srv.stop)
        _servers["tftp"] = (srv, front, pubscan.udp_socket(srv).getsockname()[1])
    return _servers["tftp"]


def servable(tftp, uri):
    """can this request string travel through the real server unchanged?"""
    if tftp:
        return all(0 < ord(c) < 128 for c in uri) and len(uri) < 400
    return (uri.startswith("/") and all(ord(c) > 32 and ord(c) != 127 and ord(c) < 256 for c in uri)
            and len(uri) < 8000)


def wire_to_handler(tftp, wire):
    """what the server in front is specified to hand to the handler for a request target / file name on the wire:
    the raw string, except that Python's http.server collapses a run of leading slashes into one (CPython gh-87389,
    part of BaseHTTPRequestHandler.parse_request); the TFTP server passes the file name as it is"""
    if not tftp and wire.startswith("//"):
        return "/" + wire.lstrip("/")
    return wire


def via_server(h, tftp, uri):
    """one request through the real HttpServer / TftpServer with handler h behind it (raw request target / file
    name on the wire) -> (string the server handed to the handler, context, can_handle, class, body)"""
    import socket as _socket
    if tftp:
        _srv, front, port = _tftp_server()
        front.inner, front.seen = h, None
        s = _socket.socket(_socket.AF_INET6, _socket.SOCK_DGRAM)
        s.settimeout(3.0)
        try:
            s.sendto(b"\x00\x01" + uri.encode("ascii") + b"\x00octet\x00", ("::1", port))
            cls, body = ERROR, b""
            data = b""
            for _ in range(64):
                try:
                    pkt, peer = s.recvfrom(65536)
                except _socket.timeout:
                    cls = ERROR
                    break
                if pkt[:2] == b"\x00\x03":
                    data += pkt[4:]
                    s.sendto(b"\x00\x04" + pkt[2:4], peer)
                    if len(pkt) - 4 < 512:
                        cls, body = CONTENT, data
                        break
                elif pkt[:2] == b"\x00\x05":
                    code = int.from_bytes(pkt[2:4], "big")
                    cls = NOTFOUND if code == 1 else FORBIDDEN if code == 2 else ERROR
                    break
                else:
                    break
        finally:
            s.close()
        if cls == CONTENT and body == b"\x00declined\x00":
            cls, body = DECLINED, b""
    else:
        _srv, front, port = _http_server()
        front.inner, front.seen = h, None
        s = _socket.create_connection(("::1", port), timeout=5.0)
        try:
            s.sendall(b"GET " + uri.encode("latin-1") + b" HTTP/1.0\r\nHost: x\r\n\r\n")
            buf = b""
            while True:
                chunk = s.recv(65536)
                if not chunk:
                    break
                buf += chunk
        except _socket.timeout:
            buf = b""
        finally:
            s.close()
        head, _, body = buf.partition(b"\r\n\r\n")
        try:
            status = int(head.split(b" ", 2)[1])
        except Exception:
            status = 0
        cls = {200: CONTENT, 404: NOTFOUND, 403: FORBIDDEN, 418: DECLINED}.get(status, ERROR)
        if cls != CONTENT:
            body = b""
    seen = front.seen or [None, None, False]
    front.inner = None
    return seen[0], seen[1], bool(seen[2]), cls, body


def decision(can):
    """the context object returned by prepare_context is opaque in the public API: the observation of the matching is
    the boolean of can_handle (the extracted lookup value shows in the data-source calls, the extra path in the file
    that is served)"""
    return [bool(can), [], []]


# ----------------------------------------------------------------------------- strings <-> sx
def sxstr(s):
    """mirror of Codec.sxStr: bytes when all code points < 256, else list of ints"""
    if isinstance(s, bytes):
        return s
    if all(ord(c) < 256 for c in s):
        return s.encode("latin-1")
    return [ord(c) for c in s]


def deep_sxstr(o):
    if isinstance(o, str):
        return sxstr(o)
    if isinstance(o, (list, tuple)):
        return [deep_sxstr(x) for x in o]
    if isinstance(o, bool):
        return int(o)
    return o


# ----------------------------------------------------------------------------- request strings
def char_sweep():
    """every character a request string may contain, raw (1..255; NUL is excluded by the properties) and
    percent-encoded (lower and upper hex)"""
    for b in range(1, 256):
        yield chr(b)
    for b in range(1, 256):
        yield "%%%02x" % b
        if "%%%02x" % b != "%%%02X" % b:
            yield "%%%02X" % b


def pct_all(s):
    """the same string with every character percent-encoded (three characters per character)"""
    return "".join("%%%02x" % b for b in s.encode("utf-8"))


def long_requests(base, limits=(255, 256, 257, 300, 1000, 4096, 4097)):
    """legal spellings of `base` at and beyond every natural length limit: padded with a query string"""
    for n in limits:
        if n > len(base) + 1:
            yield base + "?" + "q" * (n - len(base) - 1)


def tokens_upto(alphabet, n):
    seen = set()
    for k in range(0, n + 1):
        for t in itertools.product(alphabet, repeat=k):
            s = "".join(t)
            if s not in seen:
                seen.add(s)
                yield s


def edits(tokens, alphabet, depth):
    """all token sequences within `depth` single-token edits (delete / replace / insert) of tokens"""
    frontier = {tuple(tokens)}
    allseen = set(frontier)
    for _ in range(depth):
        nxt = set()
        for t in frontier:
            for i in range(len(t)):
                nxt.add(t[:i] + t[i + 1:])
                for a in alphabet:
                    nxt.add(t[:i] + (a,) + t[i + 1:])
            for i in range(len(t) + 1):
                for a in alphabet:
                    nxt.add(t[:i] + (a,) + t[i:])
        frontier = nxt - allseen
        allseen |= nxt
    return allseen
