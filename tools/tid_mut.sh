#!/bin/sh
# tools/tid_mut.sh <patch.diff> [--tier T]
# Runs the standalone TID runner (harness/c09_tid.py) against a scratch worktree of /repo with the patch applied.
# Mutation diffs: tools/mutations/c09tid/*.diff
patch=$(readlink -f "$1"); shift
wt=$(mktemp -d /tmp/vwt.XXXXXX)
git -C /repo worktree add -q --detach "$wt" HEAD
cleanup() { git -C /repo worktree remove --force "$wt" 2>/dev/null || rm -rf "$wt"; }
trap cleanup EXIT
git -C "$wt" apply "$patch" || exit 2
cd "$(dirname "$0")/.."
VERIF_REPO="$wt" PYTHONPATH="$wt" PYTHONHASHSEED=0 PYTHONDONTWRITEBYTECODE=1 /venv/bin/python harness/c09_tid.py "$@" || echo "exit=$?"
