(* Model of the per-transfer state machine of vinegar/tftp/server.py:
   _TftpReadRequest._process_request / _send_options_ack / _send_data /
   _send_data_block / _receive / _receive_ack / _calc_next_block_number.
   The blocking socket code becomes a function from a script of time-stamped
   incoming datagrams to the trace of everything that happens on the socket.
   Definitions only. *)
From Coq Require Import List NArith ZArith Bool.
Import ListNotations.
Open Scope Z_scope.

(* addresses: 0 = the requesting client, anything else = a foreign sender *)
Definition addr := N.
Definition client : addr := 0%N.

Inductive event := Recv (t : Z) (from : addr) (d : list N).

(* packets the server sends, structurally (message texts are not modelled) *)
Inductive pkt :=
| PData (blk : N) (payload : list N)
| POack (opts : list (list N * list N))
| PError (code : N)
| PMalformed (raw : list N).   (* never sent by the model: a datagram of the implementation that is no well-formed DATA/OACK/ERROR *)

Inductive tr :=
| TSend (t : Z) (to : addr) (p : pkt)
| TRecv (t : Z) (from : addr) (d : list N)
| TTimeout (t : Z)
| TLogExc            (* the catch-all `except Exception` branch was taken *)
| TCloseFile
| TCloseSock.

(* behaviour variants: the current code and the defects repaired by fix commits *)
Record variants := {
  retry_fallthrough : bool;   (* D1: retry exhaustion returns normally instead of raising *)
  errcode_raises : bool;      (* D5: ErrorCode(n) for n > 8 escapes decode_error *)
  late_recv : bool            (* D20: with no time left in a try, one more receive with a 1-tick time-out *)
}.
Definition current : variants := {| retry_fallthrough := false; errcode_raises := false; late_recv := false |}.

Record cfg := {
  tmo : Z;                    (* retransmission interval in clock ticks, > 0 *)
  retries : nat;              (* max_retries *)
  wrap : option N;            (* block_counter_wrap_value *)
  proc : Z;                   (* time the server needs to take one datagram off the socket, >= 0 *)
  v : variants
}.

(* ---- classification of a datagram from the peer: _receive_ack ---- *)
Inductive cls := CAck (n : N) | CPeerError | CInvalid | CInternal.

Definition u16 (hi lo : N) : N := (hi * 256 + lo)%N.

Definition classify (vr : variants) (d : list N) : cls :=
  match d with
  | hi :: lo :: r =>
      let op := u16 hi lo in
      if (op =? 4)%N then
        match r with
        | [b1; b2] => CAck (u16 b1 b2)
        | _ => CInvalid
        end
      else if (op =? 5)%N then
        match r with
        | c1 :: c2 :: _ => if errcode_raises vr && (8 <? u16 c1 c2)%N then CInternal else CPeerError
        | _ => CPeerError
        end
      else CInvalid
  | _ => CInvalid
  end.

(* ---- waiting for the acknowledgement of one send: _receive + inner loop ----
   _set_socket_timeout: when no time is left in this try the time-out fires at once
   (before D20 was repaired: one more receive with a 1 ms time-out).  Otherwise the
   head event is delivered iff its arrival time is before the deadline, and taking
   it off the socket costs `proc` ticks; else the time-out fires at the deadline and
   the event stays queued. *)
Inductive outcome := OAcked | OTimeout | OPeerError | OInvalid | OInternal.

Definition sock_timeout (now deadline : Z) : Z :=
  if 0 <? deadline - now then deadline - now else 1.

Fixpoint await (c : cfg) (want : N) (now deadline : Z) (evs : list event)
  : outcome * Z * list event * list tr :=
  if negb (late_recv (v c)) && (deadline <=? now) then (OTimeout, now, evs, [TTimeout now]) else
  match evs with
  | [] => let t := now + sock_timeout now deadline in (OTimeout, t, [], [TTimeout t])
  | Recv t a d :: r =>
      let lim := now + sock_timeout now deadline in
      if t <? lim then
        let now' := Z.max now t + proc c in
        if negb (a =? client)%N then
          let '(o, n2, e2, l2) := await c want now' deadline r in
          (o, n2, e2, TRecv t a d :: TSend now' a (PError 5) :: l2)
        else
          match classify (v c) d with
          | CAck n =>
              if (n =? want)%N then (OAcked, now', r, [TRecv t a d])
              else let '(o, n2, e2, l2) := await c want now' deadline r in
                   (o, n2, e2, TRecv t a d :: l2)
          | CPeerError => (OPeerError, now', r, [TRecv t a d])
          | CInvalid => (OInvalid, now', r, [TRecv t a d])
          | CInternal => (OInternal, now', r, [TRecv t a d])
          end
      else (OTimeout, lim, evs, [TTimeout lim])
  end.

(* ---- one packet with its retries: _send_data_block / _send_options_ack ----
   result OTimeout = socket.timeout propagated (gave up);
   in the D1 variant exhaustion ends the loop normally, which the caller
   cannot distinguish from an acknowledgement (OAcked). *)
Fixpoint send_tries (c : cfg) (tries : nat) (p : pkt) (want : N) (now : Z) (evs : list event)
  : outcome * Z * list event * list tr :=
  match tries with
  | O => (OAcked, now, evs, [])        (* while-condition false: loop ends normally *)
  | S k =>
      let '(o, n1, e1, l1) := await c want now (now + tmo c) evs in
      match o with
      | OTimeout =>
          match k with
          | O => if retry_fallthrough (v c) then (OAcked, n1, e1, TSend now client p :: l1)
                 else (OTimeout, n1, e1, TSend now client p :: l1)
          | S _ => let '(o2, n2, e2, l2) := send_tries c k p want n1 e1 in
                   (o2, n2, e2, TSend now client p :: l1 ++ l2)
          end
      | _ => (o, n1, e1, TSend now client p :: l1)
      end
  end.

(* ---- block numbering: _calc_next_block_number ---- *)
Definition next_block (w : option N) (n : N) : option N :=
  if (n =? 65535)%N then w else Some (n + 1)%N.

(* ---- the sequence of packets of a transfer ---- *)
Inductive ending := EDone | EOverflow.

(* _send_data over the list of blocks the reader yields *)
Fixpoint send_blocks (c : cfg) (blk : N) (blocks : list (list N)) (now : Z) (evs : list event)
  : (outcome + ending) * Z * list event * list tr :=
  match blocks with
  | [] => (inr EDone, now, evs, [])
  | b :: rest =>
      match next_block (wrap c) blk with
      | None => (inr EOverflow, now, evs, [])
      | Some n =>
          let '(o, n1, e1, l1) := send_tries c (S (retries c)) (PData n b) n now evs in
          match o with
          | OAcked => let '(o2, n2, e2, l2) := send_blocks c n rest n1 e1 in (o2, n2, e2, l1 ++ l2)
          | _ => (inl o, n1, e1, l1)
          end
      end
  end.

(* _process_request: optional OACK, the data, then the except-ladder *)
Definition finish (r : outcome + ending) (now : Z) : list tr :=
  match r with
  | inr EDone => []
  | inr EOverflow => [TSend now client (PError 0)]
  | inl OInvalid => [TSend now client (PError 0)]
  | inl OInternal => [TLogExc; TSend now client (PError 0)]
  | inl _ => []          (* timeout, peer error: end silently *)
  end.

(* the whole transfer: how it ended and the trace *)
Definition transfer_r (c : cfg) (oack : list (list N * list N)) (blocks : list (list N)) (evs : list event)
  : (outcome + ending) * list tr :=
  let '(r, now, l) :=
    match oack with
    | [] => let '(r, n, _, l) := send_blocks c 0%N blocks 0 evs in (r, n, l)
    | _ => let '(o, n1, e1, l1) := send_tries c (S (retries c)) (POack oack) 0%N 0 evs in
           match o with
           | OAcked => let '(r, n2, _, l2) := send_blocks c 0%N blocks n1 e1 in (r, n2, l1 ++ l2)
           | _ => (inl o, n1, l1)
           end
    end in
  (r, l ++ finish r now ++ [TCloseFile; TCloseSock]).

Definition transfer (c : cfg) (oack : list (list N * list N)) (blocks : list (list N)) (evs : list event)
  : list tr := snd (transfer_r c oack blocks evs).
