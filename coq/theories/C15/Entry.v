(* C15: case/observation types, executable checker [holds], sx entry point. *)
From Coq Require Import String.
From Coq Require Import List NArith ZArith Bool Arith.
From VF Require Import Base.Sx Sqlite.Model.
Import ListNotations.
Open Scope N_scope.

(* ---------- oracle tables ---------- *)
Record tables := {
  t_loads : list (str * pv);
  t_int : list (str * option Z);
  t_json : list (str * option (pv * str));
  t_text : list (str * option (pv * str));
  t_unq : list (str * str) }.
Fixpoint assoc {V} (k : str) (l : list (str * V)) : option V :=
  match l with
  | [] => None
  | (k', v) :: r => if str_eqb k k' then Some v else assoc k r
  end.
Definition oracle_of (t : tables) : oracle :=
  {| o_loads := fun s => match assoc s (t_loads t) with Some v => v | None => POther 2 end;
     o_int := fun s => match assoc s (t_int t) with Some z => z | None => None end;
     o_jsonbody := fun s => match assoc s (t_json t) with Some r => r | None => None end;
     o_textbody := fun s => match assoc s (t_text t) with Some r => r | None => None end;
     o_unquote := fun s => match assoc s (t_unq t) with Some r => r | None => s end |}.

Record case := { tabs : tables; hs : handles; steps : list step }.
Definition obs := list (result * tbl).
Definition run_model (c : case) : obs := run (oracle_of (tabs c)) (hs c) (steps c) false [].

(* ---------- sx encodings ---------- *)
Definition key_sx (k : pkey) : sx :=
  match k with
  | KStr s => L [I 0%Z; B s] | KInt z => L [I 1%Z; I z] | KBool b => L [I 2%Z; sxBool b]
  | KNone => L [I 3%Z] | KBad => L [I 4%Z]
  end.
Fixpoint pv_sx (v : pv) : sx :=
  match v with
  | PNone => L [I 0%Z]
  | PBool b => L [I 1%Z; sxBool b]
  | PInt z => L [I 2%Z; I z]
  | PFloat r => L [I 3%Z; B r]
  | PStr s => L [I 4%Z; B s]
  | PList l => L [I 5%Z; L (map pv_sx l)]
  | PTuple l => L [I 6%Z; L (map pv_sx l)]
  | PDict l => L [I 7%Z; L ((fix go (l : list (pkey * pv)) : list sx :=
                               match l with
                               | [] => []
                               | (k, x) :: r => L [key_sx k; pv_sx x] :: go r
                               end) l)]
  | POther e => L [I 8%Z; sxN e]
  end.
Definition ostr_sx (o : option str) : sx := match o with None => L [] | Some s => L [B s] end.
Definition tbl_sx (m : tbl) : sx := L (map (fun e => L [B (fst (fst e)); B (snd (fst e)); B (snd e)]) m).
Definition result_sx (r : result) : sx :=
  match r with
  | RUnit => L [I 0%Z]
  | RVal v => L [I 1%Z; pv_sx v]
  | RRows l => L [I 2%Z; L (map (fun kv => L [B (fst kv); pv_sx (snd kv)]) l)]
  | RList l => L [I 3%Z; L (map B l)]
  | ROpt o => L [I 4%Z; ostr_sx o]
  | RData v => L [I 5%Z; pv_sx v]
  | RHttp n => L [I 6%Z; sxN n]
  | RNoMatch => L [I 7%Z]
  | RRaise e => L [I 8%Z; sxN e]
  end.
Definition obs_sx (o : obs) : sx := L (map (fun rd => L [result_sx (fst rd); tbl_sx (snd rd)]) o).

(* ---------- decoding ---------- *)
Definition dec_key (x : sx) : option pkey :=
  match x with
  | L [I 0%Z; B s] => Some (KStr s)
  | L [I 1%Z; I z] => Some (KInt z)
  | L [I 2%Z; b] => option_map KBool (asBool b)
  | L [I 3%Z] => Some KNone
  | L [I 4%Z] => Some KBad
  | _ => None
  end.
Fixpoint dec_pv (x : sx) : option pv :=
  match x with
  | L [I 0%Z] => Some PNone
  | L [I 1%Z; b] => option_map PBool (asBool b)
  | L [I 2%Z; I z] => Some (PInt z)
  | L [I 3%Z; B r] => Some (PFloat r)
  | L [I 4%Z; B s] => Some (PStr s)
  | L [I 5%Z; L l] => option_map PList ((fix go (l : list sx) : option (list pv) :=
                         match l with
                         | [] => Some []
                         | y :: r => match dec_pv y, go r with Some v, Some r' => Some (v :: r') | _, _ => None end
                         end) l)
  | L [I 6%Z; L l] => option_map PTuple ((fix go (l : list sx) : option (list pv) :=
                         match l with
                         | [] => Some []
                         | y :: r => match dec_pv y, go r with Some v, Some r' => Some (v :: r') | _, _ => None end
                         end) l)
  | L [I 7%Z; L l] => option_map PDict ((fix go (l : list sx) : option (list (pkey * pv)) :=
                         match l with
                         | [] => Some []
                         | L [k; y] :: r =>
                             match dec_key k, dec_pv y, go r with
                             | Some k', Some v, Some r' => Some ((k', v) :: r')
                             | _, _, _ => None
                             end
                         | _ => None
                         end) l)
  | L [I 8%Z; e] => option_map POther (asN e)
  | _ => None
  end.
Definition dec_ostr (x : sx) : option (option str) :=
  match x with L [] => Some None | L [B s] => Some (Some s) | _ => None end.
Definition dec_tbl (x : sx) : option tbl :=
  asListOf (fun y => match y with L [B s; B k; B t] => Some ((s, k), t) | _ => None end) x.
Definition dec_result (x : sx) : option result :=
  match x with
  | L [I 0%Z] => Some RUnit
  | L [I 1%Z; v] => option_map RVal (dec_pv v)
  | L [I 2%Z; l] => option_map RRows (asListOf (fun y => match y with
                                                         | L [B k; v] => option_map (pair k) (dec_pv v)
                                                         | _ => None end) l)
  | L [I 3%Z; l] => option_map RList (asListOf asB l)
  | L [I 4%Z; o] => option_map ROpt (dec_ostr o)
  | L [I 5%Z; v] => option_map RData (dec_pv v)
  | L [I 6%Z; n] => option_map RHttp (asN n)
  | L [I 7%Z] => Some RNoMatch
  | L [I 8%Z; e] => option_map RRaise (asN e)
  | _ => None
  end.
Definition dec_obs (x : sx) : option obs :=
  asListOf (fun y => match y with
                     | L [r; d] => obind (dec_result r) (fun r => option_map (pair r) (dec_tbl d))
                     | _ => None end) x.
Definition dec_pvtxt (x : sx) : option (option (pv * str)) :=
  match x with
  | L [] => Some None
  | L [v; B t] => option_map (fun v => Some (v, t)) (dec_pv v)
  | _ => None
  end.
Definition dec_tables (x : sx) : option tables :=
  match x with
  | L [lo; it; js; tx; uq] =>
      obind (asListOf (fun y => match y with L [B t; v] => option_map (pair t) (dec_pv v) | _ => None end) lo) (fun lo =>
      obind (asListOf (fun y => match y with
                                | L [B s; L []] => Some (s, None)
                                | L [B s; L [I z]] => Some (s, Some z)
                                | _ => None end) it) (fun it =>
      obind (asListOf (fun y => match y with L [B r; p] => option_map (pair r) (dec_pvtxt p) | _ => None end) js) (fun js =>
      obind (asListOf (fun y => match y with L [B r; p] => option_map (pair r) (dec_pvtxt p) | _ => None end) tx) (fun tx =>
      obind (asListOf (fun y => match y with L [B a; B b] => Some (a, b) | _ => None end) uq) (fun uq =>
      Some {| t_loads := lo; t_int := it; t_json := js; t_text := tx; t_unq := uq |})))))
  | _ => None
  end.
Definition dec_action (x : sx) : option haction :=
  match x with
  | L [I 0%Z] => Some ADeleteData
  | L [I 1%Z; B k] => Some (ADeleteValue k)
  | L [I 2%Z; B k; v; t] => obind (dec_pv v) (fun v => option_map (ASetValue k v) (dec_ostr t))
  | L [I 3%Z; B k] => Some (ASetJson k)
  | L [I 4%Z; B k] => Some (ASetText k)
  | _ => None
  end.
Definition dec_handles (x : sx) : option handles :=
  match x with
  | L [st; sr; hd] =>
      obind (asListOf asBool st) (fun st =>
      obind (asListOf (fun y => match y with
                                | L [B p; f] => option_map (fun f => {| prefix := p; find_enabled := f |}) (asBool f)
                                | _ => None end) sr) (fun sr =>
      obind (asListOf (fun y => match y with
                                | L [B p; a; r] => obind (dec_action a) (fun a => option_map (fun r =>
                                                   {| req_path := p; act := a; restricted := r |}) (asBool r))
                                | _ => None end) hd) (fun hd =>
      Some {| stores := st; sources := sr; handlers := hd |})))
  | _ => None
  end.
Definition dec_sop (x : sx) : option sop :=
  match x with
  | L [I 0%Z; B s; B k; v; t] => obind (dec_pv v) (fun v => option_map (OSet s k v) (dec_ostr t))
  | L [I 1%Z; B s; B k] => Some (OGet s k)
  | L [I 2%Z; B s] => Some (OGetData s)
  | L [I 3%Z; B s; B k] => Some (ODel s k)
  | L [I 4%Z; B s] => Some (ODelAll s)
  | L [I 5%Z; B k; v; t] => obind (dec_pv v) (fun v => option_map (OFind k v) (dec_ostr t))
  | L [I 6%Z] => Some OList
  | _ => None
  end.
Definition dec_qop (x : sx) : option qop :=
  match x with
  | L [I 0%Z; B s] => Some (QGet s)
  | L [I 1%Z; B k; v; t] => obind (dec_pv v) (fun v => option_map (QFind k v) (dec_ostr t))
  | _ => None
  end.
Definition dec_request (x : sx) : option request :=
  match x with
  | L [B m; B u; a; cl; B b; vs] =>
      obind (asBool a) (fun a => obind (dec_ostr cl) (fun cl => obind (asBool vs) (fun vs =>
      Some {| meth := m; uri := u; allowed := a; clen := cl; body := b; via_server := vs |})))
  | _ => None
  end.
Definition dec_mop (x : sx) : option mop :=
  match x with
  | L [I 0%Z; B s; B k; B t] => Some (MSet s k t)
  | L [I 1%Z; B s; B k] => Some (MDel s k)
  | L [I 2%Z; B s] => Some (MDelAll s)
  | _ => None
  end.

Definition dec_step (x : sx) : option step :=
  match x with
  | L [I 0%Z; i; o] => obind (asNat i) (fun i => option_map (SStore i) (dec_sop o))
  | L [I 1%Z; i; q] => obind (asNat i) (fun i => option_map (SSource i) (dec_qop q))
  | L [I 2%Z; i; r] => obind (asNat i) (fun i => option_map (SHandler i) (dec_request r))
  | L [I 3%Z; b] => option_map SLock (asBool b)
  | L [I 4%Z; o] => option_map SExt (dec_mop o)
  | _ => None
  end.
(* ---------- the executable checker: operation sequences ---------- *)
Definition list_N_eqb (a b : list N) : bool := if list_eq_dec N.eq_dec a b then true else false.
Definition sx_eqb (a b : sx) : bool := list_N_eqb (print a) (print b).
Definition res_eqb (a b : result) : bool := sx_eqb (result_sx a) (result_sx b).
Definition tbl_eqb (a b : tbl) : bool := sx_eqb (tbl_sx a) (tbl_sx b).
Definition opv_eqb (a b : option pv) : bool :=
  match a, b with
  | None, None => true
  | Some x, Some y => sx_eqb (pv_sx x) (pv_sx y)
  | _, _ => false
  end.

Definition res_clause (st : step) : string :=
  match st with
  | SStore _ (OSet _ _ _ _) => "set_value_strict_check"
  | SStore _ (OGet _ _) | SStore _ (OGetData _) => "read_returns_last_written_value"
  | SStore _ (OFind _ _ _) | SStore _ OList => "find_equal_json_text_sorted"
  | SStore _ _ => "delete_result"
  | SSource _ _ => "prefix_consistent"
  | SHandler _ _ => "update_handler_exact"
  | SLock _ | SExt _ => "external_step"
  end%string.
Definition dump_clause (st : step) (mutates : bool) : string :=
  match st with
  | SHandler _ _ => "update_handler_exact"
  | _ => if mutates then "write_visible_to_other_process_at_once" else "rejected_or_read_changes_nothing"
  end%string.
Definition would_write (O : oracle) (H : handles) (st : step) (m : tbl) : bool :=
  match fst (do_step O H st m) with Some _ => true | None => false end.

(* each step is judged on the table the other process saw after the previous step *)
Fixpoint check (O : oracle) (H : handles) (sts : list step) (lk : bool) (m : tbl) (o : obs) : list string :=
  match sts with
  | [] => match o with [] => [] | _ :: _ => ["obs_shape"%string] end
  | st :: r =>
      match o with
      | [] => ["obs_shape"%string]
      | (res, d) :: o' =>
          match do_step_l O H st lk m with
          | (mo, res_m, lk') =>
              let m' := apply_omop m mo in
              let failing_write := lk && would_write O H st m in
              (if res_eqb res (view st res_m) then [] else
                 [if failing_write then "locked_write_reports_failure"%string else res_clause st]) ++
              (if tbl_eqb d (dump m') then [] else
                 [if failing_write then "locked_write_changes_nothing"%string
                  else dump_clause st (match mo with Some _ => true | None => false end)]) ++
              check O H r lk' (if tbl_eqb d (dump m') then m' else d) o'
          end
      end
  end.

(* the values of a case with their json.dumps text *)
Definition step_values (st : step) : list (pv * option str) :=
  match st with
  | SStore _ (OSet _ _ v t) | SStore _ (OFind _ v t) | SSource _ (QFind _ v t) => [(v, t)]
  | _ => []
  end.
Definition handler_values (c : hcfg) : list (pv * option str) :=
  match act c with ASetValue _ v t => [(v, t)] | _ => [] end.
Definition case_values (c : case) : list (pv * option str) :=
  flat_map step_values (steps c) ++ flat_map handler_values (handlers (hs c)).
(* json_image is what loads(dumps(v)) gives *)
Definition image_ok (O : oracle) (vt : pv * option str) : bool :=
  opv_eqb (json_image (fst vt)) (option_map (o_loads O) (snd vt)).
(* _check_value accepts exactly the values that are their own image *)
Definition strict_ok (vt : pv * option str) : bool :=
  Bool.eqb (check_value (fst vt)) (opv_eqb (json_image (fst vt)) (Some (fst vt))).

Definition holds (c : case) (o : obs) : list string :=
  nodup string_dec
    (check (oracle_of (tabs c)) (hs c) (steps c) false [] o ++
     (if forallb (image_ok (oracle_of (tabs c))) (case_values c) then [] else ["json_image_is_loads_dumps"%string])).

(* hypothesis of the property on the oracle: loads(dumps(v)) is json_image v for the values of the case *)
Definition valid (c : case) : Prop :=
  forallb (image_ok (oracle_of (tabs c))) (case_values c) = true.

(* ---------- the executable checker: killed writer ---------- *)
Definition holds_crash (ops : list mop) (acked : nat) (observed : tbl) : list string :=
  let cand := fun k => dump (fold_left apply_mop (firstn k ops) []) in
  if (Nat.leb acked (length ops) && tbl_eqb observed (cand acked))
     || (Nat.leb (S acked) (length ops) && tbl_eqb observed (cand (S acked)))
  then [] else ["crash_prefix"%string].

(* [valid] as a boolean: valid is already the boolean statement "loads(dumps v) = json_image v for the values of
   the case"; for a killed-writer line the hypothesis of C15_holds_crash (some trace of the writer reaches this
   number of acknowledgements) is acked <= number of operations *)
Definition validb (c : case) : bool := forallb (image_ok (oracle_of (tabs c))) (case_values c).
Definition validb_crash (ops : list mop) (acked : nat) : bool := Nat.leb acked (length ops).

Definition entry (x : sx) : sx :=
  match x with
  | L [L [I 0%Z; tb; hd; sts]; ox] =>
      match dec_tables tb, dec_handles hd, asListOf dec_step sts, dec_obs ox with
      | Some tb, Some hd, Some sts, Some io =>
          let c := {| tabs := tb; hs := hd; steps := sts |} in
          let m := run_model c in
          L [ obs_sx m; L (map sxS (holds c m)); L (map sxS (holds c io));
              L (map (fun vt => sxBool (strict_ok vt)) (case_values c)); sxBool (validb c) ]
      | None, _, _, _ => sxS "bad-tables"
      | _, None, _, _ => sxS "bad-handles"
      | _, _, None, _ => sxS "bad-steps"
      | _, _, _, None => sxS "bad-obs"
      end
  | L [L [I 1%Z; ops]; L [a; d]] =>
      match asListOf dec_mop ops, asNat a, dec_tbl d with
      | Some ops, Some a, Some d =>
          L [ L [tbl_sx (dump (fold_left apply_mop (firstn a ops) [])); tbl_sx (dump (fold_left apply_mop (firstn (S a) ops) []))];
              L []; L (map sxS (holds_crash ops a d)); L []; sxBool (validb_crash ops a) ]
      | _, _, _ => sxS "bad-crash-case"
      end
  | _ => sxS "bad-line"
  end.
