(* Model of vinegar/data_source/__init__.py: _merge_data_trees, _CompositeDataSource,
   and of vinegar/utils/version.py: aggregate_version.  Definitions only. *)
From Coq Require Import List NArith ZArith Bool Arith.
From VF Require Import PyVal.Val.
Import ListNotations.

(* kind tests of _merge_data_trees: Mapping / Set / Sequence-but-not-string *)
Definition is_map (v : val) : bool := match v with VDict _ => true | _ => false end.
Definition is_set (v : val) : bool := match v with VSet _ => true | _ => false end.
Definition is_seq (v : val) : bool := match v with VList _ | VTuple _ => true | _ => false end.
Definition seq_items (v : val) : list val := match v with VList l | VTuple l | VSet l => l | _ => [] end.

(* merged_list = list(value); for element in override: if element not in merged_list: merged_list += [element] *)
Fixpoint add_unseen (acc over : list val) : list val :=
  match over with
  | [] => acc
  | e :: r => if mem e acc then add_unseen acc r else add_unseen (acc ++ [e]) r
  end.
(* value | override_value *)
Definition set_union (a b : list val) : list val := a ++ filter (fun e => negb (mem e a)) b.

(* first loop of _merge_data_trees over tree1.items(), [f] = treatment of a key present in both *)
Section MapItems.
  Variable f : val -> val -> res val.
  Variable d2 : dict.
  Fixpoint map_items (l : dict) : res dict :=
    match l with
    | [] => Ok []
    | (k, x) :: r =>
        match lookup k d2 with
        | Some y => bind (f x y) (fun z => bind (map_items r) (fun r' => Ok ((k, z) :: r')))
        | None => bind (map_items r) (fun r' => Ok ((k, x) :: r'))
        end
    end.
End MapItems.

(* second loop: keys of tree2 not yet in merged *)
Definition new_items (d1 d2 : dict) : dict := filter (fun kv => negb (has (fst kv) d1)) d2.

Section Merge.
  Variables ml ms : bool.            (* merge_lists, merge_sets *)

  (* the if/elif chain for a key present in both trees *)
  Fixpoint combine (v ov : val) {struct v} : res val :=
    match v, ov with
    | VDict d1, VDict d2 =>
        bind (map_items combine d2 d1) (fun m => Ok (VDict (m ++ new_items d1 d2)))
    | _, _ =>
        if ml && is_seq v && is_seq ov then Ok (VList (add_unseen (seq_items v) (seq_items ov)))
        else if ms && is_set v && is_set ov then Ok (VSet (set_union (seq_items v) (seq_items ov)))
        else if is_map v || is_map ov then Err TypeError
        else if ms && (is_set v || is_set ov) then Err TypeError
        else if ml && (is_seq v || is_seq ov) then Err TypeError
        else Ok ov
    end.

  (* merge_data_trees(tree1, tree2, merge_lists, merge_sets) *)
  Definition merge (d1 d2 : dict) : res dict :=
    bind (map_items combine d2 d1) (fun m => Ok (m ++ new_items d1 d2)).
End Merge.

(* ---- aggregate_version: hash of the "|"-joined versions ---- *)
Definition BAR : N := 124.
Fixpoint join_bar (vs : list str) : str :=
  match vs with
  | [] => []
  | [v] => v
  | v :: r => v ++ BAR :: join_bar r
  end.

Section Composite.
  Variable H : str -> str.            (* _hash_str *)
  Variables ml ms : bool.
  Definition aggregate_version (vs : list str) : str := H (join_bar vs).

  (* a data source as the composite sees it *)
  Record source := {
    get_data : str -> dict -> str -> res (dict * str);
    find_system : str -> val -> res (option str)      (* an answer, None, or the exception it raised *)
  }.
  (* what a recording source notes of a get_data call: its position, system id,
     preceding data and preceding version *)
  Definition call := (nat * str * dict * str)%type.

  (* _CompositeDataSource.get_data: the loop, with the log of calls made *)
  Fixpoint comp_get (i : nat) (srcs : list source) (sys : str) (pd : dict) (pv : str)
    : list call * res (dict * str) :=
    match srcs with
    | [] => ([], Ok (pd, pv))
    | s :: r =>
        let c := (i, sys, pd, pv) in
        match get_data s sys pd pv with
        | Err e => ([c], Err e)
        | Ok (nd, nv) =>
            match merge ml ms pd nd with
            | Err e => ([c], Err e)
            | Ok m =>
                let (log, out) := comp_get (S i) r sys m (aggregate_version [pv; nv]) in
                (c :: log, out)
            end
        end
    end.

  (* _CompositeDataSource.find_system: loop with early return; log = positions asked *)
  Fixpoint comp_find (i : nat) (srcs : list source) (k : str) (v : val) : list nat * res (option str) :=
    match srcs with
    | [] => ([], Ok None)
    | s :: r =>
        match find_system s k v with
        | Ok None => let (log, out) := comp_find (S i) r k v in (i :: log, out)
        | a => ([i], a)                      (* an answer - or an exception, which is not caught - ends the loop *)
        end
    end.

  (* ---- specification side: one step of the chain as a function on the state ---- *)
  Definition chain_step (sys : str) (st : res (dict * str)) (s : source) : res (dict * str) :=
    bind st (fun dv =>
    bind (get_data s sys (fst dv) (snd dv)) (fun nw =>
    bind (merge ml ms (fst dv) (fst nw)) (fun m =>
    Ok (m, aggregate_version [snd dv; snd nw])))).
  Definition chain_state (sys : str) (pd : dict) (pv : str) (srcs : list source) : res (dict * str) :=
    fold_left (chain_step sys) srcs (Ok (pd, pv)).
  (* the call the source at position j receives, according to the fold over the sources before it *)
  Definition call_at (i : nat) (sys : str) (pd : dict) (pv : str) (srcs : list source) (j : nat) : list call :=
    match chain_state sys pd pv (firstn j srcs) with
    | Ok (d, v) => [(i + j, sys, d, v)]
    | Err _ => []
    end.
  (* find_system: the first answer that is not None, and who was asked *)
  Fixpoint first_some (l : list (res (option str))) : option (nat * res (option str)) :=
    match l with
    | [] => None
    | Ok None :: r => option_map (fun p => (S (fst p), snd p)) (first_some r)
    | a :: _ => Some (0, a)
    end.
  Definition find_spec (i : nat) (srcs : list source) (k : str) (v : val) : list nat * res (option str) :=
    match first_some (map (fun s => find_system s k v) srcs) with
    | Some (j, a) => (seq i (S j), a)
    | None => (seq i (length srcs), Ok None)
    end.

  (* version of the chain as a function of the constituent versions *)
  Definition chain_version (pv : str) (nvs : list str) : str :=
    fold_left (fun v nv => aggregate_version [v; nv]) nvs pv.
  (* the strings that get hashed on the way *)
  Fixpoint hashed (pv : str) (nvs : list str) : list str :=
    match nvs with
    | [] => []
    | nv :: r => join_bar [pv; nv] :: hashed (aggregate_version [pv; nv]) r
    end.
End Composite.

(* a source that answers with fixed data: the recording sources of the correspondence *)
Definition const_source (out : res (dict * str)) (fs : res (option str)) : source :=
  {| get_data := fun _ _ _ => out; find_system := fun _ _ => fs |}.
Arguments get_data : clear implicits.
Arguments find_system : clear implicits.
