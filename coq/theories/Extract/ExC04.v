From Coq Require Import ExtrOcamlBasic.
From Coq Require Extraction.
From VF Require Import Base.Sx C04.Entry.
Definition main := wrap entry.
Extraction "../ocaml/gen/c04_model.ml" main.
