"""C09 - no client input stops a server or reaches the internal-error path; TIDs isolated."""
import itertools

import common
from common import Check, sx
import tftp_common as T
from c01 import C01


def all_datagrams(maxlen, alphabet):
    for n in range(0, maxlen + 1):
        for d in itertools.product(alphabet, repeat=n):
            yield bytes(d)


class C09(C01):
    ident = "C09"
    extra_bins = ("c09port", "c09http", "c01cfg", "c09out")
    technique = "Coq proof: classification total, monitor never reaches the internal-error path, TID non-interference; extracted-model correspondence"
    rule = ("transfer part: every datagram of length <= 4 (quick) / 5 (thorough) over {0,1,2,3,4,5,6,8,9,0x61,0xff} injected from "
            "the peer and from foreign addresses (other port, other host, and source port 0 whose ERROR 5 reply cannot be sent) at three points of a transfer (OACK outstanding, first block outstanding, last "
            "block outstanding); grammar-generated and mutated ACK/ERROR packets; 512..600 byte packets; non-trivial = injected "
            "datagram is not a matching ACK; distinct by (datagram, sender, point)")

    def gen(self, tier, rng):
        quick = tier == "quick"
        alpha = [0, 1, 2, 3, 4, 5, 6, 8, 9, 0x61, 0xff]
        maxlen = 4 if quick else 5
        content = bytes(i % 251 for i in range(700))
        points = [
            ([("blksize", "512")], []),                                            # OACK outstanding
            ([], []),                                                              # block 1 outstanding
            ([], [(1, 0, T.ack(1))]),                                              # last block outstanding
        ]
        for d in all_datagrams(maxlen, alpha):
            if len(d) >= 4 and d[0] != 0 and (quick or len(d) == 5 or d[1] not in (1, 4, 5)):
                continue          # opcodes >= 256 all fall into the same "unknown opcode" class; keep a sample
            for (opts, pre) in points:
                for a in (0, 1, 2, 4, 5):
                    if quick and a >= 1 and len(d) >= 3:
                        continue
                    ev = pre + [(5, a, d), (9, 0, T.ack(2 if pre else (0 if opts else 1)))]
                    yield T.mk_case(content, [], options=opts, retries=1, events=ev)
        # structured packets
        for _ in range(600 if quick else 8000):
            kind = rng.random()
            if kind < 0.3:
                d = b"\x00\x05" + bytes([rng.randrange(256), rng.randrange(256)]) + bytes(rng.randrange(256) for _ in range(rng.randrange(0, 6)))
            elif kind < 0.5:
                d = b"\x00\x04" + bytes(rng.randrange(256) for _ in range(rng.randrange(0, 5)))
            elif kind < 0.7:
                d = bytes([0, rng.randrange(0, 9)]) + bytes(rng.randrange(256) for _ in range(rng.randrange(0, 600)))
            else:
                d = bytes(rng.randrange(256) for _ in range(rng.randrange(0, 8)))
            (opts, pre) = rng.choice(points)
            a = rng.choice([0, 0, 1, 2, 3, 4, 5, 6])
            t = rng.choice([0, 5, 2047, 2048])
            ev = pre + [(t, a, d), (t + 1, 0, T.ack(2 if pre else (0 if opts else 1))), (t + 2, 0, T.ack(1 if opts else 2))]
            yield T.mk_case(content, [], options=opts, retries=rng.choice([0, 1, 2]), events=ev,
                            proc=rng.choice([0, 0, 1, 2047, 2048]))

        # very many foreign datagrams inside one try (each is answered, none of them costs more than its ERROR 5:
        # no state may grow with their number), then the peer's ACK
        for (n, a) in ((1500, 1), (1200, 4)) if quick else ((1500, 1), (1200, 4), (5000, 2), (3000, 5)):
            ev = [(1 + (i * 1000) // n, a, T.ack(1) if i % 2 else b"") for i in range(n)] + [(1500, 0, T.ack(1)), (1501, 0, T.ack(2))]
            yield T.mk_case(content, [], retries=1, events=ev)

    def nontrivial(self, c, obs):
        return (tuple(c["events"]), tuple(c["options"]))

    def match_known(self, entry, case, failed):
        # no known (unrepaired) finding of the request port (D22 was repaired by 7078de3)
        import c09_port
        return c09_port.match_known(entry, case, failed)

    def extra_checks(self, tier, rng, report):
        # request-port half: real TftpServer._process_request vs the extracted port model
        import c09_port
        c09_port.port_checks(tier, rng, report)
        # HTTP half: real HttpServer + real file handlers vs the extracted classification model
        import c09_http
        c09_http.http_checks(tier, rng, report)
        # TID non-interference: the real transfer with and without foreign datagrams (sorted scripts)
        import c09_tid
        c09_tid.tid_checks(tier, rng, report)
        # the limits the transfers are created with (an over-large max_block_size ends in EMSGSIZE on the wire)
        import c01_cfg
        c01_cfg.cfg_checks(tier, rng, report)
        # what the transfer thread does with the handler's result (TftpError -> one ERROR packet, not logged as an
        # exception; other exception -> one ERROR 0; stream -> transfer): Tftp/HandlerOutcome.v
        import c09_outcome
        c09_outcome.outcome_checks(tier, rng, report)


if __name__ == "__main__":
    raise SystemExit(C09().main())
