(* S-expression values exchanged between the Python harness and the extracted
   models: integers, byte strings, lists.  The text codec is written in Gallina
   so that the OCaml glue only moves characters. *)
From Coq Require Import List NArith ZArith Bool.
From Coq Require Decimal.
Import ListNotations.
Open Scope N_scope.

Inductive sx := I (z : Z) | B (s : list N) | L (l : list sx).

(* ---------- printing ---------- *)
Definition hexdigit (n : N) : N := if n <? 10 then 48 + n else 87 + n.
Definition print_byte (b : N) : list N := [hexdigit (b / 16); hexdigit (b mod 16)].
Fixpoint dec_uint (u : Decimal.uint) : list N :=
  match u with
  | Decimal.Nil => [] | Decimal.D0 u => 48 :: dec_uint u | Decimal.D1 u => 49 :: dec_uint u | Decimal.D2 u => 50 :: dec_uint u
  | Decimal.D3 u => 51 :: dec_uint u | Decimal.D4 u => 52 :: dec_uint u | Decimal.D5 u => 53 :: dec_uint u
  | Decimal.D6 u => 54 :: dec_uint u | Decimal.D7 u => 55 :: dec_uint u | Decimal.D8 u => 56 :: dec_uint u
  | Decimal.D9 u => 57 :: dec_uint u
  end.
Definition print_Z (z : Z) : list N :=
  match Z.to_int z with Decimal.Pos u => dec_uint u | Decimal.Neg u => 45 :: dec_uint u end.

Fixpoint print (x : sx) : list N :=
  match x with
  | I z => print_Z z
  | B s => 35 :: flat_map print_byte s
  | L l => 40 :: (fix go (l : list sx) : list N :=
                    match l with
                    | [] => []
                    | [y] => print y
                    | y :: r => print y ++ 32 :: go r
                    end) l ++ [41]
  end.

(* ---------- parsing: one fold over the characters ---------- *)
(* linear-time reversal (List.rev is quadratic) *)
Definition frev {A} (l : list A) : list A := rev_append l [].
Inductive tok := TNone | TInt (neg : bool) (acc : Z) | TByt (acc : list N) (hi : option N).
Record pst := { stk : list (list sx); cur : list sx; tk : tok; bad : bool }.

Definition digit_val (c : N) : option N :=
  if (48 <=? c) && (c <=? 57) then Some (c - 48) else None.
Definition hex_val (c : N) : option N :=
  if (48 <=? c) && (c <=? 57) then Some (c - 48)
  else if (97 <=? c) && (c <=? 102) then Some (c - 87) else None.

Definition flush (p : pst) : pst :=
  match tk p with
  | TNone => p
  | TInt neg acc =>
      {| stk := stk p; cur := I (if neg then Z.opp acc else acc) :: cur p; tk := TNone; bad := bad p |}
  | TByt acc None => {| stk := stk p; cur := B (frev acc) :: cur p; tk := TNone; bad := bad p |}
  | TByt _ (Some _) => {| stk := stk p; cur := cur p; tk := TNone; bad := true |}
  end.
Definition fail (p : pst) : pst := {| stk := stk p; cur := cur p; tk := tk p; bad := true |}.
Definition settk (p : pst) (t : tok) : pst := {| stk := stk p; cur := cur p; tk := t; bad := bad p |}.

Definition pstep (p : pst) (c : N) : pst :=
  match tk p with
  | TByt acc hi =>
      match hex_val c with
      | Some v => match hi with
                  | None => settk p (TByt acc (Some v))
                  | Some h => settk p (TByt (h * 16 + v :: acc) None)
                  end
      | None =>
          let p := flush p in
          if c =? 32 then p
          else if c =? 41 then
            match stk p with
            | top :: rest => {| stk := rest; cur := L (frev (cur p)) :: top; tk := TNone; bad := bad p |}
            | [] => fail p
            end
          else fail p
      end
  | TInt neg acc =>
      match digit_val c with
      | Some v => settk p (TInt neg (acc * 10 + Z.of_N v)%Z)
      | None =>
          let p := flush p in
          if c =? 32 then p
          else if c =? 41 then
            match stk p with
            | top :: rest => {| stk := rest; cur := L (frev (cur p)) :: top; tk := TNone; bad := bad p |}
            | [] => fail p
            end
          else fail p
      end
  | TNone =>
      if c =? 32 then p
      else if c =? 40 then {| stk := cur p :: stk p; cur := []; tk := TNone; bad := bad p |}
      else if c =? 41 then
        match stk p with
        | top :: rest => {| stk := rest; cur := L (frev (cur p)) :: top; tk := TNone; bad := bad p |}
        | [] => fail p
        end
      else if c =? 35 then settk p (TByt [] None)
      else if c =? 45 then settk p (TInt true 0%Z)
      else match digit_val c with
           | Some v => settk p (TInt false (Z.of_N v))
           | None => fail p
           end
  end.

Definition parse (s : list N) : option sx :=
  let p := flush (fold_left pstep s {| stk := []; cur := []; tk := TNone; bad := false |}) in
  if bad p then None else
  match stk p, cur p with
  | [], [x] => Some x
  | _, _ => None
  end.

(* ---------- decoding helpers ---------- *)
Definition asI (x : sx) : option Z := match x with I z => Some z | _ => None end.
Definition asB (x : sx) : option (list N) := match x with B s => Some s | _ => None end.
Definition asL (x : sx) : option (list sx) := match x with L l => Some l | _ => None end.
Definition asNat (x : sx) : option nat := match x with I z => if (z <? 0)%Z then None else Some (Z.to_nat z) | _ => None end.
Definition asN (x : sx) : option N := match x with I z => if (z <? 0)%Z then None else Some (Z.to_N z) | _ => None end.
Definition asBool (x : sx) : option bool := match x with I 0%Z => Some false | I 1%Z => Some true | _ => None end.
Definition obind {A B} (o : option A) (f : A -> option B) : option B :=
  match o with Some a => f a | None => None end.
Fixpoint omap {A B} (f : A -> option B) (l : list A) : option (list B) :=
  match l with
  | [] => Some []
  | a :: r => match f a, omap f r with Some b, Some r' => Some (b :: r') | _, _ => None end
  end.
Definition asListOf {A} (f : sx -> option A) (x : sx) : option (list A) := obind (asL x) (omap f).
Definition sxBool (b : bool) : sx := I (if b then 1 else 0)%Z.
Definition sxNat (n : nat) : sx := I (Z.of_nat n).
Definition sxN (n : N) : sx := I (Z.of_N n).
(* ASCII text as a byte string (for tags, clause names) *)
Require Import Ascii String.
Definition bytes_of_string (s : string) : list N := map N_of_ascii (list_ascii_of_string s).
Definition sxS (s : string) : sx := B (bytes_of_string s).

(* entry points are functions sx -> sx; this wraps one as text -> text *)
Definition ERR : list N := bytes_of_string "!parse-error".
Definition wrap (f : sx -> sx) (line : list N) : list N :=
  match parse line with Some x => print (f x) | None => ERR end.
