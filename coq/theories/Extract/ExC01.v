From Coq Require Import ExtrOcamlBasic.
From Coq Require Extraction.
From VF Require Import Base.Sx C01.Entry.
Definition main := wrap entry.
Extraction "../ocaml/gen/c01_model.ml" main.
