(* C18 - System matcher: grammar, precedence, quoting, evaluation equal the documentation;
   every other string is rejected with ValueError.
   Property theorems only; each is closed by a lemma from the proof files of Matcher/. *)
From Coq Require Import String.
From Coq Require Import List NArith Bool Arith Lia.
From VF Require Import Matcher.Model Matcher.ParserFacts Matcher.EvalFacts Matcher.PrintLex Matcher.PrintParse
  Matcher.ParseSound Matcher.Canon C18.Entry C18.HoldsProof C18.HoldsIff.
Import ListNotations.

(* ---- grammar ---- *)
(* parse . print = id: for every concrete syntax tree t, i.e. every expression tree (erase t)
   together with a layout - any number of redundant parentheses with any whitespace inside them,
   any whitespace (Python str.isspace, tabs and newlines included) around keywords, non-empty
   where the grammar needs it (not next to a parenthesis), leading and trailing whitespace, every
   key and pattern unquoted when that is lexically legal or in single or double quotes with the two
   escapes, the unqualified shorthand for case-insensitive ID globs, a slash without option -
   the parser returns exactly the tree.  [ok 0 t] is the legality of the layout, [compiled] says that
   re.compile accepts the atoms. *)
Theorem C18_parse_print : forall V compile t w0 w3,
  ok 0 t -> compiled compile t -> is_ws w0 -> is_ws w3 ->
  parse V compile (w0 ++ print t ++ w3) = Ok (erase t).
Proof. exact parse_print. Qed.
Print Assumptions C18_parse_print.

(* every expression tree (data keys non-empty) has a legal layout, so the theorem above is about
   every tree *)
Theorem C18_every_tree_roundtrips : forall V compile e,
  printable e -> (forall a, In a (atoms e) -> compile a = COk) ->
  ok 0 (canon 0 e) /\ erase (canon 0 e) = e /\ parse V compile (print (canon 0 e)) = Ok e.
Proof. exact every_tree_roundtrips. Qed.
Print Assumptions C18_every_tree_roundtrips.

(* precedence not > and > or and left association, for atoms a b c written in any legal style *)
Theorem C18_precedence : forall V compile a b c sa sb sc,
  atom_ok a sa -> atom_ok b sb -> atom_ok c sc -> compile a = COk -> compile b = COk -> compile c = COk ->
  let pa := print_atom a sa in let pb := print_atom b sb in let pc := print_atom c sc in
  parse V compile (pa ++ lit " or " ++ pb ++ lit " and " ++ pc) = Ok (Or (Atom a) (And (Atom b) (Atom c))) /\
  parse V compile (pa ++ lit " and " ++ pb ++ lit " or " ++ pc) = Ok (Or (And (Atom a) (Atom b)) (Atom c)) /\
  parse V compile (lit "not " ++ pa ++ lit " and " ++ pb) = Ok (And (Not (Atom a)) (Atom b)) /\
  parse V compile (lit "not " ++ pa ++ lit " or " ++ pb) = Ok (Or (Not (Atom a)) (Atom b)) /\
  parse V compile (pa ++ lit " and not " ++ pb ++ lit " or " ++ pc) = Ok (Or (And (Atom a) (Not (Atom b))) (Atom c)) /\
  parse V compile (pa ++ lit " and " ++ pb ++ lit " and " ++ pc) = Ok (And (And (Atom a) (Atom b)) (Atom c)) /\
  parse V compile (pa ++ lit " or " ++ pb ++ lit " or " ++ pc) = Ok (Or (Or (Atom a) (Atom b)) (Atom c)) /\
  parse V compile (LP :: pa ++ lit " or " ++ pb ++ lit ") and " ++ pc) = Ok (And (Or (Atom a) (Atom b)) (Atom c)).
Proof.
  intros V compile a b c sa sb sc Ha Hb Hc Ca Cb Cc. cbv zeta.
  repeat split; [apply or_and | apply and_or | apply not_and | apply not_or | apply and_not | apply and_left
                | apply or_left | apply paren_or_and]; assumption.
Qed.
Print Assumptions C18_precedence.

(* the converse (the documented grammar, i.e. without the bare-keyword quirk D14c): whatever is
   accepted is a legal layout of the returned tree *)
Theorem C18_parse_sound : forall V compile,
  bare_keyword_atom V = false -> forall s e, parse V compile s = Ok e ->
  exists t w0 w3, ok 0 t /\ is_ws w0 /\ is_ws w3 /\ s = w0 ++ print t ++ w3 /\ erase t = e /\ compiled compile t.
Proof. exact parse_sound. Qed.
Print Assumptions C18_parse_sound.

(* hence the accepted language is exactly the set of legal layouts, each with its own tree:
   every other string is rejected (with ParseError, by C18_errors_are_ValueError) *)
Theorem C18_grammar_exact : forall V compile s e,
  bare_keyword_atom V = false ->
  (parse V compile s = Ok e <->
   exists t w0 w3, ok 0 t /\ is_ws w0 /\ is_ws w3 /\ s = w0 ++ print t ++ w3 /\ erase t = e /\ compiled compile t).
Proof.
  intros V compile s e HV. split; [now apply parse_sound|].
  intros (t & w0 & w3 & Hok & Hw0 & Hw3 & -> & <- & Hc). now apply parse_print.
Qed.
Print Assumptions C18_grammar_exact.

(* what the code accepts now: exactly the documented grammar plus - finding D14c - layouts in which an
   unquoted shorthand pattern is one of the texts and / or / not and is directly followed by a closing
   parenthesis ([okx true]); nothing else deviates *)
Theorem C18_current_language : forall compile s e,
  parse current compile s = Ok e <->
  exists t w0 w3, okx true false 0 t /\ is_ws w0 /\ is_ws w3 /\ s = w0 ++ print t ++ w3 /\ erase t = e /\ compiled compile t.
Proof.
  intros compile s e. split; [apply (parse_sound_x current compile)|].
  intros (t & w0 & w3 & Hok & Hw0 & Hw3 & -> & <- & Hc). now apply (parse_print_x current compile).
Qed.
Print Assumptions C18_current_language.

(* the extension is strict: the layout of the D14c witness is legal for the code, not for the documentation *)
Example C18_current_language_witness :
  let t := CParen [] (CAtom atom_and short_unq) [] in
  okx true false 0 t /\ ~ ok 0 t /\ print t = lit "(and)".
Proof.
  cbv zeta. split; [|split; [|reflexivity]].
  - cbn [okx is_nil andb]. repeat split; discriminate.
  - unfold ok. cbn [okx is_nil andb]. intros (_ & _ & _ & H). cbn in H. destruct H as (_ & _ & _ & H).
    specialize (H eq_refl eq_refl). discriminate.
Qed.

(* every string that is not a legal layout is rejected with ParseError (-> ValueError) *)
Theorem C18_other_strings_rejected : forall V compile,
  bare_keyword_atom V = false -> overflow_escapes V = false ->
  (forall a t, compile a <> COther t) -> (forall a, a_type a = TGlob -> compile a = COk) ->
  forall s,
  ~ (exists t w0 w3, ok 0 t /\ is_ws w0 /\ is_ws w3 /\ s = w0 ++ print t ++ w3 /\ compiled compile t) ->
  parse V compile s = Er ParseErr.
Proof.
  intros V compile Hb Ho Hc Hg s Hn.
  destruct (parse_errors V compile Ho Hc Hg s) as [[e He]|He]; [|exact He].
  exfalso. apply Hn. destruct (parse_sound V compile Hb s e He) as (t & w0 & w3 & H1 & H2 & H3 & H4 & _ & H6).
  exists t, w0, w3. auto.
Qed.
Print Assumptions C18_other_strings_rejected.

(* the code's parser (with the bare-keyword quirk) and the documented grammar agree on every legal layout *)
Theorem C18_variants_agree_on_layouts : forall compile t w0 w3,
  ok 0 t -> compiled compile t -> is_ws w0 -> is_ws w3 ->
  parse current compile (w0 ++ print t ++ w3) = parse documented compile (w0 ++ print t ++ w3).
Proof. intros. now rewrite !parse_print. Qed.
Print Assumptions C18_variants_agree_on_layouts.

(* ---- evaluation ---- *)
(* match() on an expression tree is the documented truth table over the atoms, whenever the atoms
   that are reached have a truth value (always, under the documented lookup semantics) *)
Theorem C18_eval_spec : forall V truth e i,
  (forall a, In a (atoms e) -> atom_clean V truth i a) ->
  eval V truth e i = VB (denote truth e i).
Proof. exact eval_spec. Qed.
Print Assumptions C18_eval_spec.

(* Python's short-circuit order: an exception is the exception of the last atom visited, and all
   atoms visited before it produced truth values *)
Theorem C18_eval_short_circuit : forall V truth e i t,
  eval V truth e i = VExc t ->
  exists pre a, visited V truth e i = pre ++ [a] /\ atom_val V truth a i = VExc t /\
                Forall (fun b => exists v, atom_val V truth b i = VB v) pre.
Proof. exact eval_exc. Qed.
Print Assumptions C18_eval_short_circuit.

(* history: on one (cached) expression every call is judged alone - the i-th result is the evaluation on
   the i-th environment, whatever was evaluated before *)
Theorem C18_calls_independent : forall V truth n e i d, (i < n)%nat ->
  nth i (outcome V truth n (Ok e)) d = eval_v V truth e i.
Proof. exact outcome_nth. Qed.
Print Assumptions C18_calls_independent.

(* faults of the environment (the data object's get() or a value's __str__ raising): the exception is the
   result of the call iff the term is reached; a decided left operand skips the right one *)
Theorem C18_env_fault : forall V truth a b i t,
  (tv_fault (truth a i) = Some t -> eval V truth (Atom a) i = VExc t) /\
  (eval V truth b i = VB true -> eval V truth (Or b (Atom a)) i = VB true) /\
  (eval V truth b i = VB false -> eval V truth (And b (Atom a)) i = VB false) /\
  (eval V truth b i = VB false -> eval V truth (Or b (Atom a)) i = eval V truth (Atom a) i) /\
  (eval V truth b i = VB true -> eval V truth (And b (Atom a)) i = eval V truth (Atom a) i).
Proof.
  intros V truth a b i t. repeat split.
  - intros H. cbn [eval]. unfold atom_val. now rewrite H.
  - intros H. cbn [eval]. now rewrite H.
  - intros H. cbn [eval]. now rewrite H.
  - intros H. cbn [eval]. now rewrite H.
  - intros H. cbn [eval]. now rewrite H.
Qed.
Print Assumptions C18_env_fault.

(* ---- rejection ---- *)
(* the parser's only failure is ParseError (-> ValueError): for every input string, provided
   re.compile fails only with re.error / OverflowError and translated glob patterns compile *)
Theorem C18_errors_are_ValueError : forall V compile,
  overflow_escapes V = false ->
  (forall a t, compile a <> COther t) ->
  (forall a, a_type a = TGlob -> compile a = COk) ->
  forall s, (exists e, parse V compile s = Ok e) \/ parse V compile s = Er ParseErr.
Proof. exact parse_errors. Qed.
Print Assumptions C18_errors_are_ValueError.

(* the fuel of the model parser is sufficient for every input *)
Theorem C18_fuel_sufficient : forall V compile s, parse V compile s <> Er OutOfFuel.
Proof. exact parse_noof. Qed.
Print Assumptions C18_fuel_sufficient.

(* ---- cache ---- *)
Theorem C18_cache_transparent : forall V compile c s, cache_sound V compile c ->
  fst (cached_parse V compile c s) = parse V compile s /\
  cache_sound V compile (snd (cached_parse V compile c s)).
Proof. exact cached_parse_transparent. Qed.
Print Assumptions C18_cache_transparent.

(* ---- the executable checker accepts the model ---- *)
Theorem C18_holds : forall c, valid c -> holds c (run_model c) = [].
Proof. exact holds_model. Qed.
Print Assumptions C18_holds.

(* the hypotheses of C18_holds are decidable from the case; the driver reports [validb] for every evaluated
   case, and the evidence counts the cases inside / outside the theorem *)
Theorem C18_validb_valid : forall c, validb c = true -> valid c.
Proof. exact validb_valid. Qed.
Print Assumptions C18_validb_valid.

Theorem C18_covered_cases : forall c, validb c = true -> holds c (run_model c) = [].
Proof. intros c H. apply holds_model. now apply validb_valid. Qed.
Print Assumptions C18_covered_cases.

(* the executable verdict and the clauses as propositions cannot drift apart *)
Theorem C18_holds_iff : forall c o,
  holds c o = [] <->
  (match c_expected c with Some e => reference c = Ok e | None => True end) /\
  fst o = wanted c /\ snd o = fst o.
Proof. exact holds_iff. Qed.
Print Assumptions C18_holds_iff.

(* ---- behaviour that violates the property ---- *)
(* before 86538e9: OverflowError of re.compile escaped *)
Theorem C18_refuted_overflow_escapes :
  exists c, overflow_escapes (c_var c) = true /\ holds c (run_model c) <> [].
Proof. exists witness_overflow. split; [reflexivity | vm_compute; discriminate]. Qed.

(* D14b (known finding): the TypeError of a nested lookup through a non-container escapes *)
Theorem C18_refuted_lookup_escapes :
  exists c, c_var c = current /\ holds c (run_model c) <> [].
Proof. exists witness_lookup. split; [reflexivity | vm_compute; discriminate]. Qed.

(* D14c (known finding): a parenthesised bare keyword is accepted as an ID pattern *)
Theorem C18_refuted_bare_keyword :
  exists c, c_var c = current /\ holds c (run_model c) <> [].
Proof. exists witness_bare_keyword. split; [reflexivity | vm_compute; discriminate]. Qed.

(* D26 (known finding): evaluation recurses once per nesting level of the closures; a chain of operands is
   left-nested, so whenever the nesting along the first-evaluated operands exceeds the recursion limit the call
   raises RecursionError - on every environment, whatever the operands are - although the documentation gives
   the expression a value; within the limit the recursive evaluation is the documented one *)
Theorem C18_refuted_deep_chain : forall V truth e i lim,
  eval_depth_limit V = S lim -> (S lim < spine e)%nat ->
  eval_v V truth e i = VExc (lit "RecursionError").
Proof. intros V truth e i lim H Hs. unfold eval_v. rewrite H. now apply eval_lim_spine. Qed.
Print Assumptions C18_refuted_deep_chain.

Theorem C18_eval_within_limit : forall V truth e i,
  eval_depth_limit V = 0%nat \/ (depth e <= eval_depth_limit V)%nat -> eval_v V truth e i = eval V truth e i.
Proof. exact eval_v_enough. Qed.
Print Assumptions C18_eval_within_limit.

(* non-vacuity: a concrete valid case (not, and, parenthesised or, a data term) over two environments *)
Example C18_nonvacuous :
  valid example_case /\ run_model example_case = ([VB false; VB true], [VB false; VB true]).
Proof. split; [exact example_valid | vm_compute; reflexivity]. Qed.
