(* The checker of C19 accepts the model: lock_linearizable (checker form) for the three lock-protected
   components. *)
From Coq Require Import String.
From Coq Require Import List NArith ZArith Bool Arith Lia.
From VF Require Import Base.Sx Conc.Machine Conc.Lin Conc.MachineProofs Conc.LinProofs Conc.Instances
  Conc.InstanceProofs C19.Entry.
Import ListNotations.
Local Open Scope nat_scope.

Lemma fuel_ok {E A} (sch : list (choice E)) (calls : list (list A)) : length sch < fuel_for sch calls.
Proof. unfold fuel_for. lia. Qed.

Lemma holds_cache capacity calls sch :
  all_done _ _ _ _ _ (c_run true (c_init capacity calls) sch) = true ->
  holds (Cache capacity calls sch) (run_model (Cache capacity calls sch)) = [].
Proof.
  intros Hd.
  assert (K : c_search capacity calls sch (run_model (Cache capacity calls sch)) = true) by exact (lin_accepts lru unit (ccall * R) ccall R unit c_begin (cache_prog true) c_ret c_env r_eqb r_eqb_refl
             cache_body cache_prog_cs (c_init capacity calls) sch (fuel_for sch calls)
             (inv_init lru unit (ccall * R) ccall R (CLen, []) _ tt calls) Hd (fuel_ok sch calls)).
  cbn [holds]. rewrite K. reflexivity.
Qed.

Lemma holds_text contents badl ce calls sch :
  all_done _ _ _ _ _ (t_run contents badl ce true (t_init calls) sch) = true ->
  holds (Text contents badl ce calls sch) (run_model (Text contents badl ce calls sch)) = [].
Proof.
  intros Hd.
  assert (K : t_search contents badl ce calls sch (run_model (Text contents badl ce calls sch)) = true) by exact (lin_accepts tobj nat tls tcall R unit t_begin (t_prog contents badl ce true) tres t_env r_eqb r_eqb_refl
             (text_body (t_contents contents) (t_bad badl) ce)
             (text_prog_cs (t_contents contents) (t_bad badl) ce) (t_init calls) sch (fuel_for sch calls)
             (inv_init tobj nat tls tcall R (t_begin (TGet 0)) _ 0 calls) Hd (fuel_ok sch calls)).
  cbn [holds]. rewrite K. reflexivity.
Qed.

Lemma holds_store calls sch :
  all_done _ _ _ _ _ (s_run (s_init calls) sch) = true ->
  holds (Store calls sch) (run_model (Store calls sch)) = [].
Proof.
  intros Hd.
  assert (K : s_search calls sch (run_model (Store calls sch)) = true) by exact (lin_accepts store unit (scall * R) scall R unit s_begin store_prog s_ret c_env r_eqb r_eqb_refl
             store_body store_prog_cs (s_init calls) sch (fuel_for sch calls)
             (inv_init store unit (scall * R) scall R (SGetData 0, []) _ tt calls) Hd (fuel_ok sch calls)).
  cbn [holds]. rewrite K. reflexivity.
Qed.

Lemma existsb_r_eqb r l : In r l -> existsb (r_eqb r) l = true.
Proof. intros H. apply existsb_exists. exists r. split; [exact H | apply r_eqb_refl]. Qed.

Lemma holds_yaml table tree w0 ncalls sch post :
  valid (Yaml table tree w0 ncalls sch post) ->
  holds (Yaml table tree w0 ncalls sch post) (run_model (Yaml table tree w0 ncalls sch post)) = [].
Proof.
  intros [Hlen Hord]. cbn [holds run_model]. rewrite Hord.
  assert (Hm : y_member (y_specs table tree w0 sch)
                 (results _ _ _ _ _ (y_run table tree true (y_init w0 ncalls) sch)) = true).
  { unfold y_member, results. apply forallb_forall. intros rs Hrs. apply in_map_iff in Hrs.
    destruct Hrs as (t & <- & Ht). apply forallb_forall. intros r Hr. apply existsb_r_eqb.
    exact (yaml_results_in_specs (y_table table) tree w0 (map (fun n => repeat tt n) ncalls) sch Hlen t Ht r Hr). }
  rewrite Hm. reflexivity.
Qed.

Theorem holds_model c : valid c -> holds c (run_model c) = [].
Proof.
  destruct c; cbn [valid]; intros Hv.
  - apply holds_cache. exact Hv.
  - apply holds_text. exact Hv.
  - apply holds_store. exact Hv.
  - apply holds_yaml. exact Hv.
Qed.
