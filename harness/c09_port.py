"""
C09, request-port part: every datagram sent to the TFTP request port is answered with nothing, exactly one
well-formed ERROR, or - for a read request decoded as RFC 1350/2347 prescribe - a transfer start; no bytes of a
datagram reach the catch-all of TftpServer._run; the server keeps serving afterwards.

The REAL serve loop TftpServer._run is run (in this thread) on a never-started TftpServer whose `_socket` is a
scripted fake: recvfrom hands out the case's datagram and then a liveness probe (a write request from an ordinary
address, which must be answered with ERROR 2) and finally asks the loop to stop; sendto records the call and, like
Linux, raises OSError(EINVAL) for a destination with port 0 (a datagram with source port 0 is delivered, but cannot
be answered) - the fault dimension of this check.  Transfers are really constructed by the real `_handle_read`
(the constructor of `_TftpReadRequest` runs in the request-port thread); `socket`, `time` and `_TftpReadRequest` in
the module namespace of vinegar.tftp.server are replaced IN THIS PROCESS (as harness/fake_net.py does) so that the
transfer thread talks to a silent fake socket under a virtual clock and can be joined; /repo is not edited.
Observations are compared with the extracted model coq/theories/Tftp/RequestPort.v (driver ocaml/bin/c09port, entry
C09/PortEntry.v).

Clauses: C09:port_reaction, C09:port_more_than_one_reaction, C09:internal_error_path, C09:port_stops_serving,
C09:port_fault_reaction.  A datagram from UDP source port 0 must get no reaction at all (D22, repaired by 7078de3:
before, the reply was attempted, sendto failed and the OSError was logged); a reply attempt to port 0 or a logged
exception is a violation like any other.

Used by harness/c09.py through `port_checks(tier, rng, report)`; `python harness/c09_port.py [--tier T]` runs it alone.
"""
import errno
import io
import itertools
import logging
import socket as real_socket
import threading
import time
import types

import common
from common import sx, unsx, names
import tftp_common as T
import fake_net
import nspatch
from vinegar.tftp import server as S
from vinegar.tftp.protocol import TransferMode

DST = ("::1", 69, 0, 0)
REQ = ("::1", 40001, 0, 0)
REQ0 = ("2001:db8::9", 0, 0, 0)          # source port 0: cannot be replied to
PROBE_ADDR = ("::1", 40002, 0, 0)
PROBE = b"\x00\x02probe\x00octet\x00"   # a write request: the live server answers ERROR 2
UNREACH = ("2001:db8::dead", 40003, 0, 0)   # sendto() to it fails with ENETUNREACH: an environment fault
SOURCES = [REQ, REQ0, UNREACH]
SRC_CODE = {0: 1, 1: 0, 2: 2}            # model encoding: 1 ordinary, 0 source port 0, 2 unreachable
# ancillary data of recvmsg when the server uses IPV6_RECVPKTINFO, and the server address the transfer must get:
# none at all (legal: the option may not be honoured), the RFC 3542 in6_pktinfo (16 address bytes + interface
# index), an unrelated control message before it, only an unrelated one
_PKT = real_socket.inet_pton(real_socket.AF_INET6, "2001:db8::5") + b"\x02\x00\x00\x00"
ANCILLARY = {
    None: ([], DST),                                             # server without pktinfo: recvfrom is used
    "none": ([], DST),
    "pktinfo": ([(real_socket.IPPROTO_IPV6, real_socket.IPV6_PKTINFO, _PKT)], ("2001:db8::5",) + DST[1:]),
    "other+pktinfo": ([(real_socket.SOL_SOCKET, 29, b"\x00" * 16),
                       (real_socket.IPPROTO_IPV6, real_socket.IPV6_PKTINFO, _PKT)], ("2001:db8::5",) + DST[1:]),
    "other": ([(real_socket.IPPROTO_IPV6, 52, b"\x00" * 4)], DST),
}
PKTINFO_KINDS = [None, "none", "pktinfo", "other+pktinfo", "other"]
ALPHABET = [0, 1, 2, 3, 4, 5, 6, 8, 9, 0x61, 0xff]

HANDLER_SETS = [
    [("const", True)],
    [("const", False)],
    [("prefix", b"a")],
    [("const", False), ("exact", b"f"), ("const", True)],
    [("exact", b""), ("prefix", b"aa")],
    [("prefix", b"a"), ("prefix", b"a")],
    [("const", True), ("const", True), ("const", True)],
    [],
]
SERVING_SETS = [0, 3, 6]                  # handler sets that can serve the file "f"


class CustomError(Exception):
    """an exception class the server code cannot know"""


EXC_CLASSES = [RuntimeError, MemoryError, KeyError, CustomError, OSError, ValueError]
# fault stations (coq: Tftp.RequestPort.station): 0 log statement of the branch taken (sub-variant 0: its argument
# socket_address_to_str raises, 1: the logger method raises), 1 prepare_context of handler i, 2 can_handle of handler
# i, 3 the attribute access request_handler.handle, 4 threading.Thread.start
ST_LOG, ST_PREPARE, ST_CAN_HANDLE, ST_LOOKUP, ST_THREAD = range(5)


class PredHandler(S.TftpRequestHandler):
    """scripted request handler: can_handle is a predicate on the decoded filename; handle returns a tiny file"""
    def __init__(self, spec, port=None, index=0):
        self.spec = spec
        self.port = port
        self.index = index

    def prepare_context(self, filename):
        if self.port is not None:
            self.port.fire(ST_PREPARE, self.index)
        return None

    def can_handle(self, filename, context):
        if self.port is not None:
            self.port.fire(ST_CAN_HANDLE, self.index)
        kind, arg = self.spec
        if kind == "const":
            return arg
        name = filename.encode("latin-1", "replace")
        if kind == "prefix":
            return name.startswith(arg)
        return name == arg

    def _handle(self, filename, client_address, server_address, context):
        if self.port is not None:
            self.port.handled(self.index, filename, client_address, server_address)
        return io.BytesIO(b"xy")

    @property
    def handle(self):
        if self.port is not None:
            self.port.fire(ST_LOOKUP, None)
        return self._handle


def handler_sx(spec):
    kind, arg = spec
    return [0, bool(arg)] if kind == "const" else ([1, arg] if kind == "prefix" else [2, arg])


class _ServerSock:
    """the request-port socket (the first socket the server creates in start()): scripted recvfrom/recvmsg, recording
    sendto that fails for port 0 and for the unreachable requester"""
    def __init__(self, port):
        self.port = port
        self.script = []
        self.current = -1
        self.drained = threading.Event()
        self.closed = False

    def getsockname(self):
        return DST

    def settimeout(self, t):
        pass

    def bind(self, addr):
        pass

    def setsockopt(self, level, opt, value):
        # whether the server uses recvmsg with ancillary data is decided by its own start(): IPV6_RECVPKTINFO
        # "is not available" unless the case asks for it
        if level == real_socket.IPPROTO_IPV6 and opt == getattr(real_socket, "IPV6_RECVPKTINFO", -1) \
                and self.port.pktinfo is None:
            raise OSError(errno.ENOPROTOOPT, "Protocol not available")

    def recvfrom(self, n):
        port = self.port
        port.loop_ident = threading.get_ident()
        port.armed = None
        if self.script:
            self.current += 1
            data, addr = self.script.pop(0)
            f = port.fault
            if f is not None and f[0] == self.current:
                port.armed = f                           # one-shot: the first time control reaches the station
            return bytes(data)[:n], addr
        self.drained.set()                               # everything was taken: the harness calls stop()
        time.sleep(0.0003)
        raise real_socket.timeout("timed out")

    def recvmsg(self, n, ancsize=0):
        """used when the server has IPV6_RECVPKTINFO: ancillary data as the scripted kind says"""
        data, addr = self.recvfrom(n)
        return data, list(ANCILLARY[self.port.pktinfo][0]), 0, addr

    def sendto(self, data, addr):
        self.port.events.append((self.current, "send", bytes(data), addr))
        if addr[1] == 0:
            raise OSError(errno.EINVAL, "Invalid argument")
        if addr == UNREACH:
            raise OSError(errno.ENETUNREACH, "Network is unreachable")

    def close(self):
        self.closed = True


class _TransferSock(fake_net.FakeSock):
    """socket of a started transfer: silent peer; the transfer itself is not under test here"""
    def sendto(self, data, addr):
        pass


class _ExcLog(logging.Handler):
    """log records that report an UNHANDLED exception of the serve-loop thread: exc_info at level ERROR or above
    (logger.exception).  A handled exception that a branch chooses to log with its traceback at a lower level
    (e.g. the ValueError of an undecodable request at WARNING) is not the internal-error path."""
    def __init__(self):
        super().__init__()
        self.port = None

    def emit(self, record):
        port = self.port
        if record.exc_info and record.levelno >= logging.ERROR and port is not None \
                and record.thread == port.loop_ident:
            cls = record.exc_info[0].__name__ if record.exc_info[0] else "exc"
            port.events.append((port.sock.current, "logexc", cls))


# the class of the per-transfer object, found by the shape of its constructor (not by its name); None -> mode and
# option dictionary of a started transfer cannot be observed and are not compared (see docs/C09-port.md)
_REQUEST_CLASS = nspatch.find_class(S, ("transfer_mode", "options", "client_address"))
_REAL_ADDR_STR = getattr(__import__("vinegar.utils.socket", fromlist=["x"]), "socket_address_to_str", None)


class Port:
    """one real TftpServer per handler set; for each case it is started (public start()) on a scripted fake socket
    and stopped (public stop()) when the script has been taken"""
    def __init__(self, specs):
        self.specs = specs
        self.events = []
        self.handlers = [PredHandler(s, self, i) for i, s in enumerate(specs)]
        self.server = S.TftpServer(self.handlers, bind_address="::1", bind_port=0)
        self.sock = None
        self.fault = None
        self.armed = None
        self.pktinfo = None
        self.loop_ident = None
        self.pending = {}                   # transfer thread -> its start record

    def fire(self, station, hidx, sub=None):
        """raise the injected exception if this is the armed station (serve-loop thread only, once)"""
        f = self.armed
        if f is None or threading.get_ident() != self.loop_ident or f[1] != station:
            return
        if station in (ST_PREPARE, ST_CAN_HANDLE) and f[2] != hidx:
            return
        if station == ST_LOG and sub is not None and f[4] != sub:
            return
        self.armed = None
        raise EXC_CLASSES[f[3]]("injected fault")

    def handled(self, handler_index, filename, client_address, server_address):
        """PredHandler.handle was called (public interface, in the transfer thread): which handler, for what"""
        rec = self.pending.get(threading.current_thread())
        if rec is not None:
            rec.update(handler=handler_index, filename=filename, client=client_address, server=server_address)

    def react(self, items, exclog, pktinfo=None, fault=None):
        """canonical observations of what ONE run of the serve loop did for the datagrams `items` = [(datagram,
        source address), ...] arriving one after the other, followed by a liveness probe; one observation per item"""
        del self.events[:]
        self.pending = {}
        exclog.port = self
        srv = self.server
        self.pktinfo = pktinfo
        self.fault = fault
        self.armed = None
        self.loop_ident = None
        sock = self.sock = _ServerSock(self)
        sock.script = [(bytes(d), src) for (d, src) in items] + [(PROBE, PROBE_ADDR)]
        port = self
        clock = [0.0]
        want_dst = ANCILLARY[pktinfo][1]
        started = []                                  # every thread the server code starts during this run
        escaped = []
        made = []

        def make_socket(*a, **k):                     # the first socket is the request socket
            made.append(1)
            return sock if len(made) == 1 else _TransferSock([], clock, [])

        class FaultThread(threading.Thread):
            def start(self_t):
                if threading.get_ident() == port.loop_ident and port.loop_ident is not None:
                    port.fire(ST_THREAD, None)
                    rec = {"idx": sock.current, "thread": self_t}
                    port.pending[self_t] = rec
                    port.events.append((sock.current, "start", rec))
                started.append(self_t)
                return super().start()

            def run(self_t):
                try:
                    super().run()
                except BaseException as ex:           # nothing may escape a thread of the server
                    escaped.append(type(ex).__name__)
        replace = {}
        if _REQUEST_CLASS is not None:
            import inspect
            sig = inspect.signature(_REQUEST_CLASS.__init__)

            class Rec(_REQUEST_CLASS):
                def __init__(self_r, *a, **k):
                    before = len(port.events)
                    super().__init__(*a, **k)
                    try:
                        ba = sig.bind(self_r, *a, **k).arguments
                    except TypeError:
                        return
                    for e in port.events[before:]:
                        if e[1] == "start":
                            e[2].update(mode=ba.get("transfer_mode"), options=dict(ba.get("options") or {}))
            replace[_REQUEST_CLASS] = Rec
        patched = []
        if fault is not None and _REAL_ADDR_STR is not None:
            def addr_str(a):
                port.fire(ST_LOG, None, 0)
                return _REAL_ADDR_STR(a)
            replace[_REAL_ADDR_STR] = addr_str
        undo = nspatch.patch_namespace(S, make_socket=make_socket, monotonic=lambda: clock[0], thread_class=FaultThread,
                                       replace=replace)
        if fault is not None:
            in_exception = [False]
            # every logger method a branch could use for its log statement - whichever level it logs at is not
            # fixed by the property; `exception` (what the catch-all itself needs) never raises
            for lg in nspatch.loggers(S):
                for lvl in ("debug", "info", "warning", "warn", "error", "critical", "fatal", "log"):
                    if not hasattr(lg, lvl):
                        continue

                    def mk(real):
                        def method(*a, **k):
                            if not in_exception[0]:
                                port.fire(ST_LOG, None, 1)
                            return real(*a, **k)
                        return method
                    setattr(lg, lvl, mk(getattr(lg, lvl)))
                    patched.append((lg, lvl))

                def mkx(real_exception):
                    def exception(*a, **k):
                        in_exception[0] = True
                        try:
                            return real_exception(*a, **k)
                        finally:
                            in_exception[0] = False
                    return exception
                lg.exception = mkx(lg.exception)
                patched.append((lg, "exception"))
        hang = False
        start_failed = None
        try:
            try:
                srv.start()
            except BaseException as ex:
                start_failed = type(ex).__name__
            loop = started[0] if started else None
            deadline = time.time() + 20
            while loop is not None and loop.is_alive() and not sock.drained.is_set() and time.time() < deadline:
                sock.drained.wait(0.002)
            try:
                srv.stop()
            except BaseException as ex:
                escaped.append("stop:" + type(ex).__name__)
            for t in started:
                t.join(120)
                hang = hang or t.is_alive()
        finally:
            undo()
            for lg, lvl in patched:
                lg.__dict__.pop(lvl, None)
            self.fault = self.armed = None
        n = len(items)
        obs = [[] for _ in range(n)]
        probe_events = []
        for e in self.events:
            if e[0] >= n or e[0] < 0:
                probe_events.append(e)
                continue
            src = items[e[0]][1]
            if e[1] == "send":
                p = T.parse_packet(e[2])
                obs[e[0]].append(p if (p[0] == 5 and e[3] == src) else [99, e[2]])
            elif e[1] == "start":
                rec = e[2]
                mode = rec.get("mode")
                ok = (rec.get("client") == src and rec.get("server") == want_dst and "filename" in rec
                      and (mode is None or isinstance(mode, TransferMode)))
                if ok:
                    opts = rec.get("options")
                    obs[e[0]].append([1, rec["filename"].encode("latin-1", "replace"),
                                      None if mode is None else int(mode),
                                      None if opts is None else
                                      [[k.encode("latin-1", "replace"), v.encode("latin-1", "replace")]
                                       for k, v in opts.items()], rec.get("handler", 99)])
                else:
                    shown = {k: v for k, v in rec.items() if k != "thread"}
                    obs[e[0]].append([99, repr(shown).encode("latin-1", "replace")[:200]])
            else:
                obs[e[0]].append([4])
        last_taken = min(sock.current, n - 1)
        for i in range(last_taken + 1, n):                # never taken off the socket: the loop had ended
            obs[i].append([7])
        # alive = the probe was taken off the socket and answered (what it is answered with is a case of its own)
        alive = (not sock.script and any(e[1] == "send" and e[3] == PROBE_ADDR for e in probe_events))
        if n and last_taken == n - 1:
            if start_failed is not None:
                obs[n - 1].append([99, b"TftpServer.start raised " + start_failed.encode()])
            if escaped:
                obs[n - 1].append([99, b"exception escaped a server thread: " + ",".join(escaped).encode()])
            if hang:
                obs[n - 1].append([99, b"a server thread did not end"])
            if not alive:
                obs[n - 1].append([7])
        return obs




# ----------------------------------------------------------------------------- generators
def all_datagrams(maxlen):
    for n in range(0, maxlen + 1):
        for d in itertools.product(ALPHABET, repeat=n):
            yield bytes(d)


FILENAMES = [b"f", b"a", b"aa/b.cfg", b"pxelinux.0", b"", b"F", b"a b", b"/abs", b"..", b"a\xffb", b"\xe4", b"x" * 40]
MODES = [b"octet", b"OCTET", b"OcTeT", b"netascii", b"NETASCII", b"NetAscii", b"mail", b"MAIL", b"Mail",
         b"binary", b"", b"octet ", b"oct\xffet", b"octe"]
OPT_NAMES = [b"blksize", b"BLKSIZE", b"timeout", b"tsize", b"windowsize", b"", b"x", b"t\xfcsize"]
OPT_VALUES = [b"0", b"8", b"512", b"1428", b"65464", b"", b"abc", b"1\xff2"]


def rrq(fn, mode, opts):
    d = b"\x00\x01" + fn + b"\x00" + mode + b"\x00"
    for k, v in opts:
        d += k + b"\x00" + v + b"\x00"
    return d


def grammar_rrqs(rng, count):
    for _ in range(count):
        opts = [(rng.choice(OPT_NAMES), rng.choice(OPT_VALUES)) for _k in range(rng.choice([0, 0, 1, 2, 3]))]
        yield rrq(rng.choice(FILENAMES), rng.choice(MODES), opts)


def mutations(rng, d):
    """missing NULs, extra NULs, non-ASCII bytes, truncation, odd option lists, other opcodes, padding"""
    nul = [i for i, b in enumerate(d) if b == 0 and i >= 2]
    for i in nul:
        yield d[:i] + d[i + 1:]                    # missing NUL
        yield d[:i] + b"\x00" + d[i:]              # extra NUL
    if len(d) > 2:
        i = rng.randrange(2, len(d))
        yield d[:i] + bytes([rng.choice([0x80, 0xff, 0xc3])]) + d[i:]
        yield d[:i] + bytes([rng.choice([0x80, 0xff, 0x00, 0x41])]) + d[i + 1:]
        yield d[:rng.randrange(0, len(d))]         # truncated
    yield d + rng.choice(OPT_NAMES) + b"\x00"       # option name without value
    yield d + rng.choice(OPT_NAMES)                 # ... and without terminator
    yield d + b"\x00"
    yield bytes([rng.choice([0, 0, 1, 0xff]), rng.choice([0, 2, 3, 4, 5, 6, 7, 9, 0xff])]) + d[2:]
    yield d[:1] + d[2:]


def long_packets(rng, count):
    """512..600 byte packets: long file names, many options, trailing garbage"""
    for _ in range(count):
        n = rng.randrange(512, 601)
        k = rng.random()
        if k < 0.3:
            d = rrq(b"a" * (n - 9), b"octet", [])
        elif k < 0.6:
            opts = []
            d = rrq(b"f", b"octet", opts)
            while len(d) < n:
                opts.append((rng.choice(OPT_NAMES), rng.choice(OPT_VALUES)))
                d = rrq(b"f", b"octet", opts)
        elif k < 0.8:
            d = rrq(b"f", b"netascii", [(b"blksize", b"9" * (n - 30))])
        else:
            d = bytes([0, rng.choice([1, 1, 2, 4, 5, 7])]) + bytes(rng.randrange(256) for _ in range(n - 2))
        yield d
        yield d[:-1]
        yield d + b"\x00"


# option values that are near-numbers: prefix like an integer, signs, padding, other radices, other digits,
# underscores, leading zeros, empty, huge (as bytes on the wire; non-ASCII bytes are dropped by the decoder)
NEAR_NUMBERS = [b"1024x", b"5s", b"1e3", b"512.0", b"8 ", b" 8", b"8\n", b"8\t", b"+8", b"-8", b"0x10", b"0o10", b"1_0",
                b"1__0", b"08", b"0", b"00", b"", b"8,0", b"8;", b"1 0", "\u0661\u0662".encode("utf-8"), "\uff18".encode("utf-8"),
                b"8\xff", b"\xff8", b"9" * 40, b"1" + b"0" * 300, b"1e", b"1.", b"1L", b"1j", b"True", b"None", b"8\x0b"]
OPTION_NAMES_3 = [b"blksize", b"BLKSIZE", b"BlkSize", b"timeout", b"TIMEOUT", b"TimeOut", b"tsize", b"TSIZE", b"tSiZe"]


def near_number_rrqs(tier, rng):
    """read requests for a file a handler CAN serve whose option values only look like numbers"""
    for v in NEAR_NUMBERS:
        for name in OPTION_NAMES_3:
            yield rrq(b"f", rng.choice([b"octet", b"netascii", b"OCTET"]), [(name, v)])
        yield rrq(b"f", b"octet", [(b"blksize", v), (b"timeout", v), (b"tsize", v)])
        yield rrq(b"f", b"octet", [(b"blksize", b"512"), (b"BLKSIZE", v)])          # later duplicate (other case) wins
        yield rrq(b"f", b"octet", [(b"timeout", v), (b"TimeOut", b"3")])


def gen_single(tier, rng):
    """cases = (datagram, handler set, source): source 0 = ordinary requester, 1 = requester with source port 0
    (every reply to it fails in sendto)"""
    quick = tier == "quick"
    maxlen = 4 if quick else 5
    k = 0
    for d in all_datagrams(maxlen):
        k += 1
        yield (d, k % len(HANDLER_SETS), 0)
        if len(d) <= (3 if quick else 4):
            yield (d, (k + 3) % len(HANDLER_SETS), 1)
    for d in near_number_rrqs(tier, rng):
        for hs in (SERVING_SETS if not quick else (rng.choice(SERVING_SETS),)):
            yield (d, hs, 0)
        if rng.random() < 0.2:
            yield (d, rng.choice(SERVING_SETS), 1)
    for d in grammar_rrqs(rng, 1500 if quick else 15000):
        for hs in ((rng.randrange(len(HANDLER_SETS)),) if quick else (0, rng.randrange(1, len(HANDLER_SETS)))):
            yield (d, hs, 0)
        if rng.random() < 0.3:
            yield (d, rng.randrange(len(HANDLER_SETS)), 1)
        for m in mutations(rng, d):
            yield (m, rng.randrange(len(HANDLER_SETS)), 1 if rng.random() < 0.15 else 0)
    for hs in range(len(HANDLER_SETS)):            # every handler set against plain requests, both kinds of requester
        for fn in FILENAMES:
            for mode in (b"octet", b"NETASCII", b"mail"):
                for src in (0, 1):
                    yield (rrq(fn, mode, []), hs, src)
                yield (rrq(fn, mode, [(b"blksize", b"1428"), (b"BLKSIZE", b"8"), (b"blksize", b"9")]), hs, 0)
    for d in long_packets(rng, 100 if quick else 1500):
        yield (d, rng.randrange(len(HANDLER_SETS)), 1 if rng.random() < 0.1 else 0)


def fault_cases(tier, rng):
    """a callee of the request-port thread raises: station x exception class x target datagram x position in a
    history of three; the datagrams after it (and the probe) must be served as if nothing had happened"""
    quick = tier == "quick"
    targets = [rrq(b"f", b"octet", []), rrq(b"f", b"NetAscii", [(b"blksize", b"8")]), rrq(b"zz", b"octet", []),
               rrq(b"f", b"mail", []), b"\x00\x01f\x00octet", b"\x00\x02w\x00octet\x00", b"\x00\x04\x00\x01", b"\x00",
               b"\x00\x09"]
    stations = [(ST_LOG, None, 0), (ST_LOG, None, 1), (ST_LOOKUP, None, 0), (ST_THREAD, None, 0)] + \
               [(st, i, 0) for st in (ST_PREPARE, ST_CAN_HANDLE) for i in (0, 1, 2)]
    follow = (rrq(b"f", b"octet", []), 0)
    for (st, hi, sub) in stations:
        for cls in range(len(EXC_CLASSES)):
            for h in (0, 3, 6, 1, 4):
                if hi is not None and hi >= max(1, len(HANDLER_SETS[h])):
                    continue
                for d in targets:
                    if quick and rng.random() < 0.6:
                        continue
                    src = rng.choice([1, 2]) if rng.random() < 0.2 else 0
                    pos = rng.randrange(3)
                    items = [follow, follow, (b"\x00\x02", 0)]
                    items[pos] = (d, src)
                    yield (tuple(items), h, None, (pos, st, hi, cls, sub))
                    if rng.random() < 0.3:
                        yield (((d, src),), h, None, (0, st, hi, cls, sub))
    # two servers of the same class: a fault in one does not touch the other (separate Port objects are separate
    # TftpServer objects; the next case of another handler set runs on its own server right after)


def gen_cases(tier, rng):
    """case = (items, handler set, pktinfo kind[, fault]); items = tuple of (datagram, source): what arrives during ONE run of
    the serve loop.  Single datagrams first, then histories of 3-5 datagrams (a reply that cannot be sent, a started
    transfer, an undecodable request ... followed by ordinary ones), then the recvmsg/ancillary-data variants."""
    quick = tier == "quick"
    pool = []
    # the single-datagram scope arrives in groups of 8 per run of the serve loop (the reaction to a datagram does
    # not depend on what arrived before it: theorem C09_serve_loop_total; a failing group is shrunk to one datagram)
    groups = {}
    for (d, h, src) in gen_single(tier, rng):
        g = groups.setdefault(h, [])
        g.append((d, src))
        if len(g) == 16:
            yield (tuple(g), h, None)
            del g[:]
        if len(pool) < 3000 and (len(d) > 4 or rng.random() < 0.02):
            pool.append((d, src))
    for h, g in groups.items():
        if g:
            yield (tuple(g), h, None)
    special = [(b"\x00\x02", 1), (b"\x00\x01", 1), (rrq(b"f", b"octet", []), 1), (rrq(b"f", b"octet", []), 0),
               (rrq(b"nofile", b"mail", []), 1), (b"\x00\x05\x00\x01x\x00", 1), (b"", 1), (b"\x00", 0),
               (rrq(b"f", b"octet", [(b"blksize", b"1024x")]), 0), (rrq(b"f", b"octet", [(b"timeout", b"5s")]), 1)]
    for _ in range(400 if quick else 6000):
        k = rng.randrange(3, 6)
        items = tuple(rng.choice(special) if rng.random() < 0.5 else rng.choice(pool) for _k in range(k))
        yield (items, rng.randrange(len(HANDLER_SETS)), None)
    for a in special:                                   # each special datagram alone
        for h in range(len(HANDLER_SETS)):
            yield ((a,), h, None)
    for a in special:                                   # every special datagram first, second and last of three
        for b in special[:6]:
            yield ((a, b, special[3]), rng.choice(SERVING_SETS), None)
            yield ((special[3], a, b), rng.choice(SERVING_SETS), None)
    # source port 0 with every class of datagram, every handler set: no reaction at all
    classes = [rrq(b"f", b"octet", []), rrq(b"f", b"NETASCII", [(b"blksize", b"1428"), (b"tsize", b"0")]),
               rrq(b"f", b"octet", [(b"timeout", b"5s")]), rrq(b"nobody/serves", b"octet", []), b"\x00\x01f\x00octet",
               b"\x00\x01", rrq(b"f", b"mail", []), b"\x00\x02w\x00octet\x00", b"\x00\x03\x00\x01x", b"\x00\x04\x00\x01",
               b"\x00\x05\x00\x01x\x00", b"\x00\x06blksize\x008\x00", b"", b"\x00", b"\x00\x00", b"\x00\x07", b"\xff\xff\x00"]
    for h in range(len(HANDLER_SETS)):
        for d in classes:
            yield (((d, 1),), h, None)
        yield (tuple((d, 1) for d in classes[:8]), h, None)
        yield (((classes[0], 0), (classes[0], 1), (classes[7], 1), (classes[0], 0)), h, None)
    # a requester the environment does not let us answer (sendto raises ENETUNREACH): one attempt, logged, and the
    # server keeps serving - alone, and first/second/last of a history
    for h in range(len(HANDLER_SETS)):
        for d in classes:
            yield (((d, 2),), h, None)
        yield (((classes[7], 2), (classes[0], 0), (classes[7], 0)), h, None)
        yield (((classes[0], 0), (classes[5], 2), (classes[3], 2), (classes[7], 0)), h, None)
    yield from fault_cases(tier, rng)
    for pk in PKTINFO_KINDS[1:]:
        for (d, src) in special + [rng.choice(pool) for _k in range(20 if quick else 300)]:
            for h in (0, 3, 1):
                yield (((d, src),), h, pk)
        yield (tuple(special[:4]), 0, pk)


# ----------------------------------------------------------------------------- evaluation
def line(d, hs_index, src, obs, fault=None):
    fx = [] if fault is None else [fault[1], fault[2] or 0, fault[3]]
    return sx([[d, [handler_sx(s) for s in HANDLER_SETS[hs_index]], SRC_CODE[src], fx], obs])


COVERED = {"within": 0, "outside": 0}     # datagrams whose case satisfies port_validb (C09_port_covered_cases) / not


def evaluate(cases, ports, exclog):
    """-> [(case, impl observations per item, model observations per item, clauses failed on the model, ... on impl)]"""
    cases = [c if len(c) == 4 else c + (None,) for c in cases]
    obs = [ports[h].react([(d, SOURCES[src]) for (d, src) in items], exclog, pk, ft) for (items, h, pk, ft) in cases]
    def mk_lines(blank):
        return [line(d, h, src, [] if blank else o, ft if (ft is not None and ft[0] == i) else None)
                for (items, h, pk, ft), ol in zip(cases, obs) for i, ((d, src), o) in enumerate(zip(items, ol))]
    if any(x[0] == 1 and (x[2] is None or x[3] is None) for ol in obs for o in ol for x in o):
        # mode / option dictionary of a started transfer could not be observed (no constructor of the expected shape
        # in the module): they are taken from the model, i.e. not compared
        flat = [o for ol in obs for o in ol]
        for o, out in zip(flat, common.run_model("c09port", mk_lines(True))):
            m0 = unsx(out)[0] if not out.startswith(("!", "#")) else []
            starts = [y for y in m0 if y[0] == 1]
            for x in o:
                if x[0] == 1 and (x[2] is None or x[3] is None):
                    y = starts[0] if starts else [1, b"", 2, [], 0]
                    x[2] = y[2] if x[2] is None else x[2]
                    x[3] = y[3] if x[3] is None else x[3]
    lines = mk_lines(False)
    outs = iter(common.run_model("c09port", lines))
    res = []
    for case, ol in zip(cases, obs):
        ms, fm, fi, covered = [], [], [], []
        for (d, src), o in zip(case[0], ol):
            out = next(outs)
            if out.startswith("!") or out.startswith("#"):
                raise RuntimeError(f"c09port: driver rejected case {case!r} -> {out[:100]}")
            r = unsx(out)
            ms.append(r[0])
            covered.append(len(r) > 4 and r[4] == 1)
            ft = case[3] if len(case) == 4 else None
            if ft is not None and ft[1] == ST_LOG and ft[0] == len(ms) - 1 and not names(r[2]):
                # a fault in a log statement: where and at which level a branch logs is not fixed by the property;
                # the extracted checker has judged this datagram by the loose rule (loop alive, at most the
                # specified reaction) and accepted it - the exact observation is not compared
                ol[len(ms) - 1] = r[0]
            fm += [x for x in names(r[1]) if x not in fm]
            fi += [x for x in names(r[2]) if x not in fi]
        COVERED["within"] += sum(covered)
        COVERED["outside"] += len(covered) - sum(covered)
        res.append((case, ol, ms, fm, fi))
    return res


def is_known_shape(case, failed):
    """no finding of the request port is exempted any more (D22 was repaired by 7078de3)"""
    return False


def shrink(case, ports, exclog, keep):
    """greedy: drop whole datagrams of a history (the fault moves with its datagram), then bytes, then the recvmsg
    variant, while `keep(case, failed_clauses)` stays true"""
    case = case if len(case) == 4 else case + (None,)
    items, h, pk, ft = case
    improved = True
    steps = 0
    while improved and steps < 400:
        improved = False
        cands = []
        if len(items) > 1:
            for i in range(len(items)):
                if ft is not None and ft[0] == i:
                    continue
                ft2 = ft if (ft is None or ft[0] < i) else (ft[0] - 1,) + tuple(ft[1:])
                cands.append((items[:i] + items[i + 1:], h, pk, ft2))
        for j, (d, src) in enumerate(items):
            cands += [(items[:j] + ((d[:i] + d[i + 1:], src),) + items[j + 1:], h, pk, ft) for i in range(len(d))]
        if pk is not None:
            cands.append((items, h, None, ft))
        for c2 in cands:
            steps += 1
            (_, o_, m_, _fm, fi), = evaluate([c2], ports, exclog)
            if keep(c2, fi or (["C09:port_reaction"] if o_ != m_ else [])):
                items, h, pk, ft = c2
                improved = True
                break
            if steps >= 400:
                break
    return (items, h, pk, ft)


STATION_NAMES = ["log statement / socket_address_to_str", "prepare_context", "can_handle", "handle lookup",
                 "threading.Thread.start"]


def show(case):
    case = case if len(case) == 4 else case + (None,)
    items, h, pk, ft = case
    d = items[-1][0]
    fault = None
    if ft is not None:
        fault = {"at_datagram": ft[0], "callee": STATION_NAMES[ft[1]] + (f" of handler {ft[2]}" if ft[1] in (1, 2) else "")
                 + ((" (logger method)" if ft[4] else " (socket_address_to_str)") if ft[1] == 0 else ""),
                 "raises": EXC_CLASSES[ft[3]].__name__}
    # "content"/"events" are present so that the show() of the TFTP transfer checks (C01.show) can print the case
    return {"_extra": True, "part": "request-port",
            "datagrams": [{"hex": x.hex(), "source": list(SOURCES[src])} for (x, src) in items],
            "datagram_hex": d.hex(), "handlers": [[k, common._jsonable(a)] for (k, a) in HANDLER_SETS[h]],
            "recvmsg_ancillary_data": pk, "injected_fault": fault,
            "source_port_zero": any(SOURCES[src][1] == 0 for (_x, src) in items),
            "unreachable_requester": any(src == 2 for (_x, src) in items),
            "content": bytes(d), "events": []}


def match_known(entry, case, failed):
    """kept for harness/c09.py: the request port has no known (unrepaired) finding"""
    return False


def port_checks(tier, rng, report):
    """append failures to report['extra_failing']; add counts to report['evaluations'] and report['extra']"""
    t0 = time.time()
    exclog = _ExcLog()
    logger = logging.getLogger("vinegar.tftp.server")
    old_level, old_prop = logger.level, logger.propagate
    logger.addHandler(exclog)
    logger.setLevel(logging.DEBUG)
    logger.propagate = False
    stats = {"port_evaluations": 0, "port_disagreements": 0, "port_impl_failures": 0, "port_model_failures": 0,
             "port_source_port_zero_cases": 0, "port_unreachable_requester_cases": 0, "port_histories": 0,
             "port_recvmsg_cases": 0, "port_injected_faults": 0,
             "port_reactions": {"nothing": 0, "error1": 0, "error2": 0, "error4": 0, "start": 0, "other": 0}}
    failing = []
    known_like = []
    out = []
    COVERED["within"] = COVERED["outside"] = 0
    try:
        ports = [Port(specs) for specs in HANDLER_SETS]
        batch = []

        def flush():
            for (case, o, m, fm, fi) in evaluate(batch, ports, exclog):
                stats["port_evaluations"] += len(case[0])
                stats["port_histories"] += 1 if len(case[0]) > 1 else 0
                stats["port_recvmsg_cases"] += 1 if case[2] is not None else 0
                stats["port_injected_faults"] += 1 if case[3] is not None else 0
                for (d_, src_), oi in zip(case[0], o):
                    stats["port_source_port_zero_cases"] += 1 if src_ == 1 else 0
                    stats["port_unreachable_requester_cases"] += 1 if src_ == 2 else 0
                    core = [x for x in oi if x != [4]]
                    key = ("nothing" if not core else
                           "start" if core[0][0] == 1 and len(core) == 1 else
                           f"error{core[0][1]}" if core[0][0] == 5 and len(core) == 1 and core[0][1] in (1, 2, 4)
                           else "other")
                    stats["port_reactions"][key] += 1
                if o != m:
                    stats["port_disagreements"] += 1
                if fm:
                    stats["port_model_failures"] += 1
                if fi or o != m:
                    stats["port_impl_failures"] += 1
                    if len(failing) < 5:
                        failing.append((case, fi or ["C09:port_reaction"], o, m))
            del batch[:]
        for case in gen_cases(tier, rng):
            batch.append(case)
            if len(batch) >= 4000:
                flush()
                if len(failing) >= 5:
                    break
        flush()
        stats["port_cases_within_theorem_hypotheses"] = COVERED["within"]
        stats["port_cases_outside_theorem_hypotheses"] = COVERED["outside"]
        for (case, fi, o, m) in failing[:2]:
            small = shrink(case, ports, exclog, lambda c, f: bool(f) and not is_known_shape(c, f)) if fi else \
                (case if len(case) == 4 else case + (None,))
            (_, o2, m2, _fm, fi2), = evaluate([small], ports, exclog)
            fi2 = fi2 or (["C09:port_reaction"] if o2 != m2 else [])
            if not fi2:
                small, o2, m2, fi2 = case, o, m, fi
            out.append((show(small), fi2, common._jsonable(o2), common._jsonable(m2)))
        for (case, fi, o, m) in known_like:
            small = shrink(case, ports, exclog, is_known_shape)
            (_, o2, m2, _fm, fi2), = evaluate([small], ports, exclog)
            out.append((show(small), fi2, common._jsonable(o2), common._jsonable(m2)))
    finally:
        logger.removeHandler(exclog)
        logger.setLevel(old_level)
        logger.propagate = old_prop
    stats["port_wall_s"] = round(time.time() - t0, 1)
    report.setdefault("extra_failing", []).extend(out)
    report["evaluations"] = report.get("evaluations", 0) + stats["port_evaluations"]
    report["disagreements"] = report.get("disagreements", 0) + stats["port_disagreements"]
    report["impl_failures"] = report.get("impl_failures", 0) + stats["port_impl_failures"]
    report.setdefault("extra", {}).update(stats)
    return out


def main(argv=None):
    import argparse
    import json
    import os
    import random
    ap = argparse.ArgumentParser()
    ap.add_argument("--tier", default="quick")
    args = ap.parse_args(argv)
    b = common.ensure_built("C09", ("c09port",))
    if not b.ok:
        print("build broken:", b.broken)
        print(b.log[-2000:])
        return 2
    seed = int(os.environ.get("VERIF_SEED", "0") or 0)
    report = {"evaluations": 0, "extra": {}}
    out = port_checks(args.tier, random.Random(seed * 1000003 + 909), report)
    print(json.dumps(report["extra"]))
    bad = 0
    for (case, fi, o, m) in out:
        bad += 1
        print("FAILURE", fi,
              json.dumps({k: v for k, v in case.items() if k not in ("content", "events")}))
        print("   impl :", o)
        print("   model:", m)
    print(f"[C09-port] tier={args.tier} evaluations={report['evaluations']} failures={bad}")
    return 1 if bad else 0


if __name__ == "__main__":
    raise SystemExit(main())
