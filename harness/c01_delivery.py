"""Validation of the cooperative-client scripts of coq/theories/Tftp/Delivery.v (`script_of`,
`plan_ok`, `quiet_before`) against the REAL _TftpReadRequest: the scripts for which
C01_transfer_delivers / C02_gives_up are proved for the model are fed through
tftp_common.run_impl, and the declarative trace readings of Delivery.v (new_sends, delivered,
retransmissions_identical, lockstep, client_sends) are evaluated on what the code did.

Not a registered check (no driver involved): `./check`-style invocation
    PYTHONPATH=/repo /venv/bin/python harness/c01_delivery.py [--tier quick|thorough]
prints one summary line and exits 1 with the first failing case.
"""
import argparse
import json
import os
import random
import struct
import sys

import common            # noqa: F401  (sets sys.path for the repo under test)
import tftp_common as T

CLIENT = 0


# ----------------------------------------------------------------------------- mirror of Delivery.v
def ack_bytes(n):
    return b"\x00\x04" + struct.pack("!H", n)


def want(p):
    return p[1] if p[0] == 3 else 0


def script_of(tm, t0, pps):
    """pps: list of (packet, plan); plan = {"lost": n, "noises": [(("ack", n) | ("foreign", addr, bytes), off)], "delta": d}
    with optional "rounds": one noise list per lost round (gscript_of / round_events of Delivery.v)"""
    ev = []
    t = t0
    for (p, pl) in pps:
        for j, nzs in enumerate(pl.get("rounds", [])):
            for (x, off) in nzs:
                if x[0] == "ack":
                    ev.append((t + j * tm + off, CLIENT, ack_bytes(x[1])))
                else:
                    ev.append((t + j * tm + off, x[1], x[2]))
        s = t + pl["lost"] * tm
        for (x, off) in pl["noises"]:
            if x[0] == "ack":
                ev.append((s + off, CLIENT, ack_bytes(x[1])))
            else:
                ev.append((s + off, x[1], x[2]))
        ev.append((s + pl["delta"], CLIENT, ack_bytes(want(p))))
        t = s + pl["delta"]
    return ev


def noise_ok(p, x, off, dl):
    return 0 <= off <= dl and ((x[0] == "ack" and x[1] != want(p)) or (x[0] == "foreign" and x[1] != CLIENT))


def plan_ok(tm, retries, p, pl):
    return (pl["lost"] <= retries and 0 <= pl["delta"] < tm and
            len(pl.get("rounds", [[]] * pl["lost"])) == pl["lost"] and
            all(noise_ok(p, x, off, tm - 1) for nzs in pl.get("rounds", []) for (x, off) in nzs) and
            all(0 <= off <= pl["delta"] and ((x[0] == "ack" and x[1] != want(p)) or (x[0] == "foreign" and x[1] != CLIENT))
                for (x, off) in pl["noises"]))


def expected(content, bs, wrap, has_oack):
    blocks = [content[i:i + bs] for i in range(0, len(content), bs)]
    if len(content) % bs == 0:
        blocks.append(b"")
    nums = T.numbering(len(blocks), wrap)
    pk = [[3, n, b] for n, b in zip(nums, blocks)]
    return ([[6]] if has_oack else []) + pk, len(nums) < len(blocks)


def client_pkt(e):
    if e[0] == 1 and e[2] == CLIENT and e[3][0] in (3, 6):
        return [6] if e[3][0] == 6 else e[3]
    return None


def readings(trace):
    """new_sends, retransmissions_identical, lockstep, client_sends - as the Fixpoints of Delivery.v"""
    prev, lastp = None, None
    news, retr_ok, lock_ok, sends = [], True, True, []
    for e in trace:
        is_to = prev is not None and prev[0] == 3
        if e[0] == 1:
            if e[2] == CLIENT:
                sends.append((e[1], [6] if e[3][0] == 6 else e[3]))
            if is_to and not (e[2] == CLIENT and lastp is not None and client_pkt(e) == lastp):
                retr_ok = False
        p = client_pkt(e)
        if p is not None:
            if not is_to:
                news.append(p)
                if lastp is not None:
                    ok = (prev is not None and prev[0] == 2 and prev[2] == CLIENT and len(prev[3]) == 4 and
                          prev[3][:2] == b"\x00\x04" and struct.unpack("!H", prev[3][2:])[0] == want(lastp))
                    lock_ok = lock_ok and ok
            lastp = p
        prev = e
    return news, retr_ok, lock_ok, sends


# ----------------------------------------------------------------------------- generators
def rand_plan(rng, tm, retries, p, prev_nums, faults):
    lost = rng.randrange(0, retries + 1) if rng.random() < faults else 0
    delta = rng.choice([0, 1, tm // 2, tm - 1, rng.randrange(tm)])
    noises = []
    for _ in range(rng.randrange(0, 4) if rng.random() < faults else 0):
        k = rng.random()
        off = rng.choice([0, delta, rng.randrange(delta + 1)])
        if k < 0.6:
            cand = [n for n in (prev_nums[-2:] + [want(p) + 1, want(p) + 2, 0, 65535]) if n != want(p) and 0 <= n <= 65535]
            noises.append((("ack", rng.choice(cand)), off))
        else:
            noises.append((("foreign", rng.choice([1, 2]), rng.choice([ack_bytes(want(p)), b"", b"\x00\x05\x00\x00x\x00"])), off))
    pl = {"lost": lost, "noises": noises, "delta": delta}
    if rng.random() < faults:
        def one(dl):
            off = rng.choice([0, dl, rng.randrange(dl + 1)])
            if rng.random() < 0.6:
                cand = [n for n in (prev_nums[-2:] + [want(p) + 1, 0, 65535]) if n != want(p) and 0 <= n <= 65535]
                return (("ack", rng.choice(cand)), off)
            return (("foreign", rng.choice([1, 2]), rng.choice([ack_bytes(want(p)), b"zz"])), off)
        pl["rounds"] = [[one(tm - 1) for _ in range(rng.randrange(0, 3))] for _ in range(lost)]
    return pl


def cases(tier, rng):
    n_rand = 300 if tier == "quick" else 4000
    for i in range(n_rand):
        bs = rng.choice([8, 9, 16, 512])
        nb = rng.randrange(0, 6)
        n = rng.choice([nb * bs, nb * bs + rng.randrange(0, bs), max(0, nb * bs - 1)])
        content = bytes(rng.randrange(256) for _ in range(n))
        retries = rng.choice([0, 1, 2, 3])
        tmo = rng.choice([1, 2, 5])
        opts = [("blksize", str(bs))] if bs != 512 or rng.random() < 0.5 else []
        if opts and rng.random() < 0.4:
            opts.append(("timeout", str(tmo)))
        else:
            tmo = 2
        wrap = rng.choice([0, 1, None])
        tm = tmo * T.TICKS
        exp, over = expected(content, bs, wrap, bool(opts))
        plans, nums = [], []
        faults = rng.choice([0.0, 0.4, 0.9])
        for p in exp:
            pl = rand_plan(rng, tm, retries, p, nums, faults)
            assert plan_ok(tm, retries, p, pl)
            plans.append(pl)
            nums.append(want(p))
        ev = script_of(tm, 0, list(zip(exp, plans)))
        ch = [rng.randrange(1, bs + 3) for _ in range(rng.randrange(0, 12))]
        yield ("coop", T.mk_case(content, ch, options=opts, retries=retries, wrap=wrap, events=ev), exp, over, tm)
    # silence / only foreign senders before (retries + 1) * tmo
    for i in range(40 if tier == "quick" else 400):
        retries = rng.choice([0, 1, 2, 3])
        tm = 2 * T.TICKS
        end = (retries + 1) * tm
        ev = sorted((rng.randrange(0, end + tm), rng.choice([1, 2]), rng.choice([ack_bytes(0), ack_bytes(1), b"x"]))
                    for _ in range(rng.randrange(0, 5)))
        if rng.random() < 0.5:
            ev.append((end + rng.randrange(0, 3), CLIENT, ack_bytes(rng.choice([0, 1]))))
            ev.sort(key=lambda e: e[0])
        has_opts = rng.random() < 0.5
        content = bytes(rng.randrange(256) for _ in range(rng.randrange(0, 20)))
        exp, over = expected(content, 8 if has_opts else 512, 0, has_opts)
        yield ("silent", T.mk_case(content, [], options=[("blksize", "8")] if has_opts else [], retries=retries, events=ev),
               exp, over, tm)


def check_case(kind, c, exp, over, tm):
    trace = T.run_impl(c)
    news, retr_ok, lock_ok, sends = readings(trace)
    problems = []
    if not retr_ok:
        problems.append("retransmissions_identical")
    if not lock_ok:
        problems.append("lockstep")
    if trace[-2:] != [[5], [6]]:
        problems.append("ends_with_release")
    if kind == "coop":
        if news != exp:
            problems.append("new_sends_eq_expected")
        if not over and b"".join(p[2] for p in news if p[0] == 3) != c["content"]:
            problems.append("delivered_eq_content")
        err0 = [s for s in sends if s[1][0] == 5]
        if over != bool(err0):
            problems.append("overflow_error_iff")
    else:
        p0 = exp[0]
        want_sends = [(k * tm, p0) for k in range(c["retries"] + 1)]
        if sends != want_sends:
            problems.append("gives_up_sends")
    return problems, trace


def main():
    ap = argparse.ArgumentParser()
    ap.add_argument("--tier", default="quick")
    args = ap.parse_args()
    seed = int(os.environ.get("VERIF_SEED", "0") or 0)
    rng = random.Random(seed * 1000003 + 101)
    n = 0
    kinds = {}
    for (kind, c, exp, over, tm) in cases(args.tier, rng):
        n += 1
        kinds[kind] = kinds.get(kind, 0) + 1
        problems, trace = check_case(kind, c, exp, over, tm)
        if problems:
            print("FAIL", problems, json.dumps({"kind": kind, "case": {k: (v.hex() if isinstance(v, bytes) else v)
                                                                       for k, v in c.items() if k != "events"},
                                                "events": [(t, a, d.hex()) for (t, a, d) in c["events"]]}, default=repr)[:1500])
            return 1
    print(f"[c01_delivery] tier={args.tier} seed={seed} cases={n} {kinds} all delivered / gave up as proved for the model")
    return 0


if __name__ == "__main__":
    sys.exit(main())
