From Coq Require Import ExtrOcamlBasic.
From Coq Require Extraction.
From VF Require Import Base.Sx C07.Entry.
Definition main := wrap entry.
Extraction "../ocaml/gen/c07_model.ml" main.
