(* Lemmas about the unquote model: ASCII characters of the result come exactly
   from ASCII bytes; first character of the result. *)
From Coq Require Import List NArith Bool Arith Lia.
From VF Require Import FileH.Str FileH.StrProofs FileH.Unquote.
Import ListNotations.
Open Scope N_scope.

Definition asc (x : N) : bool := x <? 128.
Definition fa (l : list N) : list N := filter asc l.

Lemma fa_hi x l : 128 <= x -> fa (x :: l) = fa l.
Proof. intros H. unfold fa. cbn [filter]. unfold asc. apply N.ltb_ge in H. now rewrite H. Qed.

Lemma fa_lo x l : x < 128 -> fa (x :: l) = x :: fa l.
Proof. intros H. unfold fa. cbn [filter]. unfold asc. apply N.ltb_lt in H. now rewrite H. Qed.

Lemma fa_app a b : fa (a ++ b) = fa a ++ fa b.
Proof. apply filter_app. Qed.

Lemma is_cont_true x : is_cont x = true -> 128 <= x /\ x <= 191.
Proof. unfold is_cont. rewrite andb_true_iff, !N.leb_le. auto. Qed.

Lemma ok2_3_true b b2 : negb (ok2_3 b b2) = false -> 128 <= b2 /\ b2 <= 191 /\ (b = 224 -> 160 <= b2).
Proof.
  unfold ok2_3. rewrite negb_false_iff, andb_true_iff, negb_true_iff. intros [H1 H2].
  apply is_cont_true in H1. destruct H1. repeat split; auto.
  intros ->. destruct (b2 <? 160) eqn:E; [discriminate H2|]. now apply N.ltb_ge in E.
Qed.

Lemma ok2_4_true b b2 : negb (ok2_4 b b2) = false -> 128 <= b2 /\ b2 <= 191 /\ (b = 240 -> 144 <= b2).
Proof.
  unfold ok2_4. rewrite negb_false_iff, andb_true_iff, negb_true_iff. intros [H1 H2].
  apply is_cont_true in H1. destruct H1. repeat split; auto.
  intros ->. destruct (b2 <? 144) eqn:E; [discriminate H2|]. now apply N.ltb_ge in E.
Qed.

Ltac props :=
  repeat match goal with
  | H : (_ <? _) = false |- _ => apply N.ltb_ge in H
  | H : (_ <? _) = true |- _ => apply N.ltb_lt in H
  | H : (_ || _) = false |- _ => apply orb_false_iff in H; destruct H
  | H : (_ <=? _) = false |- _ => apply N.leb_gt in H
  | H : is_cont _ = true |- _ => apply is_cont_true in H; destruct H
  | H : negb (ok2_3 _ _) = false |- _ => apply ok2_3_true in H; destruct H as [? [? ?]]
  | H : negb (ok2_4 _ _) = false |- _ => apply ok2_4_true in H; destruct H as [? [? ?]]
  | H : negb (is_cont _) = false |- _ => apply negb_false_iff in H
  end.

Ltac split_all :=
  repeat match goal with
  | |- context [if ?c then _ else _] => destruct c eqn:?
  | |- context [match ?l with [] => _ | _ :: _ => _ end] => is_var l; destruct l
  end.

(* bytes >= 0x80 never decode to a code point < 128, and every ASCII byte survives in place *)
Lemma utf8_decode_ascii_n n : forall l, (length l <= n)%nat -> fa (utf8_decode l) = fa l.
Proof.
  induction n as [|n IH]; intros l Hl.
  - destruct l; [reflexivity | cbn in Hl; lia].
  - destruct l as [|b r1]; [reflexivity|]. cbn [utf8_decode].
    destruct (b <? 128) eqn:E1.
    { apply N.ltb_lt in E1. rewrite !fa_lo by exact E1. f_equal. apply IH. cbn in Hl; lia. }
    split_all; props; unfold REPL;
      repeat (rewrite fa_hi by lia);
      try reflexivity;
      try (apply IH; cbn [length] in Hl |- *; lia).
    all: cbn [length] in Hl.
    all: try (rewrite (fa_hi b2) by lia); try (rewrite (fa_hi b3) by lia); try (rewrite (fa_hi b4) by lia).
    all: try reflexivity; try (apply IH; cbn [length]; lia).
Qed.

Lemma utf8_decode_ascii l : fa (utf8_decode l) = fa l.
Proof. apply (utf8_decode_ascii_n (length l)). lia. Qed.

(* first character of a decoded run *)
Lemma utf8_decode_head b r : exists x t, utf8_decode (b :: r) = x :: t /\
  ((b < 128 /\ x = b) \/ (128 <= b /\ 128 <= x)).
Proof.
  cbn [utf8_decode]. destruct (b <? 128) eqn:E1.
  { apply N.ltb_lt in E1. eexists _, _. split; [reflexivity|left; auto]. }
  split_all; props; unfold REPL; eexists _, _; (split; [reflexivity|right; split; lia]).
Qed.

Lemma unq_ascii its : fa (unquote_items its) = fa (map item_val its).
Proof.
  unfold unquote_items. induction its as [|[b|c] r IH]; cbn [unq map item_val].
  - reflexivity.
  - destruct (unq r) as [run out]. rewrite fa_app, utf8_decode_ascii in *.
    change (b :: run) with ([b] ++ run). change (b :: map item_val r) with ([b] ++ map item_val r).
    rewrite !fa_app, <- app_assoc. now rewrite IH.
  - destruct (unq r) as [run out]. cbn [utf8_decode app].
    change (c :: utf8_decode run ++ out) with ([c] ++ (utf8_decode run ++ out)).
    change (c :: map item_val r) with ([c] ++ map item_val r).
    rewrite !fa_app in *. now rewrite IH.
Qed.

Theorem unquote_ascii s : fa (unquote s) = fa (map item_val (items s)).
Proof. apply unq_ascii. Qed.

(* ---- first character of unquote ---- *)
Lemma unquote_items_byt_head v rest :
  starts_with [SL] (unquote_items (Byt v :: rest)) = (v =? SL).
Proof.
  unfold unquote_items. cbn [unq]. destruct (unq rest) as [run out].
  destruct (utf8_decode_head v run) as [x [t [E H]]]. rewrite E. cbn [app starts_with].
  rewrite andb_true_r. unfold SL. destruct H as [[H1 ->]|[H1 H2]].
  - apply N.eqb_sym.
  - destruct (47 =? x) eqn:E1; [apply N.eqb_eq in E1; lia|].
    destruct (v =? 47) eqn:E2; [apply N.eqb_eq in E2; lia|reflexivity].
Qed.

Lemma unquote_items_raw_head c rest :
  starts_with [SL] (unquote_items (Raw c :: rest)) = (c =? SL).
Proof.
  unfold unquote_items. cbn [unq]. destruct (unq rest) as [run out]. cbn [utf8_decode app starts_with].
  rewrite andb_true_r. apply N.eqb_sym.
Qed.

Lemma hexval_range a x : hexval a = Some x -> x < 16.
Proof.
  unfold hexval. repeat match goal with |- context [if ?c then _ else _] => destruct c eqn:? end;
    intros H; inversion H; subst;
    repeat match goal with H : _ && _ = true |- _ => apply andb_true_iff in H; destruct H end;
    repeat match goal with H : (_ <=? _) = true |- _ => apply N.leb_le in H end; lia.
Qed.

Lemma hexval_2 a : hexval a = Some 2 <-> a = 50.
Proof.
  split; [|intros ->; reflexivity].
  unfold hexval. repeat match goal with |- context [if ?c then _ else _] => destruct c eqn:? end;
    intros H; inversion H;
    repeat match goal with H : _ && _ = true |- _ => apply andb_true_iff in H; destruct H end;
    repeat match goal with H : (_ <=? _) = true |- _ => apply N.leb_le in H end; lia.
Qed.

Lemma hexval_15 a : hexval a = Some 15 <-> (a = 102 \/ a = 70).
Proof.
  split; [|intros [->| ->]; reflexivity].
  unfold hexval. repeat match goal with |- context [if ?c then _ else _] => destruct c eqn:? end;
    intros H; inversion H;
    repeat match goal with H : _ && _ = true |- _ => apply andb_true_iff in H; destruct H end;
    repeat match goal with H : (_ <=? _) = true |- _ => apply N.leb_le in H end; lia.
Qed.

Theorem unquote_starts_slash s :
  starts_with [SL] (unquote s) = starts_with [SL] s || starts_enc_slash s.
Proof.
  unfold unquote. destruct s as [|c r]; [reflexivity|].
  cbn [items].
  destruct (c =? PCT) eqn:Ec.
  - apply N.eqb_eq in Ec; subst c.
    assert (Hp : starts_with [SL] (unquote_items (Byt PCT :: items r)) = false).
    { rewrite unquote_items_byt_head. reflexivity. }
    change (starts_with [SL] (PCT :: r)) with false. cbn [orb].
    destruct r as [|a [|b r']]; [exact Hp | exact Hp |].
    cbn [starts_enc_slash]. change (PCT =? PCT) with true. cbn [andb].
    destruct (hexval a) as [x|] eqn:Ea; [destruct (hexval b) as [y|] eqn:Eb|].
    + rewrite unquote_items_byt_head. unfold SL.
      pose proof (hexval_range _ _ Ea). pose proof (hexval_range _ _ Eb).
      destruct (16 * x + y =? 47) eqn:E.
      * apply N.eqb_eq in E. assert (x = 2) by lia. assert (y = 15) by lia. subst.
        apply hexval_2 in Ea. apply hexval_15 in Eb. subst a.
        destruct Eb as [-> | ->]; reflexivity.
      * symmetry. apply not_true_iff_false. intros Ht.
        apply andb_true_iff in Ht as [Ht1 Ht2]. apply N.eqb_eq in Ht1; subst a.
        assert (x = 2) by (cbn in Ea; congruence). subst x.
        assert (hexval b = Some 15) by (apply hexval_15; apply orb_true_iff in Ht2 as [Ht2|Ht2]; apply N.eqb_eq in Ht2; auto).
        assert (y = 15) by congruence. subst y. discriminate E.
    + rewrite Hp. symmetry. apply not_true_iff_false. intros Ht.
      apply andb_true_iff in Ht as [Ht1 Ht2].
      assert (hexval b = Some 15) by (apply hexval_15; apply orb_true_iff in Ht2 as [Ht2|Ht2]; apply N.eqb_eq in Ht2; auto).
      congruence.
    + rewrite Hp. symmetry. apply not_true_iff_false. intros Ht.
      apply andb_true_iff in Ht as [Ht1 Ht2]. apply N.eqb_eq in Ht1; subst a. discriminate Ea.
  - assert (Hs : starts_enc_slash (c :: r) = false).
    { destruct r as [|a [|b r']]; try reflexivity. cbn [starts_enc_slash]. now rewrite Ec. }
    rewrite Hs, orb_false_r. change (starts_with [SL] (c :: r)) with ((SL =? c) && true). rewrite andb_true_r.
    destruct (c <? 128).
    + rewrite unquote_items_byt_head. apply N.eqb_sym.
    + rewrite unquote_items_raw_head. apply N.eqb_sym.
Qed.

(* ---- a NUL in the decoded string comes from a raw NUL or from "%00" ---- *)
Lemma hexval_0 a : hexval a = Some 0 -> a = 48.
Proof.
  unfold hexval. repeat match goal with |- context [if ?c then _ else _] => destruct c eqn:? end;
    intros H; inversion H;
    repeat match goal with H : _ && _ = true |- _ => apply andb_true_iff in H; destruct H end;
    repeat match goal with H : (_ <=? _) = true |- _ => apply N.leb_le in H end; lia.
Qed.

Lemma contains_cons p x s : contains p s = true -> contains p (x :: s) = true.
Proof. rewrite !contains_iff. intros [a [b ->]]. exists (x :: a), b. reflexivity. Qed.

Lemma items_zero_n n : forall s, (length s <= n)%nat ->
  forall it, In it (items s) -> item_val it = 0 -> In 0 s \/ contains [PCT; 48; 48] s = true.
Proof.
  induction n as [|n IH]; intros s Hl it Hin Hz.
  - destruct s; [destruct Hin | cbn in Hl; lia].
  - destruct s as [|c r]; [destruct Hin|]. cbn [items] in Hin. cbn [length] in Hl.
    assert (Hrec : forall r', (length r' <= n)%nat -> In it (items r') ->
                   (In 0 r' \/ contains [PCT; 48; 48] r' = true)) by (intros; eapply IH; eauto).
    assert (Hlift : In 0 r \/ contains [PCT; 48; 48] r = true -> In 0 (c :: r) \/ contains [PCT; 48; 48] (c :: r) = true).
    { intros [H|H]; [left; now right | right; now apply contains_cons]. }
    destruct (c =? PCT) eqn:Ec.
    + apply N.eqb_eq in Ec. subst c.
      assert (Hplain : In it (Byt PCT :: items r) -> In 0 (PCT :: r) \/ contains [PCT; 48; 48] (PCT :: r) = true).
      { intros [<-|H]; [cbn in Hz; discriminate Hz|]. apply Hlift, Hrec; [lia|exact H]. }
      destruct r as [|a [|b r']]; [now apply Hplain | now apply Hplain |].
      destruct (hexval a) as [x|] eqn:Ea; [|now apply Hplain].
      destruct (hexval b) as [y|] eqn:Eb; [|now apply Hplain].
      destruct Hin as [<-|Hin].
      * cbn [item_val] in Hz. assert (x = 0) by lia. assert (y = 0) by lia. subst.
        apply hexval_0 in Ea, Eb. subst. right. reflexivity.
      * cbn [length] in Hl. destruct (Hrec r' ltac:(lia) Hin) as [H|H].
        -- left. right. right. right. exact H.
        -- right. now do 3 apply contains_cons.
    + destruct (c <? 128) eqn:E128.
      * destruct Hin as [<-|Hin]; [cbn [item_val] in Hz; subst c; left; now left|].
        apply Hlift, Hrec; [lia|exact Hin].
      * destruct Hin as [<-|Hin]; [cbn [item_val] in Hz; subst c; discriminate E128|].
        apply Hlift, Hrec; [lia|exact Hin].
Qed.

Theorem unquote_no_nul s : mem_N 0 s = false -> contains [PCT; 48; 48] s = false -> ~ In 0 (unquote s).
Proof.
  intros H1 H2 Hin.
  assert (Hf : In 0 (fa (unquote s))) by (apply filter_In; split; [exact Hin|reflexivity]).
  rewrite unquote_ascii in Hf. apply filter_In in Hf as [Hf _]. apply in_map_iff in Hf as [it [Hz Hit]].
  destruct (items_zero_n (length s) s (le_n _) it Hit Hz) as [H|H].
  - apply mem_N_false in H1. contradiction.
  - congruence.
Qed.
