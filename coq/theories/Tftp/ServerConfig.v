(* What TftpServer.__init__ makes of its numeric parameters and hands to every transfer
   (vinegar/tftp/server.py TftpServer.__init__ / _handle_read): the time-outs, the retry budget and
   the block-size limit are clamped into their documented ranges, the block-counter wrap value is
   passed on exactly as configured (0, 1, any other number, or None = no wrapping).
   Definitions and their (short) proofs. *)
From Coq Require Import String.
From Coq Require Import List ZArith Bool Lia.
Import ListNotations.
Open Scope Z_scope.

Record srv_cfg := { sc_default_tmo : Z; sc_max_tmo : Z; sc_retries : Z; sc_max_bs : Z; sc_wrap : option Z }.

Definition clamp (lo hi x : Z) : Z := if x <? lo then lo else if hi <? x then hi else x.

Definition normalise (c : srv_cfg) : srv_cfg :=
  let mt := clamp 1 255 (sc_max_tmo c) in
  {| sc_default_tmo := clamp 1 mt (sc_default_tmo c);
     sc_max_tmo := mt;
     sc_retries := if sc_retries c <? 1 then 1 else sc_retries c;
     sc_max_bs := clamp 512 65464 (sc_max_bs c);
     sc_wrap := sc_wrap c |}.

Definition opt_eqb (a b : option Z) : bool :=
  match a, b with Some x, Some y => x =? y | None, None => true | _, _ => false end.

(* the checker: what reached the transfer (observed) against the documented ranges, field by field *)
Definition holds_cfg (c o : srv_cfg) : list string :=
  let n := normalise c in
  (if opt_eqb (sc_wrap o) (sc_wrap c) then [] else ["C01:configured_wrap_value_reaches_the_transfer"%string]) ++
  (if (sc_max_bs o =? sc_max_bs n) then [] else ["C07:max_block_size_clamped_to_512_65464"%string]) ++
  (if (sc_max_tmo o =? sc_max_tmo n) && (sc_default_tmo o =? sc_default_tmo n) then []
   else ["C07:timeouts_clamped"%string]) ++
  (if (sc_retries o =? sc_retries n) then [] else ["C02:max_retries_at_least_one"%string]).

Lemma clamp_range lo hi x : lo <= hi -> lo <= clamp lo hi x <= hi.
Proof. intros H. unfold clamp. destruct (Z.ltb_spec x lo); [lia|]. destruct (Z.ltb_spec hi x); lia. Qed.
Lemma clamp_id lo hi x : lo <= x <= hi -> clamp lo hi x = x.
Proof. intros H. unfold clamp. destruct (Z.ltb_spec x lo); [lia|]. destruct (Z.ltb_spec hi x); lia. Qed.

Theorem normalise_ranges c :
  let n := normalise c in
  1 <= sc_max_tmo n <= 255 /\ 1 <= sc_default_tmo n <= sc_max_tmo n /\ 1 <= sc_retries n /\
  512 <= sc_max_bs n <= 65464 /\ sc_wrap n = sc_wrap c.
Proof.
  cbn. pose proof (clamp_range 1 255 (sc_max_tmo c) ltac:(lia)) as H1.
  pose proof (clamp_range 1 (clamp 1 255 (sc_max_tmo c)) (sc_default_tmo c) ltac:(lia)) as H2.
  pose proof (clamp_range 512 65464 (sc_max_bs c) ltac:(lia)) as H3.
  repeat split; try lia. destruct (Z.ltb_spec (sc_retries c) 1); lia.
Qed.

Theorem normalise_in_range_unchanged c :
  1 <= sc_max_tmo c <= 255 -> 1 <= sc_default_tmo c <= sc_max_tmo c -> 1 <= sc_retries c ->
  512 <= sc_max_bs c <= 65464 -> normalise c = c.
Proof.
  intros A B C D. destruct c as [dt mt rt mb w]. cbn in *. unfold normalise. cbn.
  rewrite (clamp_id 1 255 mt A), (clamp_id 1 mt dt B), (clamp_id 512 65464 mb D).
  destruct (Z.ltb_spec rt 1); [lia|reflexivity].
Qed.

Theorem normalise_idempotent c : normalise (normalise c) = normalise c.
Proof.
  pose proof (normalise_ranges c) as (A & B & C & D & _). cbv zeta in *.
  apply normalise_in_range_unchanged; assumption.
Qed.

Theorem model_holds_cfg c : holds_cfg c (normalise c) = [].
Proof.
  unfold holds_cfg.
  assert (W : opt_eqb (sc_wrap (normalise c)) (sc_wrap c) = true).
  { cbn. destruct (sc_wrap c); cbn; [apply Z.eqb_refl|reflexivity]. }
  rewrite W, !Z.eqb_refl. reflexivity.
Qed.
