(* C12: case/observation types, executable checker [holds], sx entry point. *)
From Coq Require Import String.
From Coq Require Import List NArith ZArith Bool Arith.
From VF Require Import Base.Sx PyVal.Val PyVal.Codec Merge.Merge Yaml.Target Yaml.Exec Yaml.Cache.
Import ListNotations.

(* one get_data call of the history as data: system, preceding version, snapshot, render table *)
Record kcall := { q_sys : str; q_pv : str; q_tree : fstree; q_render : list (str * res str) }.
(* the target matcher is a table per (system id, preceding-data version): the version identifies the data *)
Definition mgroup := (str * str * list (str * res bool))%type.
Record case := { cV : variants; cC : config; cCap : nat; cYload : list (str * res val);
                 cMatch : list mgroup; cCalls : list kcall }.
Definition group_table (sys pv : str) (gs : list mgroup) : list (str * res bool) :=
  match find (fun g => str_eqb sys (fst (fst g)) && str_eqb pv (snd (fst g))) gs with
  | Some g => snd g
  | None => []
  end.
Definition mo_of (c : case) (sys pv : str) : str -> res bool := table_fun (group_table sys pv (cMatch c)).
(* per call: what the long-lived source returned and what a newly constructed source returned *)
Definition obs := list (res (dict * str) * res (dict * str)).

Definition mk_call (c : case) (q : kcall) : call :=
  {| k_sys := q_sys q; k_pv := q_pv q; k_tree := q_tree q;
     k_render := table_fun (q_render q); k_match := mo_of c (q_sys q) (q_pv q) |}.

Definition run_model (c : case) : obs :=
  let ks := map (mk_call c) (cCalls c) in
  let yl := table_fun (cYload c) in
  List.combine (run_history (cV c) (cC c) model_H yl (cCap c) [] ks)
          (map (fresh_result (cV c) (cC c) model_H yl) ks).

Definition spec_of (c : case) (q : kcall) : res dict :=
  get_data_spec (no_marker (cV c)) (cC c) model_H (table_fun (q_render q)) (table_fun (cYload c)) (mo_of c (q_sys q) (q_pv q)) (q_tree q).

Definition same_dict (a b : dict) : bool := same (VDict a) (VDict b).

(* the data of one result against the specification for that moment *)
Definition data_clause (nm : string) (c : case) (q : kcall) (r : res (dict * str)) : list string :=
  match r, spec_of c q with
  | Ok (d, _), Ok d' => if same_dict d d' then [] else [nm]
  | Err e, Err e' => if exc_eqb e e' then [] else [nm]
  | Err _, Ok _ => [nm]
  | Ok _, Err _ => [nm]
  end.

Definition version_clause (p : res (dict * str) * res (dict * str)) : list string :=
  match p with
  | (Ok (_, v), Ok (_, v')) => if str_eqb v v' then [] else ["version_equals_fresh"%string]
  | (Err e, Err e') => if exc_eqb e e' then [] else ["error_equals_fresh"%string]
  | _ => ["result_kind_equals_fresh"%string]
  end.

Fixpoint holds_steps (c : case) (qs : list kcall) (o : obs) : list string :=
  match qs, o with
  | [], [] => []
  | q :: qr, p :: orest =>
      data_clause "returns_current_data"%string c q (fst p) ++ data_clause "fresh_source_data"%string c q (snd p) ++
      version_clause p ++ holds_steps c qr orest
  | _, _ => ["observation_length"%string]
  end.

(* different data under one version string, anywhere in the history *)
Definition tracks (a b : res (dict * str)) : bool :=
  match a, b with
  | Ok (d, v), Ok (d', v') => negb (str_eqb v v') || same_dict d d'
  | _, _ => true
  end.
Definition version_tracks (o : obs) : list string :=
  let rs := map fst o in
  if forallb (fun a => forallb (tracks a) rs) rs then [] else ["version_tracks_data"%string].

Definition holds (c : case) (o : obs) : list string := holds_steps c (cCalls c) o ++ version_tracks o.

Definition res_wf (r : str * res val) : bool := match snd r with Ok v => wf v | Err _ => true end.
Definition variants_eqb (a b : variants) : bool :=
  Bool.eqb (tag_after a) (tag_after b) && Bool.eqb (rerender a) (rerender b) && Bool.eqb (empty_raises a) (empty_raises b) &&
  Bool.eqb (marker_compared a) (marker_compared b).
Definition validb (c : case) : bool :=
  variants_eqb (cV c) current_variants && forallb res_wf (cYload c).
Definition valid (c : case) : Prop := validb c = true.

(* ---- sx ---- *)
Definition sx_of_gres (r : res (dict * str)) : sx :=
  sx_of_res (fun dv => L [sx_of_dict (fst dv); B (snd dv)]) r.
Definition gres_of_sx : sx -> option (res (dict * str)) :=
  res_of_sx (fun p => match p with
                      | L [d; B v] => option_map (fun d' => (d', v)) (dict_of_sx d)
                      | _ => None
                      end).
Definition kcall_of_sx (x : sx) : option kcall :=
  match x with
  | L [B sys; B pv; tr; rt] =>
      match tree_of_sx tr, asListOf (entry_of_sx asB) rt with
      | Some t, Some r => Some {| q_sys := sys; q_pv := pv; q_tree := t; q_render := r |}
      | _, _ => None
      end
  | _ => None
  end.
Definition mgroup_of_sx (x : sx) : option mgroup :=
  match x with
  | L [B sys; B pv; mt] => option_map (fun m => (sys, pv, m)) (asListOf (entry_of_sx asBool) mt)
  | _ => None
  end.
Definition pair_of_sx (x : sx) : option (res (dict * str) * res (dict * str)) :=
  match x with
  | L [a; b] => match gres_of_sx a, gres_of_sx b with Some a', Some b' => Some (a', b') | _, _ => None end
  | _ => None
  end.

Definition decode (x : sx) : option (case * obs) :=
  match x with
  | L [v; cfg; cap; yl; L groups; L calls; L io] =>
      match variants_of_sx v, config_of_sx cfg, asNat cap, asListOf (entry_of_sx val_of_sx) yl,
            omap' mgroup_of_sx groups, omap' kcall_of_sx calls, omap' pair_of_sx io with
      | Some v', Some c', Some n, Some y, Some gs, Some ks, Some o =>
          Some ({| cV := v'; cC := c'; cCap := n; cYload := y; cMatch := gs; cCalls := ks |}, o)
      | _, _, _, _, _, _, _ => None
      end
  | _ => None
  end.

(* ---- second kind of case: the LRU cache alone, driven by get/set operations ----
   observation per operation: the value a get returned, and which of the keys are present afterwards *)
Inductive lop := LGet (k : str) | LSet (k : str) (v : Z).
Definition present (k : str) (st : lru Z) : bool := existsb (key_is k) st.
Fixpoint lru_run (cap : nat) (keys : list str) (ops : list lop) (st : lru Z) : list (option Z * list bool) :=
  match ops with
  | [] => []
  | LGet k :: r => let (o, st') := lru_get k st in (o, map (fun k' => present k' st') keys) :: lru_run cap keys r st'
  | LSet k v :: r => let st' := lru_set cap k v st in (None, map (fun k' => present k' st') keys) :: lru_run cap keys r st'
  end.
Definition lop_of_sx (x : sx) : option lop :=
  match x with
  | L [I 0%Z; B k] => Some (LGet k)
  | L [I 1%Z; B k; I v] => Some (LSet k v)
  | _ => None
  end.
Definition sx_of_lobs (o : option Z * list bool) : sx :=
  L [match fst o with Some z => L [I z] | None => L [] end; L (map sxBool (snd o))].
Definition sx_eqb_list (a b : list N) : bool := str_eqb a b.
Definition entry_lru (cap : sx) (keys : sx) (ops : sx) (io : sx) : sx :=
  match asNat cap, asListOf asB keys, asListOf lop_of_sx ops with
  | Some c, Some ks, Some os =>
      let m := L (map sx_of_lobs (lru_run c ks os [])) in
      (* LRU-only cases are not [case]s of C12_holds: their checker is equality with [lru_run], the function the
         lru_spec theorems quantify over; the flag says so (C12_lru_cases_covered) *)
      L [m; L []; L (if str_eqb (print m) (print io) then [] else [sxS "lru_spec"]); L []; I 1]
  | _, _, _ => sxS "bad-case"
  end.

Definition entry (x : sx) : sx :=
  match x with
  | L [I 7%Z; cap; keys; ops; io] => entry_lru cap keys ops io
  | _ =>
  match decode x with
  | None => sxS "bad-case"
  | Some (c, io) =>
      let m := run_model c in
      L [ L (map (fun p => L [sx_of_gres (fst p); sx_of_gres (snd p)]) m);
          L (map sxS (holds c m)); L (map sxS (holds c io));
          L (map (fun q => sx_of_res sx_of_dict (spec_of c q)) (cCalls c)); sxBool (validb c) ]
  end
  end.
