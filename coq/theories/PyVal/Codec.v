(* sx encoding of Python value trees and exception classes (harness <-> model).
   (tag args...) with tag 0 None, 1 bool, 2 int, 3 str, 4 bytes, 5 list, 6 tuple,
   7 set, 8 dict as ((k v) ...), 9 opaque. *)
From Coq Require Import List NArith ZArith Bool Arith.
From VF Require Import Base.Sx PyVal.Val.
Import ListNotations.

Section OMap.
  Variables A B : Type.
  Variable f : A -> option B.
  Fixpoint omap' (l : list A) : option (list B) :=
    match l with
    | [] => Some []
    | a :: r => match f a, omap' r with Some b, Some r' => Some (b :: r') | _, _ => None end
    end.
End OMap.
Arguments omap' {A B}.

Section OPairs.
  Variable f : sx -> option val.
  Fixpoint opairs (l : list sx) : option dict :=
    match l with
    | [] => Some []
    | L [k; v] :: r => match f k, f v, opairs r with
                       | Some k', Some v', Some r' => Some ((k', v') :: r')
                       | _, _, _ => None
                       end
    | _ => None
    end.
End OPairs.

Fixpoint sx_of_val (v : val) : sx :=
  match v with
  | VNone => L [I 0]
  | VBool b => L [I 1; sxBool b]
  | VInt z => L [I 2; I z]
  | VStr s => L [I 3; B s]
  | VBytes s => L [I 4; B s]
  | VList l => L [I 5; L (map sx_of_val l)]
  | VTuple l => L [I 6; L (map sx_of_val l)]
  | VSet l => L [I 7; L (map sx_of_val l)]
  | VDict d => L [I 8; L (map (fun kv => L [sx_of_val (fst kv); sx_of_val (snd kv)]) d)]
  | VOpaque t => L [I 9; sxN t]
  end.
Definition sx_of_dict (d : dict) : sx := sx_of_val (VDict d).

Fixpoint val_of_sx (x : sx) : option val :=
  match x with
  | L (I t :: args) =>
      if (t =? 0)%Z then match args with [] => Some VNone | _ => None end
      else if (t =? 1)%Z then match args with [I b] => Some (VBool (negb (b =? 0)%Z)) | _ => None end
      else if (t =? 2)%Z then match args with [I z] => Some (VInt z) | _ => None end
      else if (t =? 3)%Z then match args with [B s] => Some (VStr s) | _ => None end
      else if (t =? 4)%Z then match args with [B s] => Some (VBytes s) | _ => None end
      else if (t =? 5)%Z then match args with [L items] => option_map VList (omap' val_of_sx items) | _ => None end
      else if (t =? 6)%Z then match args with [L items] => option_map VTuple (omap' val_of_sx items) | _ => None end
      else if (t =? 7)%Z then match args with [L items] => option_map VSet (omap' val_of_sx items) | _ => None end
      else if (t =? 8)%Z then match args with [L items] => option_map VDict (opairs val_of_sx items) | _ => None end
      else if (t =? 9)%Z then match args with [I z] => Some (VOpaque (Z.to_N z)) | _ => None end
      else None
  | _ => None
  end.
Definition dict_of_sx (x : sx) : option dict :=
  match val_of_sx x with Some (VDict d) => Some d | _ => None end.

Definition exc_code (e : exc) : Z :=
  match e with
  | TypeError => 1 | ValueError => 2 | KeyError => 3 | RuntimeError => 4 | FileNotFoundError => 5
  | OSError => 6 | YamlError => 7 | TemplateError => 8 | OutOfFuel => 9
  | OtherError t => 100 + Z.of_N t
  end%Z.
Definition exc_of_code (z : Z) : exc :=
  if (z =? 1)%Z then TypeError else if (z =? 2)%Z then ValueError else if (z =? 3)%Z then KeyError
  else if (z =? 4)%Z then RuntimeError else if (z =? 5)%Z then FileNotFoundError else if (z =? 6)%Z then OSError
  else if (z =? 7)%Z then YamlError else if (z =? 8)%Z then TemplateError else if (z =? 9)%Z then OutOfFuel
  else OtherError (Z.to_N (z - 100)).
Definition exc_eqb (a b : exc) : bool := (exc_code a =? exc_code b)%Z.

(* results: (0 payload) | (1 class) *)
Definition sx_of_res {A} (f : A -> sx) (r : res A) : sx :=
  match r with Ok a => L [I 0; f a] | Err e => L [I 1; I (exc_code e)] end.
Definition res_of_sx {A} (f : sx -> option A) (x : sx) : option (res A) :=
  match x with
  | L [I 0%Z; p] => option_map Ok (f p)
  | L [I 1%Z; I c] => Some (Err (exc_of_code c))
  | _ => None
  end.
