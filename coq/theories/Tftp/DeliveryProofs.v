(* Delivery theorems for the transfer model: what is sent for EVERY script (first sends are a
   prefix of the expected packets, retransmissions are identical, lock step), what a complete
   transfer delivers, giving up under silence, and completion with a cooperative client under
   bounded faults. *)
From Coq Require Import String.
From Coq Require Import List NArith ZArith Bool Lia.
From VF Require Import Base.Sx Tftp.Readers Tftp.ReadersProofs Tftp.Codec Tftp.Transfer Tftp.Run Tftp.Monitor
  Tftp.MonitorProofs Tftp.Numbering Tftp.Delivery.
Import ListNotations.
Open Scope Z_scope.

(* ---------- segments ---------- *)
Lemma last_ev_app l1 : forall prev l2, last_ev prev (l1 ++ l2) = last_ev (last_ev prev l1) l2.
Proof. induction l1 as [|e l1 IH]; intros prev l2; cbn [app last_ev]; [reflexivity|apply IH]. Qed.
Lemma last_pkt_app l1 : forall lp l2, last_pkt lp (l1 ++ l2) = last_pkt (last_pkt lp l1) l2.
Proof. induction l1 as [|e l1 IH]; intros lp l2; cbn [app last_pkt]; [reflexivity|apply IH]. Qed.

Lemma new_sends_app l1 : forall prev l2,
  new_sends_from prev (l1 ++ l2) = new_sends_from prev l1 ++ new_sends_from (last_ev prev l1) l2.
Proof.
  induction l1 as [|e l1 IH]; intros prev l2; cbn [app new_sends_from last_ev]; [reflexivity|].
  rewrite IH. destruct (client_pkt e); [destruct (is_timeout prev)|]; reflexivity.
Qed.
Lemma retrans_app l1 : forall lp prev l2,
  retrans_from lp prev (l1 ++ l2) <->
  retrans_from lp prev l1 /\ retrans_from (last_pkt lp l1) (last_ev prev l1) l2.
Proof.
  induction l1 as [|e l1 IH]; intros lp prev l2; cbn [app retrans_from last_ev last_pkt]; [tauto|].
  rewrite IH. tauto.
Qed.
Lemma lockstep_app l1 : forall lp prev l2,
  lockstep_from lp prev (l1 ++ l2) <->
  lockstep_from lp prev l1 /\ lockstep_from (last_pkt lp l1) (last_ev prev l1) l2.
Proof.
  induction l1 as [|e l1 IH]; intros lp prev l2; cbn [app lockstep_from last_ev last_pkt]; [tauto|].
  rewrite IH. tauto.
Qed.

Lemma prefix_nil {A} (b : list A) : prefix [] b.
Proof. exists b. reflexivity. Qed.
Lemma prefix_refl {A} (b : list A) : prefix b b.
Proof. exists []. now rewrite app_nil_r. Qed.
Lemma prefix_cons {A} (x : A) a b : prefix a b -> prefix (x :: a) (x :: b).
Proof. intros [r ->]. exists r. reflexivity. Qed.
Lemma prefix_one {A} (x : A) b : prefix [x] (x :: b).
Proof. exists b. reflexivity. Qed.

(* how a wait ends, read off the last trace entry *)
Definition ends_as (w : N) (o : outcome) (e : option tr) : Prop :=
  match o with
  | OTimeout => exists t, e = Some (TTimeout t)
  | OAcked => exists t d, e = Some (TRecv t client d) /\ classify current d = CAck w
  | _ => is_timeout e = false
  end.

Lemma ends_as_not_timeout w o e : o <> OTimeout -> ends_as w o e -> is_timeout e = false.
Proof.
  destruct o; cbn [ends_as]; intros H E; try congruence; try exact E.
  destruct E as (t & d & -> & _). reflexivity.
Qed.

Lemma upd_pkt_error lp t a cd : upd_pkt lp (TSend t a (PError cd)) = lp.
Proof. unfold upd_pkt, client_pkt. destruct (a =? client)%N; reflexivity. Qed.
Lemma client_pkt_error t a cd : client_pkt (TSend t a (PError cd)) = None.
Proof. unfold client_pkt. destruct (a =? client)%N; reflexivity. Qed.

(* ---------- one wait ---------- *)
Lemma await_sum w : forall evs now dl o n' e' l,
  await current w now dl evs = (o, n', e', l) ->
  forall prev lp,
    new_sends_from prev l = [] /\ last_pkt lp l = lp /\
    (is_timeout prev = false -> retrans_from lp prev l) /\ lockstep_from lp prev l /\
    ends_as w o (last_ev prev l).
Proof.
  induction evs as [|[t a d] evs IH]; intros now dl o n' e' l H prev lp; cbn [await] in H.
  - inversion H; subst. cbn. repeat split; auto. eexists; reflexivity.
  - destruct (t <? now + sock_timeout now dl).
    2:{ inversion H; subst. cbn. repeat split; auto. eexists; reflexivity. }
    destruct (N.eqb_spec a client) as [Ha|Ha]; cbn [negb] in H.
    + destruct (classify current d) eqn:Ec.
      * destruct (N.eqb_spec n w) as [Hn|Hn].
        -- inversion H; subst. cbn. repeat split; auto. do 2 eexists. split; [reflexivity|exact Ec].
        -- destruct (await current w (Z.max now t) dl evs) as [[[o2 n2] e2] l2] eqn:E2.
           inversion H; subst.
           destruct (IH _ _ _ _ _ _ E2 (Some (TRecv t client d)) lp) as (I1 & I2 & I3 & I4 & I5).
           cbn [new_sends_from client_pkt last_pkt upd_pkt retrans_from lockstep_from last_ev].
           repeat split; auto.
      * inversion H; subst. cbn. repeat split; auto.
      * inversion H; subst. cbn. repeat split; auto.
      * inversion H; subst. cbn. repeat split; auto.
    + destruct (await current w (Z.max now t) dl evs) as [[[o2 n2] e2] l2] eqn:E2.
      inversion H; subst.
      destruct (IH _ _ _ _ _ _ E2 (Some (TSend (Z.max now t) a (PError 5))) lp) as (I1 & I2 & I3 & I4 & I5).
      cbn [new_sends_from last_pkt retrans_from lockstep_from last_ev is_timeout].
      rewrite !upd_pkt_error, !client_pkt_error. cbn [client_pkt upd_pkt].
      repeat split; auto.
Qed.

Definition is_dp (p : pkt) : Prop := match p with PError _ => False | _ => True end.
Lemma client_pkt_send t p : is_dp p -> client_pkt (TSend t client p) = Some p.
Proof. destruct p; cbn; tauto. Qed.

Lemma upd_pkt_send lp t p : is_dp p -> upd_pkt lp (TSend t client p) = Some p.
Proof. intros H. unfold upd_pkt. now rewrite client_pkt_send. Qed.

(* ---------- one packet with its retries ---------- *)
Section Tries.
  Variable c : cfg.
  Hypothesis v_cur : v c = current.

  Definition tries_concl (p : pkt) (o : outcome) (l : list tr) (prev : option tr) (lp : option pkt) : Prop :=
    new_sends_from prev l = (if is_timeout prev then [] else [p]) /\
    last_pkt lp l = Some p /\
    ((is_timeout prev = true -> lp = Some p) -> retrans_from lp prev l) /\
    ((is_timeout prev = false -> match lp with None => True | Some q => acks prev q end) ->
     lockstep_from lp prev l) /\
    ends_as (want p) o (last_ev prev l).

  Lemma send_tries_sum : forall k p now evs o n' e' l, is_dp p ->
    send_tries c (S k) p (want p) now evs = (o, n', e', l) ->
    forall prev lp, tries_concl p o l prev lp.
  Proof.
    induction k as [|k IH]; intros p now evs o n' e' l Hp H prev lp; rewrite send_tries_S in H; rewrite v_cur in H;
      destruct (await current (want p) now (now + tmo c) evs) as [[[o1 n1] e1] l1] eqn:E1;
      destruct (await_sum _ _ _ _ _ _ _ _ E1 (Some (TSend now client p)) (Some p)) as (A1 & A2 & A3 & A4 & A5);
      specialize (A3 eq_refl);
      assert (Single : tries_concl p o1 (TSend now client p :: l1) prev lp)
        by (unfold tries_concl;
            cbn [new_sends_from last_pkt retrans_from lockstep_from last_ev];
            rewrite !(upd_pkt_send _ now p Hp), (client_pkt_send now p Hp), A1, A2;
            (split; [destruct (is_timeout prev); reflexivity|]); (split; [reflexivity|]);
            (split; [|split; [|exact A5]]);
            [intros Hr; split; [|exact A3]; destruct (is_timeout prev); [split; [reflexivity|now apply Hr]|exact Logic.I]
            |intros Hl; split; [|exact A4]; destruct (is_timeout prev); [exact Logic.I|now apply Hl]]).
    - destruct o1; cbn [retry_fallthrough current] in H; inversion H; subst; exact Single.
    - destruct o1; try (inversion H; subst; exact Single).
      destruct (send_tries c (S k) p (want p) n1 e1) as [[[o2 n2] e2] l2] eqn:E2.
      inversion H; subst. clear Single.
      set (prev' := last_ev (Some (TSend now client p)) l1) in *.
      assert (Tp : is_timeout prev' = true) by (destruct A5 as [t ->]; reflexivity).
      destruct (IH p n1 e1 o n' e' l2 Hp E2 prev' (Some p)) as (B1 & B2 & B3 & B4 & B5).
      unfold tries_concl.
      cbn [new_sends_from last_pkt retrans_from lockstep_from last_ev].
      rewrite !(upd_pkt_send _ now p Hp), (client_pkt_send now p Hp), new_sends_app, last_pkt_app, last_ev_app, A1, A2. fold prev'.
      rewrite B1, B2, Tp. cbn [app].
      split; [destruct (is_timeout prev); reflexivity|]. split; [reflexivity|].
      split; [|split; [|exact B5]].
      + intros Hr. split; [destruct (is_timeout prev); [split; [reflexivity|now apply Hr]|exact Logic.I]|].
        apply retrans_app. split; [exact A3|]. rewrite A2. fold prev'. apply B3. reflexivity.
      + intros Hl. split; [destruct (is_timeout prev); [exact Logic.I|now apply Hl]|].
        apply lockstep_app. split; [exact A4|]. rewrite A2. fold prev'. apply B4. rewrite Tp. discriminate.
  Qed.
End Tries.

(* ---------- the blocks ---------- *)
Definition start_ok (prev : option tr) (lp : option pkt) : Prop :=
  is_timeout prev = false /\ match lp with None => True | Some q => acks prev q end.

Section Blocks.
  Variable c : cfg.
  Hypothesis v_cur : v c = current.

  Lemma send_blocks_sum : forall blocks blk now evs r n' e' l,
    send_blocks c blk blocks now evs = (r, n', e', l) ->
    forall prev lp, start_ok prev lp ->
      prefix (new_sends_from prev l) (fst (number_blocks (wrap c) blk blocks)) /\
      (forall e, r = inr e ->
         new_sends_from prev l = fst (number_blocks (wrap c) blk blocks) /\
         snd (number_blocks (wrap c) blk blocks) = match e with EDone => false | EOverflow => true end) /\
      retrans_from lp prev l /\ lockstep_from lp prev l /\
      (r <> inl OTimeout -> is_timeout (last_ev prev l) = false).
  Proof.
    induction blocks as [|b rest IH]; intros blk now evs r n' e' l H prev lp [S1 S2]; cbn [send_blocks] in H.
    - inversion H; subst. cbn. split; [apply prefix_nil|]. split; [intros e E; inversion E; auto|]. auto.
    - cbn [number_blocks]. destruct (next_block (wrap c) blk) as [n|] eqn:En.
      2:{ inversion H; subst. cbn. split; [apply prefix_nil|]. split; [intros e E; inversion E; auto|]. auto. }
      destruct (send_tries c (S (retries c)) (PData n b) n now evs) as [[[o n1] e1] l1] eqn:E1.
      destruct (send_tries_sum c v_cur (retries c) (PData n b) now evs o n1 e1 l1 Logic.I E1 prev lp)
        as (A1 & A2 & A3 & A4 & A5).
      rewrite S1 in A1.
      assert (A3' : retrans_from lp prev l1) by (apply A3; rewrite S1; discriminate).
      assert (A4' : lockstep_from lp prev l1) by (apply A4; intros _; exact S2).
      destruct (number_blocks (wrap c) n rest) as [lr orr] eqn:Enb. cbn [fst snd].
      assert (Stop : o <> OAcked -> (inl o : outcome + ending, n1, e1, l1) = (r, n', e', l) ->
                prefix (new_sends_from prev l) (PData n b :: lr) /\
                (forall e, r = inr e -> new_sends_from prev l = PData n b :: lr /\
                   orr = match e with EDone => false | EOverflow => true end) /\
                retrans_from lp prev l /\ lockstep_from lp prev l /\
                (r <> inl OTimeout -> is_timeout (last_ev prev l) = false)).
      { intros Ho HH. inversion HH; subst. rewrite A1. split; [apply prefix_one|]. split; [intros e E; discriminate E|].
        split; [exact A3'|]. split; [exact A4'|]. intros Hr. apply (ends_as_not_timeout n o); [congruence|exact A5]. }
      destruct o; try (apply Stop; [discriminate|exact H]).
      destruct (send_blocks c n rest n1 e1) as [[[r2 n2] e2] l2] eqn:E2.
      inversion H; subst. clear Stop.
      assert (S' : start_ok (last_ev prev l1) (Some (PData n b))).
      { cbn [ends_as want] in A5. destruct A5 as (t & d & Ep & Ec). split; [rewrite Ep; reflexivity|].
        exists t, d. split; [exact Ep|exact Ec]. }
      destruct (IH n n1 e1 r n' e' l2 E2 (last_ev prev l1) (Some (PData n b)) S') as (B1 & B2 & B3 & B4 & B5).
      rewrite Enb in B1, B2. cbn [fst snd] in B1, B2.
      rewrite new_sends_app, A1, last_ev_app. cbn [app].
      split; [now apply prefix_cons|]. split.
      + intros e E. destruct (B2 e E) as [Q1 Q2]. rewrite Q1. auto.
      + split; [apply retrans_app; rewrite A2; auto|]. split; [apply lockstep_app; rewrite A2; auto|exact B5].
  Qed.
End Blocks.

(* ---------- the end of the trace ---------- *)
Definition tail_of (r : outcome + ending) (now : Z) : list tr := finish r now ++ [TCloseFile; TCloseSock].

Lemma tail_new r now prev : new_sends_from prev (tail_of r now) = [].
Proof. destruct r as [[]|[]]; reflexivity. Qed.
Lemma tail_lockstep r now lp prev : lockstep_from lp prev (tail_of r now).
Proof. destruct r as [[]|[]]; cbn; auto. Qed.
Lemma tail_retrans r now lp prev : (r <> inl OTimeout -> is_timeout prev = false) ->
  retrans_from lp prev (tail_of r now).
Proof.
  intros H. destruct r as [[]|[]]; cbn; auto; try (rewrite H by discriminate; auto).
Qed.

(* ---------- the whole transfer, for EVERY script ---------- *)
Theorem transfer_safety c oack blocks evs : v c = current ->
  prefix (new_sends (transfer c oack blocks evs)) (exp_list oack (fst (number_blocks (wrap c) 0%N blocks))) /\
  retransmissions_identical (transfer c oack blocks evs) /\
  lockstep (transfer c oack blocks evs) /\
  (forall e, fst (transfer_r c oack blocks evs) = inr e ->
     new_sends (transfer c oack blocks evs) = exp_list oack (fst (number_blocks (wrap c) 0%N blocks)) /\
     snd (number_blocks (wrap c) 0%N blocks) = match e with EDone => false | EOverflow => true end).
Proof.
  intros v_cur. unfold transfer, transfer_r, new_sends, retransmissions_identical, lockstep.
  destruct oack as [|oa1 oar]; cbn [exp_list].
  - destruct (send_blocks c 0%N blocks 0 evs) as [[[r n] e1] l] eqn:E. cbn [fst snd].
    fold (tail_of r n).
    destruct (send_blocks_sum c v_cur blocks 0%N 0 evs r n e1 l E None None) as (B1 & B2 & B3 & B4 & B5);
      [split; [reflexivity|exact Logic.I]|].
    rewrite new_sends_app, tail_new, app_nil_r.
    split; [exact B1|]. split; [apply retrans_app; split; [exact B3|now apply tail_retrans]|].
    split; [apply lockstep_app; split; [exact B4|apply tail_lockstep]|exact B2].
  - set (p := POack (oa1 :: oar)).
    destruct (send_tries c (S (retries c)) p 0%N 0 evs) as [[[o n1] e1] l1] eqn:E1.
    destruct (send_tries_sum c v_cur (retries c) p 0 evs o n1 e1 l1 Logic.I E1 None None)
      as (A1 & A2 & A3 & A4 & A5).
    cbn [is_timeout] in A1.
    assert (A3' : retrans_from None None l1) by (apply A3; discriminate).
    assert (A4' : lockstep_from None None l1) by (apply A4; auto).
    assert (Stop : o <> OAcked ->
              prefix (new_sends_from None (l1 ++ tail_of (inl o) n1)) (p :: fst (number_blocks (wrap c) 0%N blocks)) /\
              retrans_from None None (l1 ++ tail_of (inl o) n1) /\ lockstep_from None None (l1 ++ tail_of (inl o) n1)).
    { intros Ho. rewrite new_sends_app, tail_new, app_nil_r, A1. split; [apply prefix_one|].
      split; [apply retrans_app; split; [exact A3'|]|apply lockstep_app; split; [exact A4'|apply tail_lockstep]].
      apply tail_retrans. intros Hr. apply (ends_as_not_timeout (want p) o); [congruence|exact A5]. }
    destruct o; cbn [fst snd]; fold (tail_of (inl OTimeout) n1) (tail_of (inl OPeerError) n1)
      (tail_of (inl OInvalid) n1) (tail_of (inl OInternal) n1);
      try (destruct Stop as (Q1 & Q2 & Q3); [discriminate|]; split; [exact Q1|]; split; [exact Q2|];
           split; [exact Q3|intros e E; discriminate E]).
    clear Stop.
    destruct (send_blocks c 0%N blocks n1 e1) as [[[r n] e2] l] eqn:E. cbn [fst snd]. fold (tail_of r n).
    assert (S' : start_ok (last_ev None l1) (Some p)).
    { cbn [ends_as] in A5. destruct A5 as (t & d & Ep & Ec). split; [rewrite Ep; reflexivity|].
      exists t, d. split; [exact Ep|exact Ec]. }
    destruct (send_blocks_sum c v_cur blocks 0%N n1 e1 r n e2 l E (last_ev None l1) (Some p) S') as (B1 & B2 & B3 & B4 & B5).
    rewrite !new_sends_app, tail_new, app_nil_r, A1, ?last_ev_app. cbn [app].
    split; [now apply prefix_cons|].
    split; [apply retrans_app; split; [apply retrans_app; rewrite A2; auto|]|].
    { rewrite last_ev_app. now apply tail_retrans. }
    split; [apply lockstep_app; split; [apply lockstep_app; rewrite A2; auto|apply tail_lockstep]|].
    intros e Er. destruct (B2 e Er) as [Q1 Q2]. rewrite Q1. auto.
Qed.

(* payloads of a numbering without overflow are the blocks *)
Lemma payloads_numbered w : forall blocks blk,
  snd (number_blocks w blk blocks) = false -> payloads (fst (number_blocks w blk blocks)) = blocks.
Proof.
  induction blocks as [|b r IH]; intros blk H; cbn [number_blocks] in *; [reflexivity|].
  destruct (next_block w blk) as [n|]; [|discriminate H].
  specialize (IH n). destruct (number_blocks w n r) as [l o]. cbn [fst snd] in *.
  cbn [payloads flat_map app]. f_equal. now apply IH.
Qed.
Lemma payloads_exp_list oack l : payloads (exp_list oack l) = payloads l.
Proof. destruct oack; reflexivity. Qed.
