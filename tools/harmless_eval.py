#!/usr/bin/env python3
"""
tools/harmless_eval.py <change_dir> <property id> [--keep-as NAME] [--also Cxx]

The counterpart of tools/seed_eval.py for changes that must NOT raise an alarm: a behaviour-preserving or harmless
change (patch.diff + demo.py + meta.json; demo.py passes with and without the change).  Applies the patch in a scratch
worktree of /repo, runs the pinned tests and the demo with it, then ./check <id> (quick) against the patched tree.
Expected: exit 0, no VIOLATION line.  With --keep-as the change is copied to /verif/harmless/<NAME>/ with the result in
meta.json.  The scratch worktree is removed.
"""
import json
import os
import shutil
import subprocess
import sys
import tempfile

V = os.path.dirname(os.path.dirname(os.path.abspath(__file__)))


def sh(cmd, cwd=None, timeout=3600, env=None):
    p = subprocess.run(cmd, shell=True, cwd=cwd, stdout=subprocess.PIPE, stderr=subprocess.STDOUT, text=True,
                       timeout=timeout, env=env)
    return p.returncode, p.stdout


def main():
    d = os.path.abspath(sys.argv[1])
    prop = sys.argv[2]
    keep = None
    also = []
    args = sys.argv[3:]
    while args:
        a = args.pop(0)
        if a == "--keep-as":
            keep = args.pop(0)
        elif a == "--also":
            also.append(args.pop(0))
    wt = tempfile.mkdtemp(prefix="vharm.", dir="/tmp")
    os.rmdir(wt)
    res = {"property": prop}
    try:
        rc, out = sh(f"git -C /repo worktree add -q --detach {wt} HEAD")
        assert rc == 0, out
        env = dict(os.environ, PYTHONPATH=wt, REPO=wt, PYTHONHASHSEED="0", PYTHONDONTWRITEBYTECODE="1")
        rc0, out0 = sh(f"/venv/bin/python {d}/demo.py {wt}", cwd=wt, env=env, timeout=900)
        rc, out = sh(f"git apply {d}/patch.diff", cwd=wt)
        res["applies"] = rc == 0
        if rc == 0:
            rc1, out1 = sh(f"/venv/bin/python {d}/demo.py {wt}", cwd=wt, env=env, timeout=900)
            rct, outt = sh("/venv/bin/python -m pytest -q -p no:cacheprovider --timeout=900 2>&1 | tail -1", cwd=wt, env=env)
            res["demo_without_change"] = rc0
            res["demo_with_change"] = rc1
            res["tests_with_change"] = outt.strip()
            res["confirmed_harmless_by_demo_and_tests"] = rc0 == 0 and rc1 == 0 and "146 passed" in outt
            res["checks"] = {}
            for pid in [prop] + also:
                rcc, outc = sh(f"./check {pid} --tier quick", cwd=V, env=dict(os.environ, VERIF_REPO=wt), timeout=7200)
                lines = [ln for ln in outc.split("\n") if ln.startswith(("VIOLATION", "KNOWN-FINDING", "["))]
                v = {"exit": rcc, "lines": [ln[:300] for ln in lines[-4:]]}
                for ln in lines:
                    if ln.startswith("VIOLATION"):
                        try:
                            doc = json.load(open(ln.split("replay=")[1].split()[0]))
                            v["replay_kind"] = doc["kind"]
                            v["failed_clauses"] = doc["detail"].get("failed_clauses")
                            v["detail"] = json.dumps(doc["detail"])[:1500]
                            v["case"] = json.dumps(doc.get("case"))[:800]
                        except Exception as ex:
                            v["replay_error"] = repr(ex)
                res["checks"][pid] = v
    finally:
        sh(f"git -C /repo worktree remove --force {wt}")
        shutil.rmtree(wt, ignore_errors=True)
    print(json.dumps(res, indent=1)[:5000])
    if keep:
        dst = os.path.join(V, "harmless", keep)
        os.makedirs(dst, exist_ok=True)
        for fn in ("patch.diff", "demo.py"):
            shutil.copy(os.path.join(d, fn), os.path.join(dst, fn))
        meta = {}
        try:
            meta = json.load(open(os.path.join(d, "meta.json")))
        except Exception:
            pass
        meta["evaluation"] = res
        json.dump(meta, open(os.path.join(dst, "meta.json"), "w"), indent=1)


if __name__ == "__main__":
    main()
