From Coq Require Import ExtrOcamlBasic.
From Coq Require Extraction.
From VF Require Import Base.Sx C14.Entry.
Definition main := wrap entry.
Extraction "../ocaml/gen/c14_model.ml" main.
