#!/bin/sh
# Regenerate coq/_CoqProject from the file tree, (re)create the Makefile when the file list changed,
# and run a full .vo build (make -k so that one broken file does not hide the others).
# Callers hold .build.lock (harness) or run it alone (setup.sh).
cd "$(dirname "$0")/../coq" || exit 2
{ echo "-Q theories VF"; find theories -name '*.v' | LC_ALL=C sort; } > _CoqProject.new
if ! cmp -s _CoqProject.new _CoqProject 2>/dev/null || [ ! -f Makefile ]; then
  mv _CoqProject.new _CoqProject
  coq_makefile -f _CoqProject -o Makefile >/dev/null
else
  rm -f _CoqProject.new
fi
mkdir -p ../ocaml/gen
timeout 3300 make -k -j"${VERIF_JOBS:-16}" 2>&1
