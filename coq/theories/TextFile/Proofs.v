(* Proofs about the text-file source model. *)
From Coq Require Import String.
From Coq Require Import List NArith ZArith Bool Arith Lia.
From VF Require Import TextFile.Model.
Import ListNotations.
Open Scope N_scope.

Lemma val_eqb_true a b : val_eqb a b = true -> a = b.
Proof. unfold val_eqb; destruct (val_eq_dec a b); [auto|discriminate]. Qed.
Lemma val_eqb_refl a : val_eqb a a = true.
Proof. unfold val_eqb; destruct (val_eq_dec a a); [auto|congruence]. Qed.
Lemma val_eqb_sym a b : val_eqb a b = val_eqb b a.
Proof. unfold val_eqb; destruct (val_eq_dec a b), (val_eq_dec b a); congruence. Qed.
Lemma str_eqb_true a b : str_eqb a b = true -> a = b.
Proof. unfold str_eqb; destruct (list_eq_dec N.eq_dec a b); [auto|discriminate]. Qed.

Section WithOracle.
  Variable O : oracle.
  Variable c : cfg.

  (* ---------- the parse loop refines the reference semantics ---------- *)
  Definition ext (s : pstate) (sys : list (sysrec * ents)) : pstate :=
    {| sdata := sdata s ++ map fst sys;
       kvlog := kvlog s ++ flat_map (fun se => index_ents true (s_id (fst se)) (snd se)) sys;
       nhlog := nhlog s ++ flat_map (fun se => index_ents false (s_id (fst se)) (snd se)) sys |}.

  Lemma ext_nil s : ext s [] = s.
  Proof. destruct s; unfold ext; cbn. now rewrite !app_nil_r. Qed.

  Lemma ext_cons s r es sys :
    ext {| sdata := sdata s ++ [r]; kvlog := kvlog s ++ index_ents true (s_id r) es;
           nhlog := nhlog s ++ index_ents false (s_id r) es |} sys
    = ext s ((r, es) :: sys).
  Proof. unfold ext; cbn. now rewrite <- !app_assoc. Qed.

  Lemma parse_refines : forall ls s,
    match first_error O c (ids s) ls with
    | Some e => parse_lines O c ls s = Exc e
    | None => parse_lines O c ls s = Ok (ext s (systems O c (ids s) ls))
    end.
  Proof.
    induction ls as [|l r IH]; intros s; cbn [first_error parse_lines systems].
    - now rewrite ext_nil.
    - unfold step. destruct (line_event O c l) as [|e|id body].
      + apply IH.
      + reflexivity.
      + destruct (memv id (ids s)) eqn:Hm.
        * destruct (dup c); [reflexivity| |]; (destruct body as [[k es]|e]; apply IH).
        * destruct body as [[k es]|e]; [|reflexivity].
          specialize (IH {| sdata := sdata s ++ [{| s_id := id; s_kids := k; s_ver := o_hash O l |}];
                            kvlog := kvlog s ++ index_ents true id es;
                            nhlog := nhlog s ++ index_ents false id es |}).
          unfold ids in IH at 1 2. cbn [sdata] in IH. rewrite map_app in IH. cbn [map s_id] in IH.
          fold (ids s) in IH.
          destruct (first_error O c (ids s ++ [id]) r); [exact IH|].
          rewrite IH.
          change id with (s_id {| s_id := id; s_kids := k; s_ver := o_hash O l |}) at 1 2.
          now rewrite ext_cons.
  Qed.

  Lemma load_text s :
    load O c (FText s) =
    match first_error O c [] (file_lines s) with
    | Some e => Exc e
    | None => Ok (ext empty (systems O c [] (file_lines s)))
    end.
  Proof.
    cbn [load]. pose proof (parse_refines (file_lines s) empty) as H.
    change (ids empty) with (@nil val) in H.
    destruct (first_error O c [] (file_lines s)); exact H.
  Qed.

  (* ---------- index lookup = scan of the systems in file order ---------- *)
  Lemma index_lookup key v id es :
    map e_sys (filter (ent_matches key v) (index_ents (hashable v) id es))
    = map (fun _ => id) (filter (var_matches key v) es).
  Proof.
    unfold index_ents. induction es as [|[k' v'] es IH]; [reflexivity|].
    cbn [filter map fst snd].
    destruct (Bool.eqb (hashable v') (hashable v)) eqn:Hh.
    - cbn [map filter]. unfold ent_matches at 1. cbn [e_key e_val]. unfold var_matches at 1. cbn [fst snd].
      destruct (str_eqb k' key && val_eqb v' v); cbn [map e_sys]; now rewrite IH.
    - unfold var_matches at 1. cbn [fst snd].
      destruct (val_eqb v' v) eqn:Hv.
      + apply val_eqb_true in Hv. subst v'. now rewrite Bool.eqb_reflx in Hh.
      + rewrite andb_false_r. exact IH.
  Qed.

  Lemma log_lookup key v sys :
    map e_sys (filter (ent_matches key v)
                 (flat_map (fun se => index_ents (hashable v) (s_id (fst se)) (snd se)) sys))
    = systems_with key v sys.
  Proof.
    induction sys as [|[r es] sys IH]; [reflexivity|].
    cbn [flat_map systems_with fst snd]. rewrite filter_app, map_app, index_lookup.
    f_equal. exact IH.
  Qed.

  Lemma find_in_ext key v sys :
    find_in c (ext empty sys) key v = pick (ffm c) (systems_with key v sys).
  Proof.
    unfold find_in. f_equal.
    destruct (hashable v) eqn:Hh; cbn [ext kvlog nhlog empty app]; rewrite <- Hh; apply log_lookup.
  Qed.

  (* ---------- a fresh source answers with the reference semantics ---------- *)
  Definition loaded_answer (f : fstate) (cl : call) : answer :=
    match load O c f with Exc e => ARaise e | Ok s => answer_of c s cl end.

  Lemma loaded_answer_spec f cl : loaded_answer f cl = spec_answer O c f cl.
  Proof.
    unfold loaded_answer. destruct f as [| |s|e]; [reflexivity|reflexivity| |reflexivity].
    rewrite load_text. cbn [spec_answer].
    destruct (first_error O c [] (file_lines s)); [reflexivity|].
    destruct cl as [id|key v]; cbn [answer_of].
    - unfold get_in. cbn [ext sdata empty app]. reflexivity.
    - now rewrite find_in_ext.
  Qed.

  Lemma fresh_call fs cl : snd (do_call O c fs fresh cl) = loaded_answer (snd fs) cl.
  Proof.
    unfold do_call, update, loaded_answer, reparse. cbn [fver fresh].
    destruct (cache c); destruct (load O c (snd fs)); reflexivity.
  Qed.

  (* ---------- reload_complete ---------- *)
  Section History.
    (* "every change of the file changes its stat version": the stat version determines the content *)
    Variable content_of : N -> fstate.

    Definition inv (src : source) : Prop :=
      match fver src with
      | None => True
      | Some v => load O c (content_of v) = Ok (st src)
      end.

    Lemma inv_fresh : inv fresh.
    Proof. exact I. Qed.

    Definition hitb (memo : option N) (v : N) : bool :=
      cache c && match memo with Some v' => v' =? v | None => false end.
    (* which stat version the snapshot is remembered for after a call that saw (v, f) *)
    Definition memo_after (memo : option N) (v : N) (f : fstate) : option N :=
      if hitb memo v then memo
      else if cache c then match load O c f with Ok _ => Some v | Exc _ => None end else None.

    Lemma do_call_gen v f src cl : inv src ->
      (f = content_of v \/ exists e, load O c f = Exc e) ->
      inv (fst (do_call O c (v, f) src cl)) /\
      fver (fst (do_call O c (v, f) src cl)) = memo_after (fver src) v f /\
      snd (do_call O c (v, f) src cl) = loaded_answer (if hitb (fver src) v then content_of v else f) cl.
    Proof.
      intros Hi Hf. unfold do_call, update, loaded_answer, memo_after, hitb. cbn [fst snd].
      assert (Hre : forall b : bool, b = false ->
                inv (fst (let (src', e) := reparse O c v f in
                          match e with Some e0 => (src', ARaise e0) | None => (src', answer_of c (st src') cl) end)) /\
                fver (fst (let (src', e) := reparse O c v f in
                          match e with Some e0 => (src', ARaise e0) | None => (src', answer_of c (st src') cl) end))
                = (if cache c then match load O c f with Ok _ => Some v | Exc _ => None end else None) /\
                snd (let (src', e) := reparse O c v f in
                     match e with Some e0 => (src', ARaise e0) | None => (src', answer_of c (st src') cl) end)
                = match load O c f with Exc e => ARaise e | Ok s => answer_of c s cl end).
      { intros _ _. unfold reparse. destruct (load O c f) eqn:Hl; cbn [fst snd fver st fresh].
        - split; [|split; reflexivity]. unfold inv. cbn [fver st]. destruct (cache c); [|exact I].
          destruct Hf as [->|(e & He)]; [exact Hl|congruence].
        - split; [exact I|split; [destruct (cache c); reflexivity|reflexivity]]. }
      destruct (cache c) eqn:Hc; cbn [andb].
      - destruct (fver src) as [v'|] eqn:Hv.
        + destruct (N.eqb_spec v' v) as [->|Hne].
          * cbn [fst snd]. split; [exact Hi|]. split; [exact Hv|].
            unfold inv in Hi. rewrite Hv in Hi. now rewrite Hi.
          * apply (Hre false eq_refl).
        + apply (Hre false eq_refl).
      - apply (Hre false eq_refl).
    Qed.

    Fixpoint cons_h (fs : N * fstate) (h : list hstep) : Prop :=
      match h with
      | [] => True
      | SEdit v f :: r => f = content_of v /\ cons_h (v, f) r
      | SCall _ :: r => cons_h fs r
      | SCallF _ (FIO _) :: r => cons_h fs r
      | SCallF _ (FStat tok) :: r => snd fs = content_of tok /\ cons_h fs r
      end.
    Definition consistent (fs : N * fstate) (h : list hstep) : Prop :=
      snd fs = content_of (fst fs) /\ cons_h fs h.

    (* What the calls of a history answer: a fresh parse of the content current at each call.  A call with an
       injected I/O fault raises that exception - unless the source holds the snapshot for the current stat
       version, in which case it does not touch the file and answers as usual.  [memo] is the stat version the
       snapshot is remembered for. *)
    Fixpoint spec_run (memo : option N) (fs : N * fstate) (h : list hstep) : list (answer * answer) :=
      match h with
      | [] => []
      | SEdit v f :: r => spec_run memo (v, f) r
      | SCall cl :: r =>
          (spec_answer O c (snd fs) cl, spec_answer O c (snd fs) cl)
          :: spec_run (memo_after memo (fst fs) (snd fs)) fs r
      | SCallF cl flt :: r =>
          let fs' := faulted fs flt in
          (spec_answer O c (if hitb memo (fst fs') then snd fs else snd fs') cl, spec_answer O c (snd fs) cl)
          :: spec_run (memo_after memo (fst fs') (snd fs')) fs r
      end.

    Lemma run_spec : forall h fs src, consistent fs h -> inv src ->
      run O c fs src h = spec_run (fver src) fs h.
    Proof.
      induction h as [|s h IH]; intros [v f] src [Hfs Hh] Hi; [reflexivity|].
      cbn [fst snd] in Hfs. subst f.
      destruct s as [v' f'|cl|cl flt]; cbn [run spec_run fst snd].
      - destruct Hh as [-> Hh]. apply IH; [split; [reflexivity|exact Hh]|exact Hi].
      - cbn [cons_h] in Hh.
        destruct (do_call_gen v (content_of v) src cl Hi (or_introl eq_refl)) as (Hi' & Hm & Ha).
        destruct (do_call O c (v, content_of v) src cl) as [src' a] eqn:Hd. cbn [fst snd] in Hi', Hm, Ha.
        rewrite fresh_call. cbn [snd]. rewrite Ha, <- Hm.
        assert (Hx : loaded_answer (if hitb (fver src) v then content_of v else content_of v) cl
                     = spec_answer O c (content_of v) cl) by (destruct (hitb (fver src) v); apply loaded_answer_spec).
        rewrite Hx, loaded_answer_spec. f_equal.
        apply (IH (v, content_of v) src'); [split; [reflexivity|exact Hh]|exact Hi'].
      - destruct flt as [e|tok]; cbn [faulted fst snd].
        + cbn [cons_h] in Hh.
          destruct (do_call_gen v (FFail e) src cl Hi (or_intror (ex_intro _ e eq_refl))) as (Hi' & Hm & Ha).
          destruct (do_call O c (v, FFail e) src cl) as [src' a] eqn:Hd. cbn [fst snd] in Hi', Hm, Ha.
          rewrite fresh_call. cbn [snd]. rewrite Ha, <- Hm, !loaded_answer_spec. f_equal.
          apply (IH (v, content_of v) src'); [split; [reflexivity|exact Hh]|exact Hi'].
        + cbn [cons_h snd] in Hh. destruct Hh as [Ht Hh].
          destruct (do_call_gen tok (content_of v) src cl Hi (or_introl Ht)) as (Hi' & Hm & Ha).
          destruct (do_call O c (tok, content_of v) src cl) as [src' a] eqn:Hd. cbn [fst snd] in Hi', Hm, Ha.
          rewrite fresh_call. cbn [snd]. rewrite Ha, <- Hm, <- Ht.
          assert (Hx : loaded_answer (if hitb (fver src) tok then content_of v else content_of v) cl
                       = spec_answer O c (if hitb (fver src) tok then content_of v else content_of v) cl)
            by apply loaded_answer_spec.
          rewrite Hx, loaded_answer_spec. f_equal.
          apply (IH (v, content_of v) src'); [split; [reflexivity|exact Hh]|exact Hi'].
    Qed.
  End History.

  (* ---------- first_line_wins ---------- *)
  Definition yields (id : val) (l : str) : bool :=
    match line_event O c l with LSys id' _ => val_eqb id' id | _ => false end.
  Definition line_rec (l : str) : option (sysrec * ents) :=
    match line_event O c l with
    | LSys id (Ok (k, es)) => Some ({| s_id := id; s_kids := k; s_ver := o_hash O l |}, es)
    | _ => None
    end.
  Definition find_sys (id : val) (sys : list (sysrec * ents)) : option (sysrec * ents) :=
    find (fun se => val_eqb (s_id (fst se)) id) sys.

  Lemma memv_app id l x : memv id (l ++ [x]) = memv id l || val_eqb id x.
  Proof. unfold memv. rewrite existsb_app. cbn. now rewrite orb_false_r. Qed.

  Lemma systems_seen : forall ls seen id, memv id seen = true -> find_sys id (systems O c seen ls) = None.
  Proof.
    induction ls as [|l r IH]; intros seen id Hm; [reflexivity|].
    cbn [systems]. destruct (line_event O c l) as [|e|id' [[k es]|e]]; try (apply IH; exact Hm).
    destruct (memv id' seen) eqn:Hm'; [apply IH; exact Hm|].
    unfold find_sys. cbn [find fst s_id].
    destruct (val_eqb id' id) eqn:He.
    - apply val_eqb_true in He. subst. congruence.
    - apply IH. rewrite memv_app, Hm. reflexivity.
  Qed.

  Lemma systems_first : forall ls seen id,
    first_error O c seen ls = None -> memv id seen = false ->
    find_sys id (systems O c seen ls) =
    match find (yields id) ls with Some l => line_rec l | None => None end
    /\ (forall l, find (yields id) ls = Some l -> line_rec l <> None).
  Proof.
    induction ls as [|l r IH]; intros seen id He Hm; [split; [reflexivity|discriminate]|].
    cbn [systems first_error find] in *. unfold yields at 1 3, line_rec at 1.
    destruct (line_event O c l) as [|e|id' body] eqn:Hev.
    - apply IH; assumption.
    - discriminate.
    - destruct (val_eqb id' id) eqn:Hid.
      + apply val_eqb_true in Hid. subst id'. rewrite Hm in *.
        destruct body as [[k es]|e]; [|discriminate].
        split.
        * unfold find_sys. cbn [find fst s_id]. rewrite val_eqb_refl. try unfold line_rec. now rewrite ?Hev.
        * intros l0 Hl0. inversion Hl0; subst l0. unfold line_rec. rewrite Hev. discriminate.
      + destruct (memv id' seen) eqn:Hm'.
        * assert (He' : first_error O c seen r = None) by (destruct (dup c); [discriminate|exact He|exact He]).
          destruct body as [[k es]|e]; apply IH; assumption.
        * destruct body as [[k es]|e]; [|discriminate].
          unfold find_sys. cbn [find fst s_id]. rewrite Hid.
          apply IH; [exact He|]. rewrite memv_app, Hm. cbn. now rewrite val_eqb_sym.
  Qed.

  Theorem first_line_wins ls s : parse_lines O c ls empty = Ok s -> forall id,
    get_in s id = match find (yields id) ls with
                  | Some l => option_map fst (line_rec l)
                  | None => None
                  end
    /\ (forall l, find (yields id) ls = Some l -> line_rec l <> None).
  Proof.
    intros Hp id. pose proof (parse_refines ls empty) as H. change (ids empty) with (@nil val) in H.
    destruct (first_error O c [] ls) eqn:He; [congruence|].
    rewrite Hp in H. inversion H; subst s. clear H.
    destruct (systems_first ls [] id He eq_refl) as [H1 H2]. split; [|exact H2].
    unfold get_in. cbn [ext sdata empty app].
    unfold find_sys in H1.
    assert (Hmap : forall sys, find (fun r => val_eqb (s_id r) id) (map fst sys)
                   = option_map fst (find (fun se : sysrec * ents => val_eqb (s_id (fst se)) id) sys)).
    { induction sys as [|[r es] sys IHs]; [reflexivity|]. cbn [map find fst].
      destruct (val_eqb (s_id r) id); [reflexivity|exact IHs]. }
    rewrite Hmap, H1. destruct (find (yields id) ls); reflexivity.
  Qed.

  (* the parse raises exactly the exception of the first step that raises *)
  Theorem parse_raises_first ls e : parse_lines O c ls empty = Exc e <->
    exists pre l post s, ls = pre ++ l :: post /\ parse_lines O c pre empty = Ok s /\ step O c s l = Exc e.
  Proof.
    assert (G : forall ls s0, parse_lines O c ls s0 = Exc e <->
              exists pre l post s, ls = pre ++ l :: post /\ parse_lines O c pre s0 = Ok s /\ step O c s l = Exc e).
    { clear ls. induction ls as [|l r IH]; intros s0; cbn [parse_lines].
      - split; [discriminate|]. intros (pre & l & post & s & H & _). destruct pre; discriminate.
      - destruct (step O c s0 l) as [s1|e1] eqn:Hs.
        + rewrite IH. split.
          * intros (pre & l' & post & s & -> & Hp & Hst). exists (l :: pre), l', post, s.
            cbn [parse_lines app]. rewrite Hs. auto.
          * intros (pre & l' & post & s & Heq & Hp & Hst). destruct pre as [|x pre].
            -- cbn in Heq, Hp. inversion Heq; subst. inversion Hp; subst. congruence.
            -- cbn in Heq. inversion Heq; subst. cbn [parse_lines] in Hp. rewrite Hs in Hp.
               exists pre, l', post, s. auto.
        + split.
          * intros H. inversion H; subst. exists [], l, r, s0. auto.
          * intros (pre & l' & post & s & Heq & Hp & Hst). destruct pre as [|x pre].
            -- cbn in Heq, Hp. inversion Heq; subst. inversion Hp; subst. congruence.
            -- cbn in Heq. inversion Heq; subst. cbn [parse_lines] in Hp. rewrite Hs in Hp. discriminate. }
    apply G.
  Qed.

  (* ---------- find_spec ---------- *)
  Theorem find_spec ls s : parse_lines O c ls empty = Ok s -> forall key v,
    find_in c s key v = pick (ffm c) (systems_with key v (systems O c [] ls)).
  Proof.
    intros Hp key v. pose proof (parse_refines ls empty) as H. change (ids empty) with (@nil val) in H.
    destruct (first_error O c [] ls); [congruence|].
    rewrite Hp in H. inversion H. apply find_in_ext.
  Qed.

  (* every system occurs once in [systems] *)
  Lemma systems_not_seen : forall ls seen se, In se (systems O c seen ls) -> memv (s_id (fst se)) seen = false.
  Proof.
    induction ls as [|l r IH]; intros seen se Hin; [destruct Hin|].
    cbn [systems] in Hin. destruct (line_event O c l) as [|e|id' [[k es]|e]]; try (apply IH; exact Hin).
    destruct (memv id' seen) eqn:Hm; [apply IH; exact Hin|].
    destruct Hin as [<-|Hin]; [exact Hm|].
    apply IH in Hin. rewrite memv_app in Hin. apply orb_false_iff in Hin. tauto.
  Qed.

  Theorem systems_unique : forall ls seen, NoDup (map (fun se => s_id (fst se)) (systems O c seen ls)).
  Proof.
    induction ls as [|l r IH]; intros seen; [constructor|].
    cbn [systems]. destruct (line_event O c l) as [|e|id' [[k es]|e]]; try apply IH.
    destruct (memv id' seen) eqn:Hm; [apply IH|].
    cbn [map fst s_id]. constructor; [|apply IH].
    intros Hin. apply in_map_iff in Hin. destruct Hin as (se & Hid & Hin).
    apply systems_not_seen in Hin. rewrite memv_app, Hid, val_eqb_refl, orb_true_r in Hin. discriminate.
  Qed.

  (* ---------- version_tracks_line ---------- *)
  Section Version.
    Hypothesis hash_injective : forall a b, o_hash O a = o_hash O b -> a = b.

    Lemma line_rec_ver l r es : line_rec l = Some (r, es) -> s_ver r = o_hash O l.
    Proof.
      unfold line_rec. destruct (line_event O c l) as [|e|id [[k es']|e]]; try discriminate.
      intros H; inversion H; reflexivity.
    Qed.

    Theorem version_tracks_line ls1 ls2 s1 s2 id r1 r2 :
      parse_lines O c ls1 empty = Ok s1 -> parse_lines O c ls2 empty = Ok s2 ->
      get_in s1 id = Some r1 -> get_in s2 id = Some r2 ->
      s_ver r1 = s_ver r2 -> s_kids r1 = s_kids r2.
    Proof.
      intros H1 H2 G1 G2 Hv.
      destruct (first_line_wins ls1 s1 H1 id) as [F1 _]. destruct (first_line_wins ls2 s2 H2 id) as [F2 _].
      rewrite G1 in F1. rewrite G2 in F2.
      destruct (find (yields id) ls1) as [l1|]; [|discriminate].
      destruct (find (yields id) ls2) as [l2|]; [|discriminate].
      destruct (line_rec l1) as [[r1' es1]|] eqn:L1; [|discriminate].
      destruct (line_rec l2) as [[r2' es2]|] eqn:L2; [|discriminate].
      cbn in F1, F2. inversion F1; inversion F2; subst r1' r2'.
      apply line_rec_ver in L1 as V1. apply line_rec_ver in L2 as V2.
      assert (l1 = l2) by (apply hash_injective; congruence). subst l2.
      rewrite L1 in L2. now inversion L2.
    Qed.

    (* on answers: equal versions imply equal data, also across "absent" *)
    Lemma spec_get_version f1 f2 id1 id2 k1 k2 v :
      spec_answer O c f1 (CGet id1) = AGet k1 v -> spec_answer O c f2 (CGet id2) = AGet k2 v -> k1 = k2.
    Proof.
      assert (G : forall f id k v, spec_answer O c f (CGet id) = AGet k v ->
                (v = None /\ k = []) \/
                (exists l, v = Some (o_hash O l) /\ exists r es, line_rec l = Some (r, es) /\ k = s_kids r)).
      { intros f id k v0 H. destruct f as [| |s|e0]; try discriminate. cbn [spec_answer] in H.
        destruct (first_error O c [] (file_lines s)) eqn:He; [discriminate|].
        destruct (hashable id); [|discriminate].
        destruct (systems_first (file_lines s) [] id He eq_refl) as [H1 H2].
        assert (Hmap : forall sys, find (fun r => val_eqb (s_id r) id) (map fst sys)
                       = option_map fst (find_sys id sys)).
        { induction sys as [|[r es] sys IHs]; [reflexivity|]. unfold find_sys. cbn [map find fst].
          destruct (val_eqb (s_id r) id); [reflexivity|exact IHs]. }
        rewrite Hmap, H1 in H.
        destruct (find (yields id) (file_lines s)) as [l|]; cbn in H.
        - destruct (line_rec l) as [[r es]|] eqn:L; cbn in H.
          + inversion H; subst. right. exists l. split; [f_equal; eapply line_rec_ver; eauto|]. eauto.
          + inversion H; auto.
        - inversion H; auto. }
      intros A1 A2. apply G in A1. apply G in A2.
      destruct A1 as [[-> ->]|(l1 & -> & r1 & es1 & L1 & ->)];
      destruct A2 as [[E ->]|(l2 & E & r2 & es2 & L2 & ->)]; try discriminate; [reflexivity|].
      inversion E as [E']. apply hash_injective in E'. subst l2. rewrite L1 in L2. now inversion L2.
    Qed.
  End Version.
End WithOracle.

(* ---------- line splitting ---------- *)
Definition is_eol (ch : N) : bool := (ch =? 10) || (ch =? 13).

Lemma drop_eol_rev_no_eol l : match drop_eol_rev l with [] => True | x :: _ => is_eol x = false end.
Proof.
  induction l as [|x l IH]; cbn [drop_eol_rev]; [exact I|].
  destruct ((x =? 10) || (x =? 13)) eqn:E; [exact IH|exact E].
Qed.

