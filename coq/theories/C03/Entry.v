(* C03: case/observation types, executable checker [holds], and the sx entry point. *)
From Coq Require Import String.
From Coq Require Import List NArith ZArith Bool Arith.
From VF Require Import Base.Sx Http.Response Http.Emit.
Import ListNotations.

Record case := {
  old_end_headers : bool;          (* behaviour before fix 67d5531 *)
  cenv : env;
  cpath : bytes;                   (* self.path *)
  chandlers : list handler }.

(* what the client read from the socket until end of file, seen through the strict parser,
   plus two server-side counters: status lines produced, bytes left in the header buffer *)
Inductive pobs := Unparsable (raw : bytes) | Parsed (r : response).
Record obs := { o_resp : pobs; o_nstatus : nat; o_leftover : nat }.

Definition run_model (c : case) : obs :=
  let st := delegate (old_end_headers c) (cenv c) (cpath c) (chandlers c) in
  {| o_resp := match parse_response (wire st) with Some r => Parsed r | None => Unparsable (wire st) end;
     o_nstatus := nlines st; o_leftover := length (pending st) |}.

Definition bytes_eqb (a b : bytes) : bool := if list_eq_dec N.eq_dec a b then true else false.
Definition header_eq_dec (a b : header) : {a = b} + {a <> b}.
Proof. decide equality; apply (list_eq_dec N.eq_dec). Defined.
Definition headers_eqb (a b : list header) : bool := if list_eq_dec header_eq_dec a b then true else false.

Definition spec (c : case) : response := expected (cenv c) (cpath c) (chandlers c).

(* Is the expected reply one the SERVER generates on its own account (malformed path -> 400, nobody accepts -> 404,
   a handler method raises -> 500)?  The property fixes its status and that it is one well-formed response, not the text
   of the page; for everything a handler RETURNS (also a bare status >= 400) the comparison stays exact. *)
Fixpoint own_error_loop (hs : list handler) : bool :=
  match hs with
  | [] => true
  | h :: r => if prep_raises h || can_raises h then true
              else if can h then (match act h with HRaise => true | HReturn _ _ _ => false end)
              else own_error_loop r
  end.
Definition own_error (c : case) : bool := bad_path (cpath c) || own_error_loop (chandlers c).

Fixpoint find_hdr (name : bytes) (hs : list header) : option bytes :=
  match hs with
  | [] => None
  | h :: r => if bytes_eqb (fst h) name then Some (snd h) else find_hdr name r
  end.
(* a Content-Length header, if present, gives the length of the body (or there is no body: HEAD) *)
Definition cl_ok (r : response) : bool :=
  match find_hdr S_ContentLength (r_headers r) with
  | None => true
  | Some v => bytes_eqb v (dec (N.of_nat (length (r_body r)))) || (match r_body r with [] => true | _ => false end)
  end.

(* failed clauses of the property for observation o (empty list = holds) *)
Definition holds (c : case) (o : obs) : list string :=
  (match o_resp o with
   | Unparsable _ => ["well_formed"%string]
   | Parsed r =>
       (if (r_code r =? r_code (spec c))%N then [] else ["status"%string]) ++
       (if own_error c then (if cl_ok r then [] else ["error_page_consistent"%string])
        else (if headers_eqb (r_headers r) (r_headers (spec c)) then [] else ["headers"%string]) ++
             (if bytes_eqb (r_body r) (r_body (spec c)) then [] else ["body"%string]))
   end) ++
  (if (o_nstatus o =? 1)%nat && (o_leftover o =? 0)%nat then [] else ["one_response"%string]).

(* what is compared between model and implementation: for the server's own error replies only the status *)
Definition canon_obs (c : case) (o : obs) : obs :=
  if own_error c then
    {| o_resp := match o_resp o with
                 | Parsed r => Parsed {| r_code := r_code r; r_reason := []; r_headers := []; r_body := [] |}
                 | u => u
                 end;
       o_nstatus := o_nstatus o; o_leftover := o_leftover o |}
  else o.

Definition valid (c : case) : Prop :=
  old_end_headers c = false /\ case_ok (cenv c) (chandlers c) = true.

(* [valid] as a boolean (C03.Props.C03_validb_valid); all of [valid] is decidable from the case *)
Definition validb (c : case) : bool := negb (old_end_headers c) && case_ok (cenv c) (chandlers c).

(* ---------- sx ---------- *)
Definition dec_hdr (x : sx) : option header :=
  match x with L [B k; B v] => Some (k, v) | _ => None end.
Definition dec_hdrs (x : sx) : option (option (list header)) :=
  match x with
  | L [I 0%Z] => Some None
  | L [I 1%Z; l] => obind (asListOf dec_hdr l) (fun l => Some (Some l))
  | _ => None
  end.
Definition dec_body (x : sx) : option (option (bytes * bool)) :=
  match x with
  | L [I 0%Z] => Some None
  | L [I 1%Z; B d; f] => obind (asBool f) (fun f => Some (Some (d, f)))
  | _ => None
  end.
Definition dec_act (x : sx) : option hact :=
  match x with
  | L [I 0%Z] => Some HRaise
  | L [I 1%Z; st; h; b] =>
      obind (asN st) (fun st => obind (dec_hdrs h) (fun h => obind (dec_body b) (fun b => Some (HReturn st h b))))
  | _ => None
  end.
Definition dec_handler (x : sx) : option handler :=
  match x with
  | L [p; cr; c; a] =>
      obind (asBool p) (fun p => obind (asBool cr) (fun cr => obind (asBool c) (fun c => obind (dec_act a) (fun a =>
      Some {| prep_raises := p; can_raises := cr; can := c; act := a |}))))
  | _ => None
  end.
Definition dec_resp_entry (x : sx) : option (N * (bytes * bytes)) :=
  match x with L [c; B s; B l] => obind (asN c) (fun c => Some (c, (s, l))) | _ => None end.
Definition dec_pobs (x : sx) : option pobs :=
  match x with
  | L [I 0%Z; B raw] => Some (Unparsable raw)
  | L [I 1%Z; c; B reason; hs; B body] =>
      obind (asN c) (fun c => obind (asListOf dec_hdr hs) (fun hs =>
      Some (Parsed {| r_code := c; r_reason := reason; r_headers := hs; r_body := body |})))
  | _ => None
  end.
Definition dec_obs (x : sx) : option obs :=
  match x with
  | L [r; n; l] => obind (dec_pobs r) (fun r => obind (asNat n) (fun n => obind (asNat l) (fun l =>
      Some {| o_resp := r; o_nstatus := n; o_leftover := l |})))
  | _ => None
  end.

Definition S_HEAD := bytes_of_string "HEAD".

Definition decode (x : sx) : option (case * obs) :=
  match x with
  | L [old; B server; B date; resps; B method; B path; hs; io] =>
      obind (asBool old) (fun old => obind (asListOf dec_resp_entry resps) (fun resps =>
      obind (asListOf dec_handler hs) (fun hs => obind (dec_obs io) (fun io =>
      Some ({| old_end_headers := old;
               cenv := {| e_server := server; e_date := date; e_responses := resps;
                          e_head := bytes_eqb method S_HEAD |};
               cpath := path; chandlers := hs |}, io)))))
  | _ => None
  end.

Definition enc_hdr (h : header) : sx := L [B (fst h); B (snd h)].
Definition enc_pobs (p : pobs) : sx :=
  match p with
  | Unparsable raw => L [I 0%Z; B raw]
  | Parsed r => L [I 1%Z; sxN (r_code r); B (r_reason r); L (map enc_hdr (r_headers r)); B (r_body r)]
  end.
Definition enc_obs (o : obs) : sx := L [enc_pobs (o_resp o); sxNat (o_nstatus o); sxNat (o_leftover o)].

Definition entry (x : sx) : sx :=
  match decode x with
  | None => sxS "bad-case"
  | Some (c, io) =>
      let m := run_model c in
      L [ enc_obs (canon_obs c m); L (map sxS (holds c m)); L (map sxS (holds c io)); enc_obs (canon_obs c io); sxBool (validb c) ]
  end.
