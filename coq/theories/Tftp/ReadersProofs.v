(* Proofs about the reader models: the buffered reader delivers the converted
   stream in blocks whatever the pattern of short reads. *)
From Coq Require Import List NArith Bool Arith Lia.
From VF Require Import Tftp.Readers.
Import ListNotations.
Open Scope N_scope.

(* ---------- split_blocks ---------- *)
Lemma shorter_spec : forall n l, shorter l n = (length l <? n)%nat.
Proof.
  induction n as [|n IH]; intros l.
  - destruct l; reflexivity.
  - destruct l as [|x r]; cbn [shorter length]; [reflexivity|]. rewrite IH. reflexivity.
Qed.

Lemma split_go_fuel bs : (1 <= bs)%nat -> forall f1 f2 l,
  (length l <= f1)%nat -> (length l <= f2)%nat -> split_go f1 bs l = split_go f2 bs l.
Proof.
  intros Hbs; induction f1 as [|f1 IH]; intros f2 l H1 H2.
  - destruct l; [|simpl in H1; lia]. destruct f2; cbn [split_go]; [reflexivity|].
    rewrite shorter_spec. cbn [length]. destruct (Nat.ltb_spec 0 bs); [reflexivity|lia].
  - destruct f2 as [|f2].
    + destruct l; [|simpl in H2; lia]. cbn [split_go]. rewrite shorter_spec. cbn [length]. destruct (Nat.ltb_spec 0 bs); [reflexivity|lia].
    + cbn [split_go]. rewrite shorter_spec. destruct (Nat.ltb_spec (length l) bs) as [Hlt|Hge]; [reflexivity|].
      f_equal. apply IH; rewrite skipn_length; lia.
Qed.

Lemma split_go_concat bs : forall f l, concat (split_go f bs l) = l.
Proof.
  induction f as [|f IH]; intros l; cbn [split_go].
  - simpl. apply app_nil_r.
  - destruct (shorter l bs); simpl; [apply app_nil_r|].
    rewrite IH. apply firstn_skipn.
Qed.

Theorem split_blocks_concat bs l : concat (split_blocks bs l) = l.
Proof. apply split_go_concat. Qed.

(* every block but the last has exactly bs bytes, the last has fewer *)
Fixpoint framed (bs : nat) (bl : list (list N)) : Prop :=
  match bl with
  | [] => False
  | [d] => (length d < bs)%nat
  | d :: r => length d = bs /\ framed bs r
  end.

Lemma split_go_framed bs : (1 <= bs)%nat -> forall f l, (length l <= f)%nat -> framed bs (split_go f bs l).
Proof.
  intros Hbs; induction f as [|f IH]; intros l Hl; cbn [split_go].
  - destruct l; simpl in *; lia.
  - rewrite shorter_spec. destruct (Nat.ltb_spec (length l) bs) as [Hlt|Hge]; [exact Hlt|].
    assert (Hr : framed bs (split_go f bs (skipn bs l))) by (apply IH; rewrite skipn_length; lia).
    cbn [framed]. destruct (split_go f bs (skipn bs l)) eqn:E; [destruct Hr|].
    split; [rewrite firstn_length; lia|exact Hr].
Qed.

Theorem split_blocks_framed bs l : (1 <= bs)%nat -> framed bs (split_blocks bs l).
Proof. intros; apply split_go_framed; auto. Qed.

Lemma split_go_length bs : (1 <= bs)%nat -> forall f l, (length l <= f)%nat ->
  length (split_go f bs l) = S (length l / bs).
Proof.
  intros Hbs; induction f as [|f IH]; intros l Hl; cbn [split_go].
  - destruct l; simpl in *; [|lia]. rewrite Nat.div_0_l; lia.
  - rewrite shorter_spec. destruct (Nat.ltb_spec (length l) bs) as [Hlt|Hge].
    + rewrite Nat.div_small; auto.
    + cbn [length]. rewrite IH by (rewrite skipn_length; lia). rewrite skipn_length.
      f_equal. replace (length l) with ((length l - bs) + 1 * bs)%nat at 2 by lia.
      rewrite Nat.div_add by lia. lia.
Qed.

Theorem split_blocks_count bs l : (1 <= bs)%nat -> length (split_blocks bs l) = S (length l / bs).
Proof. intros; apply split_go_length; auto. Qed.

(* ---------- the generic buffered reader ---------- *)
Section ReaderProofs.
  Variable F : Type.
  Variable scan : F -> list N -> list N * F.
  Variable ev : F -> list N -> list N.       (* meaning of the rest of the source *)
  Hypothesis ev_nil : forall f, ev f [] = [].
  Hypothesis ev_app : forall f a b, a <> [] ->
    ev f (a ++ b) = fst (scan f a) ++ ev (snd (scan f a)) b.

  Definition stream (st : rst F) : list N := buf st ++ ev (carry st) (rest (source st)).

  Lemma src_read_split n s : rest s = fst (src_read n s) ++ rest (snd (src_read n s)).
  Proof. unfold src_read; simpl. symmetry; apply firstn_skipn. Qed.

  Lemma src_read_nil n s : (1 <= n)%nat -> fst (src_read n s) = [] -> rest s = [].
  Proof.
    unfold src_read; cbn [fst]. intros Hn H.
    remember (match chunks s with [] => n | c :: _ => Nat.min n (Nat.max 1 c) end) as k eqn:Ek.
    assert (Hk : (1 <= k)%nat) by (subst k; destruct (chunks s); lia).
    destruct (rest s) as [|y r]; [reflexivity|]. destruct k as [|k']; [lia|]. cbn [firstn] in H. discriminate H.
  Qed.

  Lemma fill_stream fuel size st : stream (fill F scan fuel size st) = stream st.
  Proof.
    revert st; induction fuel as [|fuel IH]; intros st; cbn [fill]; [reflexivity|].
    destruct (Nat.leb_spec size (length (buf st))) as [Hle|Hgt]; [reflexivity|].
    pose proof (src_read_split (size - length (buf st)) (source st)) as Hs.
    pose proof (src_read_nil (size - length (buf st)) (source st)) as Hn.
    destruct (src_read (size - length (buf st)) (source st)) as [new s'] eqn:E.
    cbn [fst snd] in *.
    destruct new as [|x new].
    - unfold stream; cbn [buf carry source]. rewrite (Hn ltac:(lia) eq_refl) in *.
      simpl in Hs. rewrite <- Hs. reflexivity.
    - destruct (scan (carry st) (x :: new)) as [out c'] eqn:Es.
      rewrite IH. unfold stream; cbn [buf carry source].
      rewrite Hs, ev_app by discriminate. rewrite Es; cbn [fst snd].
      now rewrite app_assoc.
  Qed.

  Lemma fill_done fuel size st : (length (rest (source st)) < fuel)%nat ->
    let st' := fill F scan fuel size st in
    (size <= length (buf st'))%nat \/ rest (source st') = [].
  Proof.
    revert st; induction fuel as [|fuel IH]; intros st Hf; [lia|]. cbn [fill].
    destruct (Nat.leb_spec size (length (buf st))) as [Hle|Hgt]; [left; exact Hle|].
    pose proof (src_read_split (size - length (buf st)) (source st)) as Hs.
    pose proof (src_read_nil (size - length (buf st)) (source st)) as Hn.
    destruct (src_read (size - length (buf st)) (source st)) as [new s'] eqn:E.
    cbn [fst snd] in *.
    destruct new as [|x new].
    - right. cbn [source]. rewrite (Hn ltac:(lia) eq_refl) in Hs. simpl in Hs. now rewrite <- Hs.
    - destruct (scan (carry st) (x :: new)) as [out c'] eqn:Es.
      apply IH. cbn [source]. rewrite Hs in Hf. rewrite app_length in Hf. simpl in Hf. lia.
  Qed.

  Lemma fill_rest fuel size st :
    (length (rest (source (fill F scan fuel size st))) <= length (rest (source st)))%nat.
  Proof.
    revert st; induction fuel as [|fuel IH]; intros st; cbn [fill]; [lia|].
    destruct (Nat.leb_spec size (length (buf st))) as [Hle|Hgt]; [lia|].
    pose proof (src_read_split (size - length (buf st)) (source st)) as Hs.
    destruct (src_read (size - length (buf st)) (source st)) as [new s'] eqn:E.
    cbn [fst snd] in *.
    destruct new as [|x new].
    - cbn [source]. rewrite Hs. simpl. lia.
    - destruct (scan (carry st) (x :: new)) as [out c'] eqn:Es.
      etransitivity; [apply IH|]. cbn [source]. rewrite Hs, app_length. lia.
  Qed.

  Lemma read_fst ff size st : (length (rest (source st)) < ff)%nat ->
    fst (read F scan ff size st) = firstn size (stream st).
  Proof.
    intros Hff. unfold read; cbn [fst].
    pose proof (fill_stream ff size st) as Hs.
    pose proof (fill_done ff size st Hff) as Hd.
    cbv zeta in Hd.
    set (st' := fill F scan ff size st) in *.
    rewrite <- Hs. unfold stream. destruct Hd as [Hd|Hd].
    - rewrite firstn_app. replace (size - length (buf st'))%nat with 0%nat by lia.
      simpl. now rewrite app_nil_r.
    - rewrite Hd, ev_nil, app_nil_r. reflexivity.
  Qed.

  Lemma read_snd ff size st : (length (rest (source st)) < ff)%nat ->
    stream (snd (read F scan ff size st)) = skipn size (stream st).
  Proof.
    intros Hff. unfold read; cbn [snd].
    pose proof (fill_stream ff size st) as Hs.
    pose proof (fill_done ff size st Hff) as Hd.
    cbv zeta in Hd.
    set (st' := fill F scan ff size st) in *.
    rewrite <- Hs. unfold stream; cbn [buf carry source]. destruct Hd as [Hd|Hd].
    - rewrite skipn_app. replace (size - length (buf st'))%nat with 0%nat by lia. reflexivity.
    - rewrite Hd, ev_nil, !app_nil_r. reflexivity.
  Qed.

  Lemma read_rest ff size st :
    (length (rest (source (snd (read F scan ff size st)))) <= length (rest (source st)))%nat.
  Proof. unfold read; cbn [snd source]. apply fill_rest. Qed.

  Lemma read_blocks_spec ff bs : (1 <= bs)%nat -> forall fuel st,
    (length (rest (source st)) < ff)%nat ->
    (length (stream st) < fuel)%nat ->
    read_blocks F scan ff fuel bs st = split_go fuel bs (stream st).
  Proof.
    intros Hbs; induction fuel as [|fuel IH]; intros st Hff Hf; [lia|].
    cbn [read_blocks split_go].
    pose proof (read_fst ff bs st Hff) as H1. pose proof (read_snd ff bs st Hff) as H2.
    pose proof (read_rest ff bs st) as H3.
    destruct (read F scan ff bs st) as [d st'] eqn:E. cbn [fst snd] in *.
    subst d. rewrite firstn_length, shorter_spec.
    destruct (Nat.ltb_spec (length (stream st)) bs) as [Hlt|Hge].
    - destruct (Nat.eqb_spec (Nat.min bs (length (stream st))) bs) as [He|He]; [lia|].
      rewrite firstn_all2 by lia. reflexivity.
    - destruct (Nat.eqb_spec (Nat.min bs (length (stream st))) bs) as [He|He]; [|lia].
      f_equal. rewrite IH, H2; [reflexivity|lia|]. rewrite H2, skipn_length. lia.
  Qed.
End ReaderProofs.

(* ---------- octet instance ---------- *)
Lemma octet_blocks_spec bs content ch : (1 <= bs)%nat ->
  octet_blocks bs content ch = split_blocks bs content.
Proof.
  intros Hbs. unfold octet_blocks.
  assert (Hs : stream unit (fun _ l => l) (octet_init content ch) = content) by reflexivity.
  rewrite (read_blocks_spec unit octet_scan (fun _ l => l)).
  - rewrite Hs. unfold split_blocks. apply split_go_fuel; auto.
  - reflexivity.
  - reflexivity.
  - exact Hbs.
  - cbn. lia.
  - rewrite Hs. lia.
Qed.

(* ---------- netascii instance ---------- *)
(* eager streaming formulation: p = "previous byte was a CR whose LF is already out" *)
Fixpoint eager (p : bool) (l : list N) : list N :=
  match l with
  | [] => []
  | x :: r =>
      if p && (x =? LF) then eager false r
      else if x =? CR then CR :: LF :: eager true r
      else if x =? LF then CR :: LF :: eager false r
      else x :: eager false r
  end.
Fixpoint endflag (p : bool) (l : list N) : bool :=
  match l with
  | [] => p
  | x :: r => if p && (x =? LF) then endflag false r else endflag (x =? CR) r
  end.

Lemma eager_app p a b : eager p (a ++ b) = eager p a ++ eager (endflag p a) b.
Proof.
  revert p; induction a as [|x a IH]; intros p; cbn [app eager endflag]; [reflexivity|].
  destruct (p && (x =? LF)) eqn:E1; [apply IH|].
  destruct (x =? CR) eqn:E2; [cbn; now rewrite IH|].
  destruct (x =? LF) eqn:E3; cbn; now rewrite IH.
Qed.

Lemma eager_spec l : eager false l = netascii_spec l.
Proof.
  assert (H: forall n l, (length l <= n)%nat -> eager false l = netascii_spec l).
  { induction n as [|n IH]; intros [|x r] Hl; cbn [length] in Hl; try reflexivity; try lia.
    cbn [eager netascii_spec andb]. destruct (x =? CR) eqn:E2.
    - destruct r as [|y r']; [reflexivity|]. cbn [eager andb].
      destruct (y =? LF) eqn:E3.
      + do 2 f_equal. apply IH. cbn [length] in Hl. lia.
      + do 2 f_equal. rewrite <- (IH (y :: r')) by (cbn [length] in *; lia).
        cbn [eager andb]. rewrite E3. reflexivity.
    - destruct (x =? LF); f_equal; try f_equal; apply IH; lia. }
  apply (H (length l)); lia.
Qed.

Lemma CR_ne_LF : (CR =? LF) = false. Proof. reflexivity. Qed.

Lemma scan_loop_eager : forall l, scan_loop l = (eager false l, endflag false l).
Proof.
  assert (H: forall n l, (length l <= n)%nat -> scan_loop l = (eager false l, endflag false l)).
  { induction n as [|n IH]; intros [|x r] Hl; cbn [length] in Hl; try reflexivity; try lia.
    cbn [scan_loop eager endflag andb].
    destruct (x =? CR) eqn:E2.
    - destruct r as [|y r']; [reflexivity|]. cbn [eager endflag andb].
      destruct (y =? LF) eqn:E3.
      + rewrite IH by (cbn [length] in Hl; lia). reflexivity.
      + rewrite IH by (cbn [length] in *; lia). cbn [eager endflag andb]. rewrite E3.
        reflexivity.
    - destruct (x =? LF) eqn:E3; rewrite IH by lia; reflexivity. }
  intros l; apply (H (length l)); lia.
Qed.

Lemma eager_true_cons x r : (x =? LF) = false -> eager true (x :: r) = eager false (x :: r).
Proof. intros H; cbn [eager andb]. now rewrite H. Qed.
Lemma endflag_true_cons x r : (x =? LF) = false -> endflag true (x :: r) = endflag false (x :: r).
Proof. intros H; cbn [endflag andb]. now rewrite H. Qed.

Lemma scan_chunk_eager p a : a <> [] ->
  scan_chunk false p a = (eager p a, endflag p a).
Proof.
  intros Ha. unfold scan_chunk. destruct p; [|apply scan_loop_eager].
  destruct a as [|x r]; [congruence|]. cbn [orb].
  destruct (x =? LF) eqn:E.
  - rewrite scan_loop_eager. cbn [eager endflag andb]. now rewrite E.
  - rewrite scan_loop_eager, eager_true_cons, endflag_true_cons; auto.
Qed.

Lemma netascii_spec_length l : (length (netascii_spec l) <= 2 * length l)%nat.
Proof.
  assert (H: forall n l, (length l <= n)%nat -> (length (netascii_spec l) <= 2 * length l)%nat).
  { induction n as [|n IH]; intros [|x r] Hl; cbn [length] in Hl; simpl; try lia.
    destruct (x =? CR).
    - destruct r as [|y r']; [simpl; lia|]. destruct (y =? LF); cbn [length].
      + specialize (IH r'). cbn [length] in *. lia.
      + specialize (IH (y :: r')). cbn [length] in *. lia.
    - destruct (x =? LF); cbn [length]; specialize (IH r); lia. }
  apply (H (length l)); lia.
Qed.

Lemma netascii_blocks_spec bs content ch : (1 <= bs)%nat ->
  netascii_blocks false bs content ch = split_blocks bs (netascii_spec content).
Proof.
  intros Hbs. unfold netascii_blocks.
  assert (Hs : stream bool eager (netascii_init content ch) = netascii_spec content).
  { unfold stream, netascii_init; cbn [buf carry source rest app]. apply eager_spec. }
  pose proof (netascii_spec_length content) as Hlen.
  rewrite (read_blocks_spec bool (scan_chunk false) eager).
  - rewrite Hs. unfold split_blocks. apply split_go_fuel; auto; lia.
  - reflexivity.
  - intros f a b Ha. rewrite scan_chunk_eager by auto. apply eager_app.
  - exact Hbs.
  - cbn. lia.
  - rewrite Hs. lia.
Qed.

(* the pre-fix behaviour (D4) does not satisfy the specification *)
Lemma netascii_always_skip_refuted :
  exists bs content ch, (1 <= bs)%nat /\
    concat (netascii_blocks true bs content ch) <> netascii_spec content.
Proof. exists 8%nat, [97; 13; 98], [2%nat; 1%nat]. split; [lia|]. vm_compute. discriminate. Qed.
