(* Text helpers shared by the address models (C16, C05): character classes, decimal and
   hexadecimal conversion, Python's partition/split on one character.
   Strings are lists of code points (N).  Definitions only. *)
From Coq Require Import List NArith Bool.
Import ListNotations.
Open Scope N_scope.

Definition str := list N.

Definition DOT : N := 46.
Definition SLASH : N := 47.
Definition COLON : N := 58.
Definition DASH : N := 45.

Definition is_digit (c : N) : bool := (48 <=? c) && (c <=? 57).
Definition is_hex (c : N) : bool :=
  is_digit c || ((65 <=? c) && (c <=? 70)) || ((97 <=? c) && (c <=? 102)).

(* longest prefix of characters satisfying p, and the rest *)
Fixpoint span (p : N -> bool) (l : str) : str * str :=
  match l with
  | [] => ([], [])
  | x :: r => if p x then let (a, b) := span p r in (x :: a, b) else ([], l)
  end.

Fixpoint str_eqb (a b : str) : bool :=
  match a, b with
  | [], [] => true
  | x :: a', y :: b' => (x =? y) && str_eqb a' b'
  | _, _ => false
  end.

Definition has (c : N) (s : str) : bool := existsb (N.eqb c) s.

(* value.partition(c): text before the first c, and the text after it if c occurs *)
Fixpoint cut (c : N) (s : str) : str * option str :=
  match s with
  | [] => ([], None)
  | x :: r => if x =? c then ([], Some r)
              else let (a, b) := cut c r in (x :: a, b)
  end.

(* value.rsplit(c, 1): text before the LAST c and the text after it, if c occurs *)
Fixpoint rcut (c : N) (s : str) : option (str * str) :=
  match s with
  | [] => None
  | x :: r =>
      match rcut c r with
      | Some (a, b) => Some (x :: a, b)
      | None => if x =? c then Some ([], r) else None
      end
  end.

(* ---- decimal ---- *)
Fixpoint dec_val_acc (l : str) (acc : N) : N :=
  match l with
  | [] => acc
  | c :: r => dec_val_acc r (acc * 10 + (c - 48))
  end.
Definition dec_val (l : str) : N := dec_val_acc l 0.

(* str(n) for n < 1000 (every number the transforms print is a byte or a mask <= 128) *)
Definition print_dec (n : N) : str :=
  if n <? 10 then [48 + n]
  else if n <? 100 then [48 + n / 10; 48 + n mod 10]
  else [48 + (n / 100) mod 10; 48 + (n / 10) mod 10; 48 + n mod 10].

(* CPython refuses to convert more than 4300 digits (sys.get_int_max_str_digits) with a
   ValueError; None = ValueError.  The argument is known to be a non-empty digit string. *)
Definition MAX_STR_DIGITS : N := 4300.
Definition py_int_digits (g : str) : option N :=
  if MAX_STR_DIGITS <? N.of_nat (length g) then None else Some (dec_val g).

(* ---- hexadecimal ---- *)
Definition hex_val (c : N) : N :=
  if is_digit c then c - 48 else if (65 <=? c) && (c <=? 70) then c - 55 else c - 87.
Definition hex_val_list (l : str) : N := fold_left (fun a c => a * 16 + hex_val c) l 0.
Definition hex_digit (upper : bool) (v : N) : N :=
  if v <? 10 then 48 + v else if upper then 55 + v else 87 + v.
(* "{:02X}" / "{:02x}" of a value < 256 *)
Definition print_hex2 (upper : bool) (v : N) : str := [hex_digit upper (v / 16); hex_digit upper (v mod 16)].

Fixpoint intercalate (sep : str) (l : list str) : str :=
  match l with
  | [] => []
  | [x] => x
  | x :: r => x ++ sep ++ intercalate sep r
  end.

(* results of the transformation functions: a string, or an exception class *)
Inductive exc := ValueError | OtherExc (name : str).
Inductive res := Ok (s : str) | Exc (e : exc).

Definition exc_eqb (a b : exc) : bool :=
  match a, b with
  | ValueError, ValueError => true
  | OtherExc x, OtherExc y => str_eqb x y
  | _, _ => false
  end.
Definition res_eqb (a b : res) : bool :=
  match a, b with
  | Ok x, Ok y => str_eqb x y
  | Exc x, Exc y => exc_eqb x y
  | _, _ => false
  end.

(* the common tail of every transform: malformed input *)
Definition malformed (raise_error : bool) (s : str) : res :=
  if raise_error then Exc ValueError else Ok s.

(* big-endian value of a byte list *)
Definition to_N (bs : list N) : N := fold_left (fun a b => a * 256 + b) bs 0.
Definition all_bytes (bs : list N) : bool := forallb (fun b => b <? 256) bs.
