(* The executable checker of C16 accepts the model: every clause of [holds] follows from the
   theorems about the address models. *)
From Coq Require Import String.
From Coq Require Import List NArith ZArith Bool Arith Lia.
From VF Require Import Base.Sx Addr.Text Addr.TextProofs Addr.IPv4 Addr.IPv4Proofs Addr.Mac Addr.MacProofs
  Addr.IPv6 Addr.IPv6Proofs Addr.ArithProofs C16.Entry.
Import ListNotations.
Open Scope N_scope.

Lemma pres_eqb_eq a b : pres_eqb a b = true -> a = b.
Proof. destruct a, b; cbn; intros H; try discriminate; auto. apply str_eqb_eq in H. now subst. Qed.

Lemma tab_pton_in pt s b : tab_pton pt s = PBytes b -> In (s, PBytes b) pt.
Proof.
  unfold tab_pton. destruct (find _ pt) as [e|] eqn:F; [|discriminate]. intros H.
  apply find_some in F. destruct F as [Hin E]. apply str_eqb_eq in E. destruct e as [k v]. cbn in *. now subst.
Qed.

Lemma tables_facts pt nt : tables_ok pt nt = true ->
  (forall s b, tab_pton pt s = PBytes b -> length b = 16%nat /\ all_bytes b = true) /\
  (forall s b, tab_pton pt s = PBytes b -> tab_pton pt (tab_ntop nt b) = PBytes b) /\
  (forall s b, tab_pton pt s = PBytes b -> has SLASH s = false) /\
  (forall s b, tab_pton pt s = PBytes b -> has COLON s = true).
Proof.
  intros T. unfold tables_ok in T. rewrite forallb_forall in T.
  assert (K : forall s b, tab_pton pt s = PBytes b ->
            (length b =? 16)%nat && all_bytes b && negb (has SLASH s) && has COLON s
            && pres_eqb (tab_pton pt (tab_ntop nt b)) (PBytes b) = true).
  { intros s b H. apply tab_pton_in in H. exact (T _ H). }
  split; [|split; [|split]]; intros s b H; specialize (K s b H);
    repeat (apply andb_true_iff in K; destruct K as [K ?]).
  - split; [now apply Nat.eqb_eq|assumption].
  - now apply pres_eqb_eq.
  - now apply negb_true_iff.
  - assumption.
Qed.

Lemma opt_N_eqb_eq a b : opt_N_eqb a b = true <-> a = b.
Proof.
  destruct a, b; cbn; split; intros H; try discriminate; auto.
  - apply N.eqb_eq in H. now subst.
  - inversion H. apply N.eqb_refl.
Qed.
Lemma denot_eqb_eq a b : denot_eqb a b = true <-> a = b.
Proof.
  destruct a, b; cbn; split; intros H; try discriminate.
  - apply andb_true_iff in H. destruct H as [H1 H2]. apply str_eqb_eq in H1. apply opt_N_eqb_eq in H2. now subst.
  - inversion H; subst. rewrite str_eqb_refl. now apply opt_N_eqb_eq.
  - apply andb_true_iff in H. destruct H as [H1 H2]. apply str_eqb_eq in H1. apply opt_N_eqb_eq in H2. now subst.
  - inversion H; subst. rewrite str_eqb_refl. now apply opt_N_eqb_eq.
Qed.

Lemma eqb_of_iff (a b : bool) (A B : Prop) :
  (a = true <-> A) -> (b = true <-> B) -> (A <-> B) -> Bool.eqb a b = true.
Proof. intros Ha Hb AB. destruct a, b; cbn; auto; [apply Hb|apply Ha]; tauto. Qed.

Lemma chk_true n : chk true n = []. Proof. reflexivity. Qed.

Section Holds.
  Variable c : case.
  Hypothesis V : valid c.

  Let pton := tab_pton (ptab c).
  Let ntop := tab_ntop (ntab c).

  Lemma V_parts : lenient c = false /\ ve_esc c = false /\ supported c = true /\
    tables_ok (ptab c) (ntab c) = true /\ ref_ok (ref1 c) (r1 (run_model c)) = true /\
    ref_ok (ref2 c) (r2 (run_model c)) = true.
  Proof.
    pose proof V as W. unfold valid, validb in W.
    apply andb_true_iff in W. destruct W as [W R2]. apply andb_true_iff in W. destruct W as [W R1].
    apply andb_true_iff in W. destruct W as [W T]. apply andb_true_iff in W. destruct W as [W S].
    apply andb_true_iff in W. destruct W as [L E]. apply negb_true_iff in L. apply negb_true_iff in E.
    repeat split; assumption.
  Qed.
  Lemma Hlen : lenient c = false. Proof. exact (proj1 V_parts). Qed.
  Lemma Hve : ve_esc c = false. Proof. exact (proj1 (proj2 V_parts)). Qed.
  Lemma Hsup : supported c = true. Proof. exact (proj1 (proj2 (proj2 V_parts))). Qed.
  Lemma TF : (forall s b, pton s = PBytes b -> length b = 16%nat /\ all_bytes b = true) /\
    (forall s b, pton s = PBytes b -> pton (ntop b) = PBytes b) /\
    (forall s b, pton s = PBytes b -> has SLASH s = false) /\
    (forall s b, pton s = PBytes b -> has COLON s = true).
  Proof. exact (tables_facts _ _ (proj1 (proj2 (proj2 (proj2 V_parts))))). Qed.
  Lemma P_len : forall s b, pton s = PBytes b -> length b = 16%nat /\ all_bytes b = true.
  Proof. exact (proj1 TF). Qed.
  Lemma P_ntop : forall s b, pton s = PBytes b -> pton (ntop b) = PBytes b.
  Proof. exact (proj1 (proj2 TF)). Qed.
  Lemma P_slash : forall s b, pton s = PBytes b -> has SLASH s = false.
  Proof. exact (proj1 (proj2 (proj2 TF))). Qed.
  Lemma P_colon : forall s b, pton s = PBytes b -> has COLON s = true.
  Proof. exact (proj2 (proj2 (proj2 TF))). Qed.

  Ltac fin := cbn [chk]; rewrite ?res_eqb_refl, ?str_eqb_refl; reflexivity.

  Lemma total_ok s : clause_total c s (apply c s) = [].
  Proof.
    pose proof Hsup as S. unfold clause_total, bad_options, expect_malformed, needs_mask, denote, apply, supported in *.
    rewrite Hlen, Hve. fold pton ntop.
    destruct (cfam c) eqn:F; destruct (cfn c) eqn:G; try discriminate S.
    - unfold normalize4. destruct (parse4 s) as [[bs m]|]; cbn; fin.
    - unfold strip_mask4. destruct (parse4 s) as [[bs m]|]; cbn; fin.
    - unfold net_address4. destruct (parse4 s) as [[bs [m|]]|]; cbn; fin.
    - unfold broadcast_address4. destruct (parse4 s) as [[bs [m|]]|]; cbn; fin.
    - unfold normalize6. destruct (parse6 pton false s) as [[bs m]|]; cbn; fin.
    - unfold strip_mask6. destruct (parse6 pton false s) as [[bs m]|]; cbn; fin.
    - unfold net_address6. destruct (parse6 pton false s) as [[bs [m|]]|]; cbn; fin.
    - unfold normalize_mac. destruct (mac_delim_arg (mdelim c)); [|fin]. destruct (mac_case_arg (mcase c)); [|fin].
      destruct (mac_bytes s); cbn; fin.
    - destruct (denote_ip pton false false s) as [d|] eqn:D.
      + pose proof (denote_ip_normal pton ntop P_len (craise c) s d D) as Nm. cbn [andb].
        destruct d; destruct Nm as [-> _]; fin.
      + destruct (ip_total pton ntop P_len s D (craise c)) as [-> _]. fin.
    - unfold strip_mask_ip. destruct (is_match4 s).
      + unfold strip_mask4. destruct (parse4 s) as [[bs m]|]; cbn; fin.
      + unfold strip_mask6. destruct (parse6 pton false s) as [[bs m]|]; cbn; fin.
    - unfold net_address_ip. destruct (is_match4 s).
      + unfold net_address4. destruct (parse4 s) as [[bs [m|]]|]; cbn; fin.
      + unfold net_address6. destruct (parse6 pton false s) as [[bs [m|]]|]; cbn; fin.
  Qed.

  Lemma arith4_net r s bs m : parse4 s = Some (bs, Some m) ->
    net_address4 r s = Ok (fmt4 (bytes32 (to_N32 bs / 2 ^ (32 - m) * 2 ^ (32 - m))) (Some m)).
  Proof. intros P. exact (proj1 (net_broadcast_arith4 r s bs m P)). Qed.
  Lemma arith4_bcast r s bs m : parse4 s = Some (bs, Some m) ->
    broadcast_address4 r s =
    Ok (fmt4 (bytes32 (to_N32 bs / 2 ^ (32 - m) * 2 ^ (32 - m) + (2 ^ (32 - m) - 1))) None).
  Proof. intros P. exact (proj1 (proj2 (net_broadcast_arith4 r s bs m P))). Qed.
  Lemma arith6_net r s b m : parse6 pton false s = Some (b, Some m) ->
    net_address6 pton ntop false r s = Ok (fmt6 ntop (bytes128 (to_N b / 2 ^ (128 - m) * 2 ^ (128 - m))) (Some m)).
  Proof. intros P. exact (proj1 (net_arith6 pton ntop P_len r s b m P)). Qed.

  Lemma arith_ok s : clause_arith c s (apply c s) = [].
  Proof.
    pose proof Hsup as S. unfold clause_arith, arith_expect, denote, apply, supported in *.
    rewrite Hlen. fold pton ntop.
    destruct (cfam c) eqn:F; destruct (cfn c) eqn:G; try discriminate S; try reflexivity.
    - destruct (parse4 s) as [[bs [m|]]|] eqn:P; cbn; try reflexivity. rewrite (arith4_net _ _ _ _ P). fin.
    - destruct (parse4 s) as [[bs [m|]]|] eqn:P; cbn; try reflexivity. rewrite (arith4_bcast _ _ _ _ P). fin.
    - destruct (parse6 pton false s) as [[bs [m|]]|] eqn:P; cbn; try reflexivity. rewrite (arith6_net _ _ _ _ P). fin.
    - unfold net_address_ip. destruct (is_match4 s).
      + destruct (parse4 s) as [[bs [m|]]|] eqn:P; cbn; try reflexivity. rewrite (arith4_net _ _ _ _ P). fin.
      + destruct (parse6 pton false s) as [[bs [m|]]|] eqn:P; cbn; try reflexivity. rewrite (arith6_net _ _ _ _ P). fin.
  Qed.

  Lemma strip_ok s : clause_strip c s (apply c s) = [].
  Proof.
    pose proof Hsup as S. unfold clause_strip, denote, apply, supported in *. rewrite Hlen. fold pton ntop.
    destruct (cfam c) eqn:F; destruct (cfn c) eqn:G; try discriminate S; try reflexivity.
    - unfold strip_mask4. destruct (parse4 s) as [[bs m]|]; cbn; fin.
    - unfold strip_mask6. destruct (parse6 pton false s) as [[bs m]|]; cbn; fin.
    - unfold strip_mask_ip. destruct (is_match4 s).
      + unfold strip_mask4. destruct (parse4 s) as [[bs m]|]; cbn; fin.
      + unfold strip_mask6. destruct (parse6 pton false s) as [[bs m]|]; cbn; fin.
  Qed.

  Lemma mapped_ok s : clause_mapped c s (apply c s) = [].
  Proof.
    unfold clause_mapped, apply. rewrite Hlen, Hve. fold pton ntop.
    destruct (cfam c) eqn:F; try reflexivity. destruct (cfn c) eqn:G; try reflexivity.
    destruct (pton s) as [b| |] eqn:P; try reflexivity. destruct (is_mapped b) eqn:M; [|reflexivity].
    rewrite (proj1 (mapped_unwrap pton ntop P_len (craise c) s b P M)). fin.
  Qed.

  Lemma ref_ok_clause ref r : ref_ok ref r = true -> clause_ref ref r = [].
  Proof. unfold ref_ok, clause_ref. destruct ref; [intros ->|]; reflexivity. Qed.

  Lemma idem_ok : clause_idempotent c (run_model c) = [].
  Proof.
    pose proof Hsup as S. unfold clause_idempotent, run_model. cbn [r1 r11].
    destruct (cfn c) eqn:G; try reflexivity.
    assert (I : match apply c (s1 c) with Ok t => apply c t = Ok t | Exc _ => True end).
    { unfold apply, supported in *. rewrite Hlen, Hve, G. fold pton ntop. destruct (cfam c) eqn:F.
      - apply normalize4_idempotent.
      - apply (normalize6_idempotent pton ntop P_ntop P_slash).
      - apply normalize_mac_idempotent.
      - apply (normalize_ip_idempotent pton ntop P_len P_ntop P_slash P_colon). }
    destruct (apply c (s1 c)) as [t|e]; [rewrite I|]; fin.
  Qed.

  Lemma d4_inj p q : d4 p = d4 q <-> p = q.
  Proof. destruct p, q. unfold d4. cbn. split; intros H; inversion H; subst; reflexivity. Qed.
  Lemma d6_inj p q : d6 p = d6 q <-> p = q.
  Proof. destruct p, q. unfold d6. cbn. split; intros H; inversion H; subst; reflexivity. Qed.

  Lemma canonical_ok : clause_canonical c (run_model c) = [].
  Proof.
    pose proof Hsup as S. unfold clause_canonical, run_model. cbn [r1 r2].
    destruct (cfn c) eqn:G; try reflexivity.
    destruct (bad_options c) eqn:BO; [reflexivity|].
    destruct (denote c (s1 c)) as [x|] eqn:D1; [|reflexivity].
    destruct (denote c (s2 c)) as [y|] eqn:D2; [|reflexivity].
    replace (Bool.eqb (denot_eqb x y) (res_eqb (apply c (s1 c)) (apply c (s2 c)))) with true; [reflexivity|].
    symmetry. apply (eqb_of_iff _ _ (x = y) (apply c (s1 c) = apply c (s2 c)));
      [apply denot_eqb_eq|apply res_eqb_eq|].
    unfold denote, apply, bad_options in *. rewrite Hlen, Hve, G in *. fold pton ntop in D1, D2 |- *.
    destruct (cfam c) eqn:F.
    - destruct (parse4 (s1 c)) as [p|] eqn:P1; [|discriminate]. destruct (parse4 (s2 c)) as [q|] eqn:P2; [|discriminate].
      cbn in D1, D2. inversion D1; inversion D2; subst. rewrite d4_inj.
      apply (normalize4_canonical (craise c) _ _ _ _ P1 P2).
    - destruct (parse6 pton false (s1 c)) as [p|] eqn:P1; [|discriminate].
      destruct (parse6 pton false (s2 c)) as [q|] eqn:P2; [|discriminate].
      cbn in D1, D2. inversion D1; inversion D2; subst. rewrite d6_inj.
      apply (normalize6_canonical pton ntop P_ntop P_slash (craise c) _ _ _ _ P1 P2).
    - destruct (mac_delim_arg (mdelim c)) as [d|] eqn:Dl; [|discriminate].
      destruct (mac_case_arg (mcase c)) as [up|] eqn:Cs; [|discriminate].
      destruct (mac_bytes (s1 c)) as [p|] eqn:P1; [|discriminate]. destruct (mac_bytes (s2 c)) as [q|] eqn:P2; [|discriminate].
      cbn in D1, D2. inversion D1; inversion D2; subst.
      pose proof (normalize_mac_canonical (mcase c) (mdelim c) (craise c) _ _ _ _ d up Dl Cs P1 P2) as K.
      rewrite <- K. split; intros H; [inversion H|subst]; reflexivity.
    - apply (normalize_ip_canonical pton ntop P_len P_ntop P_slash P_colon (craise c) _ _ _ _ D1 D2).
  Qed.

  Theorem holds_model : holds c (run_model c) = [].
  Proof.
    unfold holds. destruct V_parts as (_ & _ & _ & _ & R1 & R2).
    rewrite (ref_ok_clause _ _ R1), (ref_ok_clause _ _ R2), canonical_ok, idem_ok.
    unfold run_model. cbn [r1 r2].
    now rewrite !total_ok, !arith_ok, !strip_ok, !mapped_ok.
  Qed.
End Holds.
