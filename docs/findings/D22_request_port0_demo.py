#!/usr/bin/env python3
"""
D22 (property C09; repaired by /repo commit 7078de3): a datagram with UDP source port 0 sent to the TFTP request port.

Linux delivers UDP datagrams whose source port is 0, but sendto() to port 0 fails with EINVAL (see
D19_port0_demo.py for the real-socket evidence).  Before the repair TftpServer._process_request reacted to such a
datagram like to any other: for a write request (and a malformed read request, mode mail, an unknown file, opcodes
3-6) it called sendto() for the ERROR reply, the OSError escaped to TftpServer._run, and its catch-all logged
"Request processing failed." with a traceback - an unhandled-exception log entry caused by nothing but the
client-controlled source port.  Since 7078de3 such datagrams are dropped.

Usage:  python docs/findings/D22_request_port0_demo.py [REPO]        (REPO defaults to /repo)
  exit 0: the datagram is dropped (current code);  exit 1: the reply is attempted and the OSError escapes.
To see the old behaviour:
  git -C /repo worktree add --detach /tmp/d22_old 7078de3~1 && python docs/findings/D22_request_port0_demo.py /tmp/d22_old
  (or run the check:  tools/with_patch.sh revert:7078de3 C09 --tier quick  ->  VIOLATION, datagram 00 01 from port 0)
"""
import errno
import sys

repo = sys.argv[1] if len(sys.argv) > 1 else "/repo"
sys.path.insert(0, repo)
from vinegar.tftp import server as S  # noqa: E402


class Handler(S.TftpRequestHandler):
    def can_handle(self, filename, context):
        return False

    def handle(self, filename, client_address, server_address, context):
        raise AssertionError


class Sock:
    calls = []

    def sendto(self, data, addr):
        self.calls.append((bytes(data), addr))
        if addr[1] == 0:
            raise OSError(errno.EINVAL, "Invalid argument")     # what Linux does


srv = S.TftpServer([Handler()], bind_address="::1", bind_port=0)
srv._socket = Sock()
escaped = None
try:
    srv._process_request(b"\x00\x02file\x00octet\x00", ("2001:db8::9", 0, 0, 0), ("::1", 69, 0, 0))
except OSError as ex:
    escaped = ex
print("sendto calls:", Sock.calls)
print("exception reaching the catch-all of TftpServer._run:", repr(escaped))
sys.exit(1 if (escaped is not None or Sock.calls) else 0)
