(* Transfer identifiers (RFC 1350 section 4): vocabulary for the statement that datagrams from
   foreign addresses do not interfere with a transfer.  Definitions only. *)
From Coq Require Import List NArith ZArith Bool.
From VF Require Import Tftp.Transfer.
Import ListNotations.
Open Scope Z_scope.

Definition etime (e : event) : Z := match e with Recv t _ _ => t end.
Definition from_client (e : event) : bool := match e with Recv _ a _ => (a =? client)%N end.

(* the script with every datagram from a foreign address deleted *)
Definition client_only (evs : list event) : list event := filter from_client evs.

(* the trace without the receptions from foreign addresses and without what is sent to them *)
Definition concerns_client (x : tr) : bool :=
  match x with
  | TRecv _ a _ => (a =? client)%N
  | TSend _ a _ => (a =? client)%N
  | _ => true
  end.
Definition strip_foreign (l : list tr) : list tr := filter concerns_client l.

(* time stamps of the script do not decrease (a queue delivers in arrival order) *)
Fixpoint nondecreasing (evs : list event) : Prop :=
  match evs with
  | [] => True
  | e :: r => match r with [] => True | e' :: _ => etime e <= etime e' end /\ nondecreasing r
  end.

(* every reception from a foreign address is answered at once by exactly one ERROR 5 to that
   address, not earlier than the arrival; nothing else is ever sent to a foreign address *)
Fixpoint answered_from (pending : option (addr * Z)) (l : list tr) : bool :=
  match l with
  | [] => match pending with None => true | Some _ => false end
  | x :: r =>
      match pending with
      | Some (a, t) =>
          match x with
          | TSend t' a' (PError code) => (code =? 5)%N && (a' =? a)%N && (t <=? t') && answered_from None r
          | _ => false
          end
      | None =>
          match x with
          | TRecv t a _ => if (a =? client)%N then answered_from None r else answered_from (Some (a, t)) r
          | TSend _ a _ => (a =? client)%N && answered_from None r
          | _ => answered_from None r
          end
      end
  end.
Definition foreign_answered (l : list tr) : bool := answered_from None l.

(* terminal reactions: the class of a datagram from the peer and the outcome it causes *)
Definition out_of (cl : cls) : outcome :=
  match cl with CAck _ => OAcked | CPeerError => OPeerError | CInvalid => OInvalid | CInternal => OInternal end.
Definition outcome_eqb (a b : outcome) : bool :=
  match a, b with
  | OAcked, OAcked | OTimeout, OTimeout | OPeerError, OPeerError | OInvalid, OInvalid | OInternal, OInternal => true
  | _, _ => false
  end.
(* [x] is the reception of a datagram from the peer that causes outcome [ok] *)
Definition recv_causing (vr : variants) (ok : outcome) (x : tr) : bool :=
  match x with
  | TRecv _ a d => (a =? client)%N && outcome_eqb (out_of (classify vr d)) ok
  | _ => false
  end.
(* ERROR packet from the peer: opcode 00 05, any code, any length >= 2 *)
Definition is_error_datagram (d : list N) : bool :=
  match d with hi :: lo :: _ => (u16 hi lo =? 5)%N | _ => false end.
