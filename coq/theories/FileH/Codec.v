(* sx encoding shared by the C06 and C04 entry points: strings that may contain
   code points >= 256, optional strings, configurations, oracle tables. *)
From Coq Require Import String.
From Coq Require Import List NArith ZArith Bool Arith.
From VF Require Import Base.Sx FileH.Str FileH.Handler.
Import ListNotations.
Open Scope N_scope.

(* a string is sent as a byte string when every code point is < 256, else as a list of integers *)
Definition sxStr (s : str) : sx := if forallb (fun c => c <? 256) s then B s else L (map sxN s).
Definition asStr (x : sx) : option str :=
  match x with B s => Some s | L l => omap asN l | I _ => None end.
Definition sxOpt (o : option str) : sx := match o with None => L [] | Some s => L [sxStr s] end.
Definition asOpt (x : sx) : option (option str) :=
  match x with
  | L [] => Some None
  | L [y] => match asStr y with Some s => Some (Some s) | None => None end
  | _ => None
  end.

Definition opt_str_eqb (a b : option str) : bool :=
  match a, b with
  | None, None => true
  | Some x, Some y => eqb_str x y
  | _, _ => false
  end.

Definition decode_config (x : sx) : option config :=
  match x with
  | L [B rpath; fm; B target; B suffix; B key; B ph; cont; ign; tmpl] =>
      obind (asBool fm) (fun fm =>
      obind (asBool cont) (fun cont =>
      obind (asBool ign) (fun ign =>
      obind (asBool tmpl) (fun tmpl =>
      Some {| c_request_path := rpath; c_filemode := fm; c_target := target; c_suffix := suffix;
              c_lookup_key := key; c_placeholder := ph; c_continue := cont; c_ds_ignore := ign;
              c_template := tmpl |}))))
  | _ => None
  end.

(* find_system table: rows (key value kind id), kind 0 = None, 1 = id, 2 = raises an Exception subclass,
   3 = raises a BaseException subclass; absent = None *)
Definition fs_row := (str * str * N * str)%type.
Definition decode_fs_row (x : sx) : option fs_row :=
  match x with
  | L [k; v; I kind; i] =>
      obind (asStr k) (fun k => obind (asStr v) (fun v => obind (asStr i) (fun i => Some (k, v, Z.to_N kind, i))))
  | _ => None
  end.
Fixpoint table_find_system (t : list fs_row) (k v : str) : fsres :=
  match t with
  | [] => FNone
  | (k', v', kind, i) :: r =>
      if eqb_str k k' && eqb_str v v'
      then (if kind =? 1 then FFound i else if kind =? 2 then FRaise else if kind =? 3 then FRaiseBase else FNone)
      else table_find_system r k v
  end.

(* get_data: raises for the ids in [raising]; returns an empty tree for the ids in [empties] (the template then sees
   data.get('tag') = None, observed as "?None"); otherwise returns a tree whose tag is "data-of-" ++ id *)
Definition DATA_OF : str := bytes_of_string "data-of-".
Definition DATA_EMPTY : str := bytes_of_string "?None".
Definition table_get_data (raising raising_base empties : list str) (i : str) : gdres :=
  if existsb (eqb_str i) raising then GRaise
  else if existsb (eqb_str i) raising_base then GRaiseBase
  else if existsb (eqb_str i) empties then GOk DATA_EMPTY
  else GOk (DATA_OF ++ i).

Definition sxCall (c : call) : sx :=
  match c with
  | CFind k v => L [I 0; sxStr k; sxStr v]
  | CGet i => L [I 1; sxStr i]
  end.
Definition asCall (x : sx) : option call :=
  match x with
  | L [I 0%Z; k; v] => obind (asStr k) (fun k => obind (asStr v) (fun v => Some (CFind k v)))
  | L [I 1%Z; i] => obind (asStr i) (fun i => Some (CGet i))
  | _ => None
  end.
Definition call_eqb (a b : call) : bool :=
  match a, b with
  | CFind k v, CFind k' v' => eqb_str k k' && eqb_str v v'
  | CGet i, CGet i' => eqb_str i i'
  | _, _ => false
  end.
Fixpoint list_eqb {A} (eqb : A -> A -> bool) (a b : list A) : bool :=
  match a, b with
  | [], [] => true
  | x :: a', y :: b' => eqb x y && list_eqb eqb a' b'
  | _, _ => false
  end.

Definition sxCtx (x : ctx) : sx := L [sxBool (matches x); sxOpt (raw_value x); sxOpt (extra_path x)].
Definition asCtx (x : sx) : option ctx :=
  match x with
  | L [m; rv; ep] =>
      obind (asBool m) (fun m => obind (asOpt rv) (fun rv => obind (asOpt ep) (fun ep =>
      Some {| matches := m; raw_value := rv; extra_path := ep |})))
  | _ => None
  end.
Definition ctx_eqb (a b : ctx) : bool :=
  Bool.eqb (matches a) (matches b) && opt_str_eqb (raw_value a) (raw_value b)
  && opt_str_eqb (extra_path a) (extra_path b).
