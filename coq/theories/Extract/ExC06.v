From Coq Require Import ExtrOcamlBasic.
From Coq Require Extraction.
From VF Require Import Base.Sx C06.Entry.
Definition main := wrap entry.
Extraction "../ocaml/gen/c06_model.ml" main.
