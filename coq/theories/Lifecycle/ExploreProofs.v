From Coq Require Import List Arith Bool.
From VF Require Import Lifecycle.Pool Lifecycle.Explore.
Import ListNotations.

Section ExploreProofs.
  Variables (G PC OP : Type).
  Variable lkof : G -> lk.
  Variable cstep : G -> bool -> PC -> option OP -> option (G * PC * bool).
  Variable mstep : G -> option G.
  Variable is_idle : PC -> bool.
  Variables (gcode : G -> nat) (pccode : PC -> nat) (opcode : OP -> nat).
  Notation st := (st G PC OP).
  Notation step := (step G PC OP lkof cstep mstep).
  Notation explore := (explore G PC OP lkof cstep mstep gcode pccode opcode).
  Notation succs := (succs G PC OP lkof cstep mstep).

  Variable P : st -> Prop.
  Hypothesis P_step : forall s ch s', P s -> step s ch = Some s' -> P s'.

  Lemma succs_P s : P s -> Forall P (succs s).
  Proof.
    intros Hs. unfold Explore.succs. apply Forall_forall. intros x Hx.
    apply in_flat_map in Hx. destruct Hx as (ch & _ & Hx).
    destruct (step s ch) eqn:E; [|destruct Hx]. destruct Hx as [<-|[]]. eauto.
  Qed.

  (* every state the exploration returns satisfies any step-invariant that the start states satisfy *)
  Theorem explore_sound fuel : forall work visited,
    Forall P work -> Forall P visited -> Forall P (fst (explore fuel work visited)).
  Proof.
    induction fuel as [|f IH]; intros work visited Hw Hv; cbn; auto.
    destruct work as [|s r]; cbn; auto.
    inversion Hw as [|? ? Hs Hr]; subst.
    destruct (existsb _ visited).
    - apply IH; auto.
    - apply IH; auto. apply Forall_app. split; auto. apply succs_P. exact Hs.
  Qed.
End ExploreProofs.
