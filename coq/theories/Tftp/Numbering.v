(* Block numbering of a transfer in closed form: _calc_next_block_number iterated.
   With a wrap value w the i-th DATA packet (1-based) carries i up to 65535 and then runs
   through w .. 65535 periodically; without a wrap value the numbering stops after 65535
   blocks with the overflow flag.  Definitions and proofs. *)
From Coq Require Import List NArith ZArith Bool Lia FinFun.
From VF Require Import Tftp.Transfer Tftp.Monitor.
Import ListNotations.
Open Scope N_scope.

Ltac Zify.zify_post_hook ::= Z.to_euclidean_division_equations.

(* number of the i-th DATA packet, i >= 1 (num w 0 = 0 is the counter before the first block) *)
Definition num (w : N) (i : N) : N :=
  if i <=? 65535 then i else w + (i - 65536) mod (65536 - w).

(* the blocks of l as DATA packets numbered f (j+1), f (j+2), ... *)
Fixpoint numbered_by (f : N -> N) (j : N) (l : list (list N)) : list pkt :=
  match l with
  | [] => []
  | b :: r => PData (f (j + 1)) b :: numbered_by f (j + 1) r
  end.

Lemma numbered_by_length f j l : length (numbered_by f j l) = length l.
Proof. revert j; induction l as [|b r IH]; intros j; cbn; [reflexivity|]. now rewrite IH. Qed.

Lemma numbered_by_nth f l : forall j i,
  nth_error (numbered_by f j l) i = option_map (PData (f (j + N.of_nat i + 1))) (nth_error l i).
Proof.
  induction l as [|b r IH]; intros j i; destruct i as [|i].
  - reflexivity.
  - reflexivity.
  - cbn [numbered_by nth_error option_map]. replace (j + N.of_nat 0 + 1) with (j + 1) by lia. reflexivity.
  - change (nth_error (numbered_by f j (b :: r)) (S i)) with (nth_error (numbered_by f (j + 1) r) i).
    change (nth_error (b :: r) (S i)) with (nth_error r i). rewrite IH.
    replace (j + 1 + N.of_nat i + 1) with (j + N.of_nat (S i) + 1) by lia. reflexivity.
Qed.

Lemma mod_succ x p : p <> 0 ->
  (x + 1) mod p = if x mod p =? p - 1 then 0 else x mod p + 1.
Proof.
  intros Hp. pose proof (N.div_mod x p Hp) as D. pose proof (N.mod_upper_bound x p Hp) as U.
  destruct (N.eqb_spec (x mod p) (p - 1)) as [E|E]; symmetry.
  - apply (N.mod_unique (x + 1) p (x / p + 1)); [lia|]. rewrite N.mul_add_distr_l. lia.
  - apply (N.mod_unique (x + 1) p (x / p)); lia.
Qed.

Lemma num_range w i : w <= 65535 -> num w i <= 65535.
Proof.
  intros Hw. unfold num. destruct (N.leb_spec i 65535); [assumption|].
  pose proof (N.mod_upper_bound (i - 65536) (65536 - w) ltac:(lia)). lia.
Qed.

(* one step of the counter *)
Lemma next_block_num w i : w <= 65535 -> next_block (Some w) (num w i) = Some (num w (i + 1)).
Proof.
  intros Hw. unfold next_block.
  destruct (N.leb_spec i 65534) as [H1|H1].
  - unfold num. destruct (N.leb_spec i 65535); [|lia]. destruct (N.leb_spec (i + 1) 65535); [|lia].
    destruct (N.eqb_spec i 65535); [lia|reflexivity].
  - destruct (N.eq_dec i 65535) as [->|H2].
    + unfold num. cbn [N.leb]. change (65535 <=? 65535) with true. change (65535 + 1 <=? 65535) with false.
      cbv iota. change (65535 =? 65535) with true. cbv iota.
      replace (65535 + 1 - 65536) with 0 by lia. rewrite N.mod_0_l by lia. f_equal. lia.
    + assert (Hi : 65536 <= i) by lia.
      unfold num. destruct (N.leb_spec i 65535); [lia|]. destruct (N.leb_spec (i + 1) 65535); [lia|].
      replace (i + 1 - 65536) with (i - 65536 + 1) by lia.
      set (x := i - 65536). set (p := 65536 - w).
      assert (Hp : p <> 0) by (unfold p; lia).
      rewrite (mod_succ x p Hp). pose proof (N.mod_upper_bound x p Hp) as U.
      destruct (N.eqb_spec (x mod p) (p - 1)) as [E|E].
      * destruct (N.eqb_spec (w + x mod p) 65535) as [_|E2]; [f_equal; lia|]. unfold p in *. lia.
      * destruct (N.eqb_spec (w + x mod p) 65535) as [E2|_]; [unfold p in *; lia|]. f_equal. lia.
Qed.

Lemma number_blocks_num w blocks : w <= 65535 -> forall j,
  number_blocks (Some w) (num w j) blocks = (numbered_by (num w) j blocks, false).
Proof.
  intros Hw. induction blocks as [|b r IH]; intros j; cbn [number_blocks numbered_by]; [reflexivity|].
  rewrite (next_block_num w j Hw), (IH (j + 1)). reflexivity.
Qed.

(* with a wrap value: the i-th DATA packet (1-based) carries num w i; there is never an overflow *)
Theorem blocknum_closed_form w blocks : w <= 65535 ->
  number_blocks (Some w) 0 blocks = (numbered_by (num w) 0 blocks, false) /\
  (forall i, nth_error (fst (number_blocks (Some w) 0 blocks)) i =
             option_map (PData (num w (N.of_nat i + 1))) (nth_error blocks i)) /\
  (forall i, 1 <= i <= 65535 -> num w i = i) /\
  (forall i, 65536 <= i -> num w i = w + (i - 65536) mod (65536 - w)).
Proof.
  intros Hw. pose proof (number_blocks_num w blocks Hw 0) as E. change (num w 0) with 0 in E.
  split; [exact E|]. split; [|split].
  - intros i. rewrite E. cbn [fst]. rewrite numbered_by_nth. reflexivity.
  - intros i Hi. unfold num. destruct (N.leb_spec i 65535); [reflexivity|lia].
  - intros i Hi. unfold num. destruct (N.leb_spec i 65535); [lia|reflexivity].
Qed.

(* ---- no wrap value ---- *)
Definition room (blk : N) : nat := N.to_nat (65535 - blk).

Lemma number_blocks_nowrap blocks : forall blk, blk <= 65535 ->
  number_blocks None blk blocks =
  (numbered_by (fun i => i) blk (firstn (room blk) blocks), (room blk <? length blocks)%nat).
Proof.
  induction blocks as [|b r IH]; intros blk Hb; cbn [number_blocks].
  - rewrite firstn_nil. reflexivity.
  - unfold next_block. destruct (N.eqb_spec blk 65535) as [->|Hn].
    + reflexivity.
    + assert (R : room blk = S (room (blk + 1))) by (unfold room; lia).
      rewrite R. cbn [firstn numbered_by length]. rewrite (IH (blk + 1)) by lia. reflexivity.
Qed.

Lemma nth_error_firstn_lt {A} (l : list A) : forall n i, (i < n)%nat -> nth_error (firstn n l) i = nth_error l i.
Proof.
  induction l as [|x l IH]; intros n i Hi; destruct n as [|n]; try lia; destruct i as [|i]; try reflexivity.
  cbn [firstn nth_error]. apply IH. lia.
Qed.

Definition pkt_num (p : pkt) : N := match p with PData n _ => n | _ => 0 end.

Lemma numbered_id_nums j l :
  map pkt_num (numbered_by (fun i => i) j l) = map (fun k => j + 1 + N.of_nat k) (seq 0 (length l)).
Proof.
  revert j; induction l as [|b r IH]; intros j; cbn [numbered_by map length seq]; [reflexivity|].
  f_equal; [cbn; lia|]. rewrite IH, <- seq_shift, map_map. apply map_ext. intros k. lia.
Qed.

(* without a wrap value and with more than 65535 blocks: exactly the first 65535 blocks, numbered
   1 .. 65535, and the overflow flag; no number is used twice *)
Theorem nowrap_overflow blocks : 65535 < N.of_nat (length blocks) ->
  number_blocks None 0 blocks = (numbered_by (fun i => i) 0 (firstn (N.to_nat 65535) blocks), true) /\
  N.of_nat (length (fst (number_blocks None 0 blocks))) = 65535 /\
  (forall i, nth_error (fst (number_blocks None 0 blocks)) i =
             if (i <? N.to_nat 65535)%nat then option_map (PData (N.of_nat i + 1)) (nth_error blocks i) else None) /\
  NoDup (map pkt_num (fst (number_blocks None 0 blocks))).
Proof.
  intros Hl. pose proof (number_blocks_nowrap blocks 0 ltac:(lia)) as E.
  change (room 0) with (N.to_nat 65535) in E.
  assert (Hlt : (N.to_nat 65535 <? length blocks)%nat = true) by (apply Nat.ltb_lt; lia).
  rewrite Hlt in E. split; [exact E|]. rewrite E. cbn [fst].
  assert (Lf : length (firstn (N.to_nat 65535) blocks) = N.to_nat 65535) by (rewrite firstn_length; lia).
  split; [rewrite numbered_by_length, Lf; lia|]. split.
  - intros i. rewrite numbered_by_nth. destruct (Nat.ltb_spec i (N.to_nat 65535)) as [Hi|Hi].
    + rewrite nth_error_firstn_lt by exact Hi. cbn. reflexivity.
    + rewrite (proj2 (nth_error_None _ _)) by (rewrite Lf; lia). reflexivity.
  - rewrite numbered_id_nums. apply FinFun.Injective_map_NoDup; [|apply seq_NoDup].
    intros a b Hab. lia.
Qed.

(* without a wrap value and at most 65535 blocks: all of them, numbered 1 .. n, no overflow *)
Theorem nowrap_fits blocks : N.of_nat (length blocks) <= 65535 ->
  number_blocks None 0 blocks = (numbered_by (fun i => i) 0 blocks, false).
Proof.
  intros Hl. rewrite (number_blocks_nowrap blocks 0 ltac:(lia)). change (room 0) with (N.to_nat 65535).
  rewrite firstn_all2 by lia. f_equal. apply Nat.ltb_ge. lia.
Qed.

(* the overflow flag in general *)
Theorem overflow_iff w blocks : match w with Some x => x <= 65535 | None => True end ->
  snd (number_blocks w 0 blocks) = match w with Some _ => false | None => 65535 <? N.of_nat (length blocks) end.
Proof.
  destruct w as [x|]; intros Hw.
  - now rewrite (proj1 (blocknum_closed_form x blocks Hw)).
  - rewrite (number_blocks_nowrap blocks 0 ltac:(lia)). cbn [snd]. change (room 0) with (N.to_nat 65535).
    destruct (Nat.ltb_spec (N.to_nat 65535) (length blocks)); destruct (N.ltb_spec 65535 (N.of_nat (length blocks))); lia.
Qed.

(* every number fits the two bytes of the packet *)
Lemma number_blocks_range w : match w with Some x => x <= 65535 | None => True end ->
  forall blocks blk, blk <= 65535 ->
  Forall (fun p => pkt_num p <= 65535) (fst (number_blocks w blk blocks)).
Proof.
  intros Hw. induction blocks as [|b r IH]; intros blk Hb; cbn [number_blocks]; [constructor|].
  destruct (next_block w blk) as [n|] eqn:E; [|constructor].
  assert (Hn : n <= 65535).
  { unfold next_block in E. destruct (N.eqb_spec blk 65535).
    - destruct w; inversion E; subst; assumption.
    - inversion E. lia. }
  specialize (IH n Hn). destruct (number_blocks w n r) as [l o]. cbn [fst] in *. constructor; [exact Hn|exact IH].
Qed.

(* non-vacuity: numbers around the wrap for both usual wrap values and a third one *)
Example num_examples :
  num 0 65535 = 65535 /\ num 0 65536 = 0 /\ num 0 65537 = 1 /\ num 0 131072 = 0 /\
  num 1 65536 = 1 /\ num 1 131070 = 65535 /\ num 1 131071 = 1 /\ num 65535 70000 = 65535 /\ num 1000 65537 = 1001.
Proof. vm_compute. repeat split. Qed.
