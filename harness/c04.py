"""C04 - file serving is confined to the configured root directory / file."""
import errno
import itertools
import json
import os
import shutil
import sys

import common
from common import Check, sx, unsx, names, run_model
import fileh
from fileh import RecordingSource, deep_sxstr, sxstr

# ----------------------------------------------------------------------------- every open() during handling
_REC = {"on": False, "paths": []}
_PY_DIRS = tuple(sorted({os.path.realpath(p) for p in (sys.prefix, sys.base_prefix, sys.exec_prefix)}))


def _hook(event, args):
    if event == "open" and _REC["on"]:
        p = args[0]
        if isinstance(p, bytes):
            p = os.fsdecode(p)
        if isinstance(p, str):
            _REC["paths"].append(p)


sys.addaudithook(_hook)

ALPHABET = ["/", ".", "..", "a", "f.txt", "%2e", "%2f", "%2F", "%5c", "\\", "%00", "\0", "%c0%af", "%ff", "?x", "//",
            "%25", "secret.txt", "root-evil", "%41", "sub", "%3f", "%3F", "%ef%bc%8f"]

TREE = {
    "secret.txt": "TOP SECRET above the root\n",
    "f.txt": "decoy f.txt above the root\n",
    "root-evil/f.txt": "decoy in a sibling directory whose name starts with the root's name\n",
    "root-evil/secret.txt": "another decoy\n",
    "rootfile.txt": "the single file of the file-mode handler\n",
    "root/f.txt": "root/f.txt\n",
    "root/f.txt.j2": "root/f.txt.j2\n",
    "root/a/f.txt": "root/a/f.txt\n",
    "root/a/f.txt.j2": "root/a/f.txt.j2\n",
    "root/a/a": "root/a/a\n",
    "root/sub/a/f.txt": "root/sub/a/f.txt\n",
    "root/A": "root/A (what a twice-decoded %2541 would name)\n",
    "root/%41": "root/%41 (what %2541 names)\n",
    "root/secret.txt": "root/secret.txt - inside the root, may be served\n",
    "root/..a": "root/..a\n",
    "root/\\": "root/backslash\n",
    "root/a\\f.txt": "root/a-backslash-f.txt\n",
    "root/%2e%2e": "root/%2e%2e literal\n",
    "root/f.txt?x": "root/f.txt?x (named by f.txt%3fx)\n",
    "root/a?": "root/a? (named by a%3f)\n",
}

HIST_OPS = ["R", "G", "A", "D", "W1", "W2"]
HIST_CONTENT = {"W0": "zero\n", "W1": "one one\n", "W2": "two two two\n"}


class HistObs(list):
    """observations of the request steps of one history"""


KIND = {"file": 0, "ENOENT": 1, "EISDIR": 2, "ENOTDIR": 3, "ENAMETOOLONG": 4, "EACCES": 5, "OTHER": 6}


def probe(path):
    """the file-system oracle, asked directly (not through vinegar): what does open(path) do?"""
    try:
        with open(path, "rb") as f:
            return [KIND["file"], f.read()]
    except FileNotFoundError:
        return [KIND["ENOENT"], b""]
    except IsADirectoryError:
        return [KIND["EISDIR"], b""]
    except NotADirectoryError:
        return [KIND["ENOTDIR"], b""]
    except PermissionError:
        return [KIND["EACCES"], b""]
    except OSError as e:
        return [KIND["ENAMETOOLONG"] if e.errno == errno.ENAMETOOLONG else KIND["OTHER"], b""]
    except ValueError:
        return [KIND["OTHER"], b""]


def mkcfg(rpath, filemode, template, suffix="", key="", ph=None, target_raw=None):
    cfg = {"rpath": rpath, "filemode": filemode, "target": "rootfile.txt" if filemode else "root", "suffix": suffix,
           "key": key, "ph": ph, "cont": True, "ign": 0, "template": template, "tpre": "", "tsuf": ""}
    if target_raw is not None:
        cfg["target_raw"] = target_raw
    return cfg


# root_dir / file configured relative to the working directory, with a trailing slash, or (file) non-normalised,
# missing, a directory, below a regular file.  The handler gets the string verbatim; the model gets its abspath.
RAW_ROOTS = ["root", "root/", "$BASE/root/"]
RAW_FILES = ["rootfile.txt", "./rootfile.txt", "$BASE/root/../rootfile.txt", "nothere.txt", "$BASE/root/../nothere.txt",
             "$BASE/rootfile.txt/below", "root", "root/a/../f.txt"]
# root_dir spellings for which the unchanged code serves nothing at all (see docs/C04.md, "Found about the real
# code"); only generated when C04_NONNORMAL_ROOT=1
RAW_ROOTS_NONNORMAL = ["./root", "$BASE/sub/../root", "$BASE//root", "root/."]


def all_configs():
    out = []
    for template in (False, True):
        for suffix in ("", ".j2"):
            out.append(mkcfg("/", False, template, suffix))
        out.append(mkcfg("/p", False, template, ""))
        out.append(mkcfg("/p/...", False, template, ".j2", key=":system_id:"))
        out.append(mkcfg("/x-.../q", False, template, "", key=":system_id:"))
        out.append(mkcfg("/p", True, template))
        out.append(mkcfg("/p/...", True, template, key=":system_id:"))
        out.append(mkcfg("/", True, template))
    # a suffix that is not a plain extension: it is appended after normpath, verbatim (TFTP only, no template:
    # Jinja's loader would normalise the name once more)
    out.append(mkcfg("/", False, False, "/../f.txt"))
    roots = RAW_ROOTS + (RAW_ROOTS_NONNORMAL if os.environ.get("C04_NONNORMAL_ROOT") else [])
    for template in (True, False):
        for raw in roots:
            out.append(mkcfg("/", False, template, "", target_raw=raw))
        out.append(mkcfg("/p", False, template, ".j2", target_raw="root"))
        for raw in RAW_FILES:
            out.append(mkcfg("/p", True, template, target_raw=raw))
    return out


def prefixes(cfg):
    rp = cfg["rpath"]
    if cfg["key"]:
        return [rp.replace("...", "v"), rp.replace("...", "%2e%2e")]
    return ["" if rp == "/" else rp]


class C04(Check):
    ident = "C04"
    technique = ("Coq proof (translate_path = root + named segments + suffix, normpath is the identity on it; open errors "
                 "-> not found) + differential correspondence with audit-hook observation of every open()")
    rule = ("case = (protocol, configuration, request string); observation = (handled?, every path opened during "
            "handle(), result class, body); request strings exhaustive over the adversarial token alphabet up to a "
            "length behind each configured prefix, random longer ones, over-long segments; non-trivial = request handled "
            "by a directory-mode handler and naming something other than a plain existing file, or containing an escape, "
            "dot segment, backslash or NUL; distinct by (configuration, protocol, request)")
    assumptions = [
        "root_dir is absolute, normalised (normpath root = root) and has no trailing slash",
        "file system answers are an oracle (open(path) asked directly for exactly the path the model names)",
        "templates are plain UTF-8 text (rendering = identity); template cache disabled so that every request opens its file",
        "no symlinks / special files inside the tree; POSIX path separator; EACCES not exercised (checks run as root)",
    ]

    def __init__(self):
        self._handlers = {}
        self._tree = False

    def tree(self):
        if self._tree:
            return
        self._tree = True
        for rel, content in TREE.items():
            fileh.write_file(rel, content)
        os.chdir(fileh.base_dir())       # relative root_dir / file options are relative to this directory
        # warm up lazily imported modules so that their files are not counted as opened by a request
        for cfg in (mkcfg("/", False, True), mkcfg("/", False, False)):
            for tftp in (False, True):
                h = self.handler(cfg, tftp)
                ctx = h.prepare_context("/f.txt")
                fileh.run_handle(h, tftp, "/f.txt", ctx)
                ctx = h.prepare_context("/nope")
                fileh.run_handle(h, tftp, "/nope", ctx)

    def handler(self, cfg, tftp):
        key = (json.dumps(cfg, sort_keys=True), tftp)
        if key not in self._handlers:
            self.tree()
            h = fileh.build(cfg, tftp, template_cache=False)
            if h is not None:
                h.set_data_source(RecordingSource({}, []))
            self._handlers[key] = h
        return self._handlers[key]

    # ---- generators
    def gen(self, tier, rng):
        self.tree()
        cfgs = all_configs()
        if os.environ.get("C04_LIMIT_CFGS"):
            cfgs = cfgs[::int(os.environ["C04_LIMIT_CFGS"])]
        n_all = 3 if tier == "quick" else 4
        if os.environ.get("C04_N"):
            n_all = int(os.environ["C04_N"])
        # histories: one long-lived handler, template cache enabled, requests interleaved with removal / replacement
        # by a directory / rewriting of the served file
        hl = 4 if tier == "quick" else 5
        k = 0
        for n in range(1, hl + 1):
            for ops in itertools.product(HIST_OPS if n < hl else [o for o in HIST_OPS if o != "G"], repeat=n):
                if "R" not in ops:
                    continue
                k += 1
                hcfg = mkcfg("/", False, True, "")
                hcfg["target"] = "hroot"
                yield {"tftp": bool(k % 2), "cfg": hcfg, "uri": "/f.txt", "hist": list(ops)}
        for _ in range(100 if tier == "quick" else 300):
            ops = ["R"] + [rng.choice(HIST_OPS) for _ in range(rng.randrange(4, 10))]
            yield {"tftp": bool(rng.randrange(2)), "cfg": mkcfg("/", False, True, "") | {"target": "hroot"}, "uri": "/f.txt",
                   "hist": ops}
        for ci, cfg in enumerate(cfgs):
            main = (cfg["rpath"] == "/" and not cfg["filemode"] and cfg.get("target_raw") is None)
            n = n_all if (main and not cfg["suffix"] and (tier == "quick" or not cfg["template"])) else n_all - 1
            if cfg.get("target_raw") not in (None, "root") and tier != "quick":
                n = n_all - 2
            if tier != "quick" and not main and cfg["template"] and cfg["rpath"] != "/" and cfg.get("target_raw") is None:
                n = n_all - 2     # the non-template twin of this configuration keeps the larger scope
            strings_all = list(fileh.tokens_upto(ALPHABET, n))
            strings_tftp = strings_all if (tier == "quick" or n < 4) else list(fileh.tokens_upto(ALPHABET, n - 1))
            for tftp in (False, True):
                strings = strings_tftp if tftp else strings_all
                if "/" in cfg["suffix"] and not tftp:
                    continue      # the HTTP class derives the content type from basename minus suffix (asserts)
                seen = set()
                # witnesses of the known failure modes first (ENOTDIR, EISDIR, ENAMETOOLONG, traversal)
                for pre in prefixes(cfg):
                    for u in (pre, pre + "/f.txt", pre + "/nope", pre + "/sub/nope", pre + "/sub", pre + "/a/f.txt/a/a",
                              pre + "/f.txt/a", pre + "/a/f.txt/..", pre + "/a", pre + "/a/", pre + "/../secret.txt",
                              pre + "/%2e%2e/secret.txt", pre + "/..%2fsecret.txt", pre + "/../root-evil/f.txt",
                              pre + "/a/../f.txt", pre + "/%2541", pre + "/f.txt%00", pre + "/a\\f.txt", pre + "/..a",
                              pre + "//f.txt", pre + "/a//f.txt", pre + "/./f.txt", pre + "/f.txt/", pre + "/f.txt/.",
                              pre + "/..%ef%bc%8froot-evil%ef%bc%8ff.txt", pre + "/%ef%bc%8e%ef%bc%8e/secret.txt",
                              pre + "/a%ef%bc%8ff.txt", pre + "/" + "%c3%a4" * 200, pre + "/" + "b" * 253 + ".j",
                              pre + "/a/" * 1 + "/".join(["b" * 200] * 25)):
                        if u not in seen:
                            seen.add(u)
                            yield {"tftp": tftp, "cfg": cfg, "uri": u}
                    for seg in ("b" * 255, "b" * 256, "b" * 300, "%c3%a9" * 128):
                        for u in (pre + "/" + seg, pre + "/a/" + seg + "/f.txt", pre + "/f.txt/" + seg):
                            if u not in seen:
                                seen.add(u)
                                yield {"tftp": tftp, "cfg": cfg, "uri": u}
                for pre in prefixes(cfg):
                    for s in strings:
                        for u in ((pre + s,) if not tftp else (pre + s, (pre + s)[1:])):
                            if u not in seen:
                                seen.add(u)
                                yield {"tftp": tftp, "cfg": cfg, "uri": u}
                    # random longer requests and over-long segments
                    for _ in range(150 if tier == "quick" else 500):
                        k = rng.randrange(n + 1, n + 6)
                        u = pre + "".join(rng.choice(ALPHABET) if rng.random() < 0.85 else
                                          rng.choice(["%%%02x" % rng.randrange(256), chr(rng.randrange(1, 256)),
                                                      "%e2%80%ae", "%c0%ae", "%e0%80%af", "%uff0e", "%zz", "%"])
                                          for _ in range(k))
                        if u not in seen:
                            seen.add(u)
                            yield {"tftp": tftp, "cfg": cfg, "uri": u}
                    u = pre + "/" + "a/" * 2100 + "f.txt"      # longer than PATH_MAX
                    if u not in seen and (tier != "quick" or main or ci % 5 == 0):
                        seen.add(u)
                        yield {"tftp": tftp, "cfg": cfg, "uri": u}

    # ---- implementation
    def impl(self, c):
        cfg, tftp, uri = c["cfg"], c["tftp"], c["uri"]
        h = self.handler(cfg, tftp)
        if h is None:
            return [False, False, [], 4, b""]
        return self.run_request(h, cfg, tftp, uri)

    def run_request(self, h, cfg, tftp, uri):
        ctx = h.prepare_context(uri)
        can = bool(h.can_handle(uri, ctx))
        if not can:
            return [True, False, [], 4, b""]
        _REC["paths"] = []
        _REC["on"] = True
        try:
            cls, body = fileh.run_handle(h, tftp, uri, ctx)
        finally:
            _REC["on"] = False
        opened = [p for p in _REC["paths"] if not p.startswith(_PY_DIRS)]
        if cfg.get("target_raw") is not None:
            # configured relative / non-normalised: compare what the opened names denote
            opened = [os.path.abspath(os.path.join(fileh.base_dir(), p)) for p in opened]
        return [True, True, opened, cls, body if body is not None else b""]

    def cfgline(self, c):
        return [c["tftp"], bool(c.get("old232")), bool(c.get("cached")), fileh.cfg_sx(c["cfg"]), c["uri"]]

    def line(self, c, obs):
        raise NotImplementedError   # evaluate() builds the lines (two passes)

    def canon(self, obs):
        if isinstance(obs, HistObs):
            # with the cache, whether a request opens its file depends on the history: the opened paths are judged
            # (confined) but not compared
            return [deep_sxstr([o[0], o[1], [], o[3], o[4]]) for o in obs]
        return deep_sxstr(obs)

    def evaluate(self, cases):
        self.tree()
        out = [None] * len(cases)
        plain = [(i, c) for i, c in enumerate(cases) if "hist" not in c]
        if plain:
            obs = [self.impl(c) for _, c in plain]
            q = run_model(self.ident, [sx([0] + self.cfgline(c)) for _, c in plain])
            lines = [self.full_line(c, o, self.paths_of(ans, c), None) for (_, c), o, ans in zip(plain, obs, q)]
            outs = run_model(self.ident, lines)
            for (i, c), o, ln, res in zip(plain, obs, lines, outs):
                r = self.parse_out(ln, res)
                out[i] = (c, o, r[0], names(r[1]), names(r[2]), r[3:])
        for i, c in enumerate(cases):
            if "hist" in c:
                out[i] = self.eval_history(c)
        return out

    def paths_of(self, ans, c):
        if ans.startswith("#") or ans.startswith("!"):
            raise RuntimeError(f"C04: driver rejected query for {c['uri']!r}")
        return [w.decode("latin-1") if isinstance(w, bytes) else "".join(chr(x) for x in w) for w in unsx(ans)]

    def full_line(self, c, o, wanted, table):
        """table = None: ask the file system now"""
        if table is None:
            table = self.probe_table(wanted, o)
        return sx([1] + self.cfgline(c) + [table, deep_sxstr(list(o))])

    def probe_table(self, wanted, o):
        paths = list(wanted)
        for p in o[2]:
            if p not in paths:
                paths.append(p)
        return [[sxstr(p)] + probe(p) for p in paths]

    def parse_out(self, ln, res):
        if res.startswith("!") or res.startswith("#"):
            raise RuntimeError(f"{self.ident}: driver rejected case {ln[:300]} -> {res[:100]}")
        return unsx(res)

    # ---- histories on one long-lived handler with the template cache enabled (the default)
    def set_state(self, rel, state):
        p = os.path.join(fileh.base_dir(), rel)
        if os.path.isdir(p) and not os.path.islink(p):
            shutil.rmtree(p)
        elif os.path.lexists(p):
            os.remove(p)
        if state == "dir":
            os.makedirs(p)
        elif state is not None:
            fileh.write_file(rel, state)

    def eval_history(self, c):
        cfg, tftp = c["cfg"], c["tftp"]
        uris = {"R": "/f.txt", "G": "/g.txt"}
        subs = {op: dict(c, uri=u, cached=True) for op, u in uris.items()}
        q = run_model(self.ident, [sx([0] + self.cfgline(subs[op])) for op in ("R", "G")])
        wanted = {op: self.paths_of(ans, subs[op]) for op, ans in zip(("R", "G"), q)}
        # fresh tree and fresh handler for every history
        shutil.rmtree(os.path.join(fileh.base_dir(), cfg["target"]), ignore_errors=True)
        self.set_state(cfg["target"] + "/f.txt", HIST_CONTENT["W0"])
        self.set_state(cfg["target"] + "/g.txt", "gee\n")
        h = fileh.build(cfg, tftp, template_cache=True)
        h.set_data_source(RecordingSource({}, []))
        steps = []
        for op in c["hist"]:
            if op in uris:
                o = self.run_request(h, cfg, tftp, uris[op])
                # the file-system oracle is asked at this moment, before the next change
                steps.append((subs[op], o, self.probe_table(wanted[op], o)))
            elif op == "A":
                self.set_state(cfg["target"] + "/f.txt", None)
            elif op == "D":
                self.set_state(cfg["target"] + "/f.txt", "dir")
            else:
                self.set_state(cfg["target"] + "/f.txt", HIST_CONTENT[op])
        lines = [self.full_line(sc, o, None, tb) for sc, o, tb in steps]
        outs = run_model(self.ident, lines) if lines else []
        m, fm, fi = [], [], []
        for ln, res in zip(lines, outs):
            r = self.parse_out(ln, res)
            m.append(r[0])
            fm.extend(x for x in names(r[1]) if x not in fm)
            fi.extend(x for x in names(r[2]) if x not in fi)
        return (c, HistObs(o for _, o, _ in steps), m, fm, fi, [])

    def nontrivial(self, c, obs):
        if "hist" in c:
            return ("hist", c["tftp"], tuple(c["hist"])) if any(op in "ADW1W2" for op in c["hist"]) else None
        u = c["uri"]
        if obs[1] and not c["cfg"]["filemode"] and (obs[3] != 3 or any(t in u for t in ("%", "..", "\\", "\0", "//", "/./"))):
            return (json.dumps(c["cfg"], sort_keys=True), c["tftp"], u)
        return None

    def show(self, c):
        if "hist" in c:
            return {"tftp": c["tftp"], "cfg": c["cfg"], "uri": "history " + " ".join(c["hist"]), "hist": c["hist"],
                    "legend": "R/G = request /f.txt, /g.txt; A = remove f.txt; D = replace it by a directory; "
                              "W1/W2 = rewrite it; one handler, template cache enabled"}
        return {"tftp": c["tftp"], "cfg": c["cfg"], "uri": c["uri"], "uri_hex": c["uri"].encode("latin-1").hex()}

    def shrink(self, c):
        if "hist" in c:
            for i in range(len(c["hist"])):
                yield dict(c, hist=c["hist"][:i] + c["hist"][i + 1:])
            return
        u = c["uri"]
        order = sorted(ALPHABET, key=len, reverse=True)
        toks, i = [], 0
        while i < len(u):
            for t in order:
                if u.startswith(t, i):
                    toks.append(t)
                    i += len(t)
                    break
            else:
                toks.append(u[i])
                i += 1
        if len(toks) > 40:
            yield dict(c, uri="".join(toks[:len(toks) // 2]))
            yield dict(c, uri="".join(toks[len(toks) // 2:]))
            yield dict(c, uri="".join(toks[:len(toks) * 3 // 4]))
            return
        for i in range(len(toks)):
            yield dict(c, uri="".join(toks[:i] + toks[i + 1:]))


if __name__ == "__main__":
    raise SystemExit(C04().main())
