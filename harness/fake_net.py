"""
Fake UDP socket and virtual clock for driving the real transfers of vinegar.tftp.server without source hooks.
The fakes are put into the module's namespace by SCANNING it for the real objects (the `socket` module, the
`socket.socket` class, `socket.timeout`, the `time` module, `time.monotonic`, the `threading` module, `threading.Thread`,
any logging.Logger), so `import socket` and `from socket import socket, timeout` are the same to the harness.  A transfer is
started through the private class `_TftpReadRequest` when it exists with the signature this harness knows (that path can
use configurations outside the public constructor's ranges), otherwise through the PUBLIC path: a real
`TftpServer(...).start()` whose request socket is a fake that delivers one read request.

Time unit: ticks of 1/1024 s (exact in binary floating point, so the code's float arithmetic on
deadlines is exact).  The clock moves only inside recvfrom: to the arrival time of a delivered
datagram plus `proc` ticks (the time the server needs to take a datagram off the socket; 0 in most
cases), or by the socket time-out.  Rule of the fake socket (mirrored by the Coq transfer machine): the head event
of the script is delivered iff its time stamp is before now+timeout, otherwise the clock advances by
the socket timeout and socket.timeout is raised (the event stays queued).
"""
import errno
import inspect
import os
import io
import logging
import socket as real_socket
import threading as real_threading
import time as real_time
import types

import common  # noqa: F401  (sets sys.path to the repo)
from vinegar.tftp import server as S
from vinegar.tftp.protocol import TransferMode

TICK = 1024.0
CLI = ("::1", 5555, 0, 0)
OTH = ("::1", 7777, 0, 0)
SRV = ("::1", 69, 0, 0)


class ChunkedStream(io.RawIOBase):
    """binary stream whose read(n) returns at most the next chunk bound (at least 1 byte)"""
    def __init__(self, content, chunks):
        super().__init__()
        self.content = bytes(content)
        self.pos = 0
        self.chunks = list(chunks)
        self.closed_by_server = False

    def readable(self):
        return True

    def read(self, n=-1):
        if n is None or n < 0:
            n = len(self.content) - self.pos
        if self.chunks:
            n = min(n, max(1, self.chunks.pop(0)))
        d = self.content[self.pos:self.pos + n]
        self.pos += len(d)
        return d

    def close(self):
        self.closed_by_server = True
        super().close()


class _Log(logging.Handler):
    def __init__(self, sink):
        super().__init__()
        self.sink = sink

    def emit(self, record):
        if record.exc_info:
            self.sink.append(("logexc", record.exc_info[0].__name__))


class FakeSock:
    def __init__(self, script, clock, log, proc=0):
        self.script = script
        self.clock = clock
        self.log = log
        self.to = None
        self.proc = proc
        self.timeout_class = real_socket.timeout

    def __enter__(self):
        return self

    def __exit__(self, *a):
        self.close()

    def close(self):
        if not getattr(self, "_closed", False):
            self._closed = True
            self.log.append(("close_sock",))

    def bind(self, addr):
        pass

    def getsockname(self):
        return SRV

    def settimeout(self, t):
        self.to = t

    def setsockopt(self, *a):
        pass

    def sendto(self, data, addr):
        # a "send" record means sendto() was called; like Linux, sendto to port 0 fails with EINVAL (a datagram
        # with source port 0 can be received, but it cannot be answered)
        self.log.append(("send", int(round(self.clock[0] * TICK)), addr, bytes(data)))
        if addr[1] == 0:
            raise OSError(errno.EINVAL, "Invalid argument")

    def recvfrom(self, n):
        if self.to is not None and self.to <= 0:
            # settimeout(0) is non-blocking mode: a real socket raises BlockingIOError when nothing is queued, not
            # socket.timeout (the transfer code never asks for it; a change that does must show)
            if self.script and self.script[0][0] / TICK <= self.clock[0]:
                t, addr, data = self.script.pop(0)
                self.clock[0] = max(self.clock[0], t / TICK) + self.proc / TICK
                self.log.append(("recv", t, addr, bytes(data)))
                return bytes(data)[:n], addr
            raise BlockingIOError(errno.EAGAIN, "Resource temporarily unavailable")
        if self.script:
            t, addr, data = self.script[0]
            if t / TICK < self.clock[0] + self.to:
                self.script.pop(0)
                # taking the datagram off the socket costs `proc` ticks of server time
                self.clock[0] = max(self.clock[0], t / TICK) + self.proc / TICK
                self.log.append(("recv", t, addr, bytes(data)))
                return bytes(data)[:n], addr
        self.clock[0] += self.to
        self.log.append(("timeout", int(round(self.clock[0] * TICK))))
        raise self.timeout_class("timed out")


class DriverUnavailable(Exception):
    """neither the private class (with the known signature) nor the public path can run this configuration"""


_PRIVATE_PARAMS = ["self", "filename", "transfer_mode", "options", "client_address", "server_address",
                   "handler_function", "handler_context", "default_timeout", "max_timeout", "max_retries",
                   "max_block_size", "block_counter_wrap_value"]


def private_class():
    if os.environ.get("VERIF_TFTP_PUBLIC_PATH") == "1":      # self-test of the public path on the unchanged tree
        return None
    cls = getattr(S, "_TftpReadRequest", None)
    if cls is None:
        return None
    try:
        params = list(inspect.signature(cls.__init__).parameters)
    except (TypeError, ValueError):
        return None
    return cls if params == _PRIVATE_PARAMS else None


def public_domain(default_timeout, max_timeout, max_retries, max_block_size, wrap):
    """the configurations the public constructor hands on unchanged (its documented ranges)"""
    return (1 <= max_timeout <= 255 and 1 <= default_timeout <= max_timeout and max_retries >= 1
            and 512 <= max_block_size <= 65464 and (wrap is None or (type(wrap) is int and wrap in (0, 1))))


def can_drive(default_timeout, max_timeout, max_retries, max_block_size, wrap):
    return private_class() is not None or public_domain(default_timeout, max_timeout, max_retries, max_block_size, wrap)


def patch_module(mod, clock, make_socket, timeout_class=None, threads=None):
    """put the fakes into `mod`'s namespace wherever the real objects are; returns (undo, loggers).
    threads: a list that receives every threading.Thread the module creates (to join them without private names)"""
    sock_shim = types.SimpleNamespace(**{k: getattr(real_socket, k) for k in dir(real_socket) if not k.startswith("__")})
    sock_shim.socket = make_socket
    sock_shim.timeout = timeout_class or real_socket.timeout
    time_shim = types.SimpleNamespace(**{k: getattr(real_time, k) for k in dir(real_time) if not k.startswith("__")})
    time_shim.monotonic = lambda: clock[0]

    class RecThread(real_threading.Thread):
        def __init__(self, *a, **k):
            super().__init__(*a, **k)
            if threads is not None:
                threads.append(self)
    thr_shim = types.SimpleNamespace(**{k: getattr(real_threading, k) for k in dir(real_threading) if not k.startswith("__")})
    thr_shim.Thread = RecThread
    saved = {}
    for name, val in list(vars(mod).items()):
        if val is real_socket:
            new = sock_shim
        elif val is real_socket.socket:
            new = make_socket
        elif val is real_socket.timeout and name not in ("TimeoutError",):
            new = sock_shim.timeout
        elif val is real_time:
            new = time_shim
        elif val is real_time.monotonic:
            new = time_shim.monotonic
        elif val is real_threading:
            new = thr_shim
        elif val is real_threading.Thread:
            new = RecThread
        else:
            continue
        saved[name] = val
        setattr(mod, name, new)
    loggers = [v for v in vars(mod).values() if isinstance(v, logging.Logger)]

    def undo():
        for name, val in saved.items():
            setattr(mod, name, val)
    return undo, loggers


class FakeRequestSocket:
    """the request socket of a real TftpServer on the public path: delivers one read request from CLI, then nothing"""
    def __init__(self, datagram, log, timeout_class):
        self.datagram = datagram
        self.log = log
        self.timeout_class = timeout_class
        self.delivered = False
        self.closed = real_threading.Event()

    def __enter__(self):
        return self

    def __exit__(self, *a):
        self.close()

    def close(self):
        self.closed.set()

    def setsockopt(self, *a):
        pass

    def bind(self, addr):
        pass

    def getsockname(self):
        return SRV

    def settimeout(self, t):
        pass

    def recvfrom(self, n):
        if not self.delivered:
            self.delivered = True
            return self.datagram[:n], CLI
        self.closed.wait(0.001)           # real time; the virtual clock belongs to the transfer
        raise self.timeout_class("timed out")

    def recvmsg(self, n, ancsize=0, flags=0):
        data, addr = self.recvfrom(n)
        return data, [], 0, addr

    def sendto(self, data, addr):
        self.log.append(("request_port_send", addr, bytes(data)))


def _join(t, log):
    end = real_time.monotonic() + 5
    while True:
        try:
            t.join(600)          # generous: a 65538-block transfer on a loaded machine
            break
        except RuntimeError:              # created, not yet started
            if real_time.monotonic() > end:
                return
            real_time.sleep(0.0005)
    if t.is_alive():
        log.append(("hang",))


def run_transfer(script, handler, options, mode="octet", default_timeout=2, max_timeout=30,
                 max_retries=1, max_block_size=65464, wrap=0, filename="f", context=None, shared_log=None, proc=0,
                 sock_class=None, public=False):
    """
    Run one real transfer to completion under the fake socket.
    public=True: through TftpServer(...).start() whatever the configuration (the constructor's clamping is then part
    of what is observed).
    script: list of (t_ticks, addr, datagram).  handler(filename, client, server, context) -> file object.
    Returns the event log: ("send", t, addr, data) | ("recv", ...) | ("timeout", t) | ("close_sock",) |
    ("logexc", class)
    """
    clock = [0.0]
    log = shared_log if shared_log is not None else []

    class LoggedTimeout(real_socket.timeout):
        """socket.timeout as the server module sees it: when the server raises it itself (no time left in a
        try: _set_socket_timeout) the trace gets its "timeout" record here; the fake socket passes a message
        and has already written the record"""
        def __init__(self, *a):
            super().__init__(*a)
            if not a:
                log.append(("timeout", int(round(clock[0] * TICK))))

    cls = None if public else private_class()
    if cls is None and not public and not public_domain(default_timeout, max_timeout, max_retries, max_block_size, wrap):
        raise DriverUnavailable("the private transfer class is not available with the known signature and the public "
                                "constructor would change this configuration")
    request_sockets = []

    def mk_sock(*a, **k):
        if cls is None and not request_sockets:
            rs = FakeRequestSocket(rrq, log, LoggedTimeout)
            request_sockets.append(rs)
            return rs
        fs = (sock_class or FakeSock)(list(script), clock, log, proc)
        fs.timeout_class = LoggedTimeout
        return fs
    threads = []
    undo, loggers = patch_module(S, clock, mk_sock, LoggedTimeout, threads)
    h = _Log(log)
    saved_loggers = [(lg, lg.level, lg.propagate) for lg in loggers]
    for lg in loggers:
        lg.addHandler(h)
        lg.setLevel(logging.INFO)
        lg.propagate = False
    try:
        if cls is not None:
            tm = {"octet": TransferMode.OCTET, "netascii": TransferMode.NETASCII}[mode]
            cls(filename, tm, dict(options), CLI, SRV, handler, context,
                default_timeout, max_timeout, max_retries, max_block_size, wrap)
            for t in list(threads):
                _join(t, log)
        else:
            rrq = (b"\x00\x01" + filename.encode("latin-1") + b"\x00" + mode.encode("ascii") + b"\x00"
                   + b"".join(str(k).encode("latin-1") + b"\x00" + str(v).encode("latin-1") + b"\x00"
                              for k, v in dict(options).items()))

            class _H(S.TftpRequestHandler):
                def can_handle(self, fn, ctx):
                    return True

                def handle(self, fn, client_address, server_address, ctx):
                    return handler(fn, client_address, server_address, context)
            srv = S.TftpServer([_H()], "::1", 69, default_timeout=default_timeout, max_timeout=max_timeout,
                               max_retries=max_retries, max_block_size=max_block_size, block_counter_wrap_value=wrap)
            srv.start()
            try:
                deadline = real_time.monotonic() + 10
                # the serve loop takes the request and starts the transfer thread (or answers on the request port)
                while real_time.monotonic() < deadline:
                    if len(threads) >= 2 or any(e[0] == "request_port_send" for e in log):
                        break
                    real_time.sleep(0.001)
                for t in list(threads)[1:]:
                    _join(t, log)
            finally:
                srv.stop()
    finally:
        undo()
        for lg, lvl, prop in saved_loggers:
            lg.removeHandler(h)
            lg.setLevel(lvl)
            lg.propagate = prop
    return log
