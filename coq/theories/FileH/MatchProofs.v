(* The segment-wise matcher of _prepare_context equals the string-level matching rule. *)
From Coq Require Import List NArith Bool Arith Lia.
From VF Require Import FileH.Str FileH.StrProofs FileH.Unquote FileH.UnquoteProofs FileH.PosixPath
  FileH.Handler FileH.Spec FileH.PosixPathProofs.
Import ListNotations.
Open Scope N_scope.

(* ---------- strip_segs ---------- *)
Lemma combine_prefix e : forall a, (length e <= length a)%nat ->
  forallb (fun p => eqb_str (fst p) (snd p)) (combine e a) = true -> a = e ++ skipn (length e) a.
Proof.
  induction e as [|x e IH]; intros a Hl H; [reflexivity|].
  destruct a as [|y a]; [cbn in Hl; lia|]. cbn in H. apply andb_true_iff in H as [H1 H2].
  apply eqb_str_iff in H1. subst y. cbn [length skipn app]. f_equal. apply IH; [cbn in Hl; lia|exact H2].
Qed.

Lemma strip_segs_some e a rest : strip_segs e a = Some rest -> a = e ++ rest.
Proof.
  unfold strip_segs. destruct (length a <? length e)%nat eqn:E; [discriminate|].
  apply Nat.ltb_ge in E. destruct (forallb _ _) eqn:F; [|discriminate].
  intros H; inversion H; subst. now apply combine_prefix.
Qed.

Lemma combine_self e rest : forallb (fun p => eqb_str (fst p) (snd p)) (combine e (e ++ rest)) = true.
Proof. induction e as [|x e IH]; [reflexivity|]. cbn. now rewrite eqb_str_refl, IH. Qed.

Lemma strip_segs_app e rest : strip_segs e (e ++ rest) = Some rest.
Proof.
  unfold strip_segs. rewrite app_length.
  destruct (length e + length rest <? length e)%nat eqn:E; [apply Nat.ltb_lt in E; lia|].
  rewrite combine_self. f_equal. rewrite skipn_app, skipn_all, Nat.sub_diag. reflexivity.
Qed.

(* ---------- join around one segment ---------- *)
Lemma join_cons_ne c a r : r <> [] -> join c (a :: r) = a ++ c :: join c r.
Proof. destruct r; [congruence|reflexivity]. Qed.

Lemma join_mid' c pre x y z suf :
  join c (pre ++ (x ++ y ++ z) :: suf) = join c (pre ++ [x]) ++ y ++ join c (z :: suf).
Proof.
  induction pre as [|p pre IH].
  - cbn [app]. destruct suf as [|s suf].
    + cbn [join]. reflexivity.
    + rewrite !join_cons2. cbn [join]. now rewrite <- !app_assoc.
  - cbn [app]. rewrite !(join_cons_ne c p).
    + rewrite IH. rewrite <- (app_assoc p). reflexivity.
    + destruct pre; discriminate.
    + destruct pre; discriminate.
Qed.

Lemma join_mid c pre x y z suf :
  join c (pre ++ [x ++ y ++ z] ++ suf) = join c (pre ++ [x]) ++ y ++ join c (z :: suf).
Proof. exact (join_mid' c pre x y z suf). Qed.

Lemma join_app_slashed X rest : X <> [] -> join SL (X ++ rest) = join SL X ++ slashed rest.
Proof.
  intros HX. destruct rest as [|a rest].
  - now rewrite !app_nil_r.
  - rewrite join_app by (auto; discriminate). rewrite slashed_join by discriminate. reflexivity.
Qed.

Lemma split_decompose X rest P : X <> [] -> Forall (cfree SL) X ->
  (split_on SL P = X ++ rest <-> P = join SL X ++ slashed rest /\ Forall (cfree SL) rest).
Proof.
  intros HX HF. split.
  - intros H. split.
    + rewrite <- join_app_slashed by exact HX. rewrite <- H. symmetry. apply join_split.
    + pose proof (split_on_free SL P) as Hf. rewrite H in Hf. apply Forall_app in Hf. tauto.
  - intros [-> Hr]. rewrite <- join_app_slashed by exact HX. apply split_join.
    + destruct X; [congruence|discriminate].
    + apply Forall_app. auto.
Qed.

(* extra path <-> list of remaining segments *)
Definition rest_of (e : str) : list str := match e with [] => [] | _ :: t => split_on SL t end.

Lemma slashed_rest_of e : (e = [] \/ starts_with [SL] e = true) -> slashed (rest_of e) = e /\ Forall (cfree SL) (rest_of e).
Proof.
  intros [->|H]; [split; [reflexivity|constructor]|].
  apply starts_with_iff in H as [t ->]. cbn [app rest_of]. split.
  - rewrite slashed_join by apply split_on_not_nil. now rewrite join_split.
  - apply split_on_free.
Qed.

Lemma slashed_nil rest : slashed rest = [] <-> rest = [].
Proof. destruct rest; cbn; split; congruence. Qed.

Lemma slashed_starts rest : rest <> [] -> starts_with [SL] (slashed rest) = true.
Proof. destruct rest; [congruence|]. intros _. cbn. reflexivity. Qed.

(* ---------- well-formed stored pieces ---------- *)
Record wf (r : rp) : Prop := {
  wf_pre : Forall (cfree SL) (pre_segs r);
  wf_pp : cfree SL (ph_pre r);
  wf_ps : cfree SL (ph_suf r);
  wf_suf : Forall (cfree SL) (suf_segs r);
  wf_ne : extract r = false -> pre_segs r <> []
}.

Lemma cfree_app c a b : cfree c (a ++ b) <-> cfree c a /\ cfree c b.
Proof. unfold cfree. rewrite in_app_iff. tauto. Qed.

Lemma cfree_firstn c n s : cfree c s -> cfree c (firstn n s).
Proof. intros H Hin. apply H. rewrite <- (firstn_skipn n s). apply in_or_app. now left. Qed.
Lemma cfree_skipn c n s : cfree c s -> cfree c (skipn n s).
Proof. intros H Hin. apply H. rewrite <- (firstn_skipn n s). apply in_or_app. now right. Qed.
Lemma Forall_firstn {A} (P : A -> Prop) n l : Forall P l -> Forall P (firstn n l).
Proof. intros H. rewrite <- (firstn_skipn n l) in H. apply Forall_app in H. tauto. Qed.
Lemma Forall_skipn {A} (P : A -> Prop) n l : Forall P l -> Forall P (skipn n l).
Proof. intros H. rewrite <- (firstn_skipn n l) in H. apply Forall_app in H. tauto. Qed.
Lemma Forall_nth_d {A} (P : A -> Prop) n l d : P d -> Forall P l -> P (nth n l d).
Proof.
  intros Hd H. revert n. induction H; intros [|n]; cbn; auto.
Qed.

Lemma init_wf c r : init_request_path c = Ok r -> wf r.
Proof.
  unfold init_request_path.
  destruct (negb (starts_with [SL] (c_request_path c))); [discriminate|].
  set (rpath := if eqb_str (c_request_path c) [SL] then [] else c_request_path c).
  destruct (ends_with [SL] rpath); [discriminate|].
  pose proof (split_on_free SL rpath) as HF.
  destruct (is_nil (c_lookup_key c)).
  - intros H; inversion H; subst. constructor; cbn; auto; try (intros []).
    apply split_on_not_nil.
  - destruct (scan_ph _ _ _ _) as [[i|]|]; try discriminate.
    destruct (c_placeholder c) as [|p0 ph] eqn:Eph; [discriminate|].
    set (seg := nth i (split_on SL rpath) []).
    assert (Hseg : cfree SL seg) by (apply Forall_nth_d; [intros []|exact HF]).
    destruct (find_sub _ seg) as [j|]; [|discriminate].
    destruct (contains _ _); [discriminate|].
    intros H. injection H as Hr. subst r. constructor; cbn [extract pre_segs ph_pre ph_suf suf_segs].
    + now apply Forall_firstn.
    + now apply cfree_firstn.
    + now apply cfree_skipn.
    + change (Forall (cfree SL) (skipn (S i) (split_on SL rpath))). now apply Forall_skipn.
    + discriminate.
Qed.

(* ---------- the lookup value inside its segment ---------- *)
Lemma extract_value_mid r v : v <> [] ->
  extract_value r (ph_pre r ++ v ++ ph_suf r) = v.
Proof.
  intros Hv. unfold extract_value.
  rewrite skipn_app, skipn_all, Nat.sub_diag. cbn [app skipn].
  destruct (ph_suf r) as [|s ps] eqn:E; cbn [is_nil].
  - apply app_nil_r.
  - rewrite app_length. replace (length v + length (s :: ps) - length (s :: ps))%nat with (length v) by lia.
    rewrite firstn_app, firstn_all, Nat.sub_diag. cbn [firstn]. apply app_nil_r.
Qed.

Lemma extract_value_inv r seg :
  starts_with (ph_pre r) seg = true -> ends_with (ph_suf r) seg = true ->
  extract_value r seg <> [] -> seg = ph_pre r ++ extract_value r seg ++ ph_suf r.
Proof.
  intros H1 H2 Hv. apply starts_with_iff in H1 as [t Ht]. apply ends_with_iff in H2 as [a Ha].
  unfold extract_value in *. subst seg.
  rewrite skipn_app, skipn_all, Nat.sub_diag in *. cbn [app skipn] in *.
  destruct (ph_suf r) as [|s ps] eqn:E; cbn [is_nil] in *.
  - now rewrite app_nil_r.
  - set (PS := s :: ps) in *.
    assert (Hlen : (length PS < length t)%nat).
    { destruct (Nat.le_gt_cases (length t) (length PS)) as [Hle|]; [|assumption].
      exfalso. apply Hv. replace (length t - length PS)%nat with 0%nat by lia. reflexivity. }
    assert (Hla : (length (ph_pre r) <= length a)%nat).
    { apply (f_equal (@length N)) in Ha. rewrite !app_length in Ha. lia. }
    assert (Ht : t = skipn (length (ph_pre r)) a ++ PS).
    { apply (f_equal (skipn (length (ph_pre r)))) in Ha.
      rewrite skipn_app, skipn_all, Nat.sub_diag in Ha. cbn [app skipn] in Ha.
      rewrite skipn_app in Ha. replace (length (ph_pre r) - length a)%nat with 0%nat in Ha by lia. exact Ha. }
    f_equal. set (a' := skipn (length (ph_pre r)) a) in *. clearbody a'. clear Ha Hla Hv Hlen. subst t.
    rewrite app_length.
    replace (length a' + length PS - length PS)%nat with (length a') by lia.
    rewrite firstn_app, firstn_all, Nat.sub_diag. cbn [firstn]. now rewrite app_nil_r.
Qed.

(* ---------- model -> segments, segments -> model ---------- *)
Lemma finish_matches c raw rest :
  matches (finish c raw rest) = true ->
  finish c raw rest = {| matches := true; raw_value := raw;
                         extra_path := if is_nil (slashed rest) then None else Some (slashed rest) |}
  /\ extra_okb c (slashed rest) = true.
Proof.
  unfold finish, extra_okb. destruct rest as [|a rest].
  - destruct (c_filemode c); cbn; [auto|discriminate].
  - destruct (c_filemode c); [cbn; discriminate|]. intros _.
    rewrite join_nil_cons by discriminate. split; reflexivity.
Qed.

Lemma finish_of_extra c raw e :
  extra_okb c e = true ->
  finish c raw (rest_of e) = {| matches := true; raw_value := raw;
                                extra_path := if is_nil e then None else Some e |}.
Proof.
  unfold extra_okb, finish. destruct (c_filemode c) eqn:Ef.
  - intros H. apply is_nil_iff in H. subst e. reflexivity.
  - intros H. destruct (slashed_rest_of e (or_intror H)) as [H1 _].
    apply starts_with_iff in H as [t ->]. cbn [rest_of app is_nil] in *.
    destruct (split_on SL t) as [|x xs] eqn:Es; [now apply split_on_not_nil in Es|].
    rewrite join_nil_cons by discriminate. now rewrite H1.
Qed.

Lemma ctx_false_no_match c raw rest : matches (finish c raw rest) = false -> finish c raw rest = no_match.
Proof. unfold finish. destruct rest, (c_filemode c); cbn; congruence. Qed.

Lemma match_lookup_false c r segs1 : matches (match_lookup c r segs1) = false -> match_lookup c r segs1 = no_match.
Proof.
  unfold match_lookup. destruct segs1 as [|seg segs2]; [reflexivity|].
  destruct (negb _); [reflexivity|]. destruct (strip_segs _ _); [|reflexivity].
  destruct (is_nil _); [reflexivity|]. apply ctx_false_no_match.
Qed.

Lemma match_path_false c r P : matches (match_path c r P) = false -> match_path c r P = no_match.
Proof.
  unfold match_path. destruct (_ && _ && _ && _); [cbn; discriminate|].
  destruct (strip_segs _ _); [|reflexivity]. destruct (extract r).
  - apply match_lookup_false.
  - apply ctx_false_no_match.
Qed.

(* the admissible readings of a decoded path *)
Definition match_rel (c : config) (r : rp) (P v e : str) : Prop :=
  P = pathA r ++ v ++ pathB r ++ e /\ v <> [] /\ cfree SL v /\ extra_okb c e = true.

Definition match_rel0 (c : config) (r : rp) (P e : str) : Prop :=
  P = pathR r ++ e /\ extra_okb c e = true.

Lemma extra_ok_shape c e : extra_okb c e = true -> e = [] \/ starts_with [SL] e = true.
Proof. unfold extra_okb. destruct (c_filemode c); [rewrite is_nil_iff|]; auto. Qed.

Lemma segs_of_rel r v : wf r -> cfree SL v ->
  Forall (cfree SL) (pre_segs r ++ [ph_pre r ++ v ++ ph_suf r] ++ suf_segs r).
Proof.
  intros W Hv. apply Forall_app. split; [apply W|]. apply Forall_app. split; [|apply W].
  constructor; [|constructor]. apply cfree_app. split; [apply W|]. apply cfree_app. split; [exact Hv|apply W].
Qed.

(* completeness + determinism: every admissible reading is the one the code finds *)
Lemma match_path_complete c r P v e : wf r -> extract r = true -> match_rel c r P v e ->
  match_path c r P = {| matches := true; raw_value := Some v; extra_path := if is_nil e then None else Some e |}.
Proof.
  intros W He [HP [Hv [Hf Hok]]].
  destruct (slashed_rest_of e (extra_ok_shape _ _ Hok)) as [Hs Hr].
  set (X := pre_segs r ++ [ph_pre r ++ v ++ ph_suf r] ++ suf_segs r).
  assert (HX : X <> []) by (unfold X; destruct (pre_segs r); discriminate).
  assert (Hsplit : split_on SL P = X ++ rest_of e).
  { apply split_decompose; [exact HX | now apply segs_of_rel |]. split; [|exact Hr].
    rewrite Hs, HP. unfold X, pathA, pathB. rewrite join_mid. now rewrite <- !app_assoc. }
  unfold match_path. rewrite He. cbn [negb]. rewrite andb_false_r. cbn [andb].
  rewrite Hsplit. unfold X. rewrite <- app_assoc, strip_segs_app.
  unfold match_lookup. cbn [app].
  rewrite starts_with_app.
  assert (Hend : ends_with (ph_suf r) (ph_pre r ++ v ++ ph_suf r) = true).
  { apply ends_with_iff. exists (ph_pre r ++ v). now rewrite <- app_assoc. }
  rewrite Hend. cbn [andb negb]. rewrite strip_segs_app, extract_value_mid by exact Hv.
  destruct v as [|v0 v']; [congruence|]. cbn [is_nil]. now apply finish_of_extra.
Qed.

(* soundness: what the code accepts is an admissible reading *)
Lemma match_path_sound c r P : wf r -> extract r = true -> matches (match_path c r P) = true ->
  exists v e, match_rel c r P v e /\
    match_path c r P = {| matches := true; raw_value := Some v; extra_path := if is_nil e then None else Some e |}.
Proof.
  intros W He. unfold match_path. rewrite He. cbn [negb]. rewrite andb_false_r. cbn [andb].
  destruct (strip_segs (pre_segs r) (split_on SL P)) as [segs1|] eqn:E1; [|cbn; discriminate].
  apply strip_segs_some in E1. unfold match_lookup.
  destruct segs1 as [|seg segs2]; [cbn; discriminate|].
  destruct (starts_with (ph_pre r) seg) eqn:Hs; [|cbn; discriminate].
  destruct (ends_with (ph_suf r) seg) eqn:Hen; [|cbn; discriminate]. cbn [andb negb].
  destruct (strip_segs (suf_segs r) segs2) as [rest|] eqn:E2; [|cbn; discriminate].
  apply strip_segs_some in E2.
  destruct (is_nil (extract_value r seg)) eqn:Hn; [cbn; discriminate|].
  assert (Hv : extract_value r seg <> []) by (intros Hx; rewrite Hx in Hn; discriminate).
  pose proof (extract_value_inv r seg Hs Hen Hv) as Hseg.
  set (v := extract_value r seg) in *.
  intros Hm. destruct (finish_matches _ _ _ Hm) as [Hfin Hok].
  exists v, (slashed rest). split; [|exact Hfin].
  assert (Hfree : Forall (cfree SL) (split_on SL P)) by apply split_on_free.
  rewrite E1, E2, Hseg in Hfree.
  assert (Hvf : cfree SL v).
  { apply Forall_app in Hfree as [_ Hf2]. apply Forall_inv in Hf2 as Hx.
    apply cfree_app in Hx as [_ Hx]. apply cfree_app in Hx as [Hx _]. exact Hx. }
  repeat split; auto.
  assert (Hsp : split_on SL P = (pre_segs r ++ [ph_pre r ++ v ++ ph_suf r] ++ suf_segs r) ++ rest).
  { rewrite E1, E2, Hseg. now rewrite <- !app_assoc. }
  apply split_decompose in Hsp; [| destruct (pre_segs r); discriminate | now apply segs_of_rel].
  destruct Hsp as [HP _]. rewrite HP. unfold pathA, pathB. rewrite join_mid. now rewrite <- !app_assoc.
Qed.

(* ---------- without lookup ---------- *)
Lemma match_path0_complete c r P e : wf r -> extract r = false -> match_rel0 c r P e ->
  match_path c r P = {| matches := true; raw_value := None; extra_path := if is_nil e then None else Some e |}.
Proof.
  intros W He [HP Hok].
  destruct (slashed_rest_of e (extra_ok_shape _ _ Hok)) as [Hs Hr].
  assert (Hsplit : split_on SL P = pre_segs r ++ rest_of e).
  { apply split_decompose; [now apply W | apply W |]. split; [|exact Hr]. now rewrite Hs. }
  unfold match_path. rewrite He. cbn [negb]. rewrite andb_true_r.
  destruct (eqb_str P [SL] && list_str_eqb (pre_segs r) [[]] && c_filemode c) eqn:Esp.
  - (* the special case can only coincide with e = [] ... which is impossible for P = "/" in file mode *)
    apply andb_true_iff in Esp as [Esp Hfm]. apply andb_true_iff in Esp as [EP Epre].
    apply eqb_str_iff in EP. apply list_str_eqb_iff in Epre.
    unfold extra_okb in Hok. rewrite Hfm in Hok. apply is_nil_iff in Hok. subst e.
    unfold pathR in HP. rewrite Epre in HP. cbn in HP. congruence.
  - rewrite Hsplit, strip_segs_app. now apply finish_of_extra.
Qed.

Lemma match_path0_sound c r P : wf r -> extract r = false -> matches (match_path c r P) = true ->
  (root_file c r = true /\ P = [SL] /\
   match_path c r P = {| matches := true; raw_value := None; extra_path := None |}) \/
  exists e, match_rel0 c r P e /\
    match_path c r P = {| matches := true; raw_value := None; extra_path := if is_nil e then None else Some e |}.
Proof.
  intros W He. unfold match_path. rewrite He. cbn [negb]. rewrite andb_true_r.
  destruct (eqb_str P [SL] && list_str_eqb (pre_segs r) [[]] && c_filemode c) eqn:Esp.
  - intros _. left. apply andb_true_iff in Esp as [Esp Hfm]. apply andb_true_iff in Esp as [EP Epre].
    apply eqb_str_iff in EP. unfold root_file. rewrite Hfm, He, Epre. auto.
  - destruct (strip_segs (pre_segs r) (split_on SL P)) as [segs1|] eqn:E1; [|cbn; discriminate].
    apply strip_segs_some in E1. intros Hm. right.
    destruct (finish_matches _ _ _ Hm) as [Hfin Hok].
    exists (slashed segs1). split; [|exact Hfin]. split; [|exact Hok].
    apply split_decompose in E1; [| now apply W | apply W]. destruct E1 as [HP _]. exact HP.
Qed.

(* ---------- the search of the specification ---------- *)
Lemma try_split_sound c r Q i v e : try_split c r Q i = Some (v, e) ->
  Q = v ++ pathB r ++ e /\ v <> [] /\ cfree SL v /\ extra_okb c e = true.
Proof.
  unfold try_split. destruct (_ && _ && _ && _) eqn:E; [|discriminate].
  intros H; inversion H; subst. clear H.
  apply andb_true_iff in E as [E E4]. apply andb_true_iff in E as [E E3]. apply andb_true_iff in E as [E1 E2].
  apply negb_true_iff in E1, E2. apply mem_N_false in E2.
  apply starts_with_iff in E3 as [t Ht].
  repeat split; auto.
  - rewrite <- (firstn_skipn i Q) at 1. f_equal. rewrite Ht at 1. f_equal.
    rewrite Ht, skipn_app, skipn_all, Nat.sub_diag. reflexivity.
  - intros Hx. rewrite Hx in E1. discriminate.
Qed.

Lemma try_split_complete c r v e : v <> [] -> cfree SL v -> extra_okb c e = true ->
  try_split c r (v ++ pathB r ++ e) (length v) = Some (v, e).
Proof.
  intros Hv Hf Hok. unfold try_split.
  rewrite firstn_app, firstn_all, Nat.sub_diag. cbn [firstn]. rewrite app_nil_r.
  rewrite skipn_app, skipn_all, Nat.sub_diag. cbn [skipn app].
  rewrite starts_with_app, skipn_app, skipn_all, Nat.sub_diag. cbn [skipn app]. rewrite Hok.
  apply mem_N_false in Hf. rewrite Hf. destruct v; [congruence|]. reflexivity.
Qed.

Lemma first_some_in {A B} (f : A -> option B) l a b : In a l -> f a = Some b -> exists b', first_some f l = Some b'.
Proof.
  induction l as [|x l IH]; [intros []|]. intros [->|Hin] Hf; cbn.
  - rewrite Hf. eauto.
  - destruct (f x); eauto.
Qed.

Lemma first_some_sound {A B} (f : A -> option B) l b : first_some f l = Some b -> exists a, In a l /\ f a = Some b.
Proof.
  induction l as [|x l IH]; [discriminate|]. cbn. destruct (f x) eqn:E.
  - intros H; inversion H; subst. exists x. auto.
  - intros H. destruct (IH H) as [a [Hin Ha]]. exists a. auto.
Qed.

Lemma spec_match_lookup_sound c r P v e : extract r = true ->
  spec_match c r P = Some (v, e) -> exists v', v = Some v' /\ match_rel c r P v' e.
Proof.
  intros He. unfold spec_match. rewrite He.
  destruct (starts_with (pathA r) P) eqn:Es; [|discriminate].
  apply starts_with_iff in Es as [Q HQ].
  destruct (first_some _ _) as [[v' e']|] eqn:Ef; [|discriminate].
  intros H; inversion H; subst. exists v'. split; [reflexivity|].
  apply first_some_sound in Ef as [i [_ Hi]]. apply try_split_sound in Hi as [H1 [H2 [H3 H4]]].
  rewrite skipn_app, skipn_all, Nat.sub_diag in H1. cbn [skipn app] in H1.
  repeat split; auto. now rewrite <- H1.
Qed.

Lemma spec_match_lookup_complete c r P v e : extract r = true -> match_rel c r P v e ->
  exists v' e', spec_match c r P = Some (Some v', e').
Proof.
  intros He [HP [Hv [Hf Hok]]]. unfold spec_match. rewrite He, HP, starts_with_app.
  rewrite skipn_app, skipn_all, Nat.sub_diag. cbn [skipn app].
  destruct (first_some_in (try_split c r (v ++ pathB r ++ e)) (seq 1 (length (v ++ pathB r ++ e))) (length v) (v, e))
    as [[v' e'] Hfs].
  - apply in_seq. rewrite app_length. destruct v; [congruence|]. cbn [length]. lia.
  - now apply try_split_complete.
  - rewrite Hfs. eauto.
Qed.

(* ---------- the matcher is the specification ---------- *)
Theorem match_path_spec c r P : wf r ->
  match_path c r P =
    match spec_match c r P with
    | Some (v, e) => {| matches := true; raw_value := v; extra_path := if is_nil e then None else Some e |}
    | None => no_match
    end.
Proof.
  intros W. destruct (extract r) eqn:He.
  - destruct (spec_match c r P) as [[v e]|] eqn:Es.
    + destruct (spec_match_lookup_sound _ _ _ _ _ He Es) as [v' [-> Hrel]].
      now apply match_path_complete.
    + destruct (matches (match_path c r P)) eqn:Hm; [|now apply match_path_false].
      destruct (match_path_sound c r P W He Hm) as [v [e [Hrel _]]].
      destruct (spec_match_lookup_complete _ _ _ _ _ He Hrel) as [v' [e' H]]. congruence.
  - unfold spec_match. rewrite He.
    destruct (root_file c r && eqb_str P [SL]) eqn:Er.
    + apply andb_true_iff in Er as [Er EP]. apply eqb_str_iff in EP. subst P.
      unfold root_file in Er. rewrite He in Er. cbn [negb] in Er. rewrite andb_true_r in Er.
      apply andb_true_iff in Er as [Hfm Hpre].
      unfold match_path. rewrite He, Hfm, Hpre, eqb_str_refl. reflexivity.
    + destruct (starts_with (pathR r) P && extra_okb c (skipn (length (pathR r)) P)) eqn:E2.
      * apply andb_true_iff in E2 as [Es Hok]. apply starts_with_iff in Es as [e HP].
        rewrite HP, skipn_app, skipn_all, Nat.sub_diag in Hok |- *. cbn [skipn app] in Hok |- *.
        apply match_path0_complete; auto. split; auto.
      * destruct (matches (match_path c r P)) eqn:Hm; [|now apply match_path_false].
        exfalso. destruct (match_path0_sound c r P W He Hm) as [[H1 [H2 _]]|[e [[HP Hok] _]]].
        -- rewrite H1, H2, eqb_str_refl in Er. discriminate.
        -- rewrite HP, starts_with_app, skipn_app, skipn_all, Nat.sub_diag in E2. cbn [skipn app] in E2.
           rewrite Hok in E2. discriminate.
Qed.

Theorem prepare_context_spec c r uri : wf r -> prepare_context c r uri = spec_ctx c r uri.
Proof.
  intros W. unfold prepare_context, spec_ctx, no_nul.
  destruct (mem_N 0 uri || contains NUL_ENC uri); [reflexivity|]. cbn [negb].
  now apply match_path_spec.
Qed.

(* ---------- TFTP name rewriting = leading-slash normalisation on the decoded path ---------- *)
Lemma take_until_starts c x s : x <> c -> starts_with [x] (take_until c s) = starts_with [x] s.
Proof.
  intros H. destruct s as [|y s]; [reflexivity|]. cbn [take_until].
  destruct (y =? c) eqn:E.
  - apply N.eqb_eq in E. subst y. cbn. apply N.eqb_neq in H. now rewrite H.
  - reflexivity.
Qed.

Lemma take_until_enc_slash s : starts_enc_slash (take_until QM s) = starts_enc_slash s.
Proof.
  destruct s as [|c0 s]; [reflexivity|]. cbn [take_until].
  destruct (c0 =? QM) eqn:E0.
  { apply N.eqb_eq in E0; subst. destruct s as [|? [|? ?]]; reflexivity. }
  destruct s as [|c1 s]; [reflexivity|]. cbn [take_until].
  destruct (c1 =? QM) eqn:E1.
  { apply N.eqb_eq in E1; subst. destruct s; [reflexivity|]. cbn [starts_enc_slash].
    change (QM =? 50) with false. now rewrite andb_false_r. }
  destruct s as [|c2 s]; [reflexivity|]. cbn [take_until].
  destruct (c2 =? QM) eqn:E2.
  { apply N.eqb_eq in E2; subst. cbn [starts_enc_slash].
    change ((QM =? 102) || (QM =? 70)) with false. now rewrite andb_false_r. }
  reflexivity.
Qed.

Theorem rewrite_filename_norm f : rewrite_filename false f = norm_name f.
Proof.
  unfold rewrite_filename, norm_name, uri_path.
  rewrite unquote_starts_slash, take_until_starts, take_until_enc_slash by (unfold SL, QM; lia).
  reflexivity.
Qed.

(* ---------- the statements of C06 in terms of prepare_context ---------- *)
Lemma prepare_matches_lookup c r uri : wf r -> extract r = true ->
  (matches (prepare_context c r uri) = true <->
   no_nul uri = true /\ exists v e, match_rel c r (uri_path uri) v e).
Proof.
  intros W He. unfold prepare_context, no_nul.
  destruct (mem_N 0 uri || contains NUL_ENC uri); cbn [negb matches no_match].
  - split; [discriminate|intros [H _]; discriminate].
  - split.
    + intros Hm. split; [reflexivity|].
      destruct (match_path_sound c r _ W He Hm) as [v [e [Hrel _]]]. eauto.
    + intros [_ [v [e Hrel]]]. rewrite (match_path_complete _ _ _ _ _ W He Hrel). reflexivity.
Qed.

Lemma prepare_carries_lookup c r uri v e : wf r -> extract r = true -> no_nul uri = true ->
  match_rel c r (uri_path uri) v e ->
  prepare_context c r uri =
    {| matches := true; raw_value := Some v; extra_path := if is_nil e then None else Some e |}.
Proof.
  intros W He Hn Hrel. unfold prepare_context. unfold no_nul in Hn. apply negb_true_iff in Hn. rewrite Hn.
  now apply match_path_complete.
Qed.

Lemma match_rel_unique c r P v e v' e' : wf r -> extract r = true ->
  match_rel c r P v e -> match_rel c r P v' e' -> v = v' /\ e = e'.
Proof.
  intros W He H1 H2.
  pose proof (match_path_complete _ _ _ _ _ W He H1) as E1.
  pose proof (match_path_complete _ _ _ _ _ W He H2) as E2.
  rewrite E1 in E2. injection E2 as Hv Hx. split; [exact Hv|].
  destruct e, e'; cbn in Hx; congruence.
Qed.

Lemma prepare_matches_plain c r uri : wf r -> extract r = false -> root_file c r = false ->
  (matches (prepare_context c r uri) = true <->
   no_nul uri = true /\ exists e, match_rel0 c r (uri_path uri) e).
Proof.
  intros W He Hr. unfold prepare_context, no_nul.
  destruct (mem_N 0 uri || contains NUL_ENC uri); cbn [negb matches no_match].
  - split; [discriminate|intros [H _]; discriminate].
  - split.
    + intros Hm. split; [reflexivity|].
      destruct (match_path0_sound c r _ W He Hm) as [[H1 _]|[e [Hrel _]]]; [congruence|eauto].
    + intros [_ [e Hrel]]. rewrite (match_path0_complete _ _ _ _ W He Hrel). reflexivity.
Qed.

Lemma prepare_carries_plain c r uri e : wf r -> extract r = false -> no_nul uri = true ->
  match_rel0 c r (uri_path uri) e ->
  prepare_context c r uri =
    {| matches := true; raw_value := None; extra_path := if is_nil e then None else Some e |}.
Proof.
  intros W He Hn Hrel. unfold prepare_context. unfold no_nul in Hn. apply negb_true_iff in Hn. rewrite Hn.
  now apply match_path0_complete.
Qed.

(* request_path "/" in file mode (HTTP only): the path "/" and the empty path *)
Lemma prepare_matches_root_file c r uri : wf r -> root_file c r = true ->
  (matches (prepare_context c r uri) = true <->
   no_nul uri = true /\ (uri_path uri = [SL] \/ uri_path uri = [])).
Proof.
  intros W Hr. unfold root_file in Hr.
  apply andb_true_iff in Hr as [Hr Hpre]. apply andb_true_iff in Hr as [Hfm He]. apply negb_true_iff in He.
  apply list_str_eqb_iff in Hpre.
  assert (HR : root_file c r = true) by (unfold root_file; rewrite Hfm, He, Hpre; reflexivity).
  unfold prepare_context, no_nul.
  destruct (mem_N 0 uri || contains NUL_ENC uri); cbn [negb matches no_match].
  - split; [discriminate|intros [H _]; discriminate].
  - split.
    + intros Hm. split; [reflexivity|].
      destruct (match_path0_sound c r _ W He Hm) as [[_ [H2 _]]|[e [[HP Hok] _]]]; [now left|right].
      unfold extra_okb in Hok. rewrite Hfm in Hok. apply is_nil_iff in Hok. subst e.
      unfold pathR in HP. rewrite Hpre in HP. exact HP.
    + intros [_ [HP|HP]]; rewrite HP.
      * unfold match_path. rewrite He, Hfm, Hpre. reflexivity.
      * rewrite (match_path0_complete c r [] [] W He); [reflexivity|].
        split; [unfold pathR; rewrite Hpre; reflexivity | unfold extra_okb; rewrite Hfm; reflexivity].
Qed.

Lemma tftp_parity c r f : tftp_prepare false c r f = http_prepare c r (norm_name f).
Proof. unfold tftp_prepare, http_prepare. now rewrite rewrite_filename_norm. Qed.

(* ---------- the extra path never contains NUL (the re-check in _translate_path is dead code) ---------- *)
Lemma uri_path_no_nul uri : no_nul uri = true -> ~ In 0 (uri_path uri).
Proof.
  unfold no_nul, uri_path. intros H. apply negb_true_iff, orb_false_iff in H as [H1 H2].
  destruct (take_until_spec QM uri) as [_ Hs].
  apply unquote_no_nul.
  - apply mem_N_false. intros Hin. apply mem_N_false in H1. apply H1.
    destruct Hs as [Hs|[r Hs]]; rewrite Hs; [exact Hin | apply in_or_app; now left].
  - destruct (contains [PCT; 48; 48] (take_until QM uri)) eqn:E; [|reflexivity].
    apply contains_iff in E as [a [b E]]. exfalso.
    assert (Hc : contains NUL_ENC uri = true).
    { apply contains_iff. destruct Hs as [Hs|[r Hs]]; rewrite Hs, E.
      - exists a, b. reflexivity.
      - exists a, (b ++ QM :: r). now rewrite <- !app_assoc. }
    congruence.
Qed.

Theorem extra_path_no_nul c r uri e : wf r ->
  matches (prepare_context c r uri) = true -> extra_path (prepare_context c r uri) = Some e ->
  mem_N 0 e = false.
Proof.
  intros W. unfold prepare_context.
  destruct (mem_N 0 uri || contains NUL_ENC uri) eqn:En; [cbn; discriminate|].
  assert (Hn : ~ In 0 (uri_path uri)) by (apply uri_path_no_nul; unfold no_nul; now rewrite En).
  set (P := uri_path uri) in *. intros Hm He. apply mem_N_false. intros Hin. apply Hn.
  destruct (extract r) eqn:Ex.
  - destruct (match_path_sound c r P W Ex Hm) as [v [e' [[HP _] Heq]]]. rewrite Heq in He. cbn in He.
    destruct e' as [|x e'']; [discriminate|]. inversion He; subst. rewrite HP.
    apply in_or_app. right. apply in_or_app. right. apply in_or_app. now right.
  - destruct (match_path0_sound c r P W Ex Hm) as [[_ [_ Heq]]|[e' [[HP _] Heq]]]; rewrite Heq in He; cbn in He.
    + discriminate.
    + destruct e' as [|x e'']; [discriminate|]. inversion He; subst. rewrite HP. apply in_or_app. now right.
Qed.
