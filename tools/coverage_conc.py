#!/usr/bin/env python3
"""
tools/coverage_conc.py : review aid for C19 / C20 (tools/coverage_gaps.py cannot be used for them: the checks run the
real code under sys.settrace in worker processes).  Runs, in this process, every configuration of the C19 quick tier
under its default schedule with ALL lines of the component modules traced (the scheduler's own tracer records them),
and every transfer case plus a few real-server histories of the C20 quick tier under `coverage`; prints the statements
of the anchored functions that were never executed.
"""
import ast
import os
import random
import sys

V = os.path.dirname(os.path.dirname(os.path.abspath(__file__)))
sys.path.insert(0, os.path.join(V, "harness"))
os.environ.setdefault("PYTHONHASHSEED", "0")
REPO = os.environ.get("VERIF_REPO", "/repo")
sys.path.insert(0, REPO)

ANCHORS = {
    "vinegar/utils/cache.py": None,                                   # whole module
    "vinegar/utils/sqlite_store.py": None,
    "vinegar/data_source/text_file.py": ["find_system", "get_data", "_update_data"],
    "vinegar/data_source/yaml_target.py": ["get_data"],
    "vinegar/tftp/server.py": ["start", "stop", "_run", "_process_request"],
    "vinegar/http/server.py": ["start", "stop", "_run"],
}


def statements(path, funcs):
    src = open(path).read()
    tree = ast.parse(src)
    out = {}
    for node in ast.walk(tree):
        if isinstance(node, (ast.FunctionDef, ast.AsyncFunctionDef)) and (funcs is None or node.name in funcs):
            lines = set()
            for sub in ast.walk(node):
                if isinstance(sub, ast.stmt) and sub is not node:
                    if isinstance(sub, ast.Expr) and isinstance(getattr(sub, "value", None), ast.Constant) and isinstance(sub.value.value, str):
                        continue
                    lines.add(sub.lineno)
            out.setdefault((node.name, node.lineno), set()).update(lines)
    return out, src.split("\n")


def report(executed):
    for rel, funcs in ANCHORS.items():
        path = os.path.join(REPO, rel)
        st, src = statements(path, funcs)
        ex = executed.get(os.path.realpath(path), set()) | executed.get(os.path.basename(path) if 'server.py' not in path else '-', set())
        for (name, ln), lines in sorted(st.items(), key=lambda x: x[0][1]):
            missing = sorted(l for l in lines if l not in ex)
            if not lines or len(missing) == len(lines):
                if missing and (funcs is not None or rel.endswith("cache.py") or rel.endswith("sqlite_store.py")):
                    print(f"   {rel}:{name} (line {ln}) never called")
                continue
            if missing:
                print(f"   {rel}:{name}  {len(lines) - len(missing)}/{len(lines)} statements; never executed:")
                for l in missing:
                    print("      %5d  %s" % (l, src[l - 1].rstrip()[:110]))


def main():
    executed = {}
    import c19
    import sched
    chk = c19.C19()
    for case, _bound in chk.configs("quick"):
        cls = c19.SCENARIOS[case["comp"]]
        out = sched.run_one(lambda: cls(case), cls.files, None, [], max_decisions=20000, keep_trace=True)
        for (_tid, path, line) in out.extra or []:
            executed.setdefault(path, set()).add(line)
    import coverage
    import c20
    cov = coverage.Coverage(data_file=None, branch=False, config_file=False,
                            include=[os.path.join(REPO, "vinegar/tftp/server.py"), os.path.join(REPO, "vinegar/http/server.py")])
    cov.start()
    chk20 = c20.C20()
    chk20.tier = "quick"
    for c in chk20.gen("quick", random.Random(0)):
        if c["kind"] == "xfer":
            c20.run_xfer(c)
    for kind in ("tftp", "http"):
        for h in ([0, 2, 1, 1, 0, 0, 2, 1], [1, 2], [0, 4] if kind == "tftp" else [0, 1]):
            c20.run_history(kind, h)
    cov.stop()
    data = cov.get_data()
    for f in data.measured_files():
        executed.setdefault(os.path.realpath(f), set()).update(data.lines(f) or [])
    report(executed)


if __name__ == "__main__":
    main()
