(* C15: the executable checkers accept the model. *)
From Coq Require Import String.
From Coq Require Import List NArith ZArith Bool Arith Lia.
From VF Require Import Base.Sx Sqlite.Model C15.Entry.
Import ListNotations.
Open Scope N_scope.

Lemma sx_eqb_refl a : sx_eqb a a = true.
Proof. unfold sx_eqb, list_N_eqb. destruct (list_eq_dec N.eq_dec (print a) (print a)); congruence. Qed.

Lemma check_run O H : forall sts m, check O H sts m (run O H sts m) = [].
Proof.
  induction sts as [|st r IH]; intros m; [reflexivity|].
  cbn [run check]. destruct (do_step O H st m) as [mo res].
  unfold res_eqb, tbl_eqb. rewrite !sx_eqb_refl. cbn [app]. apply IH.
Qed.

Lemma holds_model (c : case) : valid c -> holds c (run_model c) = [].
Proof.
  intros Hv. unfold holds, run_model. rewrite check_run. unfold valid in Hv. rewrite Hv. reflexivity.
Qed.
