(* C20 - Server lifecycle: idempotent start/stop, restartable, ports/resources released.
   PARTIAL: the lock protocol, the state machines and the resource bookkeeping are modelled and proved for
   any number of caller threads, any operation lists and any schedule; CPython's atomicity of the
   individual statements, daemon-thread scheduling and the kernel's socket teardown are outside the
   model and only exercised by the correspondence runs.
   Property theorems only; each is closed by a lemma from the proof files. *)
From Coq Require Import String.
From Coq Require Import List NArith Bool Arith Lia.
From VF Require Import Lifecycle.Pool Lifecycle.Seq Lifecycle.TftpLife Lifecycle.HttpLife Lifecycle.LifeSeq
  Lifecycle.LifeTheorems Lifecycle.Transfer Lifecycle.TransferProofs C20.Entry C20.Proofs.
Import ListNotations.

(* ---- idempotent (sequential histories): after every history of start/stop/request (with the main
   thread anywhere in its loop: STick) no call raises or hangs, the server is up exactly when the last
   lifecycle call was start(), and a request is answered exactly then.  In particular start;start and
   stop;stop equal start and stop, and stop;start serves again. ---- *)
Theorem C20_idempotent_tftp : forall h : list sop, tseq cur init h = spec_run false h.
Proof. exact tftp_idempotent. Qed.
Print Assumptions C20_idempotent_tftp.

Theorem C20_idempotent_http : forall h : list sop, hseq true true hinit h = spec_run false h.
Proof. exact http_idempotent. Qed.
Print Assumptions C20_idempotent_http.

(* ---- concurrent_lifecycle: any number of threads, each issuing any list of start/stop calls, under
   every schedule: no call raises, some thread can always move until all calls have returned, and then
   the server is Running (socket open, main thread alive) or Stopped (socket closed, thread ended). ---- *)
Theorem C20_concurrent_lifecycle_tftp : forall (ops : list (list op)) (sch : list choice),
  let s := run glob cpc op lock (cstep cur) (mstep cur) (tpool ops) sch in
  err (g s) = false /\
  (all_done glob cpc op is_idle s = false -> exists ch, step glob cpc op lock (cstep cur) (mstep cur) s ch <> None) /\
  (all_done glob cpc op is_idle s = true -> Running (g s) = true \/ Stopped (g s) = true).
Proof. exact tftp_concurrent_lifecycle. Qed.
Print Assumptions C20_concurrent_lifecycle_tftp.

Theorem C20_concurrent_lifecycle_http : forall (ops : list (list hop)) (sch : list choice),
  let s := run hglob hpc hop hlock (hcstep true true) hmstep (hpool ops) sch in
  herr (g s) = false /\
  (all_done hglob hpc hop his_idle s = false -> exists ch, step hglob hpc hop hlock (hcstep true true) hmstep s ch <> None) /\
  (all_done hglob hpc hop his_idle s = true -> HRunning (g s) = true \/ HStopped (g s) = true).
Proof. exact http_concurrent_lifecycle. Qed.
Print Assumptions C20_concurrent_lifecycle_http.

(* ---- stop_releases: in any reachable state, when a stop() of thread i returns (its last step) and
   every other caller is between calls, the listening socket is closed, the main thread has ended and
   the lock is free; and from every such state start() brings the server up again. ---- *)
Theorem C20_stop_releases_tftp : forall ops sch i c s',
  let s := run glob cpc op lock (cstep cur) (mstep cur) (tpool ops) sch in
  nth_error (callers s) i = Some c -> in_stop (pc c) = true ->
  step glob cpc op lock (cstep cur) (mstep cur) s (C i) = Some s' ->
  (forall c', In c' (callers s') -> is_idle (pc c') = true) ->
  Stopped (g s') = true.
Proof. exact tftp_stop_releases. Qed.
Print Assumptions C20_stop_releases_tftp.

Theorem C20_stop_releases_http : forall ops sch i c s',
  let s := run hglob hpc hop hlock (hcstep true true) hmstep (hpool ops) sch in
  nth_error (callers s) i = Some c -> hin_stop (pc c) = true ->
  step hglob hpc hop hlock (hcstep true true) hmstep s (C i) = Some s' ->
  (forall c', In c' (callers s') -> his_idle (pc c') = true) ->
  HStopped (g s') = true.
Proof. exact http_stop_releases. Qed.
Print Assumptions C20_stop_releases_http.

Theorem C20_restart_tftp : forall gl, TftpLifeProofs.gok gl = true -> Stopped gl = true ->
  exists g', tseq_step cur gl SStart = Some (g', spec_obs false SStart) /\ Running g' = true.
Proof. exact tftp_restart. Qed.
Print Assumptions C20_restart_tftp.

Theorem C20_restart_http : forall gl, HttpLifeProofs.hgok gl = true -> HStopped gl = true ->
  exists g', hseq_step true true gl SStart = Some (g', spec_obs false SStart) /\ HRunning g' = true.
Proof. exact http_restart. Qed.
Print Assumptions C20_restart_http.

(* ---- transfer_releases: whatever the socket creation, the handler, the size computation, the
   block exchange and the sending of a final ERROR packet do, the transfer thread closes the file
   and then the socket it opened, leaves nothing open, and ends. ---- *)
Theorem C20_transfer_releases : forall e : env,
  with_sock e = true -> with_file e = true -> released (run_transfer e) = true.
Proof. exact transfer_releases. Qed.
Print Assumptions C20_transfer_releases.

(* the executable checker that judges the implementation accepts the model *)
Theorem C20_holds : forall c, valid c -> holds c (run_model c) = [].
Proof. exact holds_model. Qed.
Print Assumptions C20_holds.

(* the hypotheses of C20_holds as a boolean, computed by the driver for every evaluated case *)
Theorem C20_validb_valid : forall c, validb c = true -> valid c.
Proof. exact validb_valid. Qed.
Print Assumptions C20_validb_valid.

Theorem C20_covered_cases : forall c, validb c = true -> holds c (run_model c) = [].
Proof. intros c H. apply holds_model. apply validb_valid. exact H. Qed.
Print Assumptions C20_covered_cases.

(* ---- the behaviour before commit 6cff3cf (D8: stop() without server_close() and join) ---- *)
Theorem C20_refuted_D8_http_stop_without_close :
  exists h, seq_holds h (hseq false false hinit h) (spec_run false h) <> [].
Proof. exists [SStart; SStop; SStart]. vm_compute. discriminate. Qed.

(* ---- what each element of the TFTP protocol is for: dropping it breaks the property ---- *)
Definition no_join := {| v_join := false; v_close := true; v_release := true; v_chkrun := true; v_reset := true; v_trycovers := true; v_peek := false |}.
Definition no_close := {| v_join := true; v_close := false; v_release := true; v_chkrun := true; v_reset := true; v_trycovers := true; v_peek := false |}.
Definition hold_lock := {| v_join := true; v_close := true; v_release := false; v_chkrun := true; v_reset := true; v_trycovers := true; v_peek := false |}.
Definition no_chkrun := {| v_join := true; v_close := true; v_release := true; v_chkrun := false; v_reset := true; v_trycovers := true; v_peek := false |}.
Definition no_reset := {| v_join := true; v_close := true; v_release := true; v_chkrun := true; v_reset := false; v_trycovers := true; v_peek := false |}.

Theorem C20_refuted_variants :
  seq_holds [SStart; SStop] (tseq no_join init [SStart; SStop]) (spec_run false [SStart; SStop]) = ["stop_releases"%string] /\
  seq_holds [SStart; SStop] (tseq no_close init [SStart; SStop]) (spec_run false [SStart; SStop]) = ["stop_releases"%string] /\
  seq_holds [SStart; SStop] (tseq hold_lock init [SStart; SStop]) (spec_run false [SStart; SStop]) <> [] /\
  seq_holds [SStart; SStart] (tseq no_chkrun init [SStart; SStart]) (spec_run false [SStart; SStart]) <> [] /\
  seq_holds [SStart; SStop; SStart; SStop] (tseq no_reset init [SStart; SStop; SStart; SStop])
            (spec_run false [SStart; SStop; SStart; SStop]) <> [].
Proof. repeat split; vm_compute; try reflexivity; discriminate. Qed.

(* Thread.start() raising after the bind: with the thread creation inside the try whose except closes the
   socket (TFTP, the code as it is) the failed start leaves the server stopped; with it outside, and in
   HttpServer.start as it is (no try/except at all: cleanup_on_start_failure = false), the socket stays bound
   while _running is False, stop() is a no-op and the port is never released -- KNOWN FINDING for HTTP *)
Definition no_trycover := {| v_join := true; v_close := true; v_release := true; v_chkrun := true; v_reset := true; v_trycovers := false; v_peek := false |}.
Theorem C20_refuted_start_thread_failure :
  seq_holds [SStartThreadFail; SStop] (tseq cur init [SStartThreadFail; SStop]) (spec_run false [SStartThreadFail; SStop]) = [] /\
  seq_holds [SStartThreadFail; SStop] (tseq no_trycover init [SStartThreadFail; SStop]) (spec_run false [SStartThreadFail; SStop])
    = ["failed_start_leaves_state"%string] /\
  seq_holds [SStartThreadFail; SStop] (hseq true false hinit [SStartThreadFail; SStop]) (spec_run false [SStartThreadFail; SStop])
    = ["failed_start_leaves_state"%string] /\
  seq_holds [SStartThreadFail; SStop; SStart] (hseq true true hinit [SStartThreadFail; SStop; SStart]) (spec_run false [SStartThreadFail; SStop; SStart]) = [].
Proof. repeat split; vm_compute; reflexivity. Qed.

(* stop() does not hold the lock while it joins: between "main thread ended, socket closed" and
   "running := False" the flag is still True.  start() arriving there is a silent no-op in the code as it is
   (the machine has exactly this state: stopper at Sp_clear, starter at St_chk).  A start() that touches the
   socket in its "already running" branch (seed C20-r7s1: return self._socket.getsockname()) raises there *)
Definition peek := {| v_join := true; v_close := true; v_release := true; v_chkrun := true; v_reset := true;
                      v_trycovers := true; v_peek := true |}.
Definition window_schedule : list choice :=
  [C 0; C 0; C 0; M; M; M; C 0; C 1; C 1].      (* stop: acquire, set flag, release; main: acquire, see flag, close;
                                                    stop: join returns; start: acquire, "already running" *)
Theorem C20_refuted_start_touches_socket_when_running :
  let s0 := tpool0 true [[false]; [true]] in
  err (g (run glob cpc op lock (cstep cur) (mstep cur) s0 window_schedule)) = false /\
  sock (g (run glob cpc op lock (cstep cur) (mstep cur) s0 window_schedule)) = SClosed /\
  running (g (run glob cpc op lock (cstep cur) (mstep cur) s0 window_schedule)) = true /\
  err (g (run glob cpc op lock (cstep peek) (mstep peek) s0 window_schedule)) = true.
Proof. vm_compute. repeat split; reflexivity. Qed.

(* stop() called while the main thread is busy in a request handler: with the join the call is still
   blocked when the handler is released (the model says stop() MUST wait); without it stop() returns while
   the thread is alive *)
Example C20_stop_while_handler_blocks :
  tseq cur init [SStart; SStopBusy; SStart; SRequest] = spec_run false [SStart; SStopBusy; SStart; SRequest] /\
  seq_holds [SStart; SStopBusy] (tseq no_join init [SStart; SStopBusy]) (spec_run false [SStart; SStopBusy])
    = ["stop_releases"%string; "stop_waits_for_main_thread"%string].
Proof. split; vm_compute; reflexivity. Qed.

(* non-vacuity: concrete non-trivial valid cases and what the model does on them *)
Example C20_nonvacuous_seq :
  run_model (Seq Tftp [SStart; SRequest; STick; SStop; SRequest; SStart; SRequest]) =
  OSeq [[0;1;1;0;0]; [0;1;1;1;0]; [0;1;1;0;0]; [0;0;0;0;0]; [0;0;0;0;0]; [0;1;1;0;0]; [0;1;1;1;0]]%nat.
Proof. vm_compute. reflexivity. Qed.

Example C20_nonvacuous_conc :
  valid (Conc Tftp true [[false; true]; [true; false]]) /\
  run_model (Conc Tftp true [[false; true]; [true; false]]) = OConc 0 0 [0; 1]%nat /\
  valid (Conc Http false [[true]; [false]; [true]]) /\
  run_model (Conc Http false [[true]; [false]; [true]]) = OConc 0 0 [0; 1]%nat.
Proof. repeat split; vm_compute; reflexivity. Qed.

(* faults: a send that keeps failing from some point on ends the transfer through the internal-error
   path (the final ERROR send fails as well: the exception leaves the thread, after both with-blocks);
   a close() of the file that raises still leaves file and socket closed *)
Example C20_transfer_faults :
  run_transfer {| sock_ok := true; hres := HFile; tsize_raises := false; xend := XInternal;
                  send_err_raises := true; close_file_raises := false; with_sock := true; with_file := true |}
  = [Open RSock; Open RFile; Blocks; LogExc; SendError; Close RFile; Close RSock; ThreadEnd true] /\
  run_transfer {| sock_ok := true; hres := HFile; tsize_raises := false; xend := XCompleted;
                  send_err_raises := false; close_file_raises := true; with_sock := true; with_file := true |}
  = [Open RSock; Open RFile; Blocks; Close RFile; Close RSock; ThreadEnd true].
Proof. split; vm_compute; reflexivity. Qed.

(* where an exception may leave the transfer thread at all: only after an environment fault (a failing send
   of the final ERROR packet, a failing size computation, a failing close of the file).  Without such a fault
   the clause transfer_thread_ends_cleanly demands "none"; with one it accepts both outcomes, and the other
   clauses (socket closed once, file closed, thread ended) are demanded in either case *)
Theorem C20_transfer_clean_without_faults : forall e : env,
  send_err_raises e = false -> tsize_raises e = false -> close_file_raises e = false ->
  count_act is_uncaught (run_transfer e) = 0.
Proof.
  intros [so hr ts xe se cf ws wf]; cbn [send_err_raises tsize_raises close_file_raises]. intros -> -> ->.
  destruct so, hr, xe, ws, wf; reflexivity.
Qed.
Print Assumptions C20_transfer_clean_without_faults.

Theorem C20_transfer_escape_not_demanded : forall (e : env) (a b c d : nat),
  valid (Xfer e) -> holds (Xfer e) (OXfer [a; b; c; d; 1]) = [] -> holds (Xfer e) (OXfer [a; b; c; d; 0]) = [].
Proof.
  intros e a b c d _. unfold holds, nth0. cbn [nth].
  destruct (Nat.eqb a _), (Nat.eqb b _), (Nat.eqb c 1); cbn; try discriminate.
  destruct (count_act is_uncaught (run_transfer e)); cbn; [discriminate | reflexivity].
Qed.
Print Assumptions C20_transfer_escape_not_demanded.

Example C20_nonvacuous_xfer :
  run_transfer {| sock_ok := true; hres := HFile; tsize_raises := false; xend := XInvalidPacket;
                  send_err_raises := true; close_file_raises := false; with_sock := true; with_file := true |}
  = [Open RSock; Open RFile; Blocks; LogInfo; SendError; Close RFile; Close RSock; ThreadEnd true].
Proof. vm_compute. reflexivity. Qed.
