(* C18 - placeholder, filled below *)
From Coq Require Import String.
From Coq Require Import List NArith Bool Arith Lia.
From VF Require Import Matcher.Model C18.Entry.
Import ListNotations.
