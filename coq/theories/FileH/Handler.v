(* Model of vinegar/request_handler/file.py: _init_request_path, _prepare_context,
   the lookup part of _handle, _translate_path, the open/except part of _handle,
   and TftpFileRequestHandler._rewrite_filename_if_needed.
   External behaviour enters as function arguments: the transformation chain,
   the data source (find_system / get_data) and the file system (fs_open).
   Definitions only; proofs are in HandlerProofs.v.

   Variants kept for repaired defects:
     old_2f  = true : _rewrite_filename_if_needed before commit da63d9a
                      (startswith("%2f") compared case-sensitively);
     old_232 = true : _handle before commit 232ac55 (ENOTDIR / ENAMETOOLONG not caught). *)
From Coq Require Import List NArith Bool Arith.
From VF Require Import FileH.Str FileH.Unquote FileH.PosixPath.
Import ListNotations.
Open Scope N_scope.

Inductive exc := ValueError.
Inductive res (A : Type) := Ok (a : A) | Exc (e : exc).
Arguments Ok {A} a.
Arguments Exc {A} e.

Record config := {
  c_request_path : str;
  c_filemode : bool;      (* true: option `file` is set; false: option `root_dir` is set *)
  c_target : str;         (* value of `file` resp. `root_dir` *)
  c_suffix : str;         (* file_suffix ("" when absent) *)
  c_lookup_key : str;     (* "" when absent *)
  c_placeholder : str;    (* lookup_value_placeholder *)
  c_continue : bool;      (* lookup_no_result_action == "continue" *)
  c_ds_ignore : bool;     (* data_source_error_action in ("ignore", "warn") *)
  c_template : bool       (* a template engine is configured *)
}.

(* what _init_request_path stores *)
Record rp := {
  extract : bool;
  pre_segs : list str;
  ph_pre : str;
  ph_suf : str;
  suf_segs : list str
}.

(* the enumerate loop looking for the segment that contains the placeholder *)
Fixpoint scan_ph (ph : str) (segs : list str) (idx : nat) (found : option nat) : res (option nat) :=
  match segs with
  | [] => Ok found
  | sg :: r =>
      if contains ph sg then
        match found with
        | None => scan_ph ph r (S idx) (Some idx)
        | Some _ => Exc ValueError
        end
      else scan_ph ph r (S idx) found
  end.

Definition SYSTEM_ID : str := [58; 115; 121; 115; 116; 101; 109; 95; 105; 100; 58].  (* ":system_id:" *)

Definition init_request_path (c : config) : res rp :=
  let rp0 := c_request_path c in
  if negb (starts_with [SL] rp0) then Exc ValueError else
  let rpath := if eqb_str rp0 [SL] then [] else rp0 in
  if ends_with [SL] rpath then Exc ValueError else
  if is_nil (c_lookup_key c) then
    Ok {| extract := false; pre_segs := split_on SL rpath; ph_pre := []; ph_suf := []; suf_segs := [] |}
  else
    let ph := c_placeholder c in
    let segs := split_on SL rpath in
    match scan_ph ph segs 0 None with
    | Exc e => Exc e
    | Ok None => Exc ValueError
    | Ok (Some i) =>
        let seg := nth i segs [] in
        match ph with
        | [] => Exc ValueError                       (* str.split("") raises ValueError *)
        | _ =>
            match find_sub ph seg with
            | None => Exc ValueError                 (* not reachable: the segment contains ph *)
            | Some j =>
                let rest := skipn (j + length ph) seg in
                if contains ph rest then Exc ValueError   (* len(split) > 2 *)
                else Ok {| extract := true; pre_segs := firstn i segs; ph_pre := firstn j seg;
                           ph_suf := rest; suf_segs := skipn (S i) segs |}
            end
        end
    end.

(* __init__ of the base class (the part that concerns these options) and of the TFTP class *)
Definition handler_init (tftp : bool) (c : config) : res rp :=
  if c_filemode c && negb (is_nil (c_suffix c)) then Exc ValueError else
  match init_request_path c with
  | Exc e => Exc e
  | Ok r => if tftp && eqb_str (c_request_path c) [SL] && c_filemode c then Exc ValueError else Ok r
  end.

(* ---------------- _prepare_context ---------------- *)
Record ctx := { matches : bool; raw_value : option str; extra_path : option str }.
Definition no_match : ctx := {| matches := false; raw_value := None; extra_path := None |}.

(* len check, zip comparison, slice *)
Definition strip_segs (expected actual : list str) : option (list str) :=
  if (length actual <? length expected)%nat then None
  else if forallb (fun p => eqb_str (fst p) (snd p)) (combine expected actual)
       then Some (skipn (length expected) actual)
       else None.

Definition finish (c : config) (raw : option str) (rest : list str) : ctx :=
  match rest with
  | _ :: _ =>
      if c_filemode c then no_match
      else {| matches := true; raw_value := raw; extra_path := Some (join SL ([] :: rest)) |}
  | [] =>
      if c_filemode c then {| matches := true; raw_value := raw; extra_path := None |}
      else no_match
  end.

Definition NUL_ENC : str := [PCT; 48; 48].   (* "%00" *)

Definition uri_path (uri : str) : str := unquote (take_until QM uri).

(* the lookup value: the segment without the configured in-segment prefix and suffix *)
Definition extract_value (r : rp) (seg : str) : str :=
  let v0 := skipn (length (ph_pre r)) seg in
  if is_nil (ph_suf r) then v0 else firstn (length v0 - length (ph_suf r)) v0.

(* `if self._extract_lookup_value:` block; segs1 = segments after the configured prefix segments *)
Definition match_lookup (c : config) (r : rp) (segs1 : list str) : ctx :=
  match segs1 with
  | [] => no_match
  | seg :: segs2 =>
      if negb (starts_with (ph_pre r) seg && ends_with (ph_suf r) seg) then no_match else
      match strip_segs (suf_segs r) segs2 with
      | None => no_match
      | Some rest =>
          let v := extract_value r seg in
          if is_nil v then no_match else finish c (Some v) rest
      end
  end.

(* everything after the NUL test and the decoding *)
Definition match_path (c : config) (r : rp) (path : str) : ctx :=
  if eqb_str path [SL] && list_str_eqb (pre_segs r) [[]] && negb (extract r) && c_filemode c
  then {| matches := true; raw_value := None; extra_path := None |}
  else
    match strip_segs (pre_segs r) (split_on SL path) with
    | None => no_match
    | Some segs1 => if extract r then match_lookup c r segs1 else finish c None segs1
    end.

Definition prepare_context (c : config) (r : rp) (uri : str) : ctx :=
  if mem_N 0 uri || contains NUL_ENC uri then no_match else match_path c r (uri_path uri).

(* ---------------- TFTP: _rewrite_filename_if_needed ---------------- *)
Definition rewrite_filename (old_2f : bool) (f : str) : str :=
  if starts_with [SL] f
     || (if old_2f then starts_with [PCT; 50; 102] f else starts_enc_slash f)
  then f else SL :: f.

Definition http_prepare (c : config) (r : rp) (uri : str) : ctx := prepare_context c r uri.
Definition tftp_prepare (old_2f : bool) (c : config) (r : rp) (f : str) : ctx :=
  prepare_context c r (rewrite_filename old_2f f).

(* ---------------- _translate_path ---------------- *)
Fixpoint drop_empty (l : list str) : list str :=
  match l with
  | [] => []
  | a :: r => if is_nil a then drop_empty r else l
  end.

Definition translate_path (c : config) (extra : str) : option str :=
  if mem_N 0 extra then None else
  if is_nil extra || ends_with [SL] extra then None else
  let segs := drop_empty (split_on SL extra) in
  if is_nil segs then None else
  if existsb (eqb_str [DOT]) segs || existsb (eqb_str [DOT; DOT]) segs then None else
  let p := normpath (path_join (c_target c) segs) ++ c_suffix c in
  if starts_with (c_target c) p then Some p else None.

(* ---------------- lookup part of _handle ---------------- *)
(* find_system: an id, None, an exception derived from Exception (any class: RuntimeError, sqlite3.Error, a custom
   class ...), or one derived from BaseException only (KeyboardInterrupt, SystemExit ...: `except Exception` lets it pass) *)
Inductive fsres := FFound (id : str) | FNone | FRaise | FRaiseBase.
(* get_data: the data (its tag), or an exception of the one or the other kind *)
Inductive gdres := GOk (d : str) | GRaise | GRaiseBase.
Definition gd_data (g : gdres) : option str := match g with GOk d => Some d | _ => None end.
Inductive call := CFind (key value : str) | CGet (id : str).
(* what the template engine receives besides request_info *)
Record tcontext := { t_id : option str; t_data : option str }.

Inductive plan :=
| PNotFound
| PRaise                                   (* exception of the data source propagates *)
| PServe (path : str) (tc : option tcontext).  (* tc = None: no template engine *)

Section Handle.
  Variable transform : str -> option str.     (* None: the transformation chain raises (e.g. raise_error_if_malformed) *)
  Variable find_system : str -> str -> fsres.
  Variable get_data : str -> gdres.

  (* returns the call log and, unless an exception propagates, (system_id, data) *)
  Definition lookup (c : config) (r : rp) (x : ctx) : list call * option (option str * option str) :=
    if extract r then
      let key := c_lookup_key c in
      match transform (match raw_value x with Some v => v | None => [] end) with
      | None => ([], None)                      (* not inside any try: propagates before the data source is used *)
      | Some v =>
      let '(log1, sid) :=
        if eqb_str key SYSTEM_ID then ([], Some (Some v))
        else match find_system key v with
             | FFound i => ([CFind key v], Some (Some i))
             | FNone => ([CFind key v], Some None)
             | FRaise => ([CFind key v], if c_ds_ignore c then Some None else None)
             | FRaiseBase => ([CFind key v], None)
             end in
      match sid with
      | None => (log1, None)
      | Some None => (log1, Some (None, None))
      | Some (Some i) =>
          if c_template c then
            match get_data i with
            | GOk d => (log1 ++ [CGet i], Some (Some i, Some d))
            | GRaise => (log1 ++ [CGet i], if c_ds_ignore c then Some (Some i, None) else None)
            | GRaiseBase => (log1 ++ [CGet i], None)
            end
          else (log1, Some (Some i, None))
      end
      end
    else ([], Some (None, None)).

  Definition handle_plan (c : config) (r : rp) (x : ctx) : list call * plan :=
    match lookup c r x with
    | (log, None) => (log, PRaise)
    | (log, Some (sid, data)) =>
        if extract r && negb (c_continue c) && (match sid with None => true | Some _ => false end)
        then (log, PNotFound)
        else
          let file := if c_filemode c then Some (c_target c)
                      else match extra_path x with
                           | Some e => translate_path c e
                           | None => None
                           end in
          match file with
          | None => (log, PNotFound)
          | Some f => (log, PServe f (if c_template c then Some {| t_id := sid; t_data := data |} else None))
          end
    end.
End Handle.

(* ---------------- opening the file ---------------- *)
(* FsEACCES_DIR: PermissionError for a path that os.path.isdir() reports as a directory (what Windows answers when
   a directory is opened); FsEACCES: PermissionError for anything else; FsEOTHER: any other OSError (EIO, ELOOP ...) *)
Inductive fsr :=
| FsOpened (content : str) | FsENOENT | FsEISDIR | FsENOTDIR | FsENAMETOOLONG | FsEACCES | FsEACCES_DIR | FsEOTHER.

Inductive result :=
| RNotFound | RForbidden | RError
| RContent (content : str) (tc : option tcontext).   (* file content, rendered with tc when tc <> None *)

Definition serve (old_232 : bool) (fs_open : str -> fsr) (path : str) (tc : option tcontext) : result :=
  match fs_open path with
  | FsOpened content => RContent content tc
  | FsENOENT | FsEISDIR => RNotFound
  | FsENOTDIR | FsENAMETOOLONG => if old_232 then RError else RNotFound
  | FsEACCES => RForbidden        (* re-raised; the protocol classes answer 403 / access violation *)
  | FsEACCES_DIR => RNotFound     (* `if os.path.isdir(file): return None, file` *)
  | FsEOTHER => RError            (* re-raised: the error is the result of the request *)
  end.

(* one request after a successful match: data-source calls, paths opened, result *)
Definition handle (old_232 : bool) (transform : str -> option str) (find_system : str -> str -> fsres)
    (get_data : str -> gdres) (fs_open : str -> fsr)
    (c : config) (r : rp) (x : ctx) : list call * list str * result :=
  match handle_plan transform find_system get_data c r x with
  | (log, PNotFound) => (log, [], RNotFound)
  | (log, PRaise) => (log, [], RError)
  | (log, PServe p tc) => (log, [p], serve old_232 fs_open p tc)
  end.
