(* The model of Tftp/SendFaults.v satisfies its checker for every set of failing sends. *)
From Coq Require Import String.
From Coq Require Import List NArith ZArith Bool Arith Lia.
From VF Require Import Base.Sx Tftp.SendFaults.
Import ListNotations.
Local Open Scope nat_scope.

(* shape of the calls for one block *)
Lemma data_tries_shape faults blk : forall tries idx l i ok,
  data_tries faults blk tries idx = (l, i, ok) ->
  exists k, l = repeat (AData blk false) k ++ (if ok then [AData blk true] else []) /\
            (ok = true -> k < tries) /\ (ok = false -> k = tries) /\ i = idx + k + (if ok then 1 else 0).
Proof.
  induction tries as [|t IH]; intros idx l i ok H; cbn [data_tries] in H.
  - injection H as <- <- <-. exists 0. cbn. repeat split; try lia; congruence.
  - destruct (faulty faults idx).
    + destruct (data_tries faults blk t (S idx)) as [[l1 i1] ok1] eqn:E. injection H as <- <- <-.
      destruct (IH _ _ _ _ E) as (k & -> & A & B & C). exists (S k). cbn [repeat app]. repeat split; intros; try lia.
      * specialize (A H). lia.
      * specialize (B H). lia.
    + injection H as <- <- <-. exists 0. cbn. repeat split; intros; try lia; congruence.
Qed.

Lemma fails_of_repeat_same b k r : fails_of b (repeat (AData b false) k ++ r) = k + fails_of b r.
Proof. induction k as [|k IH]; cbn [repeat app fails_of]; [reflexivity|]. rewrite Nat.eqb_refl, IH. reflexivity. Qed.
Lemma fails_of_repeat_other b b' k r : b <> b' -> fails_of b (repeat (AData b' false) k ++ r) = fails_of b r.
Proof.
  intros Hn. induction k as [|k IH]; cbn [repeat app fails_of]; [reflexivity|].
  destruct (Nat.eqb_spec b' b); [congruence|exact IH].
Qed.
Lemma delivered_repeat b k r : delivered (repeat (AData b false) k ++ r) = delivered r.
Proof. induction k as [|k IH]; cbn [repeat app delivered flat_map]; [reflexivity|exact IH]. Qed.

Lemma retried_repeat_then rt b k r :
  (match r with a :: _ => is_data_of b a = true | [] => True end) ->
  retried rt (repeat (AData b false) k ++ r) = retried rt r.
Proof.
  intros Hr. induction k as [|k IH]; cbn [repeat app]; [reflexivity|].
  cbn [retried]. destruct (repeat (AData b false) k ++ r) as [|a r'] eqn:E.
  - destruct k; cbn in E; [subst r; reflexivity|discriminate].
  - assert (Ha : is_data_of b a = true).
    { destruct k; cbn [repeat app] in E; [subst r; exact Hr|]. injection E as <- _. cbn. apply Nat.eqb_refl. }
    rewrite Ha. cbn [andb]. exact IH.
Qed.

Section Blocks.
  Variable faults : list nat.
  Variable retries : nat.

  Lemma data_blocks_spec : forall n blk idx l ok,
    data_blocks faults retries blk n idx = (l, ok) ->
    retried retries l = true /\
    (forall b, b < blk -> fails_of b l = 0) /\
    (forall b, blk + n <= b -> fails_of b l = 0) /\
    (ok = true -> delivered l = seq blk n /\ forall b, fails_of b l <= retries) /\
    (ok = false -> exists b, blk <= b < blk + n /\ fails_of b l = S retries).
  Proof.
    induction n as [|n IH]; intros blk idx l ok H; cbn [data_blocks] in H.
    - injection H as <- <-. cbn. repeat split; intros; try lia; try reflexivity; discriminate.
    - destruct (data_tries faults blk (S retries) idx) as [[l1 i1] ok1] eqn:E1.
      destruct (data_tries_shape _ _ _ _ _ _ _ E1) as (k & -> & A & B & _).
      destruct ok1.
      + specialize (A eq_refl).
        destruct (data_blocks faults retries (S blk) n i1) as [l2 ok2] eqn:E2.
        injection H as <- <-. destruct (IH _ _ _ _ E2) as (R & Lo & Hi & T & F).
        rewrite <- app_assoc. cbn [app].
        split; [|split; [|split; [|split]]].
        * rewrite retried_repeat_then by (cbn; apply Nat.eqb_refl). cbn [retried]. exact R.
        * intros b Hb. rewrite fails_of_repeat_other by lia. cbn [fails_of]. apply Lo. lia.
        * intros b Hb. rewrite fails_of_repeat_other by lia. cbn [fails_of]. apply Hi. lia.
        * intros ->. destruct (T eq_refl) as [T1 T2]. split.
          -- rewrite delivered_repeat. cbn [delivered flat_map app]. fold (delivered l2). rewrite T1. reflexivity.
          -- intros b. destruct (Nat.eq_dec b blk) as [->|Hn].
             ++ rewrite fails_of_repeat_same. cbn [fails_of]. rewrite (Lo blk) by lia. lia.
             ++ rewrite fails_of_repeat_other by exact Hn. cbn [fails_of]. apply T2.
        * intros ->. destruct (F eq_refl) as (b & Hb & Fb). exists b. split; [lia|].
          rewrite fails_of_repeat_other by lia. cbn [fails_of]. exact Fb.
      + specialize (B eq_refl). subst k. injection H as <- <-. cbv iota.
        change (AData blk false :: repeat (AData blk false) retries ++ []) with (repeat (AData blk false) (S retries) ++ []).
        split; [|split; [|split; [|split]]].
        * rewrite retried_repeat_then by exact Logic.I. reflexivity.
        * intros b Hb. rewrite fails_of_repeat_other by lia. reflexivity.
        * intros b Hb. rewrite fails_of_repeat_other by lia. reflexivity.
        * discriminate.
        * intros _. exists blk. split; [lia|]. rewrite fails_of_repeat_same. cbn [fails_of]. lia.
  Qed.
End Blocks.

Lemma forallb_eq {A} (f g : A -> bool) l : (forall x, f x = g x) -> forallb f l = forallb g l.
Proof. intros H. induction l as [|x r IH]; cbn [forallb]; [reflexivity|]. now rewrite H, IH. Qed.

Lemma within_budget_true rt first n l : (forall b, fails_of b l <= rt) -> within_budget rt first n l = true.
Proof. intros H. unfold within_budget. apply forallb_forall. intros b _. apply Nat.leb_le. apply H. Qed.
Lemma within_budget_false rt first n l b : first <= b < first + n -> fails_of b l = S rt -> within_budget rt first n l = false.
Proof.
  intros Hb Hf. unfold within_budget. apply not_true_is_false. intros H.
  rewrite forallb_forall in H. specialize (H b ltac:(apply in_seq; lia)). apply Nat.leb_le in H. lia.
Qed.

Lemma holds_blocks faults rt first n idx l ok : data_blocks faults rt first n idx = (l, ok) ->
  holds_core rt first n (l, ok) = [].
Proof.
  intros H. destruct (data_blocks_spec _ _ _ _ _ _ _ H) as (R & Lo & Hi & T & F).
  unfold holds_core. rewrite R. cbn [orb app]. destruct ok.
  - destruct (T eq_refl) as [T1 T2]. rewrite (within_budget_true _ _ _ _ T2), T1. cbn [andb].
    destruct (list_eq_dec Nat.eq_dec (seq first n) (seq first n)); [reflexivity|congruence].
  - destruct (F eq_refl) as (b & Hb & Fb). rewrite (within_budget_false _ _ _ _ b Hb Fb). reflexivity.
Qed.

(* every call of the block loop is a DATA call, so reading OACK calls as block 0 undoes to_oack *)
Lemma data_tries_all_data faults blk : forall tries idx,
  Forall (fun a => match a with AData _ _ => True | _ => False end) (fst (fst (data_tries faults blk tries idx))).
Proof.
  induction tries as [|t IH]; intros idx; cbn [data_tries]; [constructor|].
  destruct (faulty faults idx).
  - specialize (IH (S idx)). destruct (data_tries faults blk t (S idx)) as [[l i] ok]. cbn [fst] in *.
    constructor; [exact Logic.I|exact IH].
  - cbn. repeat constructor.
Qed.
Lemma data_blocks_all_data faults rt : forall n blk idx,
  Forall (fun a => match a with AData _ _ => True | _ => False end) (fst (data_blocks faults rt blk n idx)).
Proof.
  induction n as [|n IH]; intros blk idx; cbn [data_blocks]; [constructor|].
  pose proof (data_tries_all_data faults blk (S rt) idx) as H1.
  destruct (data_tries faults blk (S rt) idx) as [[l1 i1] ok1]. cbn [fst] in H1.
  destruct ok1; [|exact H1].
  specialize (IH (S blk) i1). destruct (data_blocks faults rt (S blk) n i1) as [l2 ok2]. cbn [fst] in *.
  apply Forall_app. split; assumption.
Qed.
Lemma of_to_oack l : Forall (fun a => match a with AData _ _ => True | _ => False end) l ->
  map of_oack (map to_oack l) = l.
Proof.
  induction 1 as [|a l Ha Hl IH]; [reflexivity|]. cbn [map]. rewrite IH. f_equal.
  destruct a as [|b ok]; [contradiction|]. destruct b; reflexivity.
Qed.
Lemma of_oack_data l : Forall (fun a => match a with AData _ _ => True | _ => False end) l -> map of_oack l = l.
Proof. induction 1 as [|a l Ha Hl IH]; [reflexivity|]. cbn [map]. rewrite IH. destruct a; [contradiction|reflexivity]. Qed.

Theorem send_model_holds c : holds_send c (run_send c) = [].
Proof.
  unfold run_send, run_send_v, holds_send. cbn [andb]. destruct (s_oack c) eqn:Eo.
  - pose proof (data_blocks_all_data (s_faults c) (s_retries c) (S (s_blocks c)) 0 0) as HA.
    destruct (data_blocks (s_faults c) (s_retries c) 0 (S (s_blocks c)) 0) as [l ok] eqn:E. cbn [fst snd] in *.
    rewrite of_to_oack by exact HA. exact (holds_blocks _ _ _ _ _ _ _ E).
  - pose proof (data_blocks_all_data (s_faults c) (s_retries c) (s_blocks c) 1 0) as HA.
    destruct (data_blocks (s_faults c) (s_retries c) 1 (s_blocks c) 0) as [l ok] eqn:E. cbn [fst snd] in *.
    rewrite of_oack_data by exact HA. exact (holds_blocks _ _ _ _ _ _ _ E).
Qed.
Print Assumptions send_model_holds.

(* every window of 1 + retries consecutive send numbers contains one that does not fail: nothing is given up *)
Definition no_long_run (faults : list nat) (retries : nat) : Prop :=
  forall i, exists j, i <= j <= i + retries /\ faulty faults j = false.

Lemma data_tries_ok faults blk : forall tries idx,
  (exists j, idx <= j < idx + tries /\ faulty faults j = false) ->
  exists l i, data_tries faults blk tries idx = (l, i, true).
Proof.
  induction tries as [|t IH]; intros idx (j & Hj & Fj); [lia|]. cbn [data_tries].
  destruct (faulty faults idx) eqn:E.
  - destruct (IH (S idx)) as (l & i & H).
    { exists j. split; [|exact Fj]. destruct (Nat.eq_dec j idx) as [->|]; [congruence|lia]. }
    rewrite H. eauto.
  - eauto.
Qed.

(* the blocks (and the OACK, read as block 0) that went out *)
Definition sent_ok (l : list attempt) : list nat := delivered (map of_oack l).

Theorem send_failures_within_budget_deliver c :
  no_long_run (s_faults c) (s_retries c) ->
  snd (run_send c) = true /\
  sent_ok (fst (run_send c)) = if s_oack c then seq 0 (S (s_blocks c)) else seq 1 (s_blocks c).
Proof.
  intros Hn.
  assert (G : forall n blk idx, exists l, data_blocks (s_faults c) (s_retries c) blk n idx = (l, true)).
  { induction n as [|n IH]; intros blk idx; cbn [data_blocks]; [eauto|].
    destruct (data_tries_ok (s_faults c) blk (S (s_retries c)) idx) as (l1 & i1 & E1).
    { destruct (Hn idx) as (j & Hj & Fj). exists j. split; [lia|exact Fj]. }
    rewrite E1. destruct (IH (S blk) i1) as [l2 E2]. rewrite E2. eauto. }
  unfold run_send, run_send_v, sent_ok. cbn [andb]. destruct (s_oack c) eqn:Eo.
  - pose proof (data_blocks_all_data (s_faults c) (s_retries c) (S (s_blocks c)) 0 0) as HA.
    destruct (G (S (s_blocks c)) 0 0) as [l E]. rewrite E in *. cbn [fst snd] in *. split; [reflexivity|].
    rewrite of_to_oack by exact HA.
    destruct (data_blocks_spec _ _ _ _ _ _ _ E) as (_ & _ & _ & T & _). exact (proj1 (T eq_refl)).
  - pose proof (data_blocks_all_data (s_faults c) (s_retries c) (s_blocks c) 1 0) as HA.
    destruct (G (s_blocks c) 1 0) as [l E]. rewrite E in *. cbn [fst snd] in *. split; [reflexivity|].
    rewrite of_oack_data by exact HA.
    destruct (data_blocks_spec _ _ _ _ _ _ _ E) as (_ & _ & _ & T & _). exact (proj1 (T eq_refl)).
Qed.
Print Assumptions send_failures_within_budget_deliver.
