"""C06 - request-path matching and system lookup are exact and equal for HTTP and TFTP."""
import itertools
import json
import os
import sqlite3
import urllib.parse

import common
from common import Check, sx, hist
import fileh
from fileh import RecordingSource, decision, deep_sxstr
from vinegar.transform import get_transformation_chain

# find_system table of the recording data source: (key, tag(value)) -> answer (values are typed, see fileh.tag)
TABLE = {
    ("k", "s:a"): ("id", "sysA"),
    ("k", "s:A"): ("id", "sys-A"),
    ("k", "s:T-a-S"): ("id", "sysT"),
    ("k", "s:b"): ("raise", RuntimeError),
    ("k", "s:T-b-S"): ("raise", KeyError),
    # the class of the exception is a dimension: Exception subclasses outside the usual families, and BaseException
    ("k", "s:ba"): ("raise", sqlite3.OperationalError),
    ("k", "s:aba"): ("raise", fileh.WeirdError),
    ("k", "s:."): ("raise", OSError),
    ("k", "s:2"): ("raise", fileh.HarnessBaseException),
    ("k", "int:2"): ("raise", fileh.HarnessBaseException),
    ("k", "int:1"): ("raise", sqlite3.OperationalError),
    ("k", "s:02:03:04:05:06:0A"): ("id", "sysMAC"),
    ("k", "s:02:03:04:05:06:0C"): ("raise", fileh.WeirdError),
    ("k", "s:x"): ("none",),
    ("k", "s:ab"): ("id", "sysAB"),
    ("k", "int:12"): ("id", "sys12"),
    ("k", "int:7"): ("id", "sys-A"),
    ("k", "list:['a', 'b']"): ("id", "sysL"),
    ("k", "list:['a']"): ("id", "sysA"),
    ("k", "s:12"): ("id", "sys-str-12"),
    ("k", "s:['a', 'b']"): ("id", "sys-str-list"),
    # falsy-but-valid / sentinel-like / non-ASCII values and ids
    ("k", "s:0"): ("id", ""),                 # the empty string is a system id
    ("k", "s:None"): ("id", "0"),
    ("k", "s:\xe9"): ("id", "sys-\xe9"),
    ("k", "int:0"): ("id", "sysZero"),
    ("k", "s::system_id:"): ("id", ":system_id:"),
    ("k", "s:..."): ("id", "None"),
}
# get_data raises for these (tagged) ids: Exception subclasses of various families ...
RAISING = {"s:sys-A": RuntimeError, "s:b": sqlite3.OperationalError, "s:T-b-S": fileh.WeirdError, "int:7": OSError,
           "list:['b']": KeyError, "s:02:03:04:05:06:0B": sqlite3.ProgrammingError}
# ... and one that is not derived from Exception
RAISING_BASE = {"s:ba": fileh.HarnessBaseException, "int:1": fileh.HarnessBaseException, "s:sysAB": fileh.HarnessBaseException}
ALL_RAISING = dict(RAISING, **RAISING_BASE)
EMPTIES = ["s:sysT", "int:0", "s:0", "s:None"]                         # get_data returns {} for these (tagged) ids
FS_ROWS = [[k, v, (3 if (r[0] == "raise" and not issubclass(r[1], Exception)) else {"none": 0, "id": 1, "raise": 2}[r[0]]),
            fileh.tag(r[1]) if r[0] == "id" else ""] for (k, v), r in TABLE.items()]

ALPHABET = ["/", "a", "b", "pre-", "-suf", "x", "%2f", "%2F", "%41", "?q", "%00", "\0", "A", ".", "%25", "%3f", "12"]

# request_path shapes: (request_path, placeholder or None for the default "...", needs lookup)
SHAPES_PLAIN = ["/", "/a", "/a/b", "/a/", "a", "", "//a", "/a//b",
                # configured paths are taken literally: '%', '?', '#', spaces, non-ASCII
                "/dist/100%25", "/a%41", "/a b", "/a#b", "/a?b", "/\xe9", "/%zz", "/%"]
SHAPES_LOOKUP = [
    ("/...", None), ("/a/...", None), ("/.../b", None), ("/a/pre-...-suf/b", None), ("/pre-...", None),
    ("/...-suf", None), ("/a/ab...ba", None), ("/a/....", None), ("/a/......", None), ("/.../...", None),
    ("/a", None), ("/", None), ("/a/x", "x"), ("/a/pre-x-suf", "x"), ("/a/xx", "x"), ("/a/...", ""),
    ("/a/b", "a/b"), ("/a/aab", "aa"), ("/a/aaa", "aa"), ("/.../", None), ("/a...a/a", None),
    ("/cfg/%41-...", None), ("/100%25/...", None), ("/a b/...-%20", None), ("/\xe9/...", None), ("/a#?/%...", "%"),
]


def mkcfg(rpath, filemode, key="", ph=None, cont=False, ign=0, template=True, tpre="", tsuf="", suffix="", chain=None):
    return {"rpath": rpath, "filemode": filemode, "target": "file.tpl" if filemode else "root", "suffix": suffix,
            "key": key, "ph": ph, "cont": cont, "ign": ign, "template": template, "tpre": tpre, "tsuf": tsuf,
            "chain": chain, "loglevel": "DEBUG"}


# transformation chains whose result is not a str (the data source and the template must get the value as it is)
TYPED_SETTINGS = [
    dict(key="k", chain=["misc.to_int"]),
    dict(key=":system_id:", chain=["misc.to_int"], ign=1),
    dict(key="k", chain=[{"string.split": "-"}], cont=True),
    dict(key=":system_id:", chain=[{"string.split": ["-"]}]),
    dict(key="k", chain=[{"string.add_prefix": "1"}, "misc.to_int"], cont=True, ign=2),
    # chains that reject malformed values (the exception is the result of the request)
    dict(key="k", chain=[{"misc.to_int": {"raise_error_if_malformed": True}}], cont=True, ign=1),
    dict(key=":system_id:", chain=[{"mac_address.normalize": {"raise_error_if_malformed": True}}]),
    dict(key="k", chain=[{"mac_address.normalize": {"raise_error_if_malformed": True}}], cont=True, ign=2),
]


def all_configs():
    out = []
    for rp in SHAPES_PLAIN:
        for fm in (True, False):
            out.append(mkcfg(rp, fm, template=True))
        out.append(mkcfg(rp, False, template=False, suffix=".j2"))
    settings = [
        dict(key="k"), dict(key="k", cont=True), dict(key="k", ign=1), dict(key="k", cont=True, ign=2),
        dict(key=":system_id:"), dict(key="k", tpre="T-", tsuf="-S"), dict(key="k", template=False),
        dict(key=":system_id:", tpre="T-", cont=True, ign=1), dict(key="k", tsuf="-S", template=False, ign=1),
    ]
    for i, (rp, ph) in enumerate(SHAPES_LOOKUP):
        for j, st in enumerate(settings):
            # full product for the first shapes, a rotating selection for the rest
            if i >= 6 and (i + j) % 3 != 0:
                continue
            for fm in (True, False):
                out.append(mkcfg(rp, fm, ph=ph, **st))
        out.append(mkcfg(rp, False, ph=ph, key="k", suffix=".j2"))
        if i in (0, 3):
            for st in TYPED_SETTINGS:
                for fm in (True, False):
                    out.append(mkcfg(rp, fm, ph=ph, **st))
    for i, c in enumerate(out):
        c["loglevel"] = ("DEBUG", "INFO", "WARNING")[i % 3]      # the logging level is a dimension
    return out


def base_requests(cfg):
    """requests that fit the configured path: placeholder replaced by sample values, plus extra paths"""
    rp = cfg["rpath"]
    ph = fileh.PH_DEFAULT if cfg["ph"] is None else cfg["ph"]
    values = ["a", "A", "%41", "b", "x", "ab", "", "a/b", "a%2fb", "pre-a-suf", "ba", "aba", ".", "%2541", "%252f",
              "12", "2", "7", "a-b", "%31%32", "b-",
              "0", "00", "None", "%c3%a9", "\xe9", "...", ":system_id:", "%30",
              "02-03-04-05-06-0a", "02-03-04-05-06-0B", "2-3-4-5-6-c", "zz", "1"]
    extras = ["", "/a", "/b", "/bb/a", "//a", "/", "/a/", "?q", "/a?q", "/%41"]
    outs = []
    enc = "".join({"%": "%25", " ": "%20", "#": "%23", "?": "%3f", "\xe9": "%c3%a9"}.get(ch, ch) for ch in rp)
    if enc != rp:
        # the request that spells the configured path: its specials percent-encoded (placeholder substituted below)
        encph = "".join({"%": "%25"}.get(ch, ch) for ch in ph)
        for v in ["a", "A", "%41", "x", ""]:
            for e in ["", "/a", "?q"]:
                outs.append((enc.replace(encph, v, 1) if cfg["key"] else enc) + e)
    if cfg["key"] and ph and ph in rp:
        for vi, v in enumerate(values):
            if (15 <= vi < 21 or vi >= 29) and not cfg.get("chain"):
                continue
            for e in (extras if vi < 2 else (extras[:2] if vi < 6 else extras[:1] if cfg["filemode"] else extras[1:2])):
                outs.append(rp.replace(ph, v, 1) + e)
    else:
        for e in extras:
            outs.append(rp + e)
    return outs


def tokenize(s):
    toks = []
    i = 0
    order = sorted(ALPHABET, key=len, reverse=True)
    while i < len(s):
        for t in order:
            if s.startswith(t, i):
                toks.append(t)
                i += len(t)
                break
        else:
            toks.append(s[i])
            i += 1
    return toks


class HistObs(list):
    """observations of the steps of one history (one handler object)"""


def history_cases(tier):
    """(B): sequences of requests on ONE fresh handler object: well-formed value, value without a system, values whose
    lookup raises (various exception classes), values the transformation chain rejects, repeated"""
    strict_int = [{"misc.to_int": {"raise_error_if_malformed": True}}]
    strict_mac = [{"mac_address.normalize": {"raise_error_if_malformed": True}}]
    fams = [
        (mkcfg("/...", True, key="k", cont=True, ign=1), ["a", "ab", "x", "b", "ba", "A"], ""),
        (mkcfg("/...", True, key="k"), ["a", "x", "b", "aba", "2"], ""),
        (mkcfg("/...", True, key="k", chain=strict_int, cont=True, ign=1), ["12", "0", "zz", "a", "1", "7"], ""),
        (mkcfg("/...", True, key=":system_id:", chain=strict_mac),
         ["02-03-04-05-06-0a", "2-3-4-5-6-b", "zz", "a", "02-03-04-05-06-0d"], ""),
        (mkcfg("/a/...", False, key="k", chain=strict_mac, cont=True, ign=2),
         ["02-03-04-05-06-0a", "2-3-4-5-6-c", "zz", "02-03-04-05-06-0d", "%zz"], "/a"),
        (mkcfg("/a/...", False, key="k", cont=True, ign=2, tpre="T-", tsuf="-S"), ["a", "b", "x", "ab"], "/a"),
        (mkcfg("/...", True, key=":system_id:", chain=["misc.to_int"], ign=1), ["12", "7", "1", "a", "0"], ""),
    ]
    k = 0
    for cfg, pool, extra in fams:
        uris = [cfg["rpath"].replace("...", v) + extra for v in pool]
        for n in ((3,) if tier == "quick" else (3, 4)):
            for seq in itertools.product(uris, repeat=n):
                if len(set(seq)) == n and n > 3:
                    continue
                k += 1
                yield {"tftp": bool(k % 2), "cfg": cfg, "uri": seq[-1], "hist": list(seq)}


class C06(Check):
    ident = "C06"
    technique = ("Coq proof (segment-wise matcher = string-level matching rule; lookup call log; TFTP name rewriting "
                 "= decoded-leading-slash normalisation) + differential correspondence with the real handlers")
    rule = ("case = (protocol, configuration, request string); configurations = request_path shapes x file/dir mode x "
            "lookup settings; request strings exhaustive over the token alphabet up to a length, every one/two-token "
            "edit of requests fitting the configured path, and random longer ones; non-trivial = request accepted "
            "by can_handle; distinct by (configuration, protocol, request string)")
    assumptions = [
        "transformation chain, find_system and get_data are arbitrary functions (Section variables); executed with "
        "string.add_prefix/add_suffix and a recording table-driven data source",
        "code points of request strings < 256; str.lower() changes none of the first three characters other than F->f",
    ]

    def __init__(self):
        self._handlers = {}
        self._sxcache = {}
        self._tree = False

    def tree(self):
        if self._tree:
            return
        self._tree = True
        fileh.write_file("file.tpl", fileh.dump_file(fileh.base_dir() + "/file.tpl"))
        for name in ["a", "b", "x", "A", "bb/a", "pre-a", "ab", "a-suf"]:
            fileh.write_file("root/" + name, fileh.dump_file(fileh.base_dir() + "/root/" + name))
            fileh.write_file("root/" + name + ".j2", fileh.dump_file(fileh.base_dir() + "/root/" + name + ".j2"))
        self._files_root = fileh.regular_files_below("root")
        self._files_file = [fileh.base_dir() + "/file.tpl"]

    def handler(self, cfg, tftp):
        key = (json.dumps(cfg, sort_keys=True), tftp)
        if key not in self._handlers:
            self.tree()
            self._handlers[key] = fileh.build(cfg, tftp)
        return self._handlers[key]

    # ---- generators
    def gen(self, tier, rng):
        self.tree()
        for hc in history_cases(tier):
            yield hc
        # every character in every position of the lookup value / the path, and legal requests at and beyond every
        # natural length limit (TFTP must decide like HTTP for them, too)
        for cfg in (mkcfg("/a/...", True, key="k", cont=True), mkcfg("/a/pre-...-suf/b", False, key="k", cont=True, ign=1),
                    mkcfg("/...", True, key=":system_id:"), mkcfg("/a/b", False)):
            rp = cfg["rpath"]
            extra = "" if cfg["filemode"] else "/a"
            for tftp in (False, True):
                seen = set()
                pats = ["%s", "a%s", "%sa", "a%sb"] if cfg["key"] else ["/%s", "/a%s"]
                if tftp:
                    pats = pats[::2]
                for x in fileh.char_sweep():
                    for pat in pats:
                        v = pat.replace("%s", x)
                        u = (rp.replace("...", v) + extra) if cfg["key"] else (rp + v)
                        if u not in seen:
                            seen.add(u)
                            yield {"tftp": tftp, "cfg": cfg, "uri": u}
                    u = rp.replace("/a", "/a" + x, 1).replace("...", "a") + extra
                    if u not in seen:
                        seen.add(u)
                        yield {"tftp": tftp, "cfg": cfg, "uri": u}
                base = rp.replace("...", "a") + extra
                longs = [fileh.pct_all(base).replace("%2f", "/"), rp.replace("...", "a" * 100) + extra]
                longs += list(fileh.long_requests(base) if cfg["rpath"] == "/a/..." else
                              fileh.long_requests(base, (255, 256, 257, 300, 1000)))
                for n in (250, 255, 256, 300, 1000):
                    longs.append(rp.replace("...", "v" * n) + extra)
                    if not cfg["filemode"]:
                        longs.append(rp.replace("...", "a") + "/" + "/".join(["d" * 50] * (n // 50)) + "/f")
                        longs.append(rp.replace("...", "a") + "/" * n + "a")
                for u in longs:
                    for w in ((u,) if not tftp else (u, u[1:])):
                        if w not in seen:
                            seen.add(w)
                            yield {"tftp": tftp, "cfg": cfg, "uri": w}
        # a sample through the real HttpServer / TftpServer in front of the handler
        one = list(fileh.tokens_upto(ALPHABET, 1 if tier == "quick" else 2))
        for cfg in (mkcfg("/a/...", True, key="k", cont=True), mkcfg("/a/pre-...-suf/b", False, key="k", cont=True, ign=1),
                    mkcfg("/...", True, key=":system_id:"), mkcfg("/a/b", False), mkcfg("/", False),
                    mkcfg("/cfg/%41-...", True, key="k"), mkcfg("/dist/100%25", False),
                    mkcfg("/...", True, key="k", chain=[{"misc.to_int": {"raise_error_if_malformed": True}}], cont=True, ign=1)):
            for tftp in (False, True):
                seen = set()
                for u in base_requests(cfg) + one + [cfg["rpath"] + t for t in one]:
                    for w in ((u,) if not tftp else (u, u[1:])):
                        if w and w not in seen and fileh.servable(tftp, w):
                            seen.add(w)
                            # a BaseException of the data source ends the TFTP transfer thread without a reply: the
                            # client's wait (bounded, 3 s) is spent on one such request only
                            if tftp and (any(t in w for t in ("ab", "ba", "/2")) or w == "2") and w != "/ba":
                                continue
                            yield {"tftp": tftp, "cfg": cfg, "uri": fileh.wire_to_handler(tftp, w), "wire": w, "via_server": True}
        cfgs = all_configs()
        n_all = 2 if tier == "quick" else 3
        if os.environ.get("C06_LIMIT_CFGS"):
            cfgs = cfgs[::int(os.environ["C06_LIMIT_CFGS"])]
        short = list(fileh.tokens_upto(ALPHABET, n_all))
        short2 = list(fileh.tokens_upto(ALPHABET, 2))
        short1 = list(fileh.tokens_upto(ALPHABET, 1))
        for ci, cfg in enumerate(cfgs):
            # quick tier: two of three configurations are driven through TFTP only (a TFTP case also runs the HTTP handler
            # of the same configuration on the normalised name)
            for tftp in ((True,) if (tier == "quick" and ci % 3 != 0) else (False, True)):
                seen = set()

                def emit(u):
                    if u in seen:
                        return None
                    seen.add(u)
                    return {"tftp": tftp, "cfg": cfg, "uri": u}
                special = any(ch in cfg["rpath"] for ch in "%#? \xe9")     # the requests built from the configured path matter
                for u in (short1 if (special and tier == "quick") else
                          (short if ci % 3 == 0 else short1) if tier == "quick" else (short if ci % 4 == 0 else short2)):
                    c = emit(u)
                    if c:
                        yield c
                bases = base_requests(cfg)
                for b in bases:
                    c = emit(b)
                    if c:
                        yield c
                # every one-token edit of some fitting requests (a rotating choice in the quick tier)
                nb = 1 if tier == "quick" else 3
                for bi in range(nb):
                    toks = tokenize(bases[(ci * 7 + bi * 3 + (1 if tftp else 0)) % len(bases)])
                    for t in sorted(fileh.edits(toks, ALPHABET, 1)):
                        c = emit("".join(t))
                        if c:
                            yield c
                nrand = 20 if tier == "quick" else 300
                for _ in range(nrand):
                    toks = list(tokenize(rng.choice(bases)))
                    for _e in range(rng.randrange(2, 5)):
                        op = rng.randrange(3)
                        pos = rng.randrange(len(toks) + 1)
                        if op == 0 and toks:
                            del toks[min(pos, len(toks) - 1)]
                        elif op == 1 and toks:
                            toks[min(pos, len(toks) - 1)] = rng.choice(ALPHABET)
                        else:
                            toks.insert(pos, rng.choice(ALPHABET))
                    c = emit("".join(toks))
                    if c:
                        yield c
                for _ in range(10 if tier == "quick" else 200):
                    n = rng.randrange(1, 14)
                    u = "".join(rng.choice(ALPHABET) if rng.random() < 0.8 else
                                rng.choice(["%%%02x" % rng.randrange(256), chr(rng.randrange(256)), "%c3%a9", "%e2%82%ac",
                                            "%zz", "%", "%c0%af", "%ff"]) for _ in range(n))
                    c = emit(u)
                    if c:
                        yield c

    # ---- implementation
    def do_handle(self, h, tftp, uri, ctx, src, template):
        cls, body = fileh.run_handle(h, tftp, uri, ctx)
        return self.parse_result(cls, body, src, template)

    def parse_result(self, cls, body, src, template):
        tc = []
        served = []
        if cls == fileh.CONTENT and not template:
            served = [fileh.served_from_raw(body) or "?unmarked"]
        if cls == fileh.CONTENT and template:
            try:
                d = json.loads(body.decode("utf-8"))
                def val(x):
                    return x if isinstance(x, str) else "?" + repr(x)
                tc = [[val(k) for k in d["keys"]], [val(d["id"])] if "id" in d else [],
                      [val(d["data"])] if "data" in d else [], val(d["uri"])]
                served = [val(d.get("name"))]
            except Exception:
                tc = [["?unparsable"], [], [], ""]
                served = ["?unparsable"]
        return [[list(x) for x in src.log], cls, tc, served]

    def impl(self, c):
        return self.impl_on(self.handler(c["cfg"], c["tftp"]), self.handler(c["cfg"], False) if c["tftp"] else None, c)

    def impl_on(self, h, hh, c):
        """one request on handler h (and, for TFTP, the normalised name on the HTTP handler hh of the same configuration)"""
        cfg, tftp, uri = c["cfg"], c["tftp"], c["uri"]
        # the model's unquote must agree with the library on every generated request (compared, not judged)
        dec = urllib.parse.unquote(uri.partition("?")[0])
        if h is None:
            return [False, [False, [], []], False, [], [], dec]
        fileh.set_log_level(cfg.get("loglevel", "DEBUG"))
        src = RecordingSource(TABLE, ALL_RAISING, EMPTIES)
        h.set_data_source(src)
        if c.get("via_server"):
            # the request travels through the real HttpServer / TftpServer; a recording front in the server's handler
            # list notes the context the handler computed from what the server passed on
            _seen, ctx, can, cls, body = fileh.via_server(h, tftp, c.get("wire", uri))
            hres = [self.parse_result(cls, body, src, cfg["template"])] if can else []
        else:
            ctx = h.prepare_context(uri)
            can = bool(h.can_handle(uri, ctx))
            hres = [self.do_handle(h, tftp, uri, ctx, src, cfg["template"])] if can else []
        par = []
        if tftp and hh is not None:
            # reference reading of "leading slash": decided on the decoded path with the library function
            nf = uri if urllib.parse.unquote(uri.partition("?")[0]).startswith("/") else "/" + uri
            src2 = RecordingSource(TABLE, ALL_RAISING, EMPTIES)
            hh.set_data_source(src2)
            ctx2 = hh.prepare_context(nf)
            can2 = bool(hh.can_handle(nf, ctx2))
            par = [nf, decision(can2), [self.do_handle(hh, False, nf, ctx2, src2, cfg["template"])] if can2 else []]
        return [True, decision(can), can, hres, par, dec]

    def line(self, c, obs, raws=()):
        cfg = c["cfg"]
        files = self._files_file if cfg["filemode"] else self._files_root
        ttable = []
        if cfg.get("chain"):
            # oracle for the transformation chain: the real chain, called directly, on the lookup value that the matching
            # rule extracts from this request (asked from the driver in a first pass, see lines_for)
            fn = get_transformation_chain(cfg["chain"])
            rows = []
            for v in raws:
                try:
                    rows.append([v, True, fileh.tag(fn(v))])
                except Exception as ex:          # the chain rejects the value
                    rows.append([v, False, "?chain-raised:" + type(ex).__name__])
            ttable = [rows]
        # the constant parts are rendered once (the sx text of a list is the texts of its items in parentheses)
        ck = (json.dumps(cfg, sort_keys=True), cfg["filemode"])
        const = self._sxcache.get(ck)
        if const is None:
            const = (sx(fileh.cfg_sx(cfg)) + " " + sx(cfg["tpre"]) + " " + sx(cfg["tsuf"]),
                     sx(deep_sxstr(FS_ROWS)) + " " + sx(deep_sxstr(sorted(RAISING))) + " " + sx(deep_sxstr(sorted(RAISING_BASE)))
                     + " " + sx(deep_sxstr(EMPTIES)) + " "
                     + sx(files))
            self._sxcache[ck] = const
        return ("(" + sx(c["tftp"]) + " " + sx(bool(c.get("old2f"))) + " " + const[0] + " " + sx(deep_sxstr(ttable))
                + " " + const[1] + " " + sx(c["uri"]) + " " + sx(self.canon(obs)) + ")")

    def lines_for(self, pairs):
        """driver lines for (case, observation) pairs; for configurations whose transformation chain is an oracle table a
        first pass asks the driver which lookup value the matching rule extracts, then the real chain is asked for it"""
        need = [k for k, (c, _o) in enumerate(pairs) if c["cfg"].get("chain")]
        raws = {}
        if need:
            first = common.run_model(self.ident, [self.line(pairs[k][0], pairs[k][1]) for k in need])
            for k, res in zip(need, first):
                r = common.unsx(res)
                vals = r[5] if len(r) > 5 else []
                raws[k] = [v.decode("latin-1") if isinstance(v, bytes) else "".join(map(chr, v)) for v in vals]
        return [self.line(c, o, raws.get(k, ())) for k, (c, o) in enumerate(pairs)]

    def canon(self, obs):
        if isinstance(obs, HistObs):
            return [deep_sxstr(o) for o in obs]
        return deep_sxstr(obs)

    def evaluate(self, cases):
        self.tree()
        out = [None] * len(cases)
        plain = [(i, c) for i, c in enumerate(cases) if "hist" not in c]
        if plain:
            pcs = [c for _, c in plain]
            obs = [self.impl(c) for c in pcs]
            lines = self.lines_for(list(zip(pcs, obs)))
            outs = common.run_model(self.ident, lines)
            for (i, c), o, ln, res in zip(plain, obs, lines, outs):
                if res.startswith("!") or res.startswith("#"):
                    raise RuntimeError(f"C06: driver rejected case {ln[:300]} -> {res[:100]}")
                r = common.unsx(res)
                out[i] = (c, o, r[0], common.names(r[1]), common.names(r[2]), r[3:5])
        hist = [(i, c) for i, c in enumerate(cases) if "hist" in c]
        if hist:
            # every history gets fresh handler objects; each step is judged like a single request (the model is a
            # function of the request alone: nothing of an earlier request may show up)
            all_obs, lines = [], []
            for _, c in hist:
                h = fileh.build(c["cfg"], c["tftp"])
                hh = fileh.build(c["cfg"], False) if c["tftp"] else None
                obs = []
                for u in c["hist"]:
                    sc = dict(c, uri=u)
                    o = self.impl_on(h, hh, sc)
                    obs.append(o)
                    lines.append((sc, o))
                all_obs.append(obs)
            lines = self.lines_for(lines)
            outs = common.run_model(self.ident, lines)
            pos = 0
            for (i, c), obs in zip(hist, all_obs):
                m, fm, fi = [], [], []
                covered = 1       # a history is within the theorem's hypotheses iff every step is
                for ln, res in zip(lines[pos:pos + len(obs)], outs[pos:pos + len(obs)]):
                    if res.startswith("!") or res.startswith("#"):
                        raise RuntimeError(f"C06: driver rejected case {ln[:300]} -> {res[:100]}")
                    r = common.unsx(res)
                    m.append(r[0])
                    if len(r) < 5 or r[4] != 1:
                        covered = 0
                    fm.extend(x for x in common.names(r[1]) if x not in fm)
                    fi.extend(x for x in common.names(r[2]) if x not in fi)
                pos += len(obs)
                out[i] = (c, HistObs(obs), m, fm, fi, [[], covered])
        return out

    def nontrivial(self, c, obs):
        if "hist" in c:
            return ("hist", json.dumps(c["cfg"], sort_keys=True), c["tftp"], tuple(c["hist"]))
        if obs[0] and obs[2]:
            return (json.dumps(c["cfg"], sort_keys=True), c["tftp"], c["uri"])
        return None

    def show(self, c):
        if "hist" in c:
            return {"tftp": c["tftp"], "cfg": c["cfg"], "uri": "history of requests on one handler: " + "  ".join(c["hist"]),
                    "hist": c["hist"]}
        return {"tftp": c["tftp"], "cfg": c["cfg"], "uri": c["uri"].encode("latin-1").decode("latin-1"),
                "uri_hex": c["uri"].encode("latin-1").hex(),
                "via_server": ("through the real HttpServer / TftpServer, on the wire: %r" % c.get("wire")) if c.get("via_server") else None}

    def shrink(self, c):
        if c.get("via_server"):
            # shrink what goes over the wire; the handler-level string follows from it
            for cand in self._shrink(dict(c, uri=c["wire"])):
                if fileh.servable(cand["tftp"], cand["uri"]):
                    yield dict(cand, wire=cand["uri"], uri=fileh.wire_to_handler(cand["tftp"], cand["uri"]))
            return
        yield from self._shrink(c)

    def _shrink(self, c):
        if "hist" in c:
            for i in range(len(c["hist"])):
                yield dict(c, hist=c["hist"][:i] + c["hist"][i + 1:])
            return
        u = c["uri"]
        toks = tokenize(u)
        for i in range(len(toks)):
            yield dict(c, uri="".join(toks[:i] + toks[i + 1:]))
        for i in range(len(u)):
            yield dict(c, uri=u[:i] + u[i + 1:])


if __name__ == "__main__":
    raise SystemExit(C06().main())
