(* _translate_path = root ++ "/" ++ named segments ++ suffix; consequences for _handle (C04). *)
From Coq Require Import List NArith Bool Arith Lia.
From VF Require Import FileH.Str FileH.StrProofs FileH.Unquote FileH.PosixPath FileH.Handler FileH.Spec
  FileH.PosixPathProofs FileH.MatchProofs.
Import ListNotations.
Open Scope N_scope.

(* ---------- os.path.join over segments that are empty or plain ---------- *)
Definition eplain (s : str) : Prop := s = [] \/ plain s.
Definition st_str (st : str * bool) : str := fst st ++ (if snd st then [SL] else []).
Definition jstep (st : str * bool) (seg : str) : str * bool :=
  if is_nil seg then (fst st, true) else (fst st ++ SL :: seg, false).
Definition good (base : str) : Prop := base <> [] /\ ends_with [SL] base = false.

Lemma good_step base seg : good base -> plain seg -> good (base ++ SL :: seg).
Proof.
  intros [Hne He] [H1 [_ [_ H4]]]. split; [destruct base; discriminate|].
  change (base ++ SL :: seg) with (base ++ [SL] ++ seg). rewrite app_assoc. now apply ends_with_plain.
Qed.

Lemma join2_step base t seg : good base -> eplain seg ->
  join2 (st_str (base, t)) seg = st_str (jstep (base, t) seg).
Proof.
  intros [Hne He] Hs. unfold join2, st_str, jstep. cbn [fst snd].
  assert (Hnil : forall x, is_nil (base ++ x) = false) by (intros x; destruct base; [congruence|reflexivity]).
  destruct Hs as [->|Hp].
  - cbn [starts_with is_nil fst snd]. rewrite Hnil. cbn [orb]. destruct t.
    + rewrite ends_with_app_last, N.eqb_refl. now rewrite app_nil_r.
    + rewrite !app_nil_r, He. reflexivity.
  - destruct Hp as [H1 [H2 [H3 H4]]]. rewrite starts_with_slash_free by exact H4. rewrite Hnil. cbn [orb].
    destruct seg as [|s0 seg']; [congruence|]. cbn [is_nil fst snd]. rewrite app_nil_r. destruct t.
    + rewrite ends_with_app_last, N.eqb_refl. now rewrite <- app_assoc.
    + rewrite app_nil_r, He. reflexivity.
Qed.

Lemma fold_join2 segs : forall base t, good base -> Forall eplain segs ->
  fold_left join2 segs (st_str (base, t)) = st_str (fold_left jstep segs (base, t)) /\
  good (fst (fold_left jstep segs (base, t))).
Proof.
  induction segs as [|sg r IH]; intros base t Hg Hp; [split; [reflexivity|exact Hg]|].
  inversion Hp as [|? ? Hsg Hr]; subst. cbn [fold_left]. rewrite join2_step by assumption.
  assert (Hj : exists b' t', jstep (base, t) sg = (b', t') /\ good b').
  { unfold jstep. cbn [fst]. destruct (is_nil sg) eqn:En.
    - eexists _, _. split; [reflexivity|exact Hg].
    - eexists _, _. split; [reflexivity|]. apply good_step; [exact Hg|].
      destruct Hsg as [->|Hpl]; [discriminate En|exact Hpl]. }
  destruct Hj as [b' [t' [Hj Hg']]]. rewrite Hj. apply IH; assumption.
Qed.

Lemma fold_jstep_fst segs : forall st,
  fst (fold_left jstep segs st) = fst st ++ slashed (filter nonempty segs).
Proof.
  induction segs as [|sg r IH]; intros st; [cbn; now rewrite app_nil_r|].
  cbn [fold_left filter]. rewrite IH. unfold jstep, nonempty. destruct (is_nil sg); cbn [fst negb].
  - reflexivity.
  - unfold slashed. cbn [map concat]. now rewrite <- app_assoc.
Qed.

Lemma fold_jstep_snd segs x st : snd (fold_left jstep (segs ++ [x]) st) = is_nil x.
Proof. rewrite fold_left_app. cbn [fold_left]. unfold jstep. destruct (is_nil x); reflexivity. Qed.

Lemma path_join_eplain root segs x : good root -> Forall eplain (segs ++ [x]) -> x <> [] ->
  path_join root (segs ++ [x]) = root ++ slashed (filter nonempty (segs ++ [x])).
Proof.
  intros Hg Hp Hx. unfold path_join.
  destruct (fold_join2 (segs ++ [x]) root false Hg Hp) as [H _].
  unfold st_str at 1 in H. cbn [fst snd] in H. rewrite app_nil_r in H. rewrite H.
  unfold st_str. rewrite fold_jstep_snd, fold_jstep_fst. destruct x; [congruence|]. cbn [is_nil fst]. apply app_nil_r.
Qed.

(* ---------- the segments of an extra path ---------- *)
Lemma join_last_empty c init : init <> [] -> join c (init ++ [[]]) = join c init ++ [c].
Proof. intros H. rewrite join_app by (auto; discriminate). reflexivity. Qed.

Lemma split_last_nonempty (e : str) : e <> [] -> ends_with [SL] e = false ->
  exists (init : list str) (x : str), split_on SL e = init ++ [x] /\ x <> [].
Proof.
  intros Hne He. destruct (exists_last (split_on_not_nil SL e)) as [init [x Hs]].
  exists init, x. split; [exact Hs|]. intros ->.
  pose proof (join_split SL e) as Hj. rewrite Hs in Hj. destruct init as [|i0 init'].
  - cbn in Hj. congruence.
  - rewrite join_last_empty in Hj by discriminate. rewrite <- Hj in He.
    rewrite ends_with_app_last, N.eqb_refl in He. discriminate.
Qed.

Lemma drop_empty_app_last (l : list str) (x : str) : x <> [] -> exists l', drop_empty (l ++ [x]) = l' ++ [x] /\
  filter nonempty l' = filter nonempty l /\ (forall s, In s l' -> In s l).
Proof.
  intros Hx. induction l as [|a l IH].
  - exists []. cbn. destruct x; [congruence|]. cbn. auto.
  - cbn [app drop_empty]. destruct (is_nil a) eqn:Ea.
    + destruct IH as [l' [H1 [H2 H3]]]. exists l'. split; [exact H1|]. split.
      * cbn [filter]. unfold nonempty at 2. rewrite Ea. exact H2.
      * intros s Hs. right. auto.
    + exists (a :: l). auto.
Qed.

Lemma existsb_filter_nonempty (d : str) (l : list str) : d <> [] ->
  existsb (eqb_str d) (filter nonempty l) = existsb (eqb_str d) l.
Proof.
  intros Hd. induction l as [|a l IH]; [reflexivity|]. cbn [filter existsb]. unfold nonempty at 1.
  destruct (is_nil a) eqn:Ea; cbn [negb existsb]; rewrite IH; [|reflexivity].
  apply is_nil_iff in Ea. subst a. destruct d; [congruence|reflexivity].
Qed.

Lemma existsb_false_forall d l : existsb (eqb_str d) l = false -> Forall (fun s => s <> d) l.
Proof.
  induction l as [|a l IH]; [constructor|]. cbn [existsb]. intros H. apply orb_false_iff in H as [H1 H2].
  constructor; [|now apply IH]. intros ->. rewrite eqb_str_refl in H1. discriminate.
Qed.

Lemma filter_filter_nonempty l : filter nonempty (filter nonempty l) = filter nonempty l.
Proof. induction l as [|a l IH]; [reflexivity|]. cbn [filter]. destruct (nonempty a) eqn:E; cbn [filter]; rewrite ?E, IH; reflexivity. Qed.

(* what a remaining path names: conditions on the named segments *)
Record named_ok (e : str) (segs : list str) : Prop := {
  n_segs : segs = named_segs e;
  n_ne : segs <> [];
  n_plain : Forall plain segs;
  n_nonul : Forall (fun s => ~ In 0 s) segs
}.

Lemma spec_path_some c e p : spec_path c e = Some p ->
  exists segs, named_ok e segs /\ p = c_target c ++ slashed segs ++ c_suffix c /\
               e <> [] /\ ends_with [SL] e = false.
Proof.
  unfold spec_path. destruct (mem_N 0 e) eqn:E0; [discriminate|]. destruct (is_nil e) eqn:En; [discriminate|].
  destruct (ends_with [SL] e) eqn:Ee; [discriminate|]. cbn [orb].
  destruct (existsb (eqb_str [DOT]) (named_segs e)) eqn:E1; [discriminate|].
  destruct (existsb (eqb_str [DOT; DOT]) (named_segs e)) eqn:E2; [discriminate|]. cbn [orb].
  intros H; inversion H; subst. exists (named_segs e).
  assert (Hne : e <> []) by (intros ->; discriminate En).
  split; [|auto]. constructor; [reflexivity| | |].
  - destruct (split_last_nonempty e Hne Ee) as [init [x [Hs Hx]]]. unfold named_segs. rewrite Hs, filter_app.
    cbn [filter]. unfold nonempty at 2. destruct x; [congruence|]. cbn. destruct (filter _ init); discriminate.
  - apply existsb_false_forall in E1, E2. unfold named_segs in *.
    pose proof (split_on_free SL e) as Hf.
    rewrite Forall_forall in *. intros s Hs. apply filter_In in Hs as [Hin Hn].
    assert (Hs' : In s (filter nonempty (split_on SL e))) by (apply filter_In; auto).
    split; [intros ->; discriminate Hn|]. split; [intros Hx; apply (E1 s Hs'); auto|].
    split; [intros Hx; apply (E2 s Hs'); auto|]. apply Hf. exact Hin.
  - apply mem_N_false in E0. unfold named_segs. rewrite Forall_forall. intros s Hs Hin.
    apply filter_In in Hs as [Hs _]. apply E0. rewrite <- (join_split SL e).
    clear -Hs Hin. induction (split_on SL e) as [|a l IH]; [destruct Hs|].
    destruct l as [|b l].
    + destruct Hs as [->|[]]. exact Hin.
    + rewrite join_cons2. apply in_or_app. destruct Hs as [->|Hs]; [now left|]. right. right. now apply IH.
Qed.

(* _translate_path computes the named file *)
Theorem translate_path_spec c e : root_ok (c_target c) -> translate_path c e = spec_path c e.
Proof.
  intros Hroot. unfold translate_path, spec_path.
  destruct (mem_N 0 e) eqn:E0; [reflexivity|]. cbn [orb].
  destruct (is_nil e) eqn:En; [reflexivity|]. destruct (ends_with [SL] e) eqn:Ee; [reflexivity|]. cbn [orb].
  assert (Hne : e <> []) by (intros ->; discriminate En).
  destruct (split_last_nonempty e Hne Ee) as [init [x [Hs Hx]]].
  destruct (drop_empty_app_last init x Hx) as [l' [Hd [Hfil Hin]]].
  unfold named_segs. cbv zeta. rewrite Hs, Hd.
  assert (Hnil : is_nil (l' ++ [x]) = false) by (destruct l'; reflexivity). rewrite Hnil.
  assert (Hfil2 : filter nonempty (l' ++ [x]) = filter nonempty (init ++ [x])).
  { rewrite !filter_app. now rewrite Hfil. }
  rewrite <- (existsb_filter_nonempty [DOT] (l' ++ [x])) by discriminate.
  rewrite <- (existsb_filter_nonempty [DOT; DOT] (l' ++ [x])) by discriminate.
  rewrite Hfil2.
  destruct (existsb (eqb_str [DOT]) (filter nonempty (init ++ [x]))) eqn:E1; [reflexivity|].
  destruct (existsb (eqb_str [DOT; DOT]) (filter nonempty (init ++ [x]))) eqn:E2; [reflexivity|]. cbn [orb].
  (* all segments are empty or plain *)
  assert (Hall : Forall eplain (l' ++ [x])).
  { apply existsb_false_forall in E1, E2. rewrite Forall_forall in *. intros s Hsin.
    assert (Hsplit : In s (split_on SL e)).
    { rewrite Hs. apply in_app_or in Hsin as [H|H]; apply in_or_app; [left; auto|right; exact H]. }
    pose proof (split_on_free SL e) as Hf. rewrite Forall_forall in Hf.
    destruct s as [|s0 s'] eqn:Es; [left; reflexivity|right]. rewrite <- Es in *.
    assert (Hsf : In s (filter nonempty (init ++ [x]))).
    { rewrite <- Hfil2. apply filter_In. split; [exact Hsin|subst s; reflexivity]. }
    split; [subst s; discriminate|]. split; [intros Hx'; apply (E1 s Hsf); auto|].
    split; [intros Hx'; apply (E2 s Hsf); auto|]. apply Hf. exact Hsplit. }
  destruct Hroot as [Hr1 [Hr2 Hr3]].
  assert (Hg : good (c_target c)).
  { split; [intros Hx'; rewrite Hx' in Hr1; discriminate|exact Hr2]. }
  rewrite path_join_eplain by assumption. rewrite Hfil2.
  set (segs := filter nonempty (init ++ [x])).
  assert (Hsegs_ne : segs <> []).
  { unfold segs. rewrite filter_app. cbn [filter]. unfold nonempty at 2. destruct x; [congruence|]. cbn.
    destruct (filter _ init); discriminate. }
  assert (Hpl : Forall plain segs).
  { unfold segs. rewrite <- Hfil2. rewrite Forall_forall in *. intros s Hsin. apply filter_In in Hsin as [Hsin Hn].
    destruct (Hall s Hsin) as [->|Hp]; [discriminate Hn|exact Hp]. }
  rewrite normpath_root_plain by (repeat split; assumption).
  rewrite <- !app_assoc, starts_with_app. reflexivity.
Qed.

(* normpath is the identity on the named file's directory part, and root ++ "/" is a proper prefix *)
Lemma named_file_shape root segs suffix : root_ok root -> segs <> [] -> Forall plain segs ->
  normpath (root ++ slashed segs) = root ++ slashed segs /\
  exists rest, root ++ slashed segs ++ suffix = (root ++ [SL]) ++ rest /\ rest <> [].
Proof.
  intros Hr Hne Hp. split; [now apply normpath_root_plain|].
  destruct segs as [|s0 segs']; [congruence|]. inversion Hp as [|? ? [Hs0 _] _]; subst.
  exists (s0 ++ slashed segs' ++ suffix). split.
  - unfold slashed. cbn [map concat]. rewrite <- !app_assoc. reflexivity.
  - destruct s0; [congruence|discriminate].
Qed.

(* ---------- _handle ---------- *)
Section HandleFacts.
  Variable T : str -> option str.
  Variable FS : str -> str -> fsres.
  Variable GD : str -> gdres.
  Variable fs_open : str -> fsr.

  Lemma handle_opened old c r x log opened res :
    handle old T FS GD fs_open c r x = (log, opened, res) ->
    opened = [] /\ (res = RNotFound \/ res = RError) \/
    exists p tc, opened = [p] /\ res = serve old fs_open p tc /\
      (if c_filemode c then p = c_target c
       else exists e, extra_path x = Some e /\ translate_path c e = Some p).
  Proof.
    unfold handle. destruct (handle_plan T FS GD c r x) as [lg pl] eqn:Ep.
    unfold handle_plan in Ep. destruct (lookup T FS GD c r x) as [lg' [[sid data]|]].
    - destruct (_ && _ && _).
      + inversion Ep; subst. intros H; inversion H; subst. left. auto.
      + destruct (c_filemode c) eqn:Efm.
        * inversion Ep; subst. intros H; inversion H; subst. right. eexists _, _. repeat split.
        * destruct (extra_path x) as [e|] eqn:Ex.
          -- destruct (translate_path c e) as [p|] eqn:Et.
             ++ inversion Ep; subst. intros H; inversion H; subst. right. eexists _, _. repeat split. eauto.
             ++ inversion Ep; subst. intros H; inversion H; subst. left. auto.
          -- inversion Ep; subst. intros H; inversion H; subst. left. auto.
    - inversion Ep; subst. intros H; inversion H; subst. left. auto.
  Qed.

  (* directory mode: nothing is opened, or exactly the file the remaining path names *)
  Theorem confined old c r x log opened res :
    root_ok (c_target c) -> c_filemode c = false ->
    handle old T FS GD fs_open c r x = (log, opened, res) ->
    opened = [] \/
    exists e segs, extra_path x = Some e /\ named_ok e segs /\
      opened = [c_target c ++ slashed segs ++ c_suffix c] /\
      normpath (c_target c ++ slashed segs) = c_target c ++ slashed segs /\
      exists rest, c_target c ++ slashed segs ++ c_suffix c = (c_target c ++ [SL]) ++ rest /\ rest <> [].
  Proof.
    intros Hroot Hfm H. apply handle_opened in H as [[H _]|[p [tc [Ho [_ Hp]]]]]; [now left|right].
    rewrite Hfm in Hp. destruct Hp as [e [Hx Ht]]. rewrite translate_path_spec in Ht by exact Hroot.
    apply spec_path_some in Ht as [segs [Hok [-> _]]]. exists e, segs. repeat split; auto; try apply Hok.
    - apply normpath_root_plain; [exact Hroot|apply Hok|apply Hok].
    - apply (named_file_shape _ _ _ Hroot (n_ne _ _ Hok) (n_plain _ _ Hok)).
  Qed.

  Theorem serves_the_named_file old c r x log opened b tc :
    handle old T FS GD fs_open c r x = (log, opened, RContent b tc) ->
    exists p, opened = [p] /\ fs_open p = FsOpened b.
  Proof.
    intros H. apply handle_opened in H as [[_ [H|H]]|[p [tc' [Ho [Hs _]]]]]; try discriminate.
    exists p. split; [exact Ho|]. unfold serve in Hs.
    destruct (fs_open p) eqn:E; try (destruct old; discriminate Hs); try discriminate Hs.
    inversion Hs; subst. reflexivity.
  Qed.

  Theorem file_mode_single_file old c r x log opened res :
    c_filemode c = true -> handle old T FS GD fs_open c r x = (log, opened, res) ->
    opened = [] \/ opened = [c_target c].
  Proof.
    intros Hfm H. apply handle_opened in H as [[H _]|[p [tc [Ho [_ Hp]]]]]; [now left|right].
    rewrite Hfm in Hp. now subst.
  Qed.

  Definition not_regular (a : fsr) : Prop :=
    a = FsENOENT \/ a = FsEISDIR \/ a = FsENOTDIR \/ a = FsENAMETOOLONG.

  Theorem not_regular_is_not_found c r x log p res :
    handle false T FS GD fs_open c r x = (log, [p], res) -> not_regular (fs_open p) -> res = RNotFound.
  Proof.
    intros H Hn. apply handle_opened in H as [[H _]|[p' [tc [Ho [Hs _]]]]]; [discriminate|].
    inversion Ho; subst p'. subst res. unfold serve. destruct Hn as [->|[->|[->| ->]]]; reflexivity.
  Qed.
  (* the remaining answers of open(): PermissionError on a directory -> not found, on anything else -> forbidden,
     every other OSError is the result of the request (never swallowed, never turned into content) *)
  Theorem open_errors old c r x log p res :
    handle old T FS GD fs_open c r x = (log, [p], res) ->
    (fs_open p = FsEACCES_DIR -> res = RNotFound) /\
    (fs_open p = FsEACCES -> res = RForbidden) /\
    (fs_open p = FsEOTHER -> res = RError).
  Proof.
    intros H. apply handle_opened in H as [[H _]|[p' [tc [Ho [Hs _]]]]]; [discriminate|].
    inversion Ho; subst p'. subst res. unfold serve. repeat split; intros ->; reflexivity.
  Qed.
End HandleFacts.

(* ---------- the "extra sure" re-checks of _translate_path never fire ---------- *)
(* `if not extra_path_segments: return None` *)
Theorem segments_never_empty (e : str) : e <> [] -> ends_with [SL] e = false ->
  drop_empty (split_on SL e) <> [].
Proof.
  intros Hne He. destruct (split_last_nonempty e Hne He) as [init [x [Hs Hx]]].
  destruct (drop_empty_app_last init x Hx) as [l' [Hd _]]. rewrite Hs, Hd. destruct l'; discriminate.
Qed.

(* `if not fs_path.startswith(self._root_dir): return None` *)
Theorem prefix_check_never_rejects c e p : spec_path c e = Some p -> starts_with (c_target c) p = true.
Proof.
  intros H. apply spec_path_some in H as [segs [_ [-> _]]]. apply starts_with_app.
Qed.
