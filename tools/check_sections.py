"""fail if a Variable/Hypothesis/Context declaration occurs outside a Section"""
import os, re, sys
bad = 0
for root, _, files in os.walk(sys.argv[1]):
    for fn in files:
        if not fn.endswith(".v"):
            continue
        depth = 0
        p = os.path.join(root, fn)
        txt = re.sub(r"\(\*.*?\*\)", "", open(p).read(), flags=re.S)
        for i, line in enumerate(txt.split("\n"), 1):
            if re.match(r"\s*Section\s+\w+", line):
                depth += 1
            elif re.match(r"\s*End\s+\w+\s*\.", line) and depth > 0:
                depth -= 1
            elif re.match(r"\s*(Variable|Variables|Hypothesis|Hypotheses|Context)\b", line) and depth == 0:
                print(f"{p}:{i}: {line.strip()} outside a Section")
                bad = 1
sys.exit(bad)
