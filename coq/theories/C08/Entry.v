(* C08: case/observation types, executable checker [holds], and the sx entry point. *)
From Coq Require Import String.
From Coq Require Import List NArith ZArith Bool Arith.
From VF Require Import Base.Sx Tftp.Readers.
Import ListNotations.

Record case := { content : list N; chunking : list nat; bs : nat; always_skip : bool }.
Definition obs := list (list N).            (* payloads of the DATA blocks in order *)

Definition run_model (c : case) : obs :=
  netascii_blocks (always_skip c) (bs c) (content c) (chunking c).

Definition list_N_eqb (a b : list N) : bool :=
  if list_eq_dec N.eq_dec a b then true else false.

Fixpoint framedb (bs : nat) (bl : list (list N)) : bool :=
  match bl with
  | [] => false
  | [d] => (length d <? bs)%nat
  | d :: r => (length d =? bs)%nat && framedb bs r
  end.

(* failed clauses of the property for observation o (empty list = holds) *)
Definition holds (c : case) (o : obs) : list string :=
  (if list_N_eqb (concat o) (netascii_spec (content c)) then [] else ["payload_is_netascii_of_content"%string]) ++
  (if framedb (bs c) o then [] else ["block_framing"%string]).

Definition valid (c : case) : Prop := (1 <= bs c)%nat /\ always_skip c = false.

Definition decode (x : sx) : option (case * obs) :=
  match x with
  | L [B ct; ch; I b; I v; io] =>
      obind (asListOf asNat ch) (fun ch =>
      obind (asListOf asB io) (fun io =>
      Some ({| content := ct; chunking := ch; bs := Z.to_nat b; always_skip := negb (v =? 0)%Z |}, io)))
  | _ => None
  end.

Definition entry (x : sx) : sx :=
  match decode x with
  | None => sxS "bad-case"
  | Some (c, io) =>
      let m := run_model c in
      L [ L (map B m); L (map sxS (holds c m)); L (map sxS (holds c io)); B (netascii_spec (content c)) ]
  end.
