(* Lexical half of parse_print: a printed atom is read back by [simple], is never taken for a
   keyword, and basic facts about whitespace skipping and printed concrete syntax trees. *)
From Coq Require Import String.
From Coq Require Import List NArith Bool Arith Lia.
From VF Require Import Matcher.Model Matcher.ParserFacts.
Import ListNotations.

(* ---------- whitespace ---------- *)
Fixpoint ws_prefix (s : str) : str :=
  match s with c :: r => if is_space c then c :: ws_prefix r else [] | [] => [] end.
Fixpoint drop_ws (s : str) : str :=
  match s with c :: r => if is_space c then drop_ws r else s | [] => [] end.

Lemma last_of_cons d c p : last_of d (c :: p) = last_of (Some c) p.
Proof.
  unfold last_of. cbn [rev]. destruct (rev p) as [|x t] eqn:E; [reflexivity|]. reflexivity.
Qed.

Lemma last_of_app d x y : last_of d (x ++ y) = last_of (last_of d x) y.
Proof.
  revert d. induction x as [|c x IH]; intros d; [reflexivity|].
  cbn [app]. rewrite !last_of_cons. apply IH.
Qed.

Lemma last_of_nonempty d d' y : y <> [] -> last_of d y = last_of d' y.
Proof. destruct y as [|c y]; [congruence|]. intros _. now rewrite !last_of_cons. Qed.

Lemma last_of_snoc d x c : last_of d (x ++ [c]) = Some c.
Proof. rewrite last_of_app. reflexivity. Qed.

Lemma skip_ws_eq s : forall prev, skip_ws prev s = (last_of prev (ws_prefix s), drop_ws s).
Proof.
  induction s as [|c r IH]; intros prev; cbn [skip_ws ws_prefix drop_ws]; [reflexivity|].
  destruct (is_space c); [|reflexivity]. rewrite IH, last_of_cons. reflexivity.
Qed.

Definition nonspace_head (t : str) : Prop :=
  match t with [] => True | c :: _ => is_space c = false end.

Lemma ws_prefix_app w t : is_ws w -> nonspace_head t -> ws_prefix (w ++ t) = w.
Proof.
  unfold is_ws. induction w as [|c w IH]; cbn [app forallb ws_prefix]; intros Hw Ht.
  - destruct t as [|c t]; [reflexivity|]. cbn in *. now rewrite Ht.
  - apply andb_prop in Hw as [Hc Hw]. rewrite Hc. f_equal. now apply IH.
Qed.

Lemma drop_ws_app w t : is_ws w -> nonspace_head t -> drop_ws (w ++ t) = t.
Proof.
  unfold is_ws. induction w as [|c w IH]; cbn [app forallb drop_ws]; intros Hw Ht.
  - destruct t as [|c t]; [reflexivity|]. cbn in *. now rewrite Ht.
  - apply andb_prop in Hw as [Hc Hw]. rewrite Hc. now apply IH.
Qed.

Lemma skip_ws_app w t prev : is_ws w -> nonspace_head t -> skip_ws prev (w ++ t) = (last_of prev w, t).
Proof. intros Hw Ht. now rewrite skip_ws_eq, ws_prefix_app, drop_ws_app. Qed.

Lemma drop_ws_nonspace s : nonspace_head (drop_ws s).
Proof. induction s as [|c r IH]; cbn; [exact I|]. destruct (is_space c) eqn:E; [exact IH|exact E]. Qed.

Lemma skip_ws_nonspace prev t : nonspace_head t -> skip_ws prev t = (prev, t).
Proof. intros H. apply (skip_ws_app [] t prev); [reflexivity|exact H]. Qed.

Lemma is_ws_last d w : is_ws w -> w <> [] -> exists c, last_of d w = Some c /\ is_space c = true.
Proof.
  unfold is_ws. revert d. induction w as [|c w IH]; intros d Hw Hne; [congruence|].
  cbn [forallb] in Hw. apply andb_prop in Hw as [Hc Hw]. rewrite last_of_cons.
  destruct w as [|c' w']; [exists c; auto|]. apply IH; [exact Hw|discriminate].
Qed.

(* after optional whitespace the look-behind character is acceptable if it was before *)
Lemma prev_ok_ws prev w : is_ws w -> prev_ok prev = true -> prev_ok (last_of prev w) = true.
Proof.
  intros Hw Hp. destruct w as [|c w]; [exact Hp|].
  destruct (is_ws_last prev (c :: w) Hw) as (x & -> & Hx); [discriminate|]. cbn. now rewrite Hx.
Qed.
Lemma prev_ok_ws_nonempty prev w : is_ws w -> w <> [] -> prev_ok (last_of prev w) = true.
Proof. intros Hw Hne. destruct (is_ws_last prev w Hw Hne) as (x & -> & Hx). cbn. now rewrite Hx. Qed.

(* ---------- stoppers ---------- *)
(* what may follow a unary expression that ends in an unquoted pattern *)
Definition stop (rest : str) : Prop :=
  match rest with [] => True | c :: _ => is_space c = true \/ c = RP end.
Definition stop_res (rest : str) : Prop :=
  match rest with [] => True | c :: _ => reserved c = true end.

Lemma stop_stop_res rest : stop rest -> stop_res rest.
Proof.
  destruct rest as [|c r]; [auto|]. cbn. unfold reserved. intros [->| ->]; [reflexivity|].
  now rewrite !orb_true_r.
Qed.

Lemma stop_ws_app w t : is_ws w -> stop t -> stop (w ++ t).
Proof.
  destruct w as [|c w]; [auto|]. unfold is_ws. cbn [forallb app stop]. intros H _.
  apply andb_prop in H as [H _]. now left.
Qed.

(* ---------- unquoted and quoted values ---------- *)
Lemma lex_unquoted_app v rest :
  forallb (fun c => negb (reserved c)) v = true -> stop_res rest -> lex_unquoted (v ++ rest) = (v, rest).
Proof.
  induction v as [|c v IH]; cbn [app forallb lex_unquoted]; intros Hv Hs.
  - destruct rest as [|c r]; [reflexivity|]. cbn in Hs. cbn [lex_unquoted]. now rewrite Hs.
  - apply andb_prop in Hv as [Hc Hv]. apply negb_true_iff in Hc. rewrite Hc, (IH Hv Hs). reflexivity.
Qed.

Lemma lex_quoted_escape q v rest : (q =? BS)%N = false ->
  lex_quoted q (escape q v ++ q :: rest) = Some (v, rest).
Proof.
  intros Hq. induction v as [|c v IH].
  - cbn [escape flat_map app lex_quoted]. now rewrite Hq, N.eqb_refl.
  - unfold escape in *. cbn [flat_map].
    destruct ((c =? q) || (c =? BS))%N eqn:E.
    + cbn [app lex_quoted]. rewrite N.eqb_refl, E, IH. reflexivity.
    + apply orb_false_elim in E as [E1 E2]. cbn [app lex_quoted]. now rewrite E2, E1, IH.
Qed.

Definition quote_char (st : qstyle) : N := match st with Sq => SQ | _ => DQ end.

Lemma print_value_quoted st v : st <> Unq ->
  print_value st v = quote_char st :: escape (quote_char st) v ++ [quote_char st].
Proof. destruct st; [congruence| |]; reflexivity. Qed.

Lemma unquoted_head v : unquoted_ok v -> exists c t, v = c :: t /\ reserved c = false /\ is_quote c = false.
Proof.
  intros (Hne & Hr & Hq). destruct v as [|c t]; [congruence|]. exists c, t. split; [reflexivity|].
  cbn [forallb] in Hr. apply andb_prop in Hr as [Hc _]. apply negb_true_iff in Hc. auto.
Qed.

Lemma unquoted_last v : v <> [] -> exists l, rev v = l :: tl (rev v) /\ forall d, last_of d v = Some l.
Proof.
  intros Hne. unfold last_of. destruct (rev v) as [|l t] eqn:E.
  - apply (f_equal (@rev N)) in E. rewrite rev_involutive in E. now subst.
  - exists l. auto.
Qed.

(* a printed pattern is read back, and the last consumed character is the last printed one *)
Lemma lex_pattern_print st v rest : value_ok st v -> (st = Unq -> stop_res rest) ->
  exists l, lex_pattern (print_value st v ++ rest) = Ok (v, l, rest) /\
            forall d, last_of d (print_value st v) = Some l.
Proof.
  intros Hv Hs. destruct st.
  - cbn [print_value]. cbn [value_ok] in Hv. pose proof Hv as (Hne & Hr & _).
    destruct (unquoted_head v Hv) as (c & t & -> & Hc & Hq).
    destruct (unquoted_last (c :: t) Hne) as (l & El & Hl). exists l. split; [|exact Hl].
    unfold lex_pattern. cbn [app]. rewrite Hq.
    change (c :: t ++ rest) with ((c :: t) ++ rest). rewrite (lex_unquoted_app _ _ Hr (Hs eq_refl)).
    rewrite El. reflexivity.
  - exists SQ. split; [|intros d; apply (last_of_snoc d (SQ :: escape SQ v))].
    cbn [print_value]. unfold lex_pattern. cbn [app]. change (is_quote SQ) with true. cbv iota.
    rewrite <- app_assoc. cbn [app]. now rewrite lex_quoted_escape.
  - exists DQ. split; [|intros d; apply (last_of_snoc d (DQ :: escape DQ v))].
    cbn [print_value]. unfold lex_pattern. cbn [app]. change (is_quote DQ) with true. cbv iota.
    rewrite <- app_assoc. cbn [app]. now rewrite lex_quoted_escape.
Qed.

Lemma lex_key_print st k rest : k <> [] -> value_ok st k ->
  lex_key (print_value st k ++ AT :: rest) = Ok (k, AT :: rest).
Proof.
  intros Hne Hv. destruct st.
  - cbn [print_value]. cbn [value_ok] in Hv. pose proof Hv as (_ & Hr & _).
    destruct (unquoted_head k Hv) as (c & t & -> & Hc & Hq).
    unfold lex_key. cbn [app]. rewrite Hq.
    change (c :: t ++ AT :: rest) with ((c :: t) ++ AT :: rest).
    rewrite (lex_unquoted_app _ _ Hr); [reflexivity|]. reflexivity.
  - cbn [print_value]. unfold lex_key. cbn [app]. change (is_quote SQ) with true. cbv iota.
    rewrite <- app_assoc. cbn [app]. rewrite lex_quoted_escape by reflexivity.
    destruct k; [congruence|reflexivity].
  - cbn [print_value]. unfold lex_key. cbn [app]. change (is_quote DQ) with true. cbv iota.
    rewrite <- app_assoc. cbn [app]. rewrite lex_quoted_escape by reflexivity.
    destruct k; [congruence|reflexivity].
Qed.

(* ---------- keywords never match a printed atom ---------- *)
Lemma kw_nonres k : forallb (fun c => negb (reserved c)) (kw_str k) = true.
Proof. destruct k; reflexivity. Qed.

Lemma str_eqb_true a : forall b, str_eqb a b = true -> a = b.
Proof.
  induction a as [|c a IH]; intros [|d b]; cbn; try congruence.
  intros H. apply andb_prop in H as [H1 H2]. apply N.eqb_eq in H1 as ->. f_equal. now apply IH.
Qed.
Lemma str_eqb_same a : str_eqb a a = true.
Proof. induction a as [|c a IH]; cbn; [reflexivity|]. now rewrite N.eqb_refl, IH. Qed.

Lemma not_kw_text v k : is_kw_text v = false -> v <> kw_str k.
Proof.
  unfold is_kw_text. intros H ->. destruct k; cbn in H; discriminate.
Qed.

Lemma forallb_app_l {A} (f : A -> bool) a b : forallb f (a ++ b) = true -> forallb f a = true /\ forallb f b = true.
Proof. rewrite forallb_app. apply andb_prop. Qed.

(* a well-formed unquoted value followed by a stopper is not taken for keyword k *)
Lemma one_kw_miss k v rest :
  v <> [] -> forallb (fun c => negb (reserved c)) v = true -> v <> kw_str k -> stop_res rest ->
  match starts (kw_str k) (v ++ rest) with Some r => boundary_after r = false | None => True end.
Proof.
  intros Hne Hnr Hk Hs.
  destruct (starts (kw_str k) (v ++ rest)) as [r|] eqn:E; [|exact I].
  apply starts_inv in E. apply app_eq_app in E as [l [[Hp Hr]|[Hkk Hr]]].
  - (* v = kw ++ l *) destruct l as [|c l].
    + rewrite app_nil_r in Hp. contradiction.
    + subst r. cbn [app boundary_after]. rewrite Hp in Hnr. apply forallb_app_l in Hnr as [_ Hl].
      cbn [forallb] in Hl. apply andb_prop in Hl as [Hc _].
      apply negb_true_iff in Hc. unfold reserved in Hc.
      apply orb_false_elim in Hc as [Hc _]. apply orb_false_elim in Hc as [Hc Hlp].
      apply orb_false_elim in Hc as [Hsp _]. now rewrite Hlp, Hsp.
  - (* kw = v ++ l, rest = l ++ r *) destruct l as [|c l].
    + rewrite app_nil_r in Hkk. symmetry in Hkk. contradiction.
    + exfalso. pose proof (kw_nonres k) as Hkn. rewrite Hkk in Hkn. apply forallb_app_l in Hkn as [_ Hl].
      cbn [forallb] in Hl. apply andb_prop in Hl as [Hc _]. apply negb_true_iff in Hc.
      rewrite Hr in Hs. cbn [app stop_res] in Hs. congruence.
Qed.

Lemma find_kw_unquoted ks v rest :
  unquoted_ok v -> is_kw_text v = false -> stop_res rest -> find_kw ks (v ++ rest) = None.
Proof.
  intros (Hne & Hnr & _) Hk Hs. induction ks as [|k ks IH]; cbn [find_kw]; [reflexivity|].
  pose proof (one_kw_miss k v rest Hne Hnr (not_kw_text v k Hk) Hs) as H.
  destruct (starts (kw_str k) (v ++ rest)); [rewrite H|]; exact IH.
Qed.

Lemma one_kw_miss_rp k v r' :
  v <> [] -> forallb (fun c => negb (reserved c)) v = true ->
  match starts (kw_str k) (v ++ RP :: r') with Some r => boundary_after r = false | None => True end.
Proof.
  intros Hne Hnr. destruct (list_eq_dec N.eq_dec v (kw_str k)) as [->|Hd].
  - now rewrite starts_app.
  - apply one_kw_miss; auto. reflexivity.
Qed.

Lemma find_kw_before_rp ks v r' :
  v <> [] -> forallb (fun c => negb (reserved c)) v = true -> find_kw ks (v ++ RP :: r') = None.
Proof.
  intros Hne Hnr. induction ks as [|k ks IH]; cbn [find_kw]; [reflexivity|].
  pose proof (one_kw_miss_rp k v r' Hne Hnr) as H.
  destruct (starts (kw_str k) (v ++ RP :: r')); [rewrite H|]; exact IH.
Qed.

Definition kw_initial (c : N) : bool := ((c =? 97) || (c =? 110) || (c =? 111))%N.
Lemma find_kw_other_head ks c t : kw_initial c = false -> find_kw ks (c :: t) = None.
Proof.
  unfold kw_initial. intros H. apply orb_false_elim in H as [H Ho]. apply orb_false_elim in H as [Ha Hn].
  induction ks as [|k ks IH]; cbn [find_kw]; [reflexivity|].
  assert (starts (kw_str k) (c :: t) = None) as ->; [|exact IH].
  assert (Ha' : (97 =? c)%N = false) by now rewrite N.eqb_sym.
  assert (Hn' : (110 =? c)%N = false) by now rewrite N.eqb_sym.
  assert (Ho' : (111 =? c)%N = false) by now rewrite N.eqb_sym.
  destruct k.
  - change (kw_str KAnd) with [97; 110; 100]%N. cbn [starts]. now rewrite Ha'.
  - change (kw_str KNot) with [110; 111; 116]%N. cbn [starts]. now rewrite Hn'.
  - change (kw_str KOr) with [111; 114]%N. cbn [starts]. now rewrite Ho'.
Qed.

(* ---------- simple expressions ---------- *)
Lemma first_prefix_no_at c t : (c =? AT)%N = false -> first_prefix prefixes (c :: t) = None.
Proof.
  intros H. assert (H' : (AT =? c)%N = false) by now rewrite N.eqb_sym.
  unfold AT in H'. cbn -[N.eqb]. now rewrite H'.
Qed.

Section Simple.
  Variable V : variants.
  Variable compile : atom -> cres.

  Lemma print_atom_head al a st : atom_okx al a st ->
    (exists c t, print_atom a st = c :: t /\ is_space c = false /\ (c =? LP)%N = false /\ kw_initial c = false) \/
    (st_short st = true /\ st_pat st = Unq).
  Proof.
    intros [Hv Hk]. unfold print_atom. destruct (st_short st) eqn:Es.
    - destruct (st_pat st) eqn:Ep; [right; auto| |]; left.
      + exists SQ, (escape SQ (a_pat a) ++ [SQ]). repeat split; reflexivity.
      + exists DQ, (escape DQ (a_pat a) ++ [DQ]). repeat split; reflexivity.
    - left. destruct (a_key a).
      + eexists AT, _. split; [reflexivity|repeat split; reflexivity].
      + eexists AT, _. split; [reflexivity|repeat split; reflexivity].
  Qed.

  Lemma simple_print al a st rest :
    atom_okx al a st -> (al = true -> bare_keyword_atom V = true) ->
    compile a = COk -> (st_pat st = Unq -> stop_res rest) ->
    exists l, simple V compile (print_atom a st ++ rest) = Ok (a, l, rest) /\
              forall d, last_of d (print_atom a st) = Some l.
  Proof.
    intros [Hv Hk] Hal Hc Hs.
    destruct (lex_pattern_print (st_pat st) (a_pat a) rest Hv Hs) as (l & Hl & Hlast).
    exists l. unfold print_atom. destruct (st_short st) eqn:Es.
    - (* shorthand *)
      destruct Hk as (Hkey & Hty & Hcs & Hkw). split; [|exact Hlast].
      assert (Hhead : exists c t, print_value (st_pat st) (a_pat a) ++ rest = c :: t /\ (c =? AT)%N = false /\
                        (is_quote c = true \/ st_pat st = Unq)).
      { destruct (st_pat st) eqn:Ep.
        - cbn [value_ok] in Hv. destruct (unquoted_head _ Hv) as (c & t & Ev & Hr & Hq).
          cbn [print_value]. rewrite Ev. exists c, (t ++ rest). split; [reflexivity|]. split; [|now right].
          unfold reserved in Hr. apply orb_false_elim in Hr as [Hr _]. apply orb_false_elim in Hr as [Hr _].
          now apply orb_false_elim in Hr as [_ Hr].
        - eexists _, _. cbn [print_value app]. split; [reflexivity|]. split; [reflexivity|now left].
        - eexists _, _. cbn [print_value app]. split; [reflexivity|]. split; [reflexivity|now left]. }
      destruct Hhead as (c & t & Eh & Hat & Hq). unfold simple. rewrite Eh, (first_prefix_no_at c t Hat), Hat, <- Eh, Hl.
      cbn [bind].
      assert (negb (bare_keyword_atom V) && negb (is_quote c) && is_kw_text (a_pat a) = false) as ->.
      { destruct Hq as [Hq|Hq]; [rewrite Hq; now rewrite andb_false_r|].
        destruct al; [now rewrite Hal|]. rewrite (Hkw Hq eq_refl). now rewrite andb_false_r. }
      unfold compile_unqualified.
      assert (Ea : {| a_key := None; a_type := TGlob; a_cs := false; a_pat := a_pat a |} = a).
      { destruct a as [k ty cs p]; cbn in *. now subst. }
      rewrite Ea, Hc. reflexivity.
    - (* qualified *)
      destruct a as [[k|] ty cs p]; cbn [a_key a_type a_cs a_pat] in *.
      + destruct Hk as [Hkne Hkv]. split.
        * unfold simple, opt_str. cbn [a_cs].
          pose proof (lex_key_print (st_key st) k (print_value (st_pat st) p ++ rest) Hkne Hkv) as Hkey.
          destruct ty, cs; [destruct (st_slash st)| |destruct (st_slash st)| |destruct (st_slash st)|];
            cbn [type_str lit map list_ascii_of_string app first_prefix prefixes starts Ascii.N_of_ascii];
            cbn; rewrite <- ?app_assoc; cbn [app];
            rewrite <- ?app_assoc, Hkey; cbn [bind expect]; rewrite N.eqb_refl; cbn [bind]; rewrite Hl; cbn [bind];
            unfold compile_qualified; rewrite Hc; reflexivity.
        * intros d. rewrite !last_of_app. rewrite last_of_cons, last_of_app, last_of_cons. apply Hlast.
      + split.
        * unfold simple, opt_str. cbn [a_cs].
          destruct ty, cs; [destruct (st_slash st)| |destruct (st_slash st)| |destruct (st_slash st)|];
            cbn [type_str lit map list_ascii_of_string app first_prefix prefixes starts Ascii.N_of_ascii];
            cbn; rewrite <- ?app_assoc; cbn [app];
            rewrite ?Hl; cbn [bind];
            unfold compile_qualified; rewrite Hc; reflexivity.
        * intros d. rewrite !last_of_app. rewrite last_of_cons. apply Hlast.
  Qed.

  (* a printed atom is not mistaken for a keyword *)
  Lemma find_kw_print_atom ks al a st rest : atom_okx al a st -> (st_pat st = Unq -> stop_res rest) ->
    (al = true -> exists r', rest = RP :: r') ->
    find_kw ks (print_atom a st ++ rest) = None.
  Proof.
    intros Hok Hs Hrp. destruct (print_atom_head al a st Hok) as [(c & t & E & _ & _ & Hk)|[Hsh Hp]].
    - rewrite E. cbn [app]. now apply find_kw_other_head.
    - destruct Hok as [Hv Hk]. unfold print_atom. rewrite Hsh in *. rewrite Hp in *. cbn [print_value value_ok] in *.
      destruct Hk as (_ & _ & _ & Hkw).
      destruct al.
      + destruct (Hrp eq_refl) as (r' & ->). destruct Hv as (Hne & Hnr & _). now apply find_kw_before_rp.
      + apply find_kw_unquoted; auto.
  Qed.
End Simple.
