From Coq Require Import ExtrOcamlBasic.
From Coq Require Extraction.
From VF Require Import Base.Sx C17.Entry.
Definition main := wrap entry.
Extraction "../ocaml/gen/c17_model.ml" main.
