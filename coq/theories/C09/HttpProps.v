(* C09, HTTP part: property theorems.  Only statements closed by lemmas of Http/ClassifyProofs.v. *)
From Coq Require Import String.
From Coq Require Import List NArith ZArith Bool Arith.
From VF Require Import Base.Sx Http.Response Http.Emit Http.EmitProofs Http.Classify Http.ClassifyProofs C09.HttpEntry.
Import ListNotations.
Open Scope N_scope.

(* For EVERY byte string a client sends to the HTTP port - with or without shutting down its sending side -
   and every list of request handlers whose prepare_context/can_handle are total predicates on the path,
   the reaction is one of:
   * nothing is sent and the connection is closed;
   * the server keeps reading - only if the client has NOT shut down (the head is incomplete);
   * one of http.server's own error answers, code 400, 414, 431, 501 or 505;
   * the answer of _delegate_request: a response record that is well-formed and to which the bytes on the
     wire parse back under the strict parser of C03 (or, for an HTTP/0.9 request, exactly its body),
     and an exception is logged (the `except Exception` branches) only if some handler is faulty for some
     path: its prepare_context raises, its handle raises, or it returns a failing stream. *)
Theorem C09_http_total : forall e hs eof data, env_ok e = true -> hspecs_ok hs = true ->
  match react e hs eof data with
  | RClosed => True
  | RWait => eof = false
  | REnvError _ c _ => In c [400; 414; 431; 501; 505]
  | RVinegar simple w resp internal =>
      response_ok resp = true /\
      (simple = false -> parse_response w = Some resp) /\
      (simple = true -> w = r_body resp) /\
      (internal = true -> exists h path, In h hs /\ faulty path h = true)
  end.
Proof. exact http_total. Qed.
Print Assumptions C09_http_total.

(* client bytes alone never reach the catch-all: if no handler is faulty, no byte string makes
   _delegate_request log an exception *)
Theorem C09_http_no_internal_error : forall e hs eof data,
  (forall h path, In h hs -> faulty path h = false) -> internal_of (react e hs eof data) = false.
Proof. exact http_no_internal_error. Qed.
Print Assumptions C09_http_no_internal_error.

(* every verdict of the request-head reader: it never blocks after the client's shutdown; a dispatched
   method is one of GET HEAD POST PUT DELETE *)
Theorem C09_http_head_total : forall eof data,
  match parse_head eof data with
  | HClose => True
  | HWait => eof = false
  | HError _ c _ => In c [400; 414; 431; 501; 505]
  | HDispatch _ m _ => is_method m = true
  end.
Proof. exact parse_head_ok. Qed.
Print Assumptions C09_http_head_total.

(* a target that does not start with "/" or contains NUL gets the 400 error response, no handler is
   consulted, nothing is logged *)
Theorem C09_http_bad_path_400 : forall e hs simple m path, bad_path path = true ->
  exists w, vinegar_react e hs simple m path = RVinegar simple w (error_response (set_head e m) 400) false /\
            (simple = false -> parse_response w = Some (error_response (set_head e m) 400) \/ env_ok e = false).
Proof. exact bad_path_400. Qed.
Print Assumptions C09_http_bad_path_400.

(* no handler accepts the path: the 404 error response, nothing is logged *)
Theorem C09_http_no_handler_404 : forall e hs simple m path, bad_path path = false ->
  (forall h, In h hs -> h_pred h path = false /\ h_boom h path = false) ->
  exists w, vinegar_react e hs simple m path = RVinegar simple w (error_response (set_head e m) 404) false.
Proof. exact no_handler_404. Qed.
Print Assumptions C09_http_no_handler_404.

(* a syntactically sound head - method, target, version tokens without white space, an acceptable
   version, a known method, up to 99 header lines without LF - reaches _delegate_request with the
   target as written (up to the collapsing of a leading "//"), whatever the header lines say
   (Content-Length, Transfer-Encoding, Expect, ...) and whatever follows the head *)
Theorem C09_http_structured_head : forall e hs eof m t v lines body,
  token m = true -> token t = true -> token v = true ->
  check_version v = VOk -> is_method m = true ->
  blen m + blen t + blen v + 4 <= MAXLINE ->
  forallb header_line_ok lines = true -> (length lines <= 99)%nat ->
  react e hs eof (render_head m t v lines ++ body) = vinegar_react e hs (beqb v S_HTTP09) m (collapse t).
Proof. exact structured_head_dispatch. Qed.
Print Assumptions C09_http_structured_head.

(* the executable checker accepts the model whenever no handler raises *)
Lemma wobs_eqb_refl w : wobs_eqb w w = true.
Proof. destruct w; cbn; auto using N.eqb_refl, beqb_refl. Qed.

Theorem C09_http_holds : forall c, http_valid c -> http_holds c (http_model c) = [].
Proof.
  intros c Hv. unfold http_holds. rewrite wobs_eqb_refl.
  unfold http_model at 1. cbn [ho_internal].
  rewrite (http_no_internal_error _ _ _ _ Hv). reflexivity.
Qed.
Print Assumptions C09_http_holds.

(* examples (vm_compute): "GET a HTTP/1.0" -> 400 by vinegar; "BREW / HTTP/1.0" -> 501; "GET / HTTP/2.0" -> 505
   without status line; an unterminated head with the connection open -> wait, after shutdown -> dispatched *)
Definition ex_env : env := {| e_server := [83]; e_date := [68]; e_responses := []; e_head := false |}.
Definition ex_hs : list hspec := [{| h_pred := fun p => beqb p (bytes_of_string "/f"); h_boom := fun _ => false; h_act := HReturn 200 None None |}].
Example C09_http_examples :
  observe (react ex_env ex_hs true (bytes_of_string "GET a HTTP/1.0" ++ [13; 10; 13; 10])) = OResponse 400 /\
  observe (react ex_env ex_hs true (bytes_of_string "GET /f HTTP/1.0" ++ [13; 10; 13; 10])) = OResponse 200 /\
  observe (react ex_env ex_hs true (bytes_of_string "GET /g HTTP/1.1" ++ [13; 10; 13; 10])) = OResponse 404 /\
  observe (react ex_env ex_hs true (bytes_of_string "BREW / HTTP/1.0" ++ [13; 10; 13; 10])) = OResponse 501 /\
  observe (react ex_env ex_hs true (bytes_of_string "GET / HTTP/2.0" ++ [13; 10; 13; 10])) = OSimple /\
  observe (react ex_env ex_hs false (bytes_of_string "GET /f HTTP/1.0" ++ [13; 10])) = OHang /\
  observe (react ex_env ex_hs true (bytes_of_string "GET /f HTTP/1.0" ++ [13; 10])) = OResponse 200 /\
  observe (react ex_env ex_hs true [13; 10]) = OClosed.
Proof. repeat split; vm_compute; reflexivity. Qed.
