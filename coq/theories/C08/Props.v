(* C08 - Netascii conversion is correct and independent of block and read boundaries.
   Property theorems only; each is closed by a lemma from the proof files. *)
From Coq Require Import String.
From Coq Require Import List NArith Bool Arith Lia.
From VF Require Import Tftp.Readers Tftp.ReadersProofs Tftp.Codec Tftp.CodecProofs C08.Entry.
Import ListNotations.

(* For every content, every pattern of short reads and every block size the
   DATA payloads are the block framing of the whole-buffer conversion. *)
Theorem C08_netascii_streaming : forall bs content ch, (1 <= bs)%nat ->
  netascii_blocks false bs content ch = split_blocks bs (netascii_spec content).
Proof. exact netascii_blocks_spec. Qed.
Print Assumptions C08_netascii_streaming.

Theorem C08_payload : forall bs content ch, (1 <= bs)%nat ->
  concat (netascii_blocks false bs content ch) = netascii_spec content.
Proof. intros. rewrite netascii_blocks_spec by auto. apply split_blocks_concat. Qed.
Print Assumptions C08_payload.

Theorem C08_framing : forall bs content ch, (1 <= bs)%nat ->
  framed bs (netascii_blocks false bs content ch) /\
  length (netascii_blocks false bs content ch) = S (length (netascii_spec content) / bs).
Proof.
  intros. rewrite netascii_blocks_spec by auto.
  split; [apply split_blocks_framed | apply split_blocks_count]; auto.
Qed.
Print Assumptions C08_framing.

Lemma framedb_framed bs bl : framed bs bl -> framedb bs bl = true.
Proof.
  induction bl as [|d r IH]; cbn [framed framedb]; [tauto|].
  destruct r as [|d' r'].
  - intros H. now apply Nat.ltb_lt.
  - intros [H1 H2]. rewrite IH by exact H2. now rewrite H1, Nat.eqb_refl.
Qed.

(* in netascii mode no transfer size is ever announced, whatever the client asks for, whatever
   the server limits and whatever kind of stream the handler returns *)
Theorem C08_netascii_no_tsize : forall lim kind opts,
  announces_tsize (n_oack (negotiate ncurrent lim true kind opts)) = false.
Proof.
  intros. unfold announces_tsize. pose proof (netascii_no_tsize lim kind opts) as H.
  unfold oack_get in H. rewrite H. reflexivity.
Qed.
Print Assumptions C08_netascii_no_tsize.

(* the executable checker used on the implementation's observations accepts the model *)
Theorem C08_holds : forall c, valid c -> holds c (run_model c) = [].
Proof.
  intros [ct ch b v op lm kd] [Hb Hv]; cbn in Hb, Hv; subst v.
  unfold holds, run_model; cbn [content chunking bs always_skip opts lim kind fst snd].
  rewrite (framedb_framed _ _ (proj1 (C08_framing b ct ch Hb))).
  rewrite C08_payload by auto. rewrite C08_netascii_no_tsize. unfold list_N_eqb.
  destruct (list_eq_dec N.eq_dec (netascii_spec ct) (netascii_spec ct)); [reflexivity|congruence].
Qed.
Print Assumptions C08_holds.

Lemma C08_validb_valid c : validb c = true -> valid c.
Proof.
  unfold validb, valid. intros H. apply andb_true_iff in H as [H1 H2].
  split; [apply Nat.leb_le; exact H1|apply negb_true_iff; exact H2].
Qed.
(* where the driver's `covered` flag is 1 the theorem above applies *)
Theorem C08_covered_cases : forall c, validb c = true -> holds c (run_model c) = [].
Proof. intros c H. apply C08_holds. apply C08_validb_valid. exact H. Qed.
Print Assumptions C08_covered_cases.

(* the behaviour before the repair of D4 violates the property *)
Theorem C08_refuted_always_skip :
  exists c, (1 <= bs c)%nat /\ holds c (run_model c) <> [].
Proof.
  exists {| content := [97; 13; 98]%N; chunking := [2; 1]%nat; bs := 8; always_skip := true;
            opts := []; lim := {| max_bs := 65464; max_tmo := 30720; default_tmo := 2048 |}; kind := KNoFileno |}.
  split; [cbn; lia | vm_compute; discriminate].
Qed.

(* non-vacuity: a concrete non-trivial valid case *)
Definition ex8 : case :=
  {| content := [97; 13; 98; 10; 13; 10]%N; chunking := [2; 1; 1]%nat; bs := 3; always_skip := false;
     opts := [(lit "tsize", lit "0")]; lim := {| max_bs := 65464; max_tmo := 30720; default_tmo := 2048 |};
     kind := KBytesIO 6 0 |}.
Example C08_nonvacuous :
  valid ex8 /\ run_model ex8 = ([[97; 13; 10]; [98; 13; 10]; [13; 10]]%N, false).
Proof. split; [split; cbn; [lia|reflexivity] | vm_compute; reflexivity]. Qed.
