(* Executable instantiation of the YAML-target model: table oracles, a concrete injective
   hash, and sx decoding of snapshots and tables.  Shared by C11 and C12. *)
From Coq Require Import List NArith ZArith Bool Arith.
From VF Require Import Base.Sx PyVal.Val PyVal.Codec Merge.Merge Yaml.Target.
Import ListNotations.

(* the executable stand-in for version_for_str: "h" followed by a prefix-free binary code of every
   character (bits of the code point, least significant first, "." for the leading one, "z" for 0):
   injective, never empty, free of "|" and "+" - the hypotheses of the C12 theorems (ExecProofs.v) *)
Fixpoint enc_pos (p : positive) : str :=
  match p with
  | xH => [46%N]
  | xO q => 48%N :: enc_pos q
  | xI q => 49%N :: enc_pos q
  end.
Definition enc_N (n : N) : str := match n with N0 => [122%N] | Npos p => enc_pos p end.
Definition model_H (s : str) : str := 104%N :: flat_map enc_N s.

Definition table_get {A} (tbl : list (str * A)) (s : str) : option A :=
  match find (fun p => str_eqb s (fst p)) tbl with Some p => Some (snd p) | None => None end.
(* an argument the harness did not anticipate shows up as a distinctive error *)
Definition MISSING : exc := OtherError 77.
Definition table_fun {A} (tbl : list (str * res A)) (s : str) : res A :=
  match table_get tbl s with Some r => r | None => Err MISSING end.

Record oracles := {
  o_render : list (str * res str);
  o_yload : list (str * res val);
  o_match : list (str * res bool)
}.

Definition node_of_sx (x : sx) : option (path * node) :=
  match x with
  | L [p; I 0%Z] => option_map (fun p' => (p', Dir)) (asListOf asB p)
  | L [p; I 1%Z; B text] => option_map (fun p' => (p', File text)) (asListOf asB p)
  | L [p; I 2%Z] => option_map (fun p' => (p', Broken)) (asListOf asB p)
  | L [p; I 3%Z] => option_map (fun p' => (p', Unreadable)) (asListOf asB p)
  | _ => None
  end.
Definition tree_of_sx (x : sx) : option fstree := asListOf node_of_sx x.

Definition entry_of_sx {A} (f : sx -> option A) (x : sx) : option (str * res A) :=
  match x with
  | L [B k; r] => option_map (fun r' => (k, r')) (res_of_sx f r)
  | _ => None
  end.
Definition oracles_of_sx (x : sx) : option oracles :=
  match x with
  | L [r; y; m] =>
      match asListOf (entry_of_sx asB) r, asListOf (entry_of_sx val_of_sx) y, asListOf (entry_of_sx asBool) m with
      | Some r', Some y', Some m' => Some {| o_render := r'; o_yload := y'; o_match := m' |}
      | _, _, _ => None
      end
  | _ => None
  end.

Definition s_yaml : str := [46; 121; 97; 109; 108]%N.     (* ".yaml" *)

Definition config_of_sx (x : sx) : option config :=
  match x with
  | L [ae; ml; ms; eng] =>
      match asBool ae, asBool ml, asBool ms, asBool eng with
      | Some a, Some b, Some c, Some d =>
          Some {| allow_empty_top := a; cfg_ml := b; cfg_ms := c; engine_on := d; suffix := s_yaml |}
      | _, _, _, _ => None
      end
  | _ => None
  end.
Definition variants_of_sx (x : sx) : option variants :=
  match x with
  | L [a; b; c; d] =>
      match asBool a, asBool b, asBool c, asBool d with
      | Some a', Some b', Some c', Some d' =>
          Some {| tag_after := a'; rerender := b'; marker_compared := d'; empty_raises := c' |}
      | _, _, _, _ => None
      end
  | _ => None
  end.

(* one call of compile_data / of the specification on a snapshot with table oracles *)
Definition run_compile (V : variants) (C : config) (o : oracles) (t : fstree) (pv : str) (oc : item)
  : res (dict * str * option item) :=
  compile V C model_H (table_fun (o_render o)) (table_fun (o_yload o)) (table_fun (o_match o)) t pv oc.
Definition run_spec (V : variants) (C : config) (o : oracles) (t : fstree) : res dict :=
  get_data_spec V C model_H (table_fun (o_render o)) (table_fun (o_yload o)) (table_fun (o_match o)) t.
Definition run_empty_case (V : variants) (C : config) (o : oracles) (t : fstree) : bool :=
  empty_pieces_case V C model_H (table_fun (o_render o)) (table_fun (o_yload o)) (table_fun (o_match o)) t.
