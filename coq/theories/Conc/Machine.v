(* Generic machine for C19: a pool of threads, each a list of calls on one shared component; a call is a
   straight-line program of atomic micro-steps over (thread-local state, object state, world), lock
   acquire/release included; the world (files) changes only by environment events.  The scheduler is an
   arbitrary list of choices; a choice naming a blocked or finished thread has no effect.
   Definitions only. *)
From Coq Require Import List Arith Bool.
Import ListNotations.

Inductive choice (E : Type) := T (i : nat) | Ev (e : E).
Arguments T {E} i.
Arguments Ev {E} e.

Fixpoint upd {A} (i : nat) (a : A) (l : list A) : list A :=
  match l, i with
  | [], _ => []
  | _ :: r, O => a :: r
  | x :: r, S k => x :: upd k a r
  end.

Section Machine.
  Variables (O W LS Call Res E : Type).

  Inductive mstep :=
    | Acq                                   (* blocks while the lock is held *)
    | Rel
    | Step (f : LS -> O -> W -> LS * O).    (* one atomic access: reads the world, updates local and object state *)

  Variable begin : Call -> LS.
  Variable prog : Call -> list mstep.
  Variable ret : LS -> Res.
  Variable env : E -> W -> W.

  Record thread := { ls : LS; pcl : list mstep; todo : list Call; res : list Res }.
  Record mst := { obj : O; world : W; lock : option nat; threads : list thread }.

  (* the program the thread is about to continue: the rest of the current call, or the next call *)
  Definition cur_prog (t : thread) : option (LS * list mstep) :=
    match pcl t with
    | _ :: _ => Some (ls t, pcl t)
    | [] => match todo t with
            | c :: _ => Some (begin c, prog c)
            | [] => None
            end
    end.

  Definition finish (t : thread) (l : LS) (rest : list mstep) : thread :=
    match rest with
    | [] => {| ls := l; pcl := []; todo := tl (todo t); res := res t ++ [ret l] |}
    | _ => {| ls := l; pcl := rest; todo := todo t; res := res t |}
    end.

  Definition tstep (s : mst) (i : nat) : option mst :=
    match nth_error (threads s) i with
    | None => None
    | Some t =>
        match cur_prog t with
        | None => None
        | Some (l, []) => Some {| obj := obj s; world := world s; lock := lock s;
                                  threads := upd i (finish t l []) (threads s) |}
        | Some (l, Acq :: rest) =>
            match lock s with
            | Some _ => None
            | None => Some {| obj := obj s; world := world s; lock := Some i;
                              threads := upd i (finish t l rest) (threads s) |}
            end
        | Some (l, Rel :: rest) =>
            Some {| obj := obj s; world := world s; lock := None;
                    threads := upd i (finish t l rest) (threads s) |}
        | Some (l, Step f :: rest) =>
            let '(l', o') := f l (obj s) (world s) in
            Some {| obj := o'; world := world s; lock := lock s;
                    threads := upd i (finish t l' rest) (threads s) |}
        end
    end.

  Definition step (s : mst) (ch : choice E) : option mst :=
    match ch with
    | T i => tstep s i
    | Ev e => Some {| obj := obj s; world := env e (world s); lock := lock s; threads := threads s |}
    end.

  Fixpoint run (s : mst) (sch : list (choice E)) : mst :=
    match sch with
    | [] => s
    | ch :: r => match step s ch with Some s' => run s' r | None => run s r end
    end.

  Variable ls0 : LS.
  Definition init (o : O) (w : W) (calls : list (list Call)) : mst :=
    {| obj := o; world := w; lock := None;
       threads := map (fun cs => {| ls := ls0; pcl := []; todo := cs; res := [] |}) calls |}.

  Definition tdone (t : thread) : bool :=
    match pcl t, todo t with [], [] => true | _, _ => false end.
  Definition all_done (s : mst) : bool := forallb tdone (threads s).
  Definition results (s : mst) : list (list Res) := map res (threads s).

  Definition enabled (s : mst) (i : nat) : bool :=
    match tstep s i with Some _ => true | None => false end.
  Definition some_enabled (s : mst) : bool := existsb (enabled s) (seq 0 (length (threads s))).
End Machine.

Arguments Acq {O W LS}.
Arguments Rel {O W LS}.
Arguments Step {O W LS} f.
Arguments ls {O W LS Call Res} _.
Arguments pcl {O W LS Call Res} _.
Arguments todo {O W LS Call Res} _.
Arguments res {O W LS Call Res} _.
Arguments obj {O W LS Call Res} _.
Arguments world {O W LS Call Res} _.
Arguments lock {O W LS Call Res} _.
Arguments threads {O W LS Call Res} _.
