(* Model for C03.
   Part 1 (environment): the buffer discipline of http.server.BaseHTTPRequestHandler
   (CPython 3.12: send_response_only / send_response / send_header / end_headers /
   flush_headers / wfile.write / send_error) for protocol_version "HTTP/1.0" and a
   request version other than HTTP/0.9.
   Part 2: vinegar/http/server.py:_DelegatingRequestHandler._delegate_request as written.
   Definitions only; proofs are in EmitProofs.v. *)
From Coq Require Import String.
From Coq Require Import List NArith ZArith Bool Arith.
From VF Require Import Base.Sx Http.Response.
Import ListNotations.
Open Scope N_scope.

(* ---------- environment ---------- *)

(* what the handler object knows: version_string(), date_time_string() (one value per request,
   canonicalised by the harness), the `responses` table (code -> phrase, description) and whether
   self.command == 'HEAD' *)
Record env := { e_server : bytes; e_date : bytes; e_responses : list (N * (bytes * bytes)); e_head : bool }.

(* _headers_buffer, the bytes that reached the socket (wfile is unbuffered), and the number of
   status lines produced so far *)
Record hst := { pending : bytes; wire : bytes; nlines : nat }.
Definition init : hst := {| pending := []; wire := []; nlines := 0 |}.

Fixpoint lookup (code : N) (t : list (N * (bytes * bytes))) : option (bytes * bytes) :=
  match t with
  | [] => None
  | (k, v) :: r => if k =? code then Some v else lookup code r
  end.

Definition S_Server := bytes_of_string "Server".
Definition S_Date := bytes_of_string "Date".
Definition S_Connection := bytes_of_string "Connection".
Definition S_close := bytes_of_string "close".
Definition S_ContentType := bytes_of_string "Content-Type".
Definition S_ContentLength := bytes_of_string "Content-Length".
Definition S_html := bytes_of_string "text/html;charset=utf-8".
Definition S_unknown := bytes_of_string "???".

Definition send_response_only (e : env) (code : N) (message : option bytes) (st : hst) : hst :=
  let msg := match message with
             | Some m => m
             | None => match lookup code (e_responses e) with Some (short, _) => short | None => [] end
             end in
  {| pending := pending st ++ status_line code msg; wire := wire st; nlines := S (nlines st) |}.

Definition send_header (st : hst) (h : header) : hst :=
  {| pending := pending st ++ hdr_line h; wire := wire st; nlines := nlines st |}.

Definition send_response (e : env) (code : N) (message : option bytes) (st : hst) : hst :=
  send_header (send_header (send_response_only e code message st) (S_Server, e_server e)) (S_Date, e_date e).

(* end_headers = append CRLF, flush_headers *)
Definition end_headers (st : hst) : hst :=
  {| pending := []; wire := wire st ++ pending st ++ CRLF; nlines := nlines st |}.

Definition wfile_write (d : bytes) (st : hst) : hst :=
  {| pending := pending st; wire := wire st ++ d; nlines := nlines st |}.

(* html.escape(s, quote=False) *)
Definition html_escape (s : bytes) : bytes :=
  flat_map (fun c => if c =? 38 then bytes_of_string "&amp;"
                     else if c =? 60 then bytes_of_string "&lt;"
                     else if c =? 62 then bytes_of_string "&gt;" else [c]) s.

Definition PAGE1 := bytes_of_string "<!DOCTYPE HTML>
<html lang=""en"">
    <head>
        <meta charset=""utf-8"">
        <title>Error response</title>
    </head>
    <body>
        <h1>Error response</h1>
        <p>Error code: ".
Definition PAGE2 := bytes_of_string "</p>
        <p>Message: ".
Definition PAGE3 := bytes_of_string ".</p>
        <p>Error code explanation: ".
Definition PAGE4 := bytes_of_string " - ".
Definition PAGE5 := bytes_of_string ".</p>
    </body>
</html>
".

(* error_message_format % {code, message, explain} *)
Definition error_page (code : N) (message explain : bytes) : bytes :=
  PAGE1 ++ dec code ++ PAGE2 ++ html_escape message ++ PAGE3 ++ dec code ++ PAGE4 ++ html_escape explain ++ PAGE5.

Definition error_texts (e : env) (code : N) : bytes * bytes :=
  match lookup code (e_responses e) with Some p => p | None => (S_unknown, S_unknown) end.

Definition has_error_body (code : N) : bool :=
  (200 <=? code) && negb ((code =? 204) || (code =? 205) || (code =? 304)).

(* the headers send_error adds after Server and Date *)
Definition error_headers (e : env) (code : N) : list header :=
  let (short, long) := error_texts e code in
  (S_Connection, S_close) ::
  (if has_error_body code
   then [(S_ContentType, S_html); (S_ContentLength, dec (N.of_nat (length (error_page code short long))))]
   else []).

(* send_error(code) with message=None, explain=None *)
Definition send_error (e : env) (code : N) (st : hst) : hst :=
  let (short, long) := error_texts e code in
  let st := send_response e code (Some short) st in
  let st := fold_left send_header (error_headers e code) st in
  let st := end_headers st in
  if has_error_body code && negb (e_head e) then wfile_write (error_page code short long) st else st.

(* ---------- _delegate_request ---------- *)

(* what handler.handle does: raise, or return (status, headers, body);
   headers: None | dict in insertion order; body: None | stream delivering [data] and then either
   end of file or an exception from read() *)
Inductive hact :=
| HRaise
| HReturn (status : N) (hdrs : option (list header)) (body : option (bytes * bool)).

Record handler := { prep_raises : bool; can_raises : bool; can : bool; act : hact }.

(* result of the try block: normal completion, or an exception caught by the outer except
   with the value of response_started at that moment *)
Inductive outcome := Fin (st : hst) | Exn (started : bool) (st : hst).

Definition falsy (h : option (list header)) : bool :=
  match h with None => true | Some [] => true | Some _ => false end.

(* [old] = behaviour before fix 67d5531: end_headers() inside `if headers is not None` *)
Definition emit_result (old : bool) (e : env) (status : N) (hdrs : option (list header))
           (body : option (bytes * bool)) (st : hst) : outcome :=
  if (400 <=? status) && falsy hdrs && (match body with None => true | Some _ => false end)
  then Fin (send_error e status st)
  else
    let st := send_response e status None st in
    let st := match hdrs with
              | Some l => let st' := fold_left send_header l st in if old then end_headers st' else st'
              | None => st
              end in
    let st := if old then st else end_headers st in
    match body with
    | None => Fin st
    | Some (data, fails) =>
        let st := wfile_write data st in
        if fails then Exn true st else Fin st
    end.

Fixpoint handler_loop (old : bool) (e : env) (hs : list handler) (st : hst) : outcome :=
  match hs with
  | [] => Fin (send_error e 404 st)
  | h :: r =>
      if prep_raises h then Exn false st
      else if can_raises h then Exn false st
      else if can h then
        match act h with
        | HRaise => Fin (send_error e 500 st)
        | HReturn s hd b => emit_result old e s hd b st
        end
      else handler_loop old e r st
  end.

Definition bad_path (path : bytes) : bool :=
  negb (match path with 47 :: _ => true | _ => false end) || existsb (N.eqb 0) path.

Definition delegate (old : bool) (e : env) (path : bytes) (hs : list handler) : hst :=
  if bad_path path then send_error e 400 init
  else match handler_loop old e hs init with
       | Fin st => st
       | Exn started st => if started then st else send_error e 500 st
       end.

(* ---------- what the client is meant to receive (specification) ---------- *)

Definition std_headers (e : env) : list header := [(S_Server, e_server e); (S_Date, e_date e)].

Definition error_response (e : env) (code : N) : response :=
  let (short, long) := error_texts e code in
  {| r_code := code; r_reason := short;
     r_headers := std_headers e ++ error_headers e code;
     r_body := if has_error_body code && negb (e_head e) then error_page code short long else [] |}.

Definition phrase (e : env) (code : N) : bytes :=
  match lookup code (e_responses e) with Some (short, _) => short | None => [] end.

Definition result_response (e : env) (status : N) (hdrs : option (list header)) (body : option (bytes * bool)) : response :=
  if (400 <=? status) && falsy hdrs && (match body with None => true | Some _ => false end)
  then error_response e status
  else {| r_code := status; r_reason := phrase e status;
          r_headers := std_headers e ++ (match hdrs with Some l => l | None => [] end);
          r_body := match body with Some (d, _) => d | None => [] end |}.

Fixpoint expected_loop (e : env) (hs : list handler) : response :=
  match hs with
  | [] => error_response e 404
  | h :: r =>
      if prep_raises h || can_raises h then error_response e 500
      else if can h then
        match act h with
        | HRaise => error_response e 500
        | HReturn s hd b => result_response e s hd b
        end
      else expected_loop e r
  end.

Definition expected (e : env) (path : bytes) (hs : list handler) : response :=
  if bad_path path then error_response e 400 else expected_loop e hs.

(* ---------- side conditions of the theorems (what a handler may return) ---------- *)

Definition response_ok (r : response) : bool :=
  code_ok (r_code r) && nocrlf (r_reason r) && forallb header_ok (r_headers r).

Definition hact_ok (a : hact) : bool :=
  match a with
  | HRaise => true
  | HReturn s hd _ => code_ok s && forallb header_ok (match hd with Some l => l | None => [] end)
  end.
Definition env_ok (e : env) : bool :=
  nocrlf (e_server e) && nocrlf (e_date e) && forallb (fun kv => nocrlf (fst (snd kv))) (e_responses e).
Definition case_ok (e : env) (hs : list handler) : bool :=
  env_ok e && forallb (fun h => hact_ok (act h)) hs.

(* first handler that is asked and accepts raises -> the specified response is the 500 page *)
Fixpoint first_raises (hs : list handler) : bool :=
  match hs with
  | [] => false
  | h :: r =>
      if prep_raises h || can_raises h then true
      else if can h then (match act h with HRaise => true | _ => false end)
      else first_raises r
  end.
