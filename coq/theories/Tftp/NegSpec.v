(* Declarative specification of TFTP option negotiation (RFC 2347-2349) as
   property C07 words it.  It is written independently of Codec.negotiate:
   - the value requested for an option is the value of the LAST pair of the
     request whose name equals the option name case-insensitively;
   - "decimal" means: the string is the decimal print [dec n] of a number
     n >= 1 (no sign, no leading zero, no padding) - defined through printing,
     not through the regular expression and int() of the code;
   - blksize: acknowledged as min(n, max_block_size) iff decimal n >= 8;
   - timeout: acknowledged unchanged iff decimal n with 1 <= n <= max_timeout;
   - tsize: acknowledged iff the client sent "0", the mode is octet and the
     size is known; its value is the number of bytes still to be read.
   CodecProofs.v proves  negotiate ncurrent = spec_negotiated (oack_spec ...).
   Definitions only. *)
From Coq Require Import String.
From Coq Require Import List NArith ZArith Bool.
From VF Require Import Base.Sx Tftp.Codec.
Import ListNotations.
Open Scope N_scope.

(* value of a digit string read as a decimal number (meaningless on other input) *)
Definition digits_value (s : str) : N := fold_left (fun a c => a * 10 + (c - 48)) s 0.

(* [canonical_decimal s = Some n] iff n >= 1 and s is exactly the decimal print of n
   (theorem canonical_decimal_iff) *)
Definition canonical_decimal (s : str) : option N :=
  let n := digits_value s in
  if str_eqb (dec n) s && (1 <=? n) then Some n else None.

(* the value the client requested for [name] (lower-case): last matching pair wins *)
Definition requested (opts : list (str * str)) (name : str) : option str :=
  match find (fun p => str_eqb (lower (fst p)) name) (rev opts) with
  | Some p => Some (snd p)
  | None => None
  end.

(* number of bytes the stream will deliver, when the server can know it *)
Definition size_known (k : stream_kind) : option N :=
  match k with
  | KBytesIO size pos => Some (size - pos)
  | KRealFile size pos true => Some (size - pos)
  | KRealFile _ _ false => None
  | KNoFileno => None
  end.

Record oack := { s_blksize : option N; s_timeout : option N; s_tsize : option N }.

Definition oack_spec (lim : limits) (netascii : bool) (k : stream_kind) (opts : list (str * str)) : oack :=
  {| s_blksize :=
       match requested opts (lit "blksize") with
       | Some s => match canonical_decimal s with
                   | Some n => if 8 <=? n then Some (N.min n (max_bs lim)) else None
                   | None => None
                   end
       | None => None
       end;
     s_timeout :=
       match requested opts (lit "timeout") with
       | Some s => match canonical_decimal s with
                   | Some n => if (1 <=? n) && (n * TICKS_PER_SECOND <=? max_tmo lim) then Some n else None
                   | None => None
                   end
       | None => None
       end;
     s_tsize :=
       match requested opts (lit "tsize") with
       | Some s => if str_eqb s (lit "0") && negb netascii then size_known k else None
       | None => None
       end |}.

Definition accepted_count (o : oack) : nat :=
  (match s_blksize o with Some _ => 1 | None => 0 end +
   match s_timeout o with Some _ => 1 | None => 0 end +
   match s_tsize o with Some _ => 1 | None => 0 end)%nat.

Definition opt_pair (name : string) (v : option N) : list (str * str) :=
  match v with Some n => [(lit name, dec n)] | None => [] end.

(* what the transfer has to use, and the OACK to send ([] = no OACK) *)
Definition spec_negotiated (lim : limits) (o : oack) : negotiated :=
  {| n_bs := match s_blksize o with Some m => m | None => 512 end;
     n_tmo := match s_timeout o with Some t => t * TICKS_PER_SECOND | None => default_tmo lim end;
     n_oack := opt_pair "blksize" (s_blksize o) ++ opt_pair "timeout" (s_timeout o)
               ++ opt_pair "tsize" (s_tsize o) |}.
