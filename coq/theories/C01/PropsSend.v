(* C01, send failures: "any pattern of lost ... packets that stays within the retry budget" read
   for packets that are lost before they leave (sendto itself times out).  Property theorems only,
   closed by Tftp/SendFaultsProofs.v. *)
From Coq Require Import String.
From Coq Require Import List NArith ZArith Bool Arith Lia.
From VF Require Import Tftp.SendFaults Tftp.SendFaultsProofs.
Import ListNotations.
Local Open Scope nat_scope.

(* the model of the retry loops satisfies the checker for EVERY set of failing sends, every number
   of blocks and every retry budget *)
Theorem C01_send_model_holds : forall c, holds_send c (run_send c) = [].
Proof. exact send_model_holds. Qed.
Print Assumptions C01_send_model_holds.

(* if every window of 1 + max_retries consecutive sends contains one that does not fail, the OACK
   (read as block 0, when there is one) and every block go out, in order *)
Theorem C01_send_failures_within_budget_deliver : forall c,
  no_long_run (s_faults c) (s_retries c) ->
  snd (run_send c) = true /\
  sent_ok (fst (run_send c)) = if s_oack c then seq 0 (S (s_blocks c)) else seq 1 (s_blocks c).
Proof. exact send_failures_within_budget_deliver. Qed.
Print Assumptions C01_send_failures_within_budget_deliver.

(* the behaviour before the repair of D23: _send_options_ack sent outside its try, so ONE failed
   OACK send ended the transfer although the budget allowed more - the checker rejects that run *)
Theorem C01_refuted_D23_oack_send_failure :
  let c := {| s_oack := true; s_blocks := 1; s_retries := 2; s_faults := [0] |} in
  run_send_v true c = ([AOack false], false) /\
  holds_send c (run_send_v true c) <> [] /\
  run_send c = ([AOack false; AOack true; AData 1 true], true).
Proof. vm_compute. repeat split; discriminate. Qed.
Print Assumptions C01_refuted_D23_oack_send_failure.

(* non-vacuity: 3 blocks, budget 2, sends 0, 1 and 3 fail: block 1 goes out at the third try,
   block 2 at the second, everything is delivered *)
Example C01_send_example :
  run_send {| s_oack := false; s_blocks := 3; s_retries := 2; s_faults := [0; 1; 3] |} =
  ([AData 1 false; AData 1 false; AData 1 true; AData 2 false; AData 2 true; AData 3 true], true).
Proof. vm_compute. reflexivity. Qed.
(* a DATA send that is NOT retried (the seeded change C01-r6s1) fails the checker *)
Example C01_send_not_retried_refuted :
  holds_send {| s_oack := false; s_blocks := 2; s_retries := 2; s_faults := [1] |}
             ([AData 1 true; AData 2 false], false) <> [].
Proof. vm_compute. discriminate. Qed.
