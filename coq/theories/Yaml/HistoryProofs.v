(* Cache transparency over whole histories and over interleaved calls, for any cache whose get returns
   nothing or something stored under that key (C12; reusable by C19). *)
From Coq Require Import List NArith ZArith Bool Arith Lia.
From VF Require Import PyVal.Val PyVal.ValProofs Merge.Merge Yaml.Target Yaml.TargetProofs Yaml.Cache Yaml.CacheProofs Yaml.Validity.
Import ListNotations.

Section Transparent.
  Variable V : variants.
  Variable C : config.
  Variable H : str -> str.
  Variable yload : str -> res val.
  Variable mo : str -> str -> str -> res bool.
  Hypothesis V_tag : tag_after V = true.
  Hypothesis V_norerender : rerender V = false.
  Hypothesis yload_wf : forall text v, yload text = Ok v -> wf v = true.
  Hypothesis H_inj : forall a b, H a = H b -> a = b.
  Hypothesis H_nobar : forall s, ~ In BAR (H s).
  Hypothesis H_noplus : forall s, ~ In PLUS (H s).
  Hypothesis H_nonempty : forall s, H s <> [].

  (* what a call is specified to return: data and version for the snapshot and context of that call *)
  Definition spec_full_of_call (k : call) : res (dict * str) :=
    spec_full V C H (k_render k) yload (k_match k) (k_tree k).
  (* the call's matcher is the one its system id and preceding-data version stand for *)
  Definition faithful (k : call) : Prop := k_match k = mo (k_sys k) (k_pv k).

  Notation item_cvalid := (item_cvalid V C H yload mo).
  Notation cres_valid := (cres_valid V C H yload).

  (* one compile_data run on a content-valid item *)
  Lemma compile_call_valid k oc : faithful k -> item_cvalid (k_sys k) oc ->
    match compile_call V C H yload k oc with
    | Ok (d, v, o) => spec_full_of_call k = Ok (d, v) /\ cres_valid (d, v) /\
                      match o with Some new => item_cvalid (k_sys k) new | None => True end
    | Err e => spec_full_of_call k = Err e
    end.
  Proof.
    intros Hf Hv. unfold compile_call, spec_full_of_call.
    pose proof (cvalid_usable V C H yload mo V_tag H_inj H_nobar H_noplus H_nonempty (k_sys k) (k_pv k) oc Hv) as Hu.
    pose proof (compile_full V C H (k_render k) yload (k_match k) (k_tree k) (k_pv k) V_norerender yload_wf oc) as Fu.
    rewrite Hf in *. specialize (Fu Hu).
    destruct (compile V C H (k_render k) yload (mo (k_sys k) (k_pv k)) (k_tree k) (k_pv k) oc) as [[[d v] o]|e] eqn:Ec;
      cbn [result_full] in Fu; [|now symmetry].
    split; [now symmetry|].
    eapply (compile_valid V C H yload mo); eauto.
  Qed.

  (* a new source *)
  Lemma fresh_full k : faithful k -> fresh_result V C H yload k = spec_full_of_call k.
  Proof.
    intros Hf. unfold fresh_result. pose proof (compile_call_valid k empty_item Hf (item_cvalid_empty _ _ _ _ _ _)) as P.
    destruct (compile_call V C H yload k empty_item) as [[[d v] o]|e]; [now destruct P as [-> _] | now symmetry].
  Qed.

  Lemma spec_full_cres k d v : faithful k -> spec_full_of_call k = Ok (d, v) -> cres_valid (d, v).
  Proof.
    intros Hf E. pose proof (compile_call_valid k empty_item Hf (item_cvalid_empty _ _ _ _ _ _)) as P.
    destruct (compile_call V C H yload k empty_item) as [[[d' v'] o]|e].
    - destruct P as (E' & Cv & _). rewrite E in E'. now injection E' as <- <-.
    - rewrite E in P. discriminate.
  Qed.

  (* version_tracks_data: two specified results with the same version carry the same data *)
  Theorem spec_version_tracks k k' d v d' v' : faithful k -> faithful k' ->
    spec_full_of_call k = Ok (d, v) -> spec_full_of_call k' = Ok (d', v') -> v = v' -> d = d'.
  Proof.
    intros Hf Hf' E E' Ev.
    pose proof (spec_full_cres k d v Hf E) as A. pose proof (spec_full_cres k' d' v' Hf' E') as B.
    exact (cres_valid_version_tracks V C H yload V_tag H_inj H_nobar H_noplus H_nonempty (d, v) (d', v') A B Ev).
  Qed.

  Section AnyCache.
    Variable S : Type.
    Variable cget : str -> S -> option item * S.
    Variable cset : str -> item -> S -> S.
    (* the cache contract: "stored" is a relation between states, keys and items such that a get returns
       only stored items, and neither get nor set makes anything stored except the item being set *)
    Variable stored : S -> str -> item -> Prop.
    Hypothesis get_sound : forall k st it st', cget k st = (Some it, st') -> stored st k it.
    Hypothesis get_keeps : forall k st o st' k' it, cget k st = (o, st') -> stored st' k' it -> stored st k' it.
    Hypothesis set_keeps : forall k v st k' it, stored (cset k v st) k' it -> (k' = k /\ it = v) \/ stored st k' it.

    Definition cache_valid (st : S) : Prop := forall k it, stored st k it -> item_cvalid k it.

    Lemma step_valid st k : cache_valid st -> faithful k ->
      cache_valid (fst (step_with V C H yload S cget cset st k)) /\
      snd (step_with V C H yload S cget cset st k) = spec_full_of_call k.
    Proof.
      intros Hc Hf. unfold step_with. destruct (cget (k_sys k) st) as [old st1] eqn:Eg.
      assert (Hc1 : cache_valid st1) by (intros k' it Hs; apply Hc; eapply get_keeps; eauto).
      assert (Ho : item_cvalid (k_sys k) (match old with Some it => it | None => empty_item end)).
      { destruct old as [it|]; [|apply item_cvalid_empty]. apply Hc. eapply get_sound; eauto. }
      pose proof (compile_call_valid k _ Hf Ho) as P.
      destruct (compile_call V C H yload k (match old with Some it => it | None => empty_item end)) as [[[d v] [new|]]|e];
        cbn [fst snd].
      - destruct P as (E & _ & Hn). split; [|now symmetry].
        intros k' it Hs. apply set_keeps in Hs as [[-> ->]|Hs]; [exact Hn | now apply Hc1].
      - destruct P as (E & _ & _). split; [exact Hc1 | now symmetry].
      - split; [exact Hc1 | now symmetry].
    Qed.

    (* cache_transparent: every get of every history returns what is specified for that moment *)
    Theorem history_transparent : forall ks st, cache_valid st -> Forall faithful ks ->
      history_with V C H yload S cget cset st ks = map spec_full_of_call ks.
    Proof.
      induction ks as [|k r IH]; intros st Hc Hf; cbn [history_with map]; [reflexivity|].
      inversion Hf as [|? ? Hk Hr]; subst. pose proof (step_valid st k Hc Hk) as [Hc' Er].
      destruct (step_with V C H yload S cget cset st k) as [st' out]. cbn [fst snd] in *. subst out.
      f_equal. now apply IH.
    Qed.

    (* interleaved calls: whatever the order of get-item/compile and set-item events, every call returns
       what is specified for the snapshot it saw, and the cache stays valid *)
    Definition pend_valid (p : pending) : Prop := forall i sys it, In (i, (sys, it)) p -> item_cvalid sys it.

    Theorem events_transparent calls : Forall faithful calls ->
      forall evs st pend, cache_valid st -> pend_valid pend ->
        cache_valid (snd (run_events V C H yload S cget cset calls evs st pend)) /\
        Forall (fun ir => exists k, nth_error calls (fst ir) = Some k /\ snd ir = spec_full_of_call k)
               (fst (run_events V C H yload S cget cset calls evs st pend)).
    Proof.
      intros Hf. induction evs as [|ev r IH]; intros st pend Hc Hp; cbn [run_events].
      - split; [exact Hc | constructor].
      - destruct ev as [i|i].
        + destruct (nth_error calls i) as [k|] eqn:En; [|now apply IH].
          assert (Hk : faithful k) by (rewrite Forall_forall in Hf; apply Hf; eapply nth_error_In; eauto).
          destruct (cget (k_sys k) st) as [old st1] eqn:Eg.
          assert (Hc1 : cache_valid st1) by (intros k' it Hs; apply Hc; eapply get_keeps; eauto).
          assert (Ho : item_cvalid (k_sys k) (match old with Some it => it | None => empty_item end)).
          { destruct old as [it|]; [|apply item_cvalid_empty]. apply Hc. eapply get_sound; eauto. }
          pose proof (compile_call_valid k _ Hk Ho) as P.
          destruct (compile_call V C H yload k (match old with Some it => it | None => empty_item end)) as [[[d v] [new|]]|e].
          * destruct P as (E & _ & Hn).
            assert (Hp' : pend_valid ((i, (k_sys k, new)) :: pend)).
            { intros j sys it [Eq|Hin]; [injection Eq as <- <- <-; exact Hn | eapply Hp; eauto]. }
            specialize (IH st1 _ Hc1 Hp').
            destruct (run_events V C H yload S cget cset calls r st1 ((i, (k_sys k, new)) :: pend)) as [o s'].
            cbn [fst snd] in *. destruct IH as [I1 I2]. split; [exact I1|]. constructor; [|exact I2].
            exists k. cbn [fst snd]. split; [exact En | now symmetry].
          * destruct P as (E & _ & _). specialize (IH st1 pend Hc1 Hp).
            destruct (run_events V C H yload S cget cset calls r st1 pend) as [o s'].
            cbn [fst snd] in *. destruct IH as [I1 I2]. split; [exact I1|]. constructor; [|exact I2].
            exists k. cbn [fst snd]. split; [exact En | now symmetry].
          * specialize (IH st1 pend Hc1 Hp).
            destruct (run_events V C H yload S cget cset calls r st1 pend) as [o s'].
            cbn [fst snd] in *. destruct IH as [I1 I2]. split; [exact I1|]. constructor; [|exact I2].
            exists k. cbn [fst snd]. split; [exact En | now symmetry].
        + destruct (pend_find i pend) as [[sys new]|] eqn:Ef; [|now apply IH].
          apply IH; [|exact Hp]. intros k' it Hs. apply set_keeps in Hs as [[-> ->]|Hs]; [|now apply Hc].
          unfold pend_find in Ef. destruct (find (fun e => Nat.eqb i (fst e)) pend) as [[j [sys' it']]|] eqn:Ff; [|discriminate].
          injection Ef as -> ->. apply find_some in Ff as [Hin _]. eapply Hp; eauto.
    Qed.
  End AnyCache.

  (* ---- the two caches of the code satisfy the contract ---- *)
  Definition lru_stored (st : lru item) (k : str) (it : item) : Prop := In (k, it) st.

  Lemma lru_get_sound' cap k st it st' : cache_get cap k st = (Some it, st') -> lru_stored st k it.
  Proof.
    destruct cap; cbn [cache_get]; [discriminate|]. intros E. apply (lru_get_sound item). now rewrite E.
  Qed.
  Lemma lru_get_keeps' cap k st o st' k' it : cache_get cap k st = (o, st') -> lru_stored st' k' it -> lru_stored st k' it.
  Proof.
    destruct cap; cbn [cache_get]; [intros E; now injection E as <- <-|].
    intros E Hs. apply (lru_get_incl item k st). now rewrite E.
  Qed.
  Lemma lru_set_keeps' cap k v st k' it : lru_stored (lru_set cap k v st) k' it -> (k' = k /\ it = v) \/ lru_stored st k' it.
  Proof.
    intros Hs. apply (lru_set_incl item) in Hs as [E|Hs]; [left; now injection E as -> -> | now right].
  Qed.

  (* cache_transparent for YamlTargetSource.get_data: every history, every cache size (0 = NullCache) *)
  Theorem lru_history_transparent cap ks : Forall faithful ks ->
    run_history V C H yload cap [] ks = map spec_full_of_call ks.
  Proof.
    intros Hf.
    assert (G : forall ks st, run_history V C H yload cap st ks =
                              history_with V C H yload (lru item) (cache_get cap) (lru_set cap) st ks).
    { induction ks0 as [|k r IH]; intros st; cbn [run_history history_with]; [reflexivity|].
      unfold get_data_step. destruct (step_with V C H yload (lru item) (cache_get cap) (lru_set cap) st k). now rewrite IH. }
    rewrite G. apply (history_transparent (lru item) (cache_get cap) (lru_set cap) lru_stored
                        (lru_get_sound' cap) (lru_get_keeps' cap) (lru_set_keeps' cap)); [|exact Hf].
    intros k it [].
  Qed.
End Transparent.
