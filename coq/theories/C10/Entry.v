(* C10: case/observation types, executable checker [holds], and the sx entry point. *)
From Coq Require Import String.
From Coq Require Import List NArith ZArith Bool Arith.
From VF Require Import Base.Sx Dispatch.Dispatch.
Import ListNotations.

(* recording handlers: the context is (tag of the handler, name it was prepared for) *)
Definition ctx := (bytes * bytes)%type.
Definition cev := ev bytes ctx (hargs ctx).
Definition chandler := handler bytes ctx (hargs ctx) bytes.
(* h_reply: what the client is to see when this handler's handle answers (TFTP: the file content;
   HTTP: status and body, e.g. "404:" for a bare 404) *)
Record hspec := { h_tag : bytes; h_accept : bool; h_reply : bytes }.
Definition mk_handler (s : hspec) : chandler :=
  {| prepare := fun u => (h_tag s, u); can := fun _ _ => h_accept s; handle := fun _ => h_reply s |}.

Inductive proto := TFTP | HTTP | TFTP_FILE | HTTP_FILE.

Record case := {
  c_proto : proto;
  c_old : bool;                      (* destination address as before fix 8c5a0ab: *dst[2:] *)
  c_pktinfo : bool;
  c_sockname : addr;                 (* getsockname() of the bound TFTP socket *)
  c_anc : list cmsg;
  c_ntop : list (bytes * bytes);     (* inet_ntop oracle table *)
  c_client : addr;                   (* source address of the datagram / peer of the connection *)
  c_conn_local : addr;               (* HTTP: getsockname() of the accepted connection *)
  c_meth : bytes;
  c_hdrs : list hdr;
  c_name : bytes;                    (* TFTP: raw filename bytes of the packet; HTTP: self.path *)
  c_mail : bool;
  c_handlers : list hspec }.

Inductive orep := ONotFound | OServed (i : nat) (content : bytes) | ORejected.
Record obs := { o_log : list cev; o_rep : orep; o_info : list (bytes * ival) }.

Definition bytes_eqb (a b : bytes) : bool := if list_eq_dec N.eq_dec a b then true else false.
Fixpoint lookup_ntop (t : list (bytes * bytes)) (k : bytes) : bytes :=
  match t with [] => [] | (a, b) :: r => if bytes_eqb a k then b else lookup_ntop r k end.

Definition conv_reply (r : reply bytes) : orep :=
  match r with NotFound => ONotFound | Served i x => OServed i x end.

Definition serve (k : nat) (c : case) : outcome ctx bytes :=
  let hs := map mk_handler (c_handlers c) in
  match c_proto c with
  | TFTP | TFTP_FILE =>
      tftp_serve (lookup_ntop (c_ntop c)) k (c_pktinfo c) (c_sockname c) (c_anc c) (c_client c) hs (c_name c) (c_mail c)
  | HTTP | HTTP_FILE =>
      http_serve (Build_conn (c_client c) (c_conn_local c) (c_meth c) (c_hdrs c) (c_name c)) hs
  end.

Definition info_of (p : proto) (log : list cev) : list (bytes * ival) :=
  match p, filter is_handle log with
  | TFTP_FILE, [Handle _ g] => tftp_file_request_info g
  | HTTP_FILE, [Handle _ g] => http_file_request_info g
  | _, _ => []
  end.

(* with the real file handlers in place of recording ones the calls are not observable,
   only what the template rendered *)
Definition visible (p : proto) (log : list cev) : list cev :=
  match p with TFTP_FILE | HTTP_FILE => [] | _ => log end.

Definition obs_of (p : proto) (o : outcome ctx bytes) : obs :=
  match o with
  | Rejected => {| o_log := []; o_rep := ORejected; o_info := [] |}
  | Dispatched log rep => {| o_log := visible p log; o_rep := conv_reply rep; o_info := info_of p log |}
  end.

Definition run_model (c : case) : obs := obs_of (c_proto c) (serve (if c_old c then 2 else 1) c).

(* ---------- specification: written with first_idx / last_match, not with the loops ---------- *)
Definition spec_server (c : case) : addr :=
  match c_proto c with
  | TFTP | TFTP_FILE =>
      match (if c_pktinfo c then last_match (c_anc c) else None) with
      | Some m => FS (lookup_ntop (c_ntop c) (firstn 16 (cm_data m))) :: tl (c_sockname c)
      | None => c_sockname c
      end
  | _ => c_conn_local c
  end.
Definition spec_name (c : case) : bytes :=
  match c_proto c with TFTP | TFTP_FILE => ascii_ignore (c_name c) | _ => c_name c end.
Definition spec_rejected (c : case) : bool :=
  match c_proto c with TFTP | TFTP_FILE => c_mail c | _ => bad_path (c_name c) end.
Definition spec_mk (c : case) (u : bytes) (x : ctx) : hargs ctx :=
  match c_proto c with
  | TFTP | TFTP_FILE => {| a_uri := u; a_ctx := x; a_client := c_client c; a_server := spec_server c;
                           a_method := []; a_headers := [] |}
  | _ => {| a_uri := u; a_ctx := x; a_client := c_client c; a_server := spec_server c;
            a_method := c_meth c; a_headers := c_hdrs c |}
  end.
Definition spec_obs (c : case) : obs :=
  if spec_rejected c then {| o_log := []; o_rep := ORejected; o_info := [] |}
  else let (l, r) := spec_dispatch (spec_mk c) (map mk_handler (c_handlers c)) (spec_name c) in
       {| o_log := visible (c_proto c) l; o_rep := conv_reply r; o_info := info_of (c_proto c) l |}.

(* ---------- comparison, clause by clause ---------- *)
Definition field_eqb (a b : field) : bool :=
  match a, b with FS x, FS y => bytes_eqb x y | FI x, FI y => Z.eqb x y | _, _ => false end.
Fixpoint all2 {A} (f : A -> A -> bool) (l1 l2 : list A) : bool :=
  match l1, l2 with
  | [], [] => true
  | a :: r1, b :: r2 => f a b && all2 f r1 r2
  | _, _ => false
  end.
Definition addr_eqb := all2 field_eqb.
Definition ctx_eqb (a b : ctx) : bool := bytes_eqb (fst a) (fst b) && bytes_eqb (snd a) (snd b).
Definition hdr_eqb (a b : hdr) : bool := bytes_eqb (fst a) (fst b) && bytes_eqb (snd a) (snd b).
Definition hdrs_eqb := all2 hdr_eqb.

Definition shape_eqb (a b : cev) : bool :=
  match a, b with
  | Prepare i _, Prepare j _ => Nat.eqb i j
  | Can i _ _, Can j _ _ => Nat.eqb i j
  | Handle i _, Handle j _ => Nat.eqb i j
  | _, _ => false
  end.
Definition ev_uri (e : cev) : bytes := match e with Prepare _ u => u | Can _ u _ => u | Handle _ g => a_uri g end.
Definition uri_eqb (a b : cev) : bool := bytes_eqb (ev_uri a) (ev_uri b).
Definition evctx_eqb (a b : cev) : bool :=
  match a, b with
  | Can _ _ x, Can _ _ y => ctx_eqb x y
  | Handle _ g, Handle _ g' => ctx_eqb (a_ctx g) (a_ctx g')
  | _, _ => true
  end.
Definition on_handle (f : hargs ctx -> hargs ctx -> bool) (a b : cev) : bool :=
  match a, b with Handle _ g, Handle _ g' => f g g' | _, _ => true end.
Definition rep_shape_eqb (a b : orep) : bool :=
  match a, b with
  | ONotFound, ONotFound => true | ORejected, ORejected => true
  | OServed i _, OServed j _ => Nat.eqb i j
  | _, _ => false
  end.
Definition rep_eqb (a b : orep) : bool :=
  match a, b with
  | OServed i x, OServed j y => Nat.eqb i j && bytes_eqb x y
  | _, _ => rep_shape_eqb a b
  end.
Definition ival_eqb (a b : ival) : bool :=
  match a, b with
  | VAddr x, VAddr y => addr_eqb x y | VStr x, VStr y => bytes_eqb x y | VHdrs x, VHdrs y => hdrs_eqb x y
  | _, _ => false
  end.
Definition info_eqb := all2 (fun a b : bytes * ival => bytes_eqb (fst a) (fst b) && ival_eqb (snd a) (snd b)).

Definition clause (name : string) (ok : bool) : list string := if ok then [] else [name].

(* failed clauses of the property for observation o (empty list = holds) *)
Definition holds (c : case) (o : obs) : list string :=
  let s := spec_obs c in
  if all2 shape_eqb (o_log o) (o_log s) then
    clause "uri_exact" (all2 uri_eqb (o_log o) (o_log s)) ++
    clause "own_context" (all2 evctx_eqb (o_log o) (o_log s)) ++
    clause "client_address" (all2 (on_handle (fun g g' => addr_eqb (a_client g) (a_client g'))) (o_log o) (o_log s)) ++
    clause "server_address" (all2 (on_handle (fun g g' => addr_eqb (a_server g) (a_server g'))) (o_log o) (o_log s)) ++
    clause "request_info" (all2 (on_handle (fun g g' => bytes_eqb (a_method g) (a_method g') &&
                                                       hdrs_eqb (a_headers g) (a_headers g'))) (o_log o) (o_log s)) ++
    clause "reply" (rep_eqb (o_rep o) (o_rep s)) ++
    clause "template_request_info" (info_eqb (o_info o) (o_info s))
  else ["first_match"%string].

Definition valid (c : case) : Prop := c_old c = false.

(* [valid] as a boolean (C10.Props.C10_validb_valid) *)
Definition validb (c : case) : bool := negb (c_old c).

(* ---------- sx ---------- *)
Definition dec_field (x : sx) : option field :=
  match x with B s => Some (FS s) | I z => Some (FI z) | _ => None end.
Definition dec_addr := asListOf dec_field.
Definition dec_pair (x : sx) : option (bytes * bytes) := match x with L [B a; B b] => Some (a, b) | _ => None end.
Definition dec_cmsg (x : sx) : option cmsg :=
  match x with L [m; B d] => obind (asBool m) (fun m => Some {| cm_match := m; cm_data := d |}) | _ => None end.
Definition dec_hspec (x : sx) : option hspec :=
  match x with L [B t; a; B r] => obind (asBool a) (fun a => Some {| h_tag := t; h_accept := a; h_reply := r |}) | _ => None end.
Definition dec_proto (x : sx) : option proto :=
  match x with
  | I 0%Z => Some TFTP | I 1%Z => Some HTTP | I 2%Z => Some TFTP_FILE | I 3%Z => Some HTTP_FILE | _ => None
  end.
Definition dec_ev (x : sx) : option cev :=
  match x with
  | L [I 0%Z; i; B u] => obind (asNat i) (fun i => Some (Prepare i u))
  | L [I 1%Z; i; B u; cx] => obind (asNat i) (fun i => obind (dec_pair cx) (fun cx => Some (Can i u cx)))
  | L [I 2%Z; i; B u; cx; cl; sv; B m; hs] =>
      obind (asNat i) (fun i => obind (dec_pair cx) (fun cx => obind (dec_addr cl) (fun cl =>
      obind (dec_addr sv) (fun sv => obind (asListOf dec_pair hs) (fun hs =>
      Some (Handle i {| a_uri := u; a_ctx := cx; a_client := cl; a_server := sv; a_method := m; a_headers := hs |}))))))
  | _ => None
  end.
Definition dec_rep (x : sx) : option orep :=
  match x with
  | L [I 0%Z] => Some ONotFound
  | L [I 1%Z; i; B ct] => obind (asNat i) (fun i => Some (OServed i ct))
  | L [I 2%Z] => Some ORejected
  | _ => None
  end.
Definition dec_ival (x : sx) : option ival :=
  match x with
  | L [I 0%Z; a] => obind (dec_addr a) (fun a => Some (VAddr a))
  | L [I 1%Z; B s] => Some (VStr s)
  | L [I 2%Z; h] => obind (asListOf dec_pair h) (fun h => Some (VHdrs h))
  | _ => None
  end.
Definition dec_info (x : sx) : option (bytes * ival) :=
  match x with L [B k; v] => obind (dec_ival v) (fun v => Some (k, v)) | _ => None end.
Definition dec_obs (x : sx) : option obs :=
  match x with
  | L [l; r; inf] => obind (asListOf dec_ev l) (fun l => obind (dec_rep r) (fun r => obind (asListOf dec_info inf) (fun inf =>
      Some {| o_log := l; o_rep := r; o_info := inf |})))
  | _ => None
  end.

Definition decode (x : sx) : option (case * obs) :=
  match x with
  | L [p; old; pk; sn; anc; nt; cl; lo; B m; hd; B name; mail; hs; io] =>
      obind (dec_proto p) (fun p => obind (asBool old) (fun old => obind (asBool pk) (fun pk =>
      obind (dec_addr sn) (fun sn => obind (asListOf dec_cmsg anc) (fun anc => obind (asListOf dec_pair nt) (fun nt =>
      obind (dec_addr cl) (fun cl => obind (dec_addr lo) (fun lo => obind (asListOf dec_pair hd) (fun hd =>
      obind (asBool mail) (fun mail => obind (asListOf dec_hspec hs) (fun hs => obind (dec_obs io) (fun io =>
      Some ({| c_proto := p; c_old := old; c_pktinfo := pk; c_sockname := sn; c_anc := anc; c_ntop := nt;
               c_client := cl; c_conn_local := lo; c_meth := m; c_hdrs := hd; c_name := name; c_mail := mail;
               c_handlers := hs |}, io)))))))))))))
  | _ => None
  end.

Definition enc_field (f : field) : sx := match f with FS s => B s | FI z => I z end.
Definition enc_addr (a : addr) : sx := L (map enc_field a).
Definition enc_pair (p : bytes * bytes) : sx := L [B (fst p); B (snd p)].
Definition enc_ev (e : cev) : sx :=
  match e with
  | Prepare i u => L [I 0%Z; sxNat i; B u]
  | Can i u x => L [I 1%Z; sxNat i; B u; enc_pair x]
  | Handle i g => L [I 2%Z; sxNat i; B (a_uri g); enc_pair (a_ctx g); enc_addr (a_client g); enc_addr (a_server g);
                     B (a_method g); L (map enc_pair (a_headers g))]
  end.
Definition enc_rep (r : orep) : sx :=
  match r with ONotFound => L [I 0%Z] | OServed i x => L [I 1%Z; sxNat i; B x] | ORejected => L [I 2%Z] end.
Definition enc_ival (v : ival) : sx :=
  match v with VAddr a => L [I 0%Z; enc_addr a] | VStr s => L [I 1%Z; B s] | VHdrs h => L [I 2%Z; L (map enc_pair h)] end.
Definition enc_obs (o : obs) : sx :=
  L [L (map enc_ev (o_log o)); enc_rep (o_rep o); L (map (fun kv => L [B (fst kv); enc_ival (snd kv)]) (o_info o))].

Definition entry (x : sx) : sx :=
  match decode x with
  | None => sxS "bad-case"
  | Some (c, io) =>
      let m := run_model c in
      L [ enc_obs m; L (map sxS (holds c m)); L (map sxS (holds c io)); enc_obs (spec_obs c); sxBool (validb c) ]
  end.
