(* Model of vinegar/transform/ipv6_address.py, vinegar/transform/ip_address.py and
   vinegar/utils/socket.py:ipv6_address_unwrap.  socket.inet_pton(AF_INET6, .) and
   socket.inet_ntop(AF_INET6, .) are oracles (Section variables).  Definitions only. *)
From Coq Require Import List NArith ZArith Bool.
From VF Require Import Addr.Text Addr.IPv4.
Import ListNotations.
Open Scope N_scope.

(* outcome of socket.inet_pton on a str: packed bytes, OSError (not an address), or ValueError
   (str with a NUL character / not encodable) *)
Inductive pres := PBytes (b : list N) | POSError | PValueError.

(* ---- int(mask) of the code before commit e42f082 (defect D11): surrounding white space, a sign
   and single underscores between digits were accepted.  None = ValueError. ---- *)
Definition is_space (c : N) : bool := (c =? 32) || ((9 <=? c) && (c <=? 13)).
Fixpoint lstrip (s : str) : str :=
  match s with c :: r => if is_space c then lstrip r else s | [] => [] end.
Definition strip (s : str) : str := rev (lstrip (rev (lstrip s))).
(* digits with single underscores between them: state = last character was a digit *)
Fixpoint und_digits (s : str) (last_digit : bool) (acc : N) : option N :=
  match s with
  | [] => if last_digit then Some acc else None
  | c :: r =>
      if is_digit c then und_digits r true (acc * 10 + (c - 48))
      else if (c =? 95) && last_digit then und_digits r false acc
      else None
  end.
Definition lenient_int (s : str) : option Z :=
  if MAX_STR_DIGITS <? N.of_nat (length s) then None else
  match strip s with
  | [] => None
  | c :: r =>
      if c =? 43 then option_map Z.of_N (und_digits r false 0)
      else if c =? 45 then option_map (fun n => Z.opp (Z.of_N n)) (und_digits r false 0)
      else option_map Z.of_N (und_digits (c :: r) false 0)
  end.

Definition MAPPED_PREFIX : list N := [0; 0; 0; 0; 0; 0; 0; 0; 0; 0; 255; 255].
Definition is_mapped (b : list N) : bool := str_eqb (firstn 12 b) MAPPED_PREFIX.

Definition bytes128 (x : N) : list N :=
  map (fun i => N.land (N.shiftr x (120 - 8 * N.of_nat i)) 255) (seq 0 16).

(* the family-tagged denotation of a well-formed string *)
Inductive denot := D4 (bs : list N) (m : option N) | D6 (b : list N) (m : option N).

Section V6.
  Variable pton : str -> pres.
  Variable ntop : list N -> str.
  Variable lenient_mask : bool.       (* true = before e42f082 (D11) *)
  Variable unwrap_ve_escapes : bool.  (* true = before b30d74d (D16) *)

  (* the mask text after "/": [0-9]+ then int() then range check; None = ValueError *)
  Definition mask6 (g : str) : option N :=
    if lenient_mask then
      match lenient_int g with
      | Some z => if (z <? 0)%Z || (128 <? z)%Z then None else Some (Z.to_N z)
      | None => None
      end
    else
      match g with
      | [] => None
      | _ => if forallb is_digit g
             then match py_int_digits g with
                  | Some m => if m <=? 128 then Some m else None
                  | None => None
                  end
             else None
      end.

  (* _str_to_addr_bytes_and_mask; None = ValueError *)
  Definition parse6 (s : str) : option (list N * option N) :=
    let (a, m) := cut SLASH s in
    match pton a with
    | PBytes b =>
        match m with
        | None => Some (b, None)
        | Some g => match mask6 g with Some k => Some (b, Some k) | None => None end
        end
    | _ => None
    end.

  Definition fmt6 (b : list N) (m : option N) : str := ntop b ++ fmt_mask m.

  Definition normalize6 (raise_error : bool) (s : str) : res :=
    match parse6 s with
    | None => malformed raise_error s
    | Some (b, m) => Ok (fmt6 b m)
    end.

  Definition strip_mask6 (raise_error : bool) (s : str) : res :=
    match parse6 s with
    | None => malformed raise_error s
    | Some _ => Ok (fst (cut SLASH s))
    end.

  Definition net_address6 (raise_error : bool) (s : str) : res :=
    match parse6 s with
    | None => malformed raise_error s
    | Some (b, None) => malformed raise_error s
    | Some (b, Some m) => Ok (fmt6 (bytes128 (N.land (to_N b) (netmask_int 128 m))) (Some m))
    end.

  (* vinegar.utils.socket.ipv6_address_unwrap *)
  Definition unwrap (s : str) : res :=
    match pton s with
    | PBytes b => if is_mapped b then Ok (fmt4 (skipn 12 b) None) else Ok s
    | POSError => Ok s
    | PValueError => if unwrap_ve_escapes then Exc ValueError else Ok s
    end.

  (* vinegar.transform.ip_address *)
  Definition normalize_ip (raise_error : bool) (s : str) : res :=
    match unwrap s with
    | Exc e => Exc e
    | Ok v => if is_match4 v then normalize4 raise_error v else normalize6 raise_error v
    end.
  Definition strip_mask_ip (raise_error : bool) (s : str) : res :=
    if is_match4 s then strip_mask4 raise_error s else strip_mask6 raise_error s.
  Definition net_address_ip (raise_error : bool) (s : str) : res :=
    if is_match4 s then net_address4 raise_error s else net_address6 raise_error s.

  (* what a string denotes for the generic normalize: None = malformed *)
  Definition denote_ip (s : str) : option denot :=
    match unwrap s with
    | Ok v => if is_match4 v then option_map (fun d => D4 (fst d) (snd d)) (parse4 v)
              else option_map (fun d => D6 (fst d) (snd d)) (parse6 v)
    | Exc _ => None
    end.
End V6.

(* finite-table oracles used by the executable model (filled by the harness from libc) *)
Definition tab_pton (t : list (str * pres)) (s : str) : pres :=
  match find (fun e => str_eqb (fst e) s) t with Some e => snd e | None => POSError end.
Definition tab_ntop (t : list (list N * str)) (b : list N) : str :=
  match find (fun e => str_eqb (fst e) b) t with Some e => snd e | None => [] end.
