"""
C09, HTTP part: the HTTP port answers malformed or unsupported requests with an error response or by
closing the connection, keeps serving, and never logs an unhandled exception because of client bytes.

A REAL vinegar.http.server.HttpServer on ::1 (ephemeral port) with a recording handler and the REAL
HttpFileRequestHandler in directory mode and file mode, with and without template, each behind a thin
recording proxy.  Raw client sockets send arbitrary request heads (token alphabet, header-block
variants, truncations, random mutations); after every request a liveness probe is sent.
Observation per request = (closed | well-formed response with its status code | bytes without status
line | malformed bytes | hang) + "a log record with exception info was emitted while serving it";
it is compared with the extracted model coq/theories/Http/Classify.v (driver ocaml/bin/c09http, entry
C09/HttpEntry.v) and judged by the extracted http_holds.

Used through `http_checks(tier, rng, report)`; `python harness/c09_http.py [--tier T]` runs it alone.
"""
import atexit
import http
import io
import itertools
import logging
import os
import re
import shutil
import socket
import tempfile
import threading
import time

import common
from common import sx, unsx, names
from vinegar.http import server as S
from vinegar.request_handler import file as FH

# ----------------------------------------------------------------------------- server side
_TH = {}            # thread ident -> {"calls": [(handler index, path, accepted)], "handle": {index: status|"raise"}, "exc": [names]}
_DONE = {}          # client port -> record of the thread that served it
_STRAY = []         # exception records not attributable to a request thread
_lock = threading.Lock()


def _rec():
    return _TH.setdefault(threading.get_ident(), {"calls": [], "handle": {}, "exc": []})


class _ExcLog(logging.Handler):
    def emit(self, record):
        if record.exc_info:
            name = record.exc_info[0].__name__ if record.exc_info[0] else "exc"
            r = _TH.get(record.thread)
            # time-stamped: what is logged after the client has closed its socket is caused by the
            # disconnect (BrokenPipe / reset while answering), not by the bytes the client sent
            if r is None:
                _STRAY.append((name, time.monotonic()))
            else:
                r["exc"].append((name, time.monotonic()))


class RecHandler(S.HttpRequestHandler):
    """accepts every path starting with /rec; answers 200 with a short body; never looks at the request body"""
    index = 0

    def prepare_context(self, uri):
        return uri

    def can_handle(self, uri, context):
        ok = uri.startswith("/rec")
        _rec()["calls"].append((self.index, uri, ok))
        return ok

    def handle(self, request_info, body, context):
        _rec()["handle"][self.index] = (200, 2, True)
        return (http.HTTPStatus.OK, {"Content-Type": "text/plain"}, io.BytesIO(b"rec"))


class Proxy(S.HttpRequestHandler):
    """delegates to a real HttpFileRequestHandler and records what it was asked and what it answered"""
    def __init__(self, index, inner):
        self.index = index
        self.inner = inner

    def prepare_context(self, uri):
        return self.inner.prepare_context(uri)

    def can_handle(self, uri, context):
        ok = bool(self.inner.can_handle(uri, context))
        _rec()["calls"].append((self.index, uri, ok))
        return ok

    def handle(self, request_info, body, context):
        try:
            res = self.inner.handle(request_info, body, context)
        except Exception:
            _rec()["handle"][self.index] = "raise"
            raise
        # (status, headers: 0 None / 1 empty / 2 non-empty, a body stream was returned)
        _rec()["handle"][self.index] = (int(res[0]), 0 if res[1] is None else (2 if res[1] else 1), res[2] is not None)
        return res


class _FailingStream(io.RawIOBase):
    def readable(self):
        return True

    def read(self, n=-1):
        raise OSError("scripted stream failure")

    def readinto(self, b):
        raise OSError("scripted stream failure")


class BoomHandler(S.HttpRequestHandler):
    """a deliberately faulty handler (last in the list): shows that a raising handler costs one 500 (or a
    truncated response) and nothing else.  Its exceptions are the handler's, not the client's."""
    def __init__(self, index):
        self.index = index

    def prepare_context(self, uri):
        if uri.startswith("/boom/prep"):
            raise RuntimeError("scripted prepare_context failure")
        return None

    def can_handle(self, uri, context):
        ok = uri.startswith("/boom/")
        _rec()["calls"].append((self.index, uri, ok))
        return ok

    def handle(self, request_info, body, context):
        if request_info.uri.startswith("/boom/stream"):
            _rec()["handle"][self.index] = (200, 2, "fails")
            return (http.HTTPStatus.OK, {"X-Boom": "1"}, _FailingStream())
        _rec()["handle"][self.index] = "raise"
        raise RuntimeError("scripted handle failure")


class Rig:
    def __init__(self):
        self.tmp = tempfile.mkdtemp(prefix="verif-c09http-")
        os.makedirs(os.path.join(self.tmp, "d", "sub"))
        os.makedirs(os.path.join(self.tmp, "t"))
        for rel, text in (("d/a.txt", "plain a\n"), ("d/sub/b.bin", "\x00\x01binary"), ("f.txt", "single file\n"),
                          ("t/tpl.txt", "uri={{ request_info.uri }} method={{ request_info.method }}\n"),
                          ("tf.txt", "client={{ request_info.client_address[0] }}\n")):
            with open(os.path.join(self.tmp, rel), "w") as f:
                f.write(text)
        inner = [FH.HttpFileRequestHandler({"request_path": "/d", "root_dir": os.path.join(self.tmp, "d")}),
                 FH.HttpFileRequestHandler({"request_path": "/f.txt", "file": os.path.join(self.tmp, "f.txt")}),
                 FH.HttpFileRequestHandler({"request_path": "/t", "root_dir": os.path.join(self.tmp, "t"),
                                            "template": "jinja"}),
                 FH.HttpFileRequestHandler({"request_path": "/tf", "file": os.path.join(self.tmp, "tf.txt"),
                                            "template": "jinja"})]
        self.handlers = [RecHandler()] + [Proxy(i + 1, h) for i, h in enumerate(inner)]
        self.handlers.append(BoomHandler(len(self.handlers)))
        self.nh = len(self.handlers)
        cls = S._DelegatingRequestHandler
        self._cls = cls
        self._orig_finish = cls.finish
        orig = cls.finish

        def finish(handler):
            with _lock:
                _DONE[handler.client_address[1]] = _TH.pop(threading.get_ident(), {"calls": [], "handle": {}, "exc": []})
            return orig(handler)
        cls.finish = finish                 # wrapper on the real class in this process; /repo is not edited
        self._orig_setup = cls.setup
        orig_setup = cls.setup

        def setup(handler):
            # every connection thread is known from its first moment: what it logs (e.g. a BrokenPipe while answering
            # a client that has already gone away, possibly much later on a loaded machine) belongs to ITS connection
            # and can never be taken for a stray record of the case that happens to run at that time
            with _lock:
                _TH[threading.get_ident()] = {"calls": [], "handle": {}, "exc": []}
            return orig_setup(handler)
        cls.setup = setup
        self.exclog = _ExcLog()
        self.logger = logging.getLogger("vinegar.http.server")
        self._old = (self.logger.level, self.logger.propagate)
        self.logger.addHandler(self.exclog)
        self.logger.setLevel(logging.WARNING)
        self.logger.propagate = False
        self.base_threads = threading.active_count()
        self.server = S.HttpServer(self.handlers, "::1", 0)
        self.server.start()
        self.port = self.server._server.server_address[1]
        # socketserver prints a traceback to stderr when a worker thread dies of an exception (e.g. the client
        # went away while http.server was writing); keep the check output clean, count them instead
        self.socketserver_errors = 0

        def handle_error(request, client_address):
            self.socketserver_errors += 1
        self.server._server.handle_error = handle_error        # override on the INSTANCE

    def close(self):
        try:
            self.server.stop()
        finally:
            self._cls.finish = self._orig_finish
            self._cls.setup = self._orig_setup
            self.logger.removeHandler(self.exclog)
            self.logger.setLevel(self._old[0])
            self.logger.propagate = self._old[1]
            shutil.rmtree(self.tmp, ignore_errors=True)


# ----------------------------------------------------------------------------- client side
_STATUS_RE = re.compile(rb"HTTP/1\.[01] ([1-9][0-9][0-9]) ([^\r\n]*)")
_HEADER_RE = re.compile(rb"([!#$%&'*+\-.^_`|~0-9A-Za-z]+): ([^\r\n]*)")


def classify_bytes(raw, closed, method):
    """what the client saw -> canonical observation"""
    if not raw:
        return [0] if closed else [4]
    if not closed:
        return [3, b"<connection left open> " + raw[:40]]
    if not raw.startswith(b"HTTP/"):
        return [2]
    head, sep, body = raw.partition(b"\r\n\r\n")
    if not sep:
        return [3, raw[:60]]
    lines = head.split(b"\r\n")
    m = _STATUS_RE.fullmatch(lines[0])
    if not m:
        return [3, raw[:60]]
    clen = None
    for ln in lines[1:]:
        h = _HEADER_RE.fullmatch(ln)
        if not h:
            return [3, raw[:60]]
        if h.group(1).lower() == b"content-length":
            clen = h.group(2)
    if clen is not None and method != b"HEAD" and body and (not clen.isdigit() or int(clen) != len(body)):
        return [3, b"<content-length mismatch> " + raw[:40]]
    return [1, int(m.group(1))]


def exchange(port, data, shutdown, timeout):
    """-> (raw bytes, closed?, client port, monotonic time just before the client closed its socket)"""
    s = socket.socket(socket.AF_INET6, socket.SOCK_STREAM)
    s.settimeout(timeout)
    chunks = []
    closed = False
    me = 0
    try:
        s.connect(("::1", port))
        me = s.getsockname()[1]
        try:
            s.sendall(data)
            if shutdown:
                s.shutdown(socket.SHUT_WR)
        except OSError:
            pass                              # the server may answer and close before everything is sent
        while True:
            try:
                d = s.recv(1 << 16)
            except socket.timeout:
                break
            except OSError:                   # reset: unread request bytes were pending at the server's close
                closed = True
                break
            if not d:
                closed = True
                break
            chunks.append(d)
    finally:
        t_close = time.monotonic()
        s.close()
    return b"".join(chunks), closed, me, t_close


# ----------------------------------------------------------------------------- cases
METHODS = [b"GET", b"HEAD", b"POST", b"PUT", b"DELETE", b"get", b"PATCH", b"OPTIONS", b"BREW", b"", b"G\x00T", b"GE\xa0T"]
TARGETS = [b"/rec/x", b"/d/a.txt", b"/d/nosuch", b"/d/sub/b.bin", b"/f.txt", b"/t/tpl.txt", b"/tf", b"/nohandler",
           b"rec/x", b"/rec/\x00", b"/rec/%00", b"/d/%00", b"//rec/x", b"*", b"http://host/rec/x", b"/rec/a b",
           b"", b"/d/../f.txt", b"/d/%2e%2e/x", b"/t/%ff", b"/d/" + b"n" * 300, b"/f.txt?x=1", b"/d/a.txt/b"]
VERSIONS = [b"HTTP/1.0", b"HTTP/1.1", b"HTTP/0.9", b"HTTP/2.0", b"HTTP/1.10", b"HTTP/01.1", b"HTTP/1", b"HTTP/1.1.1",
            b"http/1.0", b"HTTP/a.b", b"HTTP/1.\xb2", b"HTTP/12345678901.0", None, b"GARBAGE", b"HTTP/3.0", b"HTTP/."]

H_OK = b"Host: verif\r\n"
HEADER_BLOCKS = [
    ("none", b"", b""),
    ("cl-abc", b"Content-Length: abc\r\n", b""),
    ("cl-empty", b"Content-Length:\r\n", b""),
    ("cl-neg", b"Content-Length: -1\r\n", b""),
    ("cl-hex", b"Content-Length: 0x10\r\n", b""),
    ("cl-float", b"Content-Length: 1e3\r\n", b""),
    ("cl-short-body", b"Content-Length: 10\r\n", b"abc"),
    ("cl-long-body", b"Content-Length: 2\r\n", b"abcdefgh"),
    ("cl-exact", b"Content-Length: 3\r\n", b"abc"),
    ("cl-dup", b"Content-Length: 3\r\nContent-Length: 4\r\n", b"abc"),
    ("cl-huge", b"Content-Length: 99999999999999999999\r\n", b""),
    ("cl-plus", b"Content-Length: +3\r\n", b"abc"),
    ("cl-space", b"Content-Length: 3 \r\n", b"abc"),
    ("te-chunked", b"Transfer-Encoding: chunked\r\n", b"3\r\nabc\r\n0\r\n\r\n"),
    ("te-cl", b"Transfer-Encoding: chunked\r\nContent-Length: 3\r\n", b"abc"),
    ("expect", b"Expect: 100-continue\r\nContent-Length: 3\r\n", b"abc"),
    ("keepalive-pipelined", b"Connection: keep-alive\r\n", b"GET /rec/second HTTP/1.0\r\n\r\n"),
    ("close", b"Connection: close\r\n", b""),
    ("nocolon", b"this line has no colon\r\n", b""),
    ("fold", b"X-A: 1\r\n  folded\r\n", b""),
    ("nul", b"X-A: a\x00b\r\n", b""),
    ("lf-only", b"X-A: 1\nX-B: 2\n", b""),
    ("bare-cr", b"X-A: 1\rX-B: 2\r\n", b""),
    ("latin1", b"X-\xe4: \xff\r\n", b""),
    ("h99", b"".join(b"X-%d: v\r\n" % i for i in range(98)), b""),
    ("h100", b"".join(b"X-%d: v\r\n" % i for i in range(99)), b""),
    ("h101", b"".join(b"X-%d: v\r\n" % i for i in range(100)), b""),
    ("h200", b"".join(b"X-%d: v\r\n" % i for i in range(200)), b""),
    ("long-line", b"X-Long: " + b"v" * 70000 + b"\r\n", b""),
    ("line-65535", b"X-Long: " + b"v" * (65536 - 8 - 2 - 1) + b"\r\n", b""),
    ("line-65536", b"X-Long: " + b"v" * (65536 - 8 - 2) + b"\r\n", b""),
    ("line-65537", b"X-Long: " + b"v" * (65536 - 8 - 2 + 1) + b"\r\n", b""),
]


def head(method, target, version, block=b"", body=b"", end=b"\r\n"):
    line = method + b" " + target + (b"" if version is None else b" " + version) + b"\r\n"
    return line + H_OK + block + end + body


def gen_cases(tier, rng):
    """yields (label, data, shutdown)"""
    quick = tier == "quick"
    # token product with a plain header block (quick: every fifth combination)
    k = 0
    for m in METHODS:
        for t in TARGETS:
            for v in VERSIONS:
                k += 1
                if quick and k % 5:
                    continue
                yield ("tokens", head(m, t, v), (k // 5) % 2 == 0)
    # header-block variants against served and unserved targets
    for name, block, body in HEADER_BLOCKS:
        if quick:
            if name.startswith("cl-") or name.startswith("te-") or name == "expect":
                combos = [(m, t, v) for m in (b"GET", b"POST") for t in (b"/rec/x", b"/d/a.txt", b"/nohandler")
                          for v in (b"HTTP/1.1",)] + [(b"HEAD", b"/f.txt", b"HTTP/1.0"), (b"PATCH", b"/rec/x", b"HTTP/1.1")]
            else:
                combos = [(b"GET", t, v) for t in (b"/rec/x", b"/nohandler") for v in (b"HTTP/1.0", None)]
        else:
            combos = [(m, t, v) for m in (b"GET", b"POST", b"HEAD", b"PATCH")
                      for t in (b"/rec/x", b"/d/a.txt", b"/f.txt", b"/t/tpl.txt", b"/nohandler", b"rec/x")
                      for v in (b"HTTP/1.0", b"HTTP/1.1", None)]
        for (m, t, v) in combos:
            for sd in (True, False):
                yield ("hdr:" + name, head(m, t, v, block, body), sd)
    # the deliberately faulty handler: one 500 / truncated answer, server keeps serving
    for t in (b"/boom/prep", b"/boom/prep/x", b"/boom/handle", b"/boom/stream", b"/boom/"):
        for m in (b"GET", b"HEAD", b"POST"):
            for v in (b"HTTP/1.0", b"HTTP/1.1", None):
                yield ("faulty-handler", head(m, t, v), True)
    # truncated / unterminated heads, nothing at all, line noise
    base = head(b"GET", b"/rec/x", b"HTTP/1.0", b"X-A: 1\r\n")
    for cut in sorted(set(list(range(0, len(base) + 1, 7 if quick else 2)) + [len(base) - 1, len(base) - 2, len(base)])):
        for sd in (True, False):
            yield ("truncated", base[:cut], sd)
    for data in (b"", b"\r\n", b"\n", b"\r\n\r\n", b" \t \r\n", b"\x00", b"\xff\xfe\r\n\r\n", b"GET\r\n\r\n", b"GET /rec/x\r\n\r\n",
                 b"GET /rec/x\r\n", b"POST /rec/x\r\n\r\n", b"HEAD /rec/x HTTP/0.9\r\n\r\n", b"GET /rec/x HTTP/1.0\n\n",
                 b"GET /rec/x HTTP/1.0\r\r\n\r\n", b"GET\t/rec/x\tHTTP/1.0\r\n\r\n", b"GET  /rec/x   HTTP/1.0\r\n\r\n",
                 b"GET /rec/x HTTP/1.0 extra\r\n\r\n", b"GET /rec/x extra HTTP/1.0\r\n\r\n",
                 b"GET /rec/x extra HTTP/0.9\r\n\r\n", b"GET /rec/x HTTP/1.0\x85\r\n\r\n",
                 b"GET /" + b"a" * 70000 + b" HTTP/1.0\r\n\r\n", b"GET /" + b"a" * 65520 + b" HTTP/1.0\r\n\r\n",
                 b"G" * 65537, b"G" * 65536 + b"\r\n\r\n", b"G" * 65535 + b"\n\r\n",
                 b"GET /rec/x HTTP/1.0\r\n" + b"\r\n" + b"GET /rec/y HTTP/1.0\r\n\r\n"):
        for sd in (True, False):
            yield ("raw", data, sd)
    # random: token soup and byte mutations of valid heads
    soup = [b"GET", b"POST", b"HEAD", b" ", b"  ", b"/", b"/rec", b"/d/a.txt", b"/f.txt", b"HTTP/1.0", b"HTTP/1.1", b"HTTP/",
            b"\r\n", b"\n", b"\r", b":", b"Content-Length", b"-1", b"abc", b"0", b"\x00", b"\xff", b"%00", b"//", b"..", b"\t",
            b"Transfer-Encoding: chunked", b"Expect: 100-continue", b"1.1", b"2.0", b"0.9", b"X"]
    for _ in range(200 if quick else 5000):
        if rng.random() < 0.5:
            data = b"".join(rng.choice(soup) for _k in range(rng.randrange(1, 14)))
        else:
            name, block, body = rng.choice(HEADER_BLOCKS[:24])
            d = bytearray(head(rng.choice(METHODS[:6]), rng.choice(TARGETS[:8]), rng.choice(VERSIONS[:3]), block, body))
            for _k in range(rng.randrange(1, 4)):
                i = rng.randrange(len(d))
                op = rng.random()
                if op < 0.4:
                    d[i] = rng.choice([0, 10, 13, 32, 58, 47, 255, 0x85, 65])
                elif op < 0.7:
                    del d[i]
                else:
                    d.insert(i, rng.choice([0, 10, 13, 32, 58, 47, 255]))
            data = bytes(d)
        yield ("random", data, rng.random() < 0.6)


# ----------------------------------------------------------------------------- evaluation
def handlers_sx(rig, rec):
    """handler list for the model: recording handler = prefix predicate; proxies = oracle table from the
    answers the real can_handle gave for the path the server passed; act = what the real handle returned;
    the faulty handler raises in prepare_context for /boom/prep..., accepts /boom/..."""
    out = []
    never = [0, False]
    for i in range(rig.nh):
        st = rec["handle"].get(i, (200, 0, False)) if rec else (200, 0, False)
        if st == "raise":
            act = [0]
        else:
            body = [0] if not st[2] else [1, b"" if st[2] == "fails" else b"x", st[2] == "fails"]
            act = [1, st[0], [[0], [1, []], [1, [[b"X", b"y"]]]][st[1]], body]
        if i == 0:
            out.append([[1, b"/rec"], never, act])
        elif i == rig.nh - 1:
            if not rec or i not in rec["handle"]:
                act = [0]                  # its handle raises unless the request asked for the failing stream
            out.append([[1, b"/boom/"], [1, b"/boom/prep"], act])
        else:
            table = []
            for (idx, uri, ok) in (rec["calls"] if rec else []):
                if idx == i:
                    table.append([uri.encode("latin-1", "replace"), bool(ok)])
            out.append([[3, table], never, act])
    return out


def line(rig, data, shutdown, rec, obs):
    return sx([[[b"S", b"D", []], bool(shutdown), data, handlers_sx(rig, rec)], obs])


def first_token(data):
    return data.split(None, 1)[0] if data.split(None, 1) else b""


def probe(rig):
    raw, closed, me, _t = exchange(rig.port, b"GET /rec/probe HTTP/1.0\r\n\r\n", False, 3.0)
    _DONE.pop(me, None)
    return closed and raw.startswith(b"HTTP/1.0 200 ") and raw.endswith(b"\r\n\r\nrec")


def run_batch(rig, cases, stats, failing):
    # pass 1: which cases make the server wait for more input (independent of the handlers)
    pre = common.run_model("c09http", [line(rig, d, sd, None, [[0], False]) for (_l, d, sd) in cases])
    waits = [unsx(o)[0][0] == [4] for o in pre]
    obs, recs = [], []
    todo = [(c, w, 0) for c, w in zip(cases, waits)]
    cases = []
    while todo:
        (label, data, sd), w, attempt = todo.pop(0)
        raw, closed, me, t_close = exchange(rig.port, data, sd, 0.15 if w else 2.5)
        rec = None
        for _ in range(100 if closed else 1):
            with _lock:
                rec = _DONE.pop(me, None)
            if rec is not None:
                break
            time.sleep(0.003)
        o = classify_bytes(raw, closed, first_token(data))
        # the server closed first (closed=True): everything it logged counts; otherwise only what it
        # logged before the client went away
        internal = any(closed or t < t_close for (_n, t) in ((rec["exc"] if rec else []) + list(_STRAY)))
        if internal and len(stats.setdefault("http_exception_records_seen", [])) < 20:
            stats["http_exception_records_seen"].append(
                {"request": repr(data[:60]), "server_closed_first": closed,
                 "own_thread": [(n, round(t - t_close, 4)) for (n, t) in (rec["exc"] if rec else [])],
                 "stray": [(n, round(t - t_close, 4)) for (n, t) in _STRAY]})
        own = any(closed or t < t_close for (_n, t) in (rec["exc"] if rec else []))
        del _STRAY[:]
        if internal and not own and attempt < 2:
            # an exception record of a thread that is not this connection's (a late record of an earlier connection
            # on a loaded machine): it cannot be attributed to these bytes by time alone - ask again; what the
            # client's bytes cause is reproducible
            stats["http_unattributed_records_retried"] = stats.get("http_unattributed_records_retried", 0) + 1
            time.sleep(0.3)
            todo.insert(0, ((label, data, sd), w, attempt + 1))
            continue
        cases.append((label, data, sd))
        obs.append([o, internal])
        recs.append(rec)
        stats["http_probes"] += 1
        if not probe(rig):
            stats["http_probe_failures"] += 1
            if len(failing) < 5:
                failing.append(((label, data, sd), ["C09:http_keeps_serving"], [o, internal], None))
    outs = common.run_model("c09http", [line(rig, d, sd, r, o) for (_l, d, sd), r, o in zip(cases, recs, obs)])
    for (label, data, sd), o, r, out in zip(cases, obs, recs, outs):
        if out.startswith("!") or out.startswith("#"):
            raise RuntimeError(f"c09http: driver rejected case {data[:80]!r} -> {out[:100]}")
        res = unsx(out)
        m, fm, fi = res[0], names(res[1]), names(res[2])
        stats["http_evaluations"] += 1
        key = {0: "closed", 1: "response", 2: "simple", 3: "malformed", 4: "hang"}[o[0][0]]
        if key == "response":
            key = "status_%d" % o[0][1]
        stats["http_reactions"][key] = stats["http_reactions"].get(key, 0) + 1
        if r and r["handle"]:
            stats["http_handled"] += 1
        if [o[0], int(o[1])] != m:
            stats["http_disagreements"] += 1
        if label == "faulty-handler":
            fi = [c for c in fi if c != "C09:http_internal_error_path"]     # the scripted handler's own exception
        elif fm:
            stats["http_model_failures"] += 1
        if fi or [o[0], int(o[1])] != m:
            stats["http_impl_failures"] += 1
            if len(failing) < 5:
                failing.append(((label, data, sd), fi or ["C09:http_reaction"], o, m))


def show(case):
    label, data, sd = case
    return {"_extra": True, "part": "http", "kind": label, "request": common._jsonable(data[:400]),
            "request_repr": repr(data[:400]),
            "request_hex": data[:400].hex(), "request_len": len(data), "client_shuts_down_after_sending": sd,
            "content": bytes(data[:400]), "events": []}


def shrink(rig, case, stats):
    """greedy: drop header lines, then bytes from the end of the body"""
    label, data, sd = case
    dummy = {"http_probes": 0, "http_probe_failures": 0, "http_evaluations": 0, "http_reactions": {}, "http_handled": 0,
             "http_disagreements": 0, "http_model_failures": 0, "http_impl_failures": 0}

    def fails(d):
        f = []
        run_batch(rig, [(label, d, sd)], dict(dummy, http_reactions={}), f)
        return bool(f)
    lines = data.split(b"\r\n")
    improved = True
    steps = 0
    while improved and steps < 40:
        improved = False
        for i in range(1, len(lines) - 1):
            if lines[i] == b"":
                continue
            cand = lines[:i] + lines[i + 1:]
            steps += 1
            if fails(b"\r\n".join(cand)):
                lines = cand
                improved = True
                break
    return (label, b"\r\n".join(lines), sd)


def http_checks(tier, rng, report):
    """append failures to report['extra_failing']; add counts to report['evaluations'] and report['extra']"""
    t0 = time.time()
    stats = {"http_evaluations": 0, "http_disagreements": 0, "http_impl_failures": 0, "http_model_failures": 0,
             "http_probes": 0, "http_probe_failures": 0, "http_handled": 0, "http_reactions": {}}
    failing = []
    out = []
    rig = Rig()
    try:
        batch = []
        for case in gen_cases(tier, rng):
            batch.append(case)
            if len(batch) >= 400:
                run_batch(rig, batch, stats, failing)
                del batch[:]
                if len(failing) >= 5:
                    break
        if batch and len(failing) < 5:
            run_batch(rig, batch, stats, failing)
        # worker threads: everything the clients opened is closed by now
        deadline = time.time() + 3.0
        while threading.active_count() > rig.base_threads + 1 and time.time() < deadline:
            time.sleep(0.05)
        leaked = threading.active_count() - (rig.base_threads + 1)
        stats["http_worker_threads_left"] = max(0, leaked)
        stats["http_socketserver_errors_silenced"] = rig.socketserver_errors
        if leaked > 0 and len(failing) < 5:
            failing.append((("threads", b"", False), ["C09:http_worker_threads_left"], [[4], False], None))
        for (case, fi, o, m) in failing[:2]:
            small = case
            if case[0] != "threads" and "C09:http_keeps_serving" not in fi:
                try:
                    small = shrink(rig, case, stats)
                except Exception:             # noqa
                    small = case
            f2 = []
            if small is not case:
                run_batch(rig, [small], {"http_probes": 0, "http_probe_failures": 0, "http_evaluations": 0,
                                         "http_reactions": {}, "http_handled": 0, "http_disagreements": 0,
                                         "http_model_failures": 0, "http_impl_failures": 0}, f2)
            if f2:
                (case2, fi2, o2, m2) = f2[0]
                out.append((show(case2), fi2, common._jsonable(o2), common._jsonable(m2)))
            else:
                out.append((show(case), fi, common._jsonable(o), common._jsonable(m)))
    finally:
        rig.close()
    stats["http_wall_s"] = round(time.time() - t0, 1)
    report.setdefault("extra_failing", []).extend(out)
    report["evaluations"] = report.get("evaluations", 0) + stats["http_evaluations"]
    report["disagreements"] = report.get("disagreements", 0) + stats["http_disagreements"]
    report["impl_failures"] = report.get("impl_failures", 0) + stats["http_impl_failures"]
    report.setdefault("extra", {}).update(stats)
    return out


def main(argv=None):
    import argparse
    import json
    import random
    ap = argparse.ArgumentParser()
    ap.add_argument("--tier", default="quick")
    args = ap.parse_args(argv)
    b = common.ensure_built("C09", ("c09http",))
    if not b.ok:
        print("build broken:", b.broken)
        print(b.log[-2000:])
        return 2
    seed = int(os.environ.get("VERIF_SEED", "0") or 0)
    report = {"evaluations": 0, "extra": {}}
    out = http_checks(args.tier, random.Random(seed * 1000003 + 919), report)
    print(json.dumps(report["extra"]))
    for (case, fi, o, m) in out:
        print("FAILURE", fi, json.dumps({k: v for k, v in case.items() if k not in ("content", "events")}))
        print("   impl :", o)
        print("   model:", m)
    print(f"[C09-http] tier={args.tier} evaluations={report['evaluations']} failures={len(out)}")
    return 1 if out else 0


if __name__ == "__main__":
    raise SystemExit(main())
