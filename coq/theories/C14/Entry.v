(* C14: case/observation types, executable checker [holds], sx entry point. *)
From Coq Require Import String.
From Coq Require Import List NArith ZArith Bool Arith.
From VF Require Import Base.Sx TextFile.Model TextFile.Proofs.
Import ListNotations.
Open Scope N_scope.

(* ---------- oracle tables (filled by the harness from re / the transformation functions / the hash) ---------- *)
Record tables := {
  t_ign : list (str * bool);
  t_match : list (str * option (list (option str)));
  t_xform : list ((nat * option str) * res val);
  t_hash : list (str * str) }.

Fixpoint assoc {K V} (eqb : K -> K -> bool) (k : K) (l : list (K * V)) : option V :=
  match l with
  | [] => None
  | (k', v) :: r => if eqb k k' then Some v else assoc eqb k r
  end.
Definition ostr_eqb (a b : option str) : bool :=
  match a, b with
  | None, None => true
  | Some x, Some y => str_eqb x y
  | _, _ => false
  end.
Definition xkey_eqb (a b : nat * option str) : bool := Nat.eqb (fst a) (fst b) && ostr_eqb (snd a) (snd b).
Definition E_ORACLE_MISS : err := 98.

Definition oracle_of (t : tables) : oracle :=
  {| o_ignored := fun l => match assoc str_eqb l (t_ign t) with Some b => b | None => false end;
     o_match := fun l => match assoc str_eqb l (t_match t) with Some m => m | None => None end;
     o_xform := fun i g => match assoc xkey_eqb (i, g) (t_xform t) with Some r => r | None => Exc E_ORACLE_MISS end;
     o_hash := fun l => match assoc str_eqb l (t_hash t) with Some h => h | None => 0 :: l end |}.

Record case := { ccfg : cfg; tabs : tables; init : N * fstate; hist : list hstep }.
Definition obs := list (answer * answer).

Definition run_model (c : case) : obs := run (oracle_of (tabs c)) (ccfg c) (init c) fresh (hist c).

(* every line of every content of the history is in the tables *)
Definition has_key {V} (l : str) (t : list (str * V)) : bool :=
  match assoc str_eqb l t with Some _ => true | None => false end.
Definition content_covered (c : case) (f : fstate) : bool :=
  match f with
  | FText s => forallb (fun l => has_key l (t_ign (tabs c)) && has_key l (t_match (tabs c)) && has_key l (t_hash (tabs c)))
                       (file_lines s)
  | _ => true
  end.
Definition covered (c : case) : bool :=
  content_covered c (snd (init c)) &&
  forallb (fun s => match s with SEdit _ f => content_covered c f | _ => true end) (hist c).

(* ---------- sx encodings ---------- *)
Definition val_sx (v : val) : sx :=
  match v with
  | VNone => L [I 0%Z]
  | VStr s => L [I 1%Z; B s]
  | VInt z => L [I 2%Z; I z]
  | VList l => L [I 3%Z; L (map B l)]
  end.
Definition ostr_sx (o : option str) : sx := match o with None => L [] | Some s => L [B s] end.
Fixpoint tree_sx (t : tree) : sx :=
  match t with
  | Leaf v => L [I 0%Z; val_sx v]
  | Node l => L [I 1%Z; L ((fix go (l : list (str * tree)) : list sx :=
                              match l with
                              | [] => []
                              | (k, t') :: r => L [B k; tree_sx t'] :: go r
                              end) l)]
  end.
Definition kids_sx (k : kids) : sx := tree_sx (Node k).
Definition answer_sx (a : answer) : sx :=
  match a with
  | AGet k v => L [I 0%Z; kids_sx k; ostr_sx v]
  | AFind None => L [I 1%Z; L []]
  | AFind (Some id) => L [I 1%Z; L [val_sx id]]
  | ARaise e => L [I 2%Z; sxN e]
  end.
Definition obs_sx (o : obs) : sx := L (map (fun ab => L [answer_sx (fst ab); answer_sx (snd ab)]) o).

(* ---------- decoding ---------- *)
Definition dec_val (x : sx) : option val :=
  match x with
  | L [I 0%Z] => Some VNone
  | L [I 1%Z; B s] => Some (VStr s)
  | L [I 2%Z; I z] => Some (VInt z)
  | L [I 3%Z; l] => option_map VList (asListOf asB l)
  | _ => None
  end.
Definition dec_ostr (x : sx) : option (option str) :=
  match x with
  | L [] => Some None
  | L [B s] => Some (Some s)
  | _ => None
  end.
Fixpoint dec_tree (x : sx) : option tree :=
  match x with
  | L [I 0%Z; v] => option_map Leaf (dec_val v)
  | L [I 1%Z; L l] =>
      option_map Node
        ((fix go (l : list sx) : option kids :=
            match l with
            | [] => Some []
            | L [B k; t] :: r =>
                match dec_tree t, go r with
                | Some t', Some r' => Some ((k, t') :: r')
                | _, _ => None
                end
            | _ => None
            end) l)
  | _ => None
  end.
Definition dec_kids (x : sx) : option kids :=
  match dec_tree x with Some (Node k) => Some k | _ => None end.
Definition dec_answer (x : sx) : option answer :=
  match x with
  | L [I 0%Z; k; v] => obind (dec_kids k) (fun k => obind (dec_ostr v) (fun v => Some (AGet k v)))
  | L [I 1%Z; L []] => Some (AFind None)
  | L [I 1%Z; L [v]] => obind (dec_val v) (fun v => Some (AFind (Some v)))
  | L [I 2%Z; e] => obind (asN e) (fun e => Some (ARaise e))
  | _ => None
  end.
Definition dec_obs (x : sx) : option obs :=
  asListOf (fun y => match y with
                     | L [a; b] => obind (dec_answer a) (fun a => obind (dec_answer b) (fun b => Some (a, b)))
                     | _ => None
                     end) x.

Definition dec_action (x : sx) : option action :=
  match x with I 0%Z => Some AError | I 1%Z => Some AIgnore | I 2%Z => Some AWarn | _ => None end.
Definition dec_vcfg (x : sx) : option vcfg :=
  match x with
  | L [B k; tn; un] => obind (asBool tn) (fun tn => obind (asBool un) (fun un =>
                       Some {| vkey := k; tnone := tn; unone := un |}))
  | _ => None
  end.
Definition dec_cfg (x : sx) : option cfg :=
  match x with
  | L [ca; ff; mi; du; hi; si; vs] =>
      obind (asBool ca) (fun ca => obind (asBool ff) (fun ff => obind (dec_action mi) (fun mi =>
      obind (dec_action du) (fun du => obind (asBool hi) (fun hi => obind (dec_vcfg si) (fun si =>
      obind (asListOf dec_vcfg vs) (fun vs =>
      Some {| cache := ca; ffm := ff; mis := mi; dup := du; has_ign := hi; sid := si; vars := vs |})))))))
  | _ => None
  end.
Definition dec_groups (x : sx) : option (option (list (option str))) :=
  match x with
  | L [] => Some None
  | L [gs] => option_map Some (asListOf dec_ostr gs)
  | _ => None
  end.
Definition dec_res_val (x : sx) : option (res val) :=
  match x with
  | L [I 0%Z; v] => option_map Ok (dec_val v)
  | L [I 1%Z; e] => option_map Exc (asN e)
  | _ => None
  end.
Definition dec_tables (x : sx) : option tables :=
  match x with
  | L [ig; mt; xf; hs] =>
      obind (asListOf (fun y => match y with L [B l; b] => option_map (pair l) (asBool b) | _ => None end) ig) (fun ig =>
      obind (asListOf (fun y => match y with L [B l; g] => option_map (pair l) (dec_groups g) | _ => None end) mt) (fun mt =>
      obind (asListOf (fun y => match y with
                                | L [i; g; r] => obind (asNat i) (fun i => obind (dec_ostr g) (fun g =>
                                                 option_map (pair (i, g)) (dec_res_val r)))
                                | _ => None end) xf) (fun xf =>
      obind (asListOf (fun y => match y with L [B l; B h] => Some (l, h) | _ => None end) hs) (fun hs =>
      Some {| t_ign := ig; t_match := mt; t_xform := xf; t_hash := hs |}))))
  | _ => None
  end.
Definition dec_fstate (x : sx) : option fstate :=
  match x with
  | L [I 0%Z] => Some FMissing
  | L [I 1%Z; B s] => Some (FText s)
  | L [I 2%Z] => Some FBad
  | _ => None
  end.
Definition dec_call (x : sx) : option call :=
  match x with
  | L [I 1%Z; id] => option_map CGet (dec_val id)
  | L [I 2%Z; B k; v] => option_map (CFind k) (dec_val v)
  | _ => None
  end.
Definition dec_step (x : sx) : option hstep :=
  match x with
  | L [I 0%Z; v; f] => obind (asN v) (fun v => option_map (SEdit v) (dec_fstate f))
  | L [I 1%Z; id] => option_map (fun id => SCall (CGet id)) (dec_val id)
  | L [I 2%Z; B k; v] => option_map (fun v => SCall (CFind k v)) (dec_val v)
  | L [I 3%Z; cl; L [I 0%Z; e]] => obind (dec_call cl) (fun cl => option_map (fun e => SCallF cl (FIO e)) (asN e))
  | L [I 3%Z; cl; L [I 1%Z; tok]] => obind (dec_call cl) (fun cl => option_map (fun t => SCallF cl (FStat t)) (asN tok))
  | _ => None
  end.
Definition dec_case (x : sx) : option case :=
  match x with
  | L [cf; tb; L [v; f]; h] =>
      obind (dec_cfg cf) (fun cf => obind (dec_tables tb) (fun tb => obind (asN v) (fun v =>
      obind (dec_fstate f) (fun f => obind (asListOf dec_step h) (fun h =>
      Some {| ccfg := cf; tabs := tb; init := (v, f); hist := h |})))))
  | _ => None
  end.

(* ---------- the executable checker ---------- *)
Definition list_N_eqb (a b : list N) : bool := if list_eq_dec N.eq_dec a b then true else false.
Definition sx_eqb (a b : sx) : bool := list_N_eqb (print a) (print b).
Definition aeqb (a b : answer) : bool := sx_eqb (answer_sx a) (answer_sx b).
Definition keqb (a b : kids) : bool := sx_eqb (kids_sx a) (kids_sx b).
(* answers are compared without the version string: the property constrains versions only through
   "changes whenever the data changes" (clause version_tracks_data); whether a system is known at all
   (version present or not) is kept *)
Definition erase (a : answer) : answer :=
  match a with AGet k (Some _) => AGet k (Some []) | _ => a end.
Definition deqb (a b : answer) : bool := aeqb (erase a) (erase b).

(* a system's version changes whenever its data changes: equal versions, equal data *)
Definition vt_key (a : answer) : list (option str * list N) :=
  match a with AGet k v => [(v, print (kids_sx k))] | _ => [] end.
Definition vt_pair (p q : option str * list N) : bool :=
  if ostr_eqb (fst p) (fst q) then list_N_eqb (snd p) (snd q) else true.
Definition answers (o : obs) : list answer := flat_map (fun ab => [fst ab; snd ab]) o.
Definition vt_all (l : list answer) : bool :=
  let ps := flat_map vt_key l in forallb (fun p => forallb (vt_pair p) ps) ps.

Definition call_clauses (cl : call) (a b s_long s_fresh : answer) : list string :=
  (if deqb b s_fresh then [] else
     [match cl with CGet _ => "first_line_wins"%string | CFind _ _ => "find_spec"%string end]) ++
  (if deqb a s_long then [] else
     [match cl with CGet _ => "reload_complete_get_data"%string
                  | CFind _ _ => "reload_complete_find_system"%string end]).

(* mirrors the reference run [spec_run]: memo = stat version the snapshot is remembered for *)
Fixpoint check (O : oracle) (c : cfg) (memo : option N) (fs : N * fstate) (h : list hstep) (o : obs) : list string :=
  match h with
  | [] => match o with [] => [] | _ :: _ => ["obs_shape"%string] end
  | SEdit v f :: r => check O c memo (v, f) r o
  | SCall cl :: r =>
      match o with
      | [] => ["obs_shape"%string]
      | (a, b) :: o' =>
          let s := spec_answer O c (snd fs) cl in
          call_clauses cl a b s s ++
          (if deqb a b then [] else ["no_remnant_same_as_fresh_source"%string]) ++
          check O c (memo_after O c memo (fst fs) (snd fs)) fs r o'
      end
  | SCallF cl flt :: r =>
      match o with
      | [] => ["obs_shape"%string]
      | (a, b) :: o' =>
          let fs' := faulted fs flt in
          let s_long := spec_answer O c (if hitb c memo (fst fs') then snd fs else snd fs') cl in
          (if deqb b (spec_answer O c (snd fs) cl) then [] else
             [match cl with CGet _ => "first_line_wins"%string | CFind _ _ => "find_spec"%string end]) ++
          (if deqb a s_long then [] else ["fault_is_the_result_or_snapshot_still_valid"%string]) ++
          check O c (memo_after O c memo (fst fs') (snd fs')) fs r o'
      end
  end.

Definition holds (c : case) (o : obs) : list string :=
  nodup string_dec
    (check (oracle_of (tabs c)) (ccfg c) None (init c) (hist c) o ++
     (if vt_all (answers o) then [] else ["version_tracks_data"%string])).

(* hypotheses of the property: the stat version determines the content; the hash has no collision *)
Definition valid (c : case) : Prop :=
  (exists content_of : N -> fstate, consistent content_of (init c) (hist c)) /\
  (forall a b, o_hash (oracle_of (tabs c)) a = o_hash (oracle_of (tabs c)) b -> a = b).

(* ---------- [valid] as a boolean (C14.Props.C14_validb_valid) ----------
   Both hypotheses are decidable from the case.  (1) the stat version determines the content: the pairs
   (version, file state) that occur - initial state, edits, and the token of a stat fault together with the
   content current at that call - form a function.  (2) the hash is injective on ALL strings: the oracle is the
   table with the default 0 :: line for lines that are not in it, so it suffices that table values of different
   keys differ and that no table value starts with the byte 0. *)
Definition fstate_eq_dec : forall a b : fstate, {a = b} + {a <> b}.
Proof. decide equality; [apply (list_eq_dec N.eq_dec)|apply N.eq_dec]. Defined.
Fixpoint pairs_of (fs : N * fstate) (h : list hstep) : list (N * fstate) :=
  match h with
  | [] => []
  | SEdit v f :: r => (v, f) :: pairs_of (v, f) r
  | SCall _ :: r => pairs_of fs r
  | SCallF _ (FIO _) :: r => pairs_of fs r
  | SCallF _ (FStat tok) :: r => (tok, snd fs) :: pairs_of fs r
  end.
Definition functionalb (l : list (N * fstate)) : bool :=
  forallb (fun p => forallb (fun q => negb (fst p =? fst q) || (if fstate_eq_dec (snd p) (snd q) then true else false)) l) l.
Definition hash_table_okb (t : list (str * str)) : bool :=
  forallb (fun p => match snd p with 0 :: _ => false | _ => true end) t &&
  forallb (fun p => forallb (fun q => str_eqb (fst p) (fst q) || negb (str_eqb (snd p) (snd q))) t) t.
Definition validb (c : case) : bool :=
  functionalb (init c :: pairs_of (init c) (hist c)) && hash_table_okb (t_hash (tabs c)).

Definition entry (x : sx) : sx :=
  match x with
  | L [cx; ox] =>
      match dec_case cx, dec_obs ox with
      | Some c, Some io =>
          let m := run_model c in
          if covered c then L [ obs_sx m; L (map sxS (holds c m)); L (map sxS (holds c io)); L []; sxBool (validb c) ]
          else L [ sxS "oracle-table-miss"; L []; L [] ]
      | None, _ => sxS "bad-case"
      | _, None => sxS "bad-obs"
      end
  | _ => sxS "bad-line"
  end.
