(* C02 - TFTP transfers are lock-step, retransmit boundedly on time-out only, always end.
   Property theorems only. *)
From Coq Require Import String.
From Coq Require Import List NArith ZArith Bool Arith Lia.
From VF Require Import Tftp.Readers Tftp.Codec Tftp.Transfer Tftp.Run Tftp.Monitor Tftp.MonitorProofs
  Tftp.Entries Tftp.TimeProofs C02.Entry C01.Props.
Import ListNotations.

(* For every script the trace is accepted by the monitor.  The monitor admits a new DATA/OACK
   packet only directly after the receipt of the matching ACK from the client (lock-step), a
   repeated packet only directly after a time-out that fires exactly one interval after the
   previous send of that packet (never after duplicate, stale, future, foreign or malformed
   datagrams, which leave the deadline where it was), at most 1 + max_retries sends of one
   packet, nothing after giving up or after a peer ERROR, and the release of file and socket
   as the last two events. *)
Theorem C02_monitor_accepts : forall c, valid c -> monitor c (run_transfer_case c) = [].
Proof. exact monitor_accepts. Qed.
Print Assumptions C02_monitor_accepts.

(* every time stamp of the transfer lies within packets x (1 + max_retries) x (timeout + proc),
   where proc >= 0 is the time the server needs to take one datagram off the socket (case field
   t_proc; the statement of the property is the idealisation proc = 0).  The bound holds for EVERY
   script: no stream of duplicate, stale, foreign or malformed datagrams, however dense, keeps a
   try open beyond its deadline plus the handling of the one datagram taken before it. *)
Theorem C02_terminates_in_time : forall c, valid c -> within_time c (run_transfer_case c) = true.
Proof. exact TimeProofs.transfer_within_time. Qed.
Print Assumptions C02_terminates_in_time.

(* one try, whatever arrives and however much is queued: it is over at the latest `proc` after
   its deadline (or at once when it is entered after the deadline) *)
Theorem C02_deadline_not_postponed : forall c w evs now deadline o n' e' l,
  (0 <= proc c)%Z -> v c = current ->
  await c w now deadline evs = (o, n', e', l) ->
  (now <= n' <= Z.max now (deadline + proc c))%Z.
Proof. intros c w evs now dl o n' e' l Hp Hv H. exact (proj1 (await_times c w Hp Hv evs now dl o n' e' l H)). Qed.
Print Assumptions C02_deadline_not_postponed.

Theorem C02_holds : forall c, valid c -> holds c (run_transfer_case c) = [].
Proof.
  intros c H. unfold holds. rewrite monitor_accepts by exact H.
  rewrite TimeProofs.transfer_within_time by exact H. reflexivity.
Qed.
Print Assumptions C02_holds.

(* the driver reports for every evaluated case whether it satisfies the hypotheses of the theorems
   (flag `covered` of Tftp.Entries.tftp_entry): where the flag is 1 the theorem above applies *)
Theorem C02_covered_cases : forall c, validb c = true -> holds c (run_transfer_case c) = [].
Proof. intros c H. apply C02_holds. apply validb_valid. exact H. Qed.
Print Assumptions C02_covered_cases.

(* the behaviour before the repair of D1 (retry exhaustion fell through) violates the property:
   a silent client is sent the next packet without having acknowledged anything *)
Definition d1_case : tcase :=
  {| t_content := [1; 2; 3]%N; t_chunks := []; t_netascii := false; t_options := [(lit "blksize", lit "8")];
     t_limits := {| max_bs := 65464; max_tmo := 30720; default_tmo := 2048 |}; t_retries := 1; t_wrap := Some 0%N;
     t_kind := KNoFileno; t_events := [];
     t_proc := 0; t_v := {| retry_fallthrough := true; errcode_raises := false; late_recv := false |}; t_nv := ncurrent; t_na_always_skip := false |}.
Theorem C02_refuted_D1_retry_fallthrough : holds d1_case (run_transfer_case d1_case) <> [].
Proof. vm_compute. discriminate. Qed.

(* the behaviour before the repair of D20: when no time was left in a try the server received
   once more with a 1 ms time-out, so a burst of ignored datagrams (here 3000 stale ACKs queued at
   time 0, each costing one tick to handle) kept the single try of a one-block transfer open until
   the queue was empty - tick 3001 instead of 1024: no retransmission, no end *)
Definition d20_case (late : bool) : tcase :=
  {| t_content := []; t_chunks := []; t_netascii := false; t_options := [];
     t_limits := {| max_bs := 65464; max_tmo := 30720; default_tmo := 1024 |}; t_retries := 0; t_wrap := Some 0%N;
     t_kind := KNoFileno; t_events := repeat (Recv 0 client [0; 4; 0; 7]%N) 3000;
     t_proc := 1; t_v := {| retry_fallthrough := false; errcode_raises := false; late_recv := late |};
     t_nv := ncurrent; t_na_always_skip := false |}.
Theorem C02_refuted_D20_flood :
  holds (d20_case true) (run_transfer_case (d20_case true)) <> [] /\
  last_time (run_transfer_case (d20_case true)) 0 = 3001%Z /\
  holds (d20_case false) (run_transfer_case (d20_case false)) = [] /\
  last_time (run_transfer_case (d20_case false)) 0 = 1024%Z.
Proof. vm_compute. repeat split; discriminate. Qed.

(* ... and without limit: for the pre-fix variant a long enough burst keeps ONE try open beyond any bound,
   whatever its deadline (handling time 1 tick, stale ACKs for block 7 while block 1 is outstanding) *)
Definition late_cfg (tm : Z) : cfg :=
  {| tmo := tm; retries := 0; wrap := Some 0%N; proc := 1;
     v := {| retry_fallthrough := false; errcode_raises := false; late_recv := true |} |}.
Lemma late_burst tm dl : forall n now, (0 <= now)%Z ->
  exists l, await (late_cfg tm) 1%N now dl (repeat (Recv 0 client [0; 4; 0; 7]%N) n)
            = (OTimeout, (now + Z.of_nat n + sock_timeout (now + Z.of_nat n) dl)%Z, [], l).
Proof.
  induction n as [|n IH]; intros now Hnow; cbn [repeat await];
    change (late_recv (v (late_cfg tm))) with true; cbn [negb andb].
  - replace (now + Z.of_nat 0)%Z with now by lia. eexists. reflexivity.
  - assert (Hs : (1 <= sock_timeout now dl)%Z) by (unfold sock_timeout; destruct (Z.ltb_spec 0 (dl - now)); lia).
    destruct (Z.ltb_spec 0 (now + sock_timeout now dl)); [|lia].
    change (client =? client)%N with true. cbn [negb].
    change (proc (late_cfg tm)) with 1%Z.
    change (classify (v (late_cfg tm)) [0; 4; 0; 7]%N) with (CAck 7). change (7 =? 1)%N with false. cbv iota.
    destruct (IH (Z.max now 0 + 1)%Z ltac:(lia)) as [l E].
    rewrite E. replace (Z.max now 0 + 1 + Z.of_nat n)%Z with (now + Z.of_nat (S n))%Z by lia.
    eexists. reflexivity.
Qed.
Theorem C02_refuted_D20_unbounded : forall tm dl bound, exists evs o n' e' l,
  await (late_cfg tm) 1%N 0 dl evs = (o, n', e', l) /\ (bound < n')%Z.
Proof.
  intros tm dl bound. destruct (late_burst tm dl (Z.to_nat (Z.max 0 bound)) 0 ltac:(lia)) as [l E].
  eexists _, _, _, _, _. split; [exact E|].
  assert (1 <= sock_timeout (0 + Z.of_nat (Z.to_nat (Z.max 0 bound))) dl)%Z
    by (unfold sock_timeout; destruct (Z.ltb_spec 0 (dl - (0 + Z.of_nat (Z.to_nat (Z.max 0 bound))))); lia).
  lia.
Qed.
Print Assumptions C02_refuted_D20_unbounded.

Example C02_nonvacuous :
  valid (C01.Props.ex_case) /\ List.length (run_transfer_case C01.Props.ex_case) = 13%nat.
Proof. split; [repeat split; cbn; lia|vm_compute; reflexivity]. Qed.
