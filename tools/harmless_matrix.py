#!/usr/bin/env python3
"""
tools/harmless_matrix.py <name> [...] : run, for each harmless change /verif/harmless/<name>, every OTHER property's
quick check whose anchored files the patch touches (the change's own property was run by tools/harmless_eval.py).
Results go to meta.json["cross_checks"].  Expected: exit 0 everywhere.
"""
import json
import os
import re
import shutil
import subprocess
import sys
import tempfile

V = os.path.dirname(os.path.dirname(os.path.abspath(__file__)))


def sh(cmd, cwd=None, timeout=7200, env=None):
    p = subprocess.run(cmd, shell=True, cwd=cwd, stdout=subprocess.PIPE, stderr=subprocess.STDOUT, text=True,
                       timeout=timeout, env=env)
    return p.returncode, p.stdout


def anchors():
    m = {}
    for ln in open(os.path.join(V, "properties.jsonl")):
        d = json.loads(ln)
        m[d["id"]] = set(d["anchors"]["files"])
    return m


def main():
    anc = anchors()
    for name in sys.argv[1:]:
        d = os.path.join(V, "harmless", name)
        own = name.split("-")[0]
        files = set(re.findall(r"^\+\+\+ b/(\S+)", open(os.path.join(d, "patch.diff")).read(), re.M))
        props = sorted(p for p, fs in anc.items() if p != own and fs & files)
        meta = json.load(open(os.path.join(d, "meta.json")))
        res = meta.get("cross_checks", {})
        props = [p for p in props if p not in res]
        if not props:
            print(name, "no further checks")
            continue
        wt = tempfile.mkdtemp(prefix="vharm.", dir="/tmp")
        os.rmdir(wt)
        try:
            rc, out = sh(f"git -C /repo worktree add -q --detach {wt} HEAD")
            assert rc == 0, out
            rc, out = sh(f"git apply {d}/patch.diff", cwd=wt)
            assert rc == 0, out
            for p in props:
                rcc, outc = sh(f"./check {p} --tier quick", cwd=V, env=dict(os.environ, VERIF_REPO=wt))
                lines = [ln[:300] for ln in outc.split("\n") if ln.startswith(("VIOLATION", "["))]
                v = {"exit": rcc, "lines": lines[-3:]}
                for ln in lines:
                    if ln.startswith("VIOLATION"):
                        try:
                            doc = json.load(open(ln.split("replay=")[1].split()[0]))
                            v["replay_kind"] = doc["kind"]
                            v["detail"] = json.dumps(doc["detail"])[:1200]
                            v["case"] = json.dumps(doc.get("case"))[:600]
                        except Exception as ex:
                            v["replay_error"] = repr(ex)
                res[p] = v
                print(name, p, "exit", rcc, v.get("replay_kind"), flush=True)
        finally:
            sh(f"git -C /repo worktree remove --force {wt}")
            shutil.rmtree(wt, ignore_errors=True)
        meta["cross_checks"] = res
        json.dump(meta, open(os.path.join(d, "meta.json"), "w"), indent=1)


if __name__ == "__main__":
    main()
