(* Assertion tables for the HTTP lifecycle model (current code: close_on_stop = true). *)
From Coq Require Import List Arith Bool Lia.
From VF Require Import Lifecycle.Pool Lifecycle.PoolProofs Lifecycle.Fin Lifecycle.PoolCheck Lifecycle.HttpLife.
Import ListNotations.

Definition all_hpc (f : hpc -> bool) : bool :=
  f HIdle && f H_chk && f H_chkF && f H_chkT && f H_spawnT && f H_spawn && f H_setrun && f H_rel && f P_chk && f P_wait && f P_close
  && f P_join && f P_clear && f P_reset && f P_rel.
Lemma all_hpc_ok f : all_hpc f = true -> forall x, f x = true.
Proof. unfold all_hpc. intros H x. repeat (apply andb_prop in H; destruct H as [H ?]). destruct x; assumption. Qed.

Definition all_hmpc (f : hmpc -> bool) : bool := f HMNone && f HM_clear && f HM_loop && f HM_fin && f HM_ret && f HMEnded.
Lemma all_hmpc_ok f : all_hmpc f = true -> forall x, f x = true.
Proof. unfold all_hmpc. intros H x. repeat (apply andb_prop in H; destruct H as [H ?]). destruct x; assumption. Qed.

Definition all_hsk (f : hsk -> bool) : bool := f HSNone && f HSOpen && f HSClosed.
Lemma all_hsk_ok f : all_hsk f = true -> forall x, f x = true.
Proof. unfold all_hsk. intros H x. repeat (apply andb_prop in H; destruct H as [H ?]). destruct x; assumption. Qed.

Definition all_hop (f : hop -> bool) : bool := f HStart && f HStop && f HStartF && f HStartT.
Lemma all_hop_ok f : all_hop f = true -> forall x, f x = true.
Proof. unfold all_hop. intros H x. repeat (apply andb_prop in H; destruct H as [H ?]). destruct x; assumption. Qed.

Definition all_hglob (f : hglob -> bool) : bool :=
  all_bool (fun r => all_lk (fun l => all_bool (fun m => all_hmpc (fun t => all_hsk (fun k =>
  all_bool (fun q => all_bool (fun d => all_bool (fun e =>
    f {| hrunning := r; hlock := l; hmref := m; hmt := t; hsock := k; sreq := q; isdown := d; herr := e |})))))))).
Lemma all_hglob_ok f : all_hglob f = true -> forall x, f x = true.
Proof.
  unfold all_hglob. intros H [r l m t k q d e].
  exact (all_bool_ok _ (all_bool_ok _ (all_bool_ok _ (all_hsk_ok _ (all_hmpc_ok _ (all_bool_ok _ (all_lk_ok _ (all_bool_ok _ H r) l) m) t) k) q) d) e).
Qed.

Definition hmpc_eqb (a b : hmpc) : bool :=
  match a, b with HMNone, HMNone | HM_clear, HM_clear | HM_loop, HM_loop | HM_fin, HM_fin | HM_ret, HM_ret | HMEnded, HMEnded => true
  | _, _ => false end.
Definition hsk_eqb (a b : hsk) : bool :=
  match a, b with HSNone, HSNone | HSOpen, HSOpen | HSClosed, HSClosed => true | _, _ => false end.

Definition hstopped_core g := negb (hrunning g) && negb (hmref g) && hmt_ended (hmt g) && negb (hsock_open (hsock g)).
Definition fresh_loop g := hloop_pc (hmt g) && negb (sreq g) && negb (isdown g) && hsock_open (hsock g).
Definition hrunning_core g := hrunning g && hmref g && fresh_loop g.
Definition hcore g := hstopped_core g || hrunning_core g.
(* shutdown() in progress or finished *)
Definition shutting g :=
  (sreq g && negb (isdown g) && (hloop_pc (hmt g) || hmpc_eqb (hmt g) HM_fin))
  || (negb (sreq g) && isdown g && (hmpc_eqb (hmt g) HM_ret || hmpc_eqb (hmt g) HMEnded)).
Definition shut g := negb (sreq g) && isdown g && (hmpc_eqb (hmt g) HM_ret || hmpc_eqb (hmt g) HMEnded).

Definition hgok (g : hglob) : bool :=
  negb (herr g) && negb (lk_eqb (hlock g) LMain)
  && implb (hloop_pc (hmt g)) (hsock_open (hsock g))
  && (lk_eqb (hlock g) LCaller || hcore g).

Definition hholder (p : hpc) : bool := negb (his_idle p).

Definition hlok (g : hglob) (me : bool) (p : hpc) : bool :=
  Bool.eqb me (hholder p) && implb me (lk_eqb (hlock g) LCaller) &&
  match p with
  | HIdle => true
  | H_chk | H_chkF | H_chkT | P_chk => hcore g
  | H_spawnT => negb (hrunning g) && negb (hmref g) && hmt_ended (hmt g) && hsock_open (hsock g) && negb (sreq g) && negb (isdown g)
  | H_spawn => negb (hrunning g) && negb (hmref g) && hmt_ended (hmt g) && hsock_open (hsock g) && negb (sreq g) && negb (isdown g)
  | H_setrun => negb (hrunning g) && hmref g && fresh_loop g
  | H_rel => hrunning_core g
  | P_wait => hrunning g && hmref g && hsock_open (hsock g) && shutting g
  | P_close => hrunning g && hmref g && hsock_open (hsock g) && shut g
  | P_join => hrunning g && hmref g && hsk_eqb (hsock g) HSClosed && shut g
  | P_clear => hrunning g && hmref g && hsk_eqb (hsock g) HSClosed && hmpc_eqb (hmt g) HMEnded
  | P_reset => hrunning g && negb (hmref g) && hsk_eqb (hsock g) HSClosed && hmpc_eqb (hmt g) HMEnded
  | P_rel => hstopped_core g
  end.

Definition hact (p : hpc) : bool := false.
Definition hactb (g : hglob) : bool := false.
Definition hquiet (g : hglob) : bool := (HRunning g || HStopped g) && negb (lk_eqb (hlock g) LCaller).

Lemma hO1 : chkO1 hglob hpc hop hlock (hcstep true true) hgok hlok hact hactb all_hglob all_hpc all_hop = true.
Proof. vm_compute. reflexivity. Qed.
Lemma hO2 : chkO2 hglob hpc hop (hcstep true true) hgok hlok hact all_hglob all_hpc all_hop = true.
Proof. vm_compute. reflexivity. Qed.
Lemma hO3 : chkO3 hglob hpc hlock hmstep hgok hlok hactb all_hglob all_hpc = true.
Proof. vm_compute. reflexivity. Qed.
Lemma hD1 : chkD1 hglob hpc hop hlock (hcstep true true) hmstep his_idle hgok hlok all_hglob all_hpc all_hop = true.
Proof. vm_compute. reflexivity. Qed.
Lemma hD2 : chkD2 hglob hpc hop (hcstep true true) hmstep hgok hlok all_hglob all_hpc all_hop = true.
Proof. vm_compute. reflexivity. Qed.
Lemma hF1 : chkF1 hglob hpc his_idle hlok hact all_hglob all_hpc = true.
Proof. vm_compute. reflexivity. Qed.
Lemma hF2 : chkF2 hglob hlock hgok hactb hquiet all_hglob = true.
Proof. vm_compute. reflexivity. Qed.
