(* Boolean forms of the local obligations of PoolProofs (O1 O2 O3 D1 D2 F1 F2) over exhaustive
   quantifiers of the instance's finite types, and their reflection into the Prop statements.
   An instance proves `chk… = true` by vm_compute: a genuinely finite sweep over every value of the
   globals, every pc, every pending operation. *)
From Coq Require Import List Arith Bool Lia.
From VF Require Import Lifecycle.Pool Lifecycle.PoolProofs Lifecycle.Fin.

Lemma lk_eqb_eq a b : lk_eqb a b = true <-> a = b.
Proof. destruct a, b; cbn; split; congruence. Qed.

Definition is_some {A} (o : option A) : bool := match o with Some _ => true | None => false end.

Section Check.
  Variables (G PC OP : Type).
  Variable lkof : G -> lk.
  Variable cstep : G -> bool -> PC -> option OP -> option (G * PC * bool).
  Variable mstep : G -> option G.
  Variable is_idle : PC -> bool.
  Variables (gok : G -> bool) (lok : G -> bool -> PC -> bool) (act : PC -> bool) (actb : G -> bool).
  Variable quiet : G -> bool.
  Variables (allG : (G -> bool) -> bool) (allPC : (PC -> bool) -> bool) (allOP : (OP -> bool) -> bool).
  Hypothesis allG_ok : forall f, allG f = true -> forall x, f x = true.
  Hypothesis allPC_ok : forall f, allPC f = true -> forall x, f x = true.
  Hypothesis allOP_ok : forall f, allOP f = true -> forall x, f x = true.

  Definition chkO1 : bool :=
    allG (fun g => all_bool (fun me => allPC (fun p => all_opt allOP (fun o =>
      implb (gok g && lok g me p && implb me (lk_eqb (lkof g) LCaller))
        match cstep g me p o with
        | None => true
        | Some (g', p', b) =>
            gok g' && lok g' (me_after (lkof g) (lkof g') me) p' && lock_disc (lkof g) me (lkof g')
            && Nat.eqb (b2n (actb g') + b2n (act p)) (b2n (actb g) + b2n (act p'))
        end)))).

  Lemma O1_of : chkO1 = true -> forall g me p o g' p' b,
    gok g = true -> lok g me p = true -> (me = true -> lkof g = LCaller) ->
    cstep g me p o = Some (g', p', b) ->
    gok g' = true /\ lok g' (me_after (lkof g) (lkof g') me) p' = true /\
    lock_disc (lkof g) me (lkof g') = true /\
    b2n (actb g') + b2n (act p) = b2n (actb g) + b2n (act p').
  Proof.
    intros H g me p o g' p' b Hg Hl Hme Hc.
    pose proof (all_opt_ok _ allOP_ok _ (allPC_ok _ (all_bool_ok _ (allG_ok _ H g) me) p) o) as K.
    cbn beta in K. rewrite Hg, Hl, Hc in K.
    assert (E : implb me (lk_eqb (lkof g) LCaller) = true).
    { destruct me; cbn; auto. apply lk_eqb_eq. auto. }
    rewrite E in K. cbn in K.
    apply andb_prop in K. destruct K as [K K4]. apply andb_prop in K. destruct K as [K K3].
    apply andb_prop in K. destruct K as [K1 K2]. apply Nat.eqb_eq in K4. auto.
  Qed.

  Definition chkO2 : bool :=
    allG (fun g => all_bool (fun me => allPC (fun p => all_opt allOP (fun o =>
      implb (gok g && lok g me p)
        match cstep g me p o with
        | None => true
        | Some (g', _, _) =>
            all_bool (fun me2 => allPC (fun q =>
              implb (lok g me2 q && negb (me && me2) && negb (act p && act q)) (lok g' me2 q)))
        end)))).

  Lemma O2_of : chkO2 = true -> forall g me p o g' p' b me2 q,
    gok g = true -> lok g me p = true -> lok g me2 q = true ->
    me && me2 = false -> act p && act q = false ->
    cstep g me p o = Some (g', p', b) -> lok g' me2 q = true.
  Proof.
    intros H g me p o g' p' b me2 q Hg Hl Hl2 Hm Ha Hc.
    pose proof (all_opt_ok _ allOP_ok _ (allPC_ok _ (all_bool_ok _ (allG_ok _ H g) me) p) o) as K.
    cbn beta in K. rewrite Hg, Hl, Hc in K. cbn in K.
    pose proof (allPC_ok _ (all_bool_ok _ K me2) q) as K2. cbn beta in K2.
    rewrite Hl2, Hm, Ha in K2. exact K2.
  Qed.

  Definition chkO3 : bool :=
    allG (fun g =>
      implb (gok g)
        match mstep g with
        | None => true
        | Some g' =>
            gok g' && Bool.eqb (actb g') (actb g)
            && Bool.eqb (lk_eqb (lkof g) LCaller) (lk_eqb (lkof g') LCaller)
            && all_bool (fun me => allPC (fun q => implb (lok g me q) (lok g' me q)))
        end).

  Lemma O3_of : chkO3 = true -> forall g g', gok g = true -> mstep g = Some g' ->
    gok g' = true /\ actb g' = actb g /\ lk_eqb (lkof g) LCaller = lk_eqb (lkof g') LCaller /\
    forall me q, lok g me q = true -> lok g' me q = true.
  Proof.
    intros H g g' Hg Hm. pose proof (allG_ok _ H g) as K. cbn beta in K. rewrite Hg, Hm in K. cbn in K.
    apply andb_prop in K. destruct K as [K K4]. apply andb_prop in K. destruct K as [K K3].
    apply andb_prop in K. destruct K as [K1 K2].
    apply Bool.eqb_prop in K2, K3. repeat split; auto.
    intros me q Hq. pose proof (allPC_ok _ (all_bool_ok _ K4 me) q) as K5. cbn beta in K5.
    rewrite Hq in K5. exact K5.
  Qed.

  Definition chkD1 : bool :=
    allG (fun g => all_bool (fun me => allPC (fun p => all_opt allOP (fun o =>
      implb (gok g && lok g me p && negb (is_idle p && negb (is_some o)) && negb (is_some (cstep g me p o)))
            ((lk_eqb (lkof g) LCaller && negb me) || is_some (mstep g)))))).

  Lemma D1_of : chkD1 = true -> forall g me p o,
    gok g = true -> lok g me p = true ->
    is_idle p && match o with None => true | Some _ => false end = false ->
    cstep g me p o = None ->
    (lkof g = LCaller /\ me = false) \/ mstep g <> None.
  Proof.
    intros H g me p o Hg Hl Hi Hc.
    pose proof (all_opt_ok _ allOP_ok _ (allPC_ok _ (all_bool_ok _ (allG_ok _ H g) me) p) o) as K.
    cbn beta in K. rewrite Hg, Hl, Hc in K.
    assert (E : is_idle p && negb (is_some o) = false) by (destruct o; cbn in *; auto).
    rewrite E in K. cbn in K. apply orb_prop in K. destruct K as [K|K].
    - left. apply andb_prop in K. destruct K as [K1 K2]. apply lk_eqb_eq in K1.
      destruct me; cbn in K2; auto; discriminate.
    - right. destruct (mstep g); cbn in K; congruence.
  Qed.

  Definition chkD2 : bool :=
    allG (fun g => allPC (fun p => all_opt allOP (fun o =>
      implb (gok g && lok g true p) (is_some (cstep g true p o) || is_some (mstep g))))).

  Lemma D2_of : chkD2 = true -> forall g p o, gok g = true -> lok g true p = true ->
    cstep g true p o <> None \/ mstep g <> None.
  Proof.
    intros H g p o Hg Hl.
    pose proof (all_opt_ok _ allOP_ok _ (allPC_ok _ (allG_ok _ H g) p) o) as K.
    cbn beta in K. rewrite Hg, Hl in K. cbn in K.
    destruct (cstep g true p o); [left; congruence|]. destruct (mstep g); [right; congruence|discriminate].
  Qed.

  Definition chkF1 : bool :=
    allG (fun g => allPC (fun p => implb (is_idle p) (negb (lok g true p) && negb (act p)))).

  Lemma F1_of : chkF1 = true -> forall g p, is_idle p = true -> lok g true p = false /\ act p = false.
  Proof.
    intros H g p Hi. pose proof (allPC_ok _ (allG_ok _ H g) p) as K. cbn beta in K. rewrite Hi in K.
    cbn in K. apply andb_prop in K. destruct K as [K1 K2].
    destruct (lok g true p), (act p); cbn in *; auto; discriminate.
  Qed.

  Definition chkF2 : bool :=
    allG (fun g => implb (gok g && negb (lk_eqb (lkof g) LCaller) && negb (actb g)) (quiet g)).

  Lemma F2_of : chkF2 = true -> forall g, gok g = true -> lk_eqb (lkof g) LCaller = false -> actb g = false ->
    quiet g = true.
  Proof.
    intros H g Hg Hl Ha. pose proof (allG_ok _ H g) as K. cbn beta in K. rewrite Hg, Hl, Ha in K. exact K.
  Qed.
End Check.
