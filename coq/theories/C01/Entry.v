(* C01 - TFTP octet transfers deliver the handler's bytes exactly. *)
From Coq Require Import String.
From Coq Require Import List NArith ZArith Bool.
From VF Require Import Base.Sx Tftp.Transfer Tftp.Run Tftp.Monitor Tftp.Entries.
Import ListNotations.
Definition holds (c : tcase) (l : list tr) : list string :=
  (* besides wrong data: aborting or stalling a transfer although the peer only lost, duplicated,
     delayed or reordered packets also means that the bytes are not delivered *)
  filter (has_tag ["C01:"; "C09:unexpected_error_packet"; "C02:retransmission"; "C02:ends_while_waiting";
                   (* a transfer that takes the internal-error path does not deliver either *)
                   "C09:internal_error_path"]%string)
         (monitor c l).
Definition entry := tftp_entry validb holds proj_client_packets.
