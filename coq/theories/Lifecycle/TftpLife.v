(* Model of vinegar/tftp/server.py : TftpServer.start / stop / _run  (definitions only).

   Atomic steps follow the source: everything that touches a field also touched outside
   _running_lock (self._main_thread, self._socket, the thread itself) is a step of its own.

     start():  with lock:                       Idle --acquire--> St_chk
                 if running: return             St_chk --(release)--> Idle
                 socket = socket(); bind        St_chk --> St_spawn
                 main_thread = Thread; start    St_spawn --> St_setrun
                 running = True                 St_setrun --> St_rel
               (release)                        St_rel --> Idle
     stop():   with lock:                       Idle --acquire--> Sp_chk
                 if not running or shutdown_requested: return     Sp_chk --(release)--> Idle
                 shutdown_requested = True      Sp_chk --> Sp_rel1
               (release)                        Sp_rel1 --> Sp_join
               main_thread.join()               Sp_join --> Sp_clear   (blocks while the thread lives;
                                                                         AttributeError on None is caught)
               main_thread = None               Sp_clear --> Sp_acq2
               with lock:                       Sp_acq2 --acquire--> Sp_reset
                 running = False; shutdown_requested = False      Sp_reset --> Sp_rel2
               (release)                        Sp_rel2 --> Idle
     _run():   while True:
                 with lock: if shutdown_requested: break          M_acq --acquire--> M_chk --(release)--> M_close | M_recv
                 recvmsg / process request (timeout 0.1 s)        M_recv --> M_acq
               finally: socket.close()          M_close --> MEnded

   The [variants] record keeps behaviours the code does not have (used for refutations and to
   explain what each protocol element is for); [cur] is the code as it is. *)
From Coq Require Import List Arith Bool.
From VF Require Import Lifecycle.Pool.
Import ListNotations.

(* StartF: a start() whose bind() fails (port taken by a foreign socket): the except branch closes the
   socket, the lock is released by the with block, the call raises *)
(* StartT: a start() whose Thread.start() raises after bind() has succeeded (the OS refuses a new thread) *)
Inductive op := Start | Stop | StartF | StartT.
Inductive cpc := Idle | St_chk | St_chkF | St_chkT | St_spawnT | St_spawn | St_setrun | St_rel
               | Sp_chk | Sp_rel1 | Sp_join | Sp_clear | Sp_acq2 | Sp_reset | Sp_rel2.
Inductive mpc := MNone | M_acq | M_chk | M_recv | M_close | MEnded.
Inductive sk := SNone | SOpen | SClosed.

Record variants := {
  v_join : bool;        (* stop() joins the main thread *)
  v_close : bool;       (* _run closes the socket in its finally block *)
  v_release : bool;     (* stop() releases the lock before joining *)
  v_chkrun : bool;      (* start() returns early when already running *)
  v_reset : bool;       (* stop() resets shutdown_requested at the end *)
  v_trycovers : bool;   (* thread creation lies inside the try whose except closes the bound socket *)
  v_peek : bool         (* start() touches the listening socket in its 'already running' branch (getsockname) *)
}.
Definition cur : variants :=
  {| v_join := true; v_close := true; v_release := true; v_chkrun := true; v_reset := true; v_trycovers := true; v_peek := false |}.

Record glob := {
  running : bool; shreq : bool; lock : lk;
  mref : bool;          (* self._main_thread is not None *)
  mt : mpc;             (* the main thread *)
  sock : sk;            (* self._socket: never created / open (bound) / closed *)
  err : bool            (* something went wrong: second main thread spawned while one lives,
                           socket operation on a closed socket *)
}.

Definition init : glob :=
  {| running := false; shreq := false; lock := LFree; mref := false; mt := MNone; sock := SNone; err := false |}.

Definition set_lock g l := {| running := running g; shreq := shreq g; lock := l; mref := mref g; mt := mt g; sock := sock g; err := err g |}.
Definition set_running g b := {| running := b; shreq := shreq g; lock := lock g; mref := mref g; mt := mt g; sock := sock g; err := err g |}.
Definition set_shreq g b := {| running := running g; shreq := b; lock := lock g; mref := mref g; mt := mt g; sock := sock g; err := err g |}.
Definition set_mref g b := {| running := running g; shreq := shreq g; lock := lock g; mref := b; mt := mt g; sock := sock g; err := err g |}.
Definition set_mt g m := {| running := running g; shreq := shreq g; lock := lock g; mref := mref g; mt := m; sock := sock g; err := err g |}.
Definition set_sock g s := {| running := running g; shreq := shreq g; lock := lock g; mref := mref g; mt := mt g; sock := s; err := err g |}.
Definition set_err g := {| running := running g; shreq := shreq g; lock := lock g; mref := mref g; mt := mt g; sock := sock g; err := true |}.

Definition mt_live (m : mpc) : bool := match m with M_acq | M_chk | M_recv | M_close => true | _ => false end.
Definition mt_ended (m : mpc) : bool := match m with MNone | MEnded => true | _ => false end.
Definition sock_open (s : sk) : bool := match s with SOpen => true | _ => false end.
Definition lock_free g := lk_eqb (lock g) LFree.
Definition loop_pc (m : mpc) : bool := match m with M_acq | M_chk | M_recv => true | _ => false end.

Section V.
  Variable v : variants.

  Definition cstep (g : glob) (me : bool) (p : cpc) (o : option op) : option (glob * cpc * bool) :=
    match p with
    | Idle =>
        match o with
        | None => None
        | Some Start => if lock_free g then Some (set_lock g LCaller, St_chk, true) else None
        | Some Stop => if lock_free g then Some (set_lock g LCaller, Sp_chk, true) else None
        | Some StartF => if lock_free g then Some (set_lock g LCaller, St_chkF, true) else None
        | Some StartT => if lock_free g then Some (set_lock g LCaller, St_chkT, true) else None
        end
    | St_chk =>
        if v_chkrun v && running g then
          (* already running: return.  While a stop() is between "main thread joined, socket closed" and
             "running := False" the socket is closed although running is still True: touching it raises *)
          Some (set_lock (if v_peek v && negb (sock_open (sock g)) then set_err g else g) LFree, Idle, false)
        else Some (set_sock g SOpen, St_spawn, false)
    | St_chkF =>
        if v_chkrun v && running g then Some (set_lock g LFree, Idle, false)
        else Some (set_lock (set_sock g SClosed) LFree, Idle, false)      (* socket(); bind() raises; close(); raise *)
    | St_chkT =>
        if v_chkrun v && running g then Some (set_lock g LFree, Idle, false)
        else Some (set_sock g SOpen, St_spawnT, false)
    | St_spawnT =>                         (* Thread.start() raises: except closes the socket (if covered); raise *)
        Some (set_lock (if v_trycovers v then set_sock g SClosed else g) LFree, Idle, false)
    | St_spawn =>
        let g1 := if mt_live (mt g) then set_err g else g in
        Some (set_mt (set_mref g1 true) M_acq, St_setrun, false)
    | St_setrun => Some (set_running g true, St_rel, false)
    | St_rel => Some (set_lock g LFree, Idle, false)
    | Sp_chk =>
        if negb (running g) || shreq g then Some (set_lock g LFree, Idle, false)
        else Some (set_shreq g true, Sp_rel1, false)
    | Sp_rel1 => Some (if v_release v then set_lock g LFree else g, Sp_join, false)
    | Sp_join =>
        if negb (v_join v) || negb (mref g) || mt_ended (mt g) then Some (g, Sp_clear, false) else None
    | Sp_clear => Some (set_mref g false, Sp_acq2, false)
    | Sp_acq2 =>
        if v_release v then (if lock_free g then Some (set_lock g LCaller, Sp_reset, false) else None)
        else Some (g, Sp_reset, false)
    | Sp_reset =>
        let g1 := set_running g false in
        Some (if v_reset v then set_shreq g1 false else g1, Sp_rel2, false)
    | Sp_rel2 => Some (set_lock g LFree, Idle, false)
    end.

  Definition mstep (g : glob) : option glob :=
    match mt g with
    | MNone | MEnded => None
    | M_acq => if lock_free g then Some (set_mt (set_lock g LMain) M_chk) else None
    | M_chk => Some (set_lock (set_mt g (if shreq g then M_close else M_recv)) LFree)
    | M_recv => Some (set_mt (if sock_open (sock g) then g else set_err g) M_acq)
    | M_close => Some (set_mt (if v_close v then set_sock g SClosed else g) MEnded)
    end.
End V.

Definition is_idle (p : cpc) : bool := match p with Idle => true | _ => false end.

(* the two quiescent states of the property *)
Definition Running (g : glob) : bool :=
  running g && negb (shreq g) && sock_open (sock g) && mt_live (mt g) && negb (mt_ended (mt g)) && negb (err g).
Definition Stopped (g : glob) : bool :=
  negb (running g) && negb (shreq g) && negb (sock_open (sock g)) && mt_ended (mt g) && lock_free g && negb (err g).
