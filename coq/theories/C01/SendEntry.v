(* C01 (send failures towards the client): sx entry.
   Input (case impl_obs): case = (oack blocks retries (fault ...)),
   obs = ((attempt ...) done), attempt = (6 ok) OACK sendto | (3 block ok) DATA sendto.
   Output (model_obs failed_on_model failed_on_impl). *)
From Coq Require Import String.
From Coq Require Import List NArith ZArith Bool.
From VF Require Import Base.Sx Tftp.SendFaults.
Import ListNotations.

Definition sx_attempt (a : attempt) : sx :=
  match a with
  | AOack ok => L [I 6; sxBool ok]
  | AData b ok => L [I 3; sxNat b; sxBool ok]
  end.
Definition de_attempt (x : sx) : option attempt :=
  match x with
  | L [I 6%Z; ok] => obind (asBool ok) (fun ok => Some (AOack ok))
  | L [I 3%Z; b; ok] => obind (asNat b) (fun b => obind (asBool ok) (fun ok => Some (AData b ok)))
  | _ => None
  end.
Definition sx_sobs (o : list attempt * bool) : sx := L [L (map sx_attempt (fst o)); sxBool (snd o)].
Definition de_sobs (x : sx) : option (list attempt * bool) :=
  match x with
  | L [l; d] => obind (asListOf de_attempt l) (fun l => obind (asBool d) (fun d => Some (l, d)))
  | _ => None
  end.
Definition de_scase (x : sx) : option scase :=
  match x with
  | L [oa; n; rt; fs] =>
      obind (asBool oa) (fun oa => obind (asNat n) (fun n => obind (asNat rt) (fun rt =>
      obind (asListOf asNat fs) (fun fs =>
      Some {| s_oack := oa; s_blocks := n; s_retries := rt; s_faults := fs |}))))
  | _ => None
  end.

Definition send_entry (x : sx) : sx :=
  match x with
  | L [cx; ix] =>
      match de_scase cx, de_sobs ix with
      | Some c, Some io =>
          let m := run_send c in
          L [sx_sobs m; L (map sxS (holds_send c m)); L (map sxS (holds_send c io))]
      | None, _ => sxS "bad-case"
      | _, None => sxS "bad-obs"
      end
  | _ => sxS "bad-input"
  end.
