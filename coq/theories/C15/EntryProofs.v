(* C15: the executable checkers accept the model. *)
From Coq Require Import String.
From Coq Require Import List NArith ZArith Bool Arith Lia.
From VF Require Import Base.Sx Sqlite.Model Sqlite.Proofs C15.Entry.
Import ListNotations.
Open Scope N_scope.

Lemma sx_eqb_refl a : sx_eqb a a = true.
Proof. unfold sx_eqb, list_N_eqb. destruct (list_eq_dec N.eq_dec (print a) (print a)); congruence. Qed.

Lemma check_run O H : forall sts lk m, check O H sts lk m (run O H sts lk m) = [].
Proof.
  induction sts as [|st r IH]; intros lk m; [reflexivity|].
  cbn [run check]. destruct (do_step_l O H st lk m) as [[mo res] lk'].
  unfold res_eqb, tbl_eqb. rewrite !sx_eqb_refl. cbn [app]. apply IH.
Qed.

Lemma holds_model (c : case) : valid c -> holds c (run_model c) = [].
Proof.
  intros Hv. unfold holds, run_model. rewrite check_run. unfold valid in Hv. rewrite Hv. reflexivity.
Qed.

Lemma holds_crash_model ops tr w : wrun ops winit tr = Some w ->
  holds_crash ops (w_acked w) (dump (w_tbl w)) = [].
Proof.
  intros H. destruct (crash_prefix ops tr winit w (winv_init ops) H) as (Ht & Ha & Hl).
  unfold holds_crash. rewrite Ht.
  assert (Hd : w_done w = w_acked w \/ w_done w = S (w_acked w)) by lia.
  destruct Hd as [Hd|Hd]; rewrite Hd in *.
  - replace (Nat.leb (w_acked w) (length ops)) with true by (symmetry; apply Nat.leb_le; lia).
    unfold tbl_eqb. rewrite sx_eqb_refl. reflexivity.
  - replace (Nat.leb (S (w_acked w)) (length ops)) with true by (symmetry; apply Nat.leb_le; lia).
    unfold tbl_eqb. rewrite (sx_eqb_refl (tbl_sx (dump (fold_left apply_mop (firstn (S (w_acked w)) ops) [])))).
    cbn [andb]. now rewrite orb_true_r.
Qed.

Lemma validb_valid (c : case) : validb c = true -> valid c.
Proof. intros H. exact H. Qed.

(* every acknowledgement count up to the number of operations is reached by a trace of the writer, and the
   checker accepts the table that trace leaves *)
Lemma wrun_acks ops : forall a, (a <= length ops)%nat ->
  exists tr w, wrun ops winit tr = Some w /\ w_acked w = a /\ w_done w = a.
Proof.
  assert (G : forall tr1 tr2 w0 w1, wrun ops w0 tr1 = Some w1 -> wrun ops w0 (tr1 ++ tr2) = wrun ops w1 tr2).
  { induction tr1 as [|e tr1 IH]; intros tr2 w0 w1 H; cbn [wrun app] in *; [now inversion H|].
    destruct (wstep ops w0 e); [now apply IH|discriminate]. }
  induction a as [|a IH]; intros Ha.
  - exists [], winit. repeat split.
  - destruct IH as (tr & w & Hr & Hk & Hd); [lia|].
    destruct (nth_error ops a) as [o|] eqn:Hn; [|apply nth_error_None in Hn; lia].
    exists (tr ++ [WExec; WAck]). eexists. split; [|split].
    + rewrite (G _ _ _ _ Hr). cbn [wrun wstep]. rewrite Hd, Hk, Nat.eqb_refl, Hn. cbn [w_acked w_done].
      assert (Hl : Nat.ltb a (S a) = true) by (apply Nat.ltb_lt; lia). rewrite Hl. reflexivity.
    + reflexivity.
    + reflexivity.
Qed.

Lemma covered_crash ops a : validb_crash ops a = true ->
  holds_crash ops a (dump (fold_left apply_mop (firstn a ops) [])) = [].
Proof.
  intros H. apply Nat.leb_le in H. destruct (wrun_acks ops a H) as (tr & w & Hr & Hk & Hd).
  pose proof (holds_crash_model ops tr w Hr) as Hc.
  destruct (crash_prefix ops tr winit w (winv_init ops) Hr) as (Ht & _ & _).
  rewrite Hk, Ht, Hd in Hc. exact Hc.
Qed.
