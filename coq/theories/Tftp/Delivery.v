(* Declarative readings of transfer traces (first sends, retransmissions, lock step, what the
   client is sent) and the cooperative client with bounded faults.  Definitions only. *)
From Coq Require Import List NArith ZArith Bool.
From VF Require Import Tftp.Readers Tftp.Codec Tftp.Transfer Tftp.Run Tftp.Monitor.
Import ListNotations.
Open Scope Z_scope.

(* ---------- reading a trace ---------- *)
Definition is_timeout (e : option tr) : bool :=
  match e with Some (TTimeout _) => true | _ => false end.

(* the DATA or OACK packet of a send to the client (ERROR packets are not part of the delivery) *)
Definition client_pkt (e : tr) : option pkt :=
  match e with
  | TSend _ a p => if (a =? client)%N then match p with PError _ => None | _ => Some p end else None
  | _ => None
  end.

(* FIRST sends: client packets whose send is not directly preceded by a time-out entry.
   [prev] is the trace entry before the list. *)
Fixpoint new_sends_from (prev : option tr) (l : list tr) : list pkt :=
  match l with
  | [] => []
  | e :: r =>
      match client_pkt e with
      | Some p => if is_timeout prev then new_sends_from (Some e) r else p :: new_sends_from (Some e) r
      | None => new_sends_from (Some e) r
      end
  end.
Definition new_sends (l : list tr) : list pkt := new_sends_from None l.

(* the last client packet so far *)
Definition upd_pkt (lastp : option pkt) (e : tr) : option pkt :=
  match client_pkt e with Some p => Some p | None => lastp end.

(* every send directly after a time-out entry goes to the client and is identical to the
   previous client packet *)
Fixpoint retrans_from (lastp : option pkt) (prev : option tr) (l : list tr) : Prop :=
  match l with
  | [] => True
  | e :: r =>
      match e with
      | TSend _ a p => if is_timeout prev then a = client /\ lastp = Some p else True
      | _ => True
      end /\ retrans_from (upd_pkt lastp e) (Some e) r
  end.
Definition retransmissions_identical (l : list tr) : Prop := retrans_from None None l.

(* [prev] is the receipt, from the client, of a datagram that classifies as the ACK of q's number *)
Definition acks (prev : option tr) (q : pkt) : Prop :=
  exists t d, prev = Some (TRecv t client d) /\ classify current d = CAck (want q).

(* lock step: every first send other than the very first client packet is directly preceded by
   the receipt of the acknowledgement of the previous client packet *)
Fixpoint lockstep_from (lastp : option pkt) (prev : option tr) (l : list tr) : Prop :=
  match l with
  | [] => True
  | e :: r =>
      match client_pkt e with
      | Some _ => if is_timeout prev then True
                  else match lastp with None => True | Some q => acks prev q end
      | None => True
      end /\ lockstep_from (upd_pkt lastp e) (Some e) r
  end.
Definition lockstep (l : list tr) : Prop := lockstep_from None None l.

(* summaries of a trace segment *)
Fixpoint last_ev (prev : option tr) (l : list tr) : option tr :=
  match l with [] => prev | e :: r => last_ev (Some e) r end.
Fixpoint last_pkt (lastp : option pkt) (l : list tr) : option pkt :=
  match l with [] => lastp | e :: r => last_pkt (upd_pkt lastp e) r end.

Definition prefix {A} (a b : list A) : Prop := exists r, b = a ++ r.

(* payloads of the DATA packets of a packet list, in order *)
Definition payloads (l : list pkt) : list (list N) :=
  flat_map (fun p => match p with PData _ d => [d] | _ => [] end) l.
Definition delivered (l : list tr) : list N := concat (payloads (new_sends l)).

(* every send to the client with its time *)
Definition client_sends (l : list tr) : list (Z * pkt) :=
  flat_map (fun e => match e with TSend t a p => if (a =? client)%N then [(t, p)] else [] | _ => [] end) l.

(* the packet list of a transfer: the OACK if options were negotiated, then the numbered blocks *)
Definition exp_list (oack : list (list N * list N)) (l : list pkt) : list pkt :=
  match oack with [] => l | _ => POack oack :: l end.

(* ---------- silence ---------- *)
(* no datagram from the client with a time stamp before T *)
Definition quiet_before (T : Z) (evs : list event) : Prop :=
  Forall (fun e => match e with Recv t a _ => a = client -> T <= t end) evs.

(* ---------- the cooperative client under bounded faults ---------- *)
Inductive noise :=
| NAck (n : N)                       (* stale / duplicate / future ACK: any number but the wanted one *)
| NForeign (a : addr) (d : list N).  (* any datagram from another address *)

Record plan := {
  lost : nat;                  (* rounds in which the packet or its ACK is lost *)
  noises : list (noise * Z);   (* noise in the successful round, each with its time offset *)
  delta : Z                    (* delay of the good ACK inside the successful round *)
}.

Definition ack_bytes (n : N) : list N := [0; 4; n / 256; n mod 256]%N.
Definition noise_event (t : Z) (x : noise) : event :=
  match x with
  | NAck n => Recv t client (ack_bytes n)
  | NForeign a d => Recv t a d
  end.

(* the time-stamped script of a client that acknowledges every packet it receives: packet i is
   first sent at T; its successful round starts at T + lost * tm; there the noise arrives at its
   offsets and the good ACK at offset delta, which is also the time of the next packet *)
Fixpoint script_of (tm : Z) (T : Z) (pps : list (pkt * plan)) : list event :=
  match pps with
  | [] => []
  | (p, pl) :: r =>
      let S := T + Z.of_nat (lost pl) * tm in
      map (fun nz => noise_event (S + snd nz) (fst nz)) (noises pl) ++
      Recv (S + delta pl) client (ack_bytes (want p)) :: script_of tm (S + delta pl) r
  end.

Definition noise_ok (wanted : N) (dl : Z) (nz : noise * Z) : Prop :=
  0 <= snd nz <= dl /\
  match fst nz with
  | NAck n => n <> wanted
  | NForeign a _ => a <> client
  end.
Definition plan_ok (tm : Z) (rt : nat) (pp : pkt * plan) : Prop :=
  (lost (snd pp) <= rt)%nat /\ 0 <= delta (snd pp) < tm /\
  Forall (noise_ok (want (fst pp)) (delta (snd pp))) (noises (snd pp)).

(* ---------- per case ---------- *)
Definition run_r (c : tcase) : (outcome + ending) * list tr :=
  transfer_r (t_cfg c) (n_oack (t_neg c)) (t_blocks c) (t_events c).
(* how the transfer of the case ended *)
Definition ending_of (c : tcase) : outcome + ending := fst (run_r c).
(* what the handler's stream has to deliver: the content, netascii-converted if requested *)
Definition wire_content (c : tcase) : list N :=
  if t_netascii c then netascii_spec (t_content c) else t_content c.
Definition wrap_ok (c : tcase) : Prop :=
  match t_wrap c with Some w => (w <= 65535)%N | None => True end.
(* the script of the cooperative client for this case *)
Definition coop_script (c : tcase) (plans : list plan) : list event :=
  script_of (tmo (t_cfg c)) 0 (combine (fst (expected c)) plans).

(* ---------- the same with noise also in the lost rounds ---------- *)
Record gplan := {
  g_rounds : list (list (noise * Z));  (* one entry per lost round: the noise arriving in it *)
  g_noises : list (noise * Z);         (* noise in the successful round *)
  g_delta : Z
}.
(* the noise of consecutive lost rounds, the first of which starts at R *)
Fixpoint round_events (tm R : Z) (rounds : list (list (noise * Z))) : list event :=
  match rounds with
  | [] => []
  | nzs :: r => map (fun nz => noise_event (R + snd nz) (fst nz)) nzs ++ round_events tm (R + tm) r
  end.
Fixpoint gscript_of (tm : Z) (T : Z) (pps : list (pkt * gplan)) : list event :=
  match pps with
  | [] => []
  | (p, pl) :: r =>
      let S := T + Z.of_nat (length (g_rounds pl)) * tm in
      round_events tm T (g_rounds pl) ++
      map (fun nz => noise_event (S + snd nz) (fst nz)) (g_noises pl) ++
      Recv (S + g_delta pl) client (ack_bytes (want p)) :: gscript_of tm (S + g_delta pl) r
  end.
Definition gplan_ok (tm : Z) (rt : nat) (pp : pkt * gplan) : Prop :=
  (length (g_rounds (snd pp)) <= rt)%nat /\ 0 <= g_delta (snd pp) < tm /\
  Forall (Forall (noise_ok (want (fst pp)) (tm - 1))) (g_rounds (snd pp)) /\
  Forall (noise_ok (want (fst pp)) (g_delta (snd pp))) (g_noises (snd pp)).
Definition gcoop_script (c : tcase) (plans : list gplan) : list event :=
  gscript_of (tmo (t_cfg c)) 0 (combine (fst (expected c)) plans).
