(* Model of the access part of vinegar/request_handler/file.py:_handle (HTTP and TFTP file handlers)
   and vinegar/request_handler/sqlite_update.py:handle, with the data source, the nested-key lookup
   of SmartLookupDict and the file system / data store as outcome oracles.  Definitions only. *)
From Coq Require Import List NArith Bool.
From VF Require Import Addr.Text Addr.IPv6 IpMatch.Match.
Import ListNotations.
Open Scope N_scope.

Inductive action := AError | AIgnore | AWarn.            (* data_source_error_action *)
Inductive noresult := NRNotFound | NRContinue.           (* lookup_no_result_action *)
Inductive find_out := FFound | FNone | FRaise.           (* data_source.find_system *)
(* the Python value stored under client_address_key: a str, something falsy (None, "", [], 0),
   an iterable (list/tuple/set/dict keys, in iteration order), a truthy non-iterable (int, object) *)
Inductive aval := AStr (s : str) | AFalsy | ASeq (l : list entry) | ANonIter.
(* SmartLookupDict.get(key, None): a component missing (default None), TypeError (indexing a str /
   int on the way), or a value *)
Inductive klookup := KMissing | KTypeError | KVal (v : aval).
Inductive get_out := GData (k : klookup) | GRaise.       (* data_source.get_data *)
(* open()/render of the resolved file: content; missing (ENOENT, EISDIR, ENOTDIR, ENAMETOOLONG, or
   PermissionError on a directory); another OSError; PermissionError on a file (re-raised: the
   wrappers turn it into forbidden / access violation AFTER the access); or the request path
   does not translate to a file below root_dir (no access at all) *)
Inductive fs_out := FsContent | FsMissing | FsOSError | FsPermission | FsNoPath.
Inductive hres := HContent | HNotFound | HForbidden | HError | HOk | HBadRequest | HMethod.

(* expected_client_addresses *)
Inductive exp := ENone | EList (l : list entry) | ENonIter | ETypeErr.
Inductive access := Granted | Denied | AErr.

Record fcfg := { key_set : bool; cfg_list : list entry; act : action; nores : noresult;
                 template : bool; lookup : bool }.
Record fenv := { find : find_out; getd : get_out; fs : fs_out }.

Definition is_error (a : action) : bool := match a with AError => true | _ => false end.
Definition is_notfound (n : noresult) : bool := match n with NRNotFound => true | _ => false end.

Definition key_expected (sys_known : bool) (data : option klookup) : exp :=
  if negb sys_known then EList [] else
  match data with
  | None => EList []
  | Some KMissing => EList []
  | Some KTypeError => ETypeErr
  | Some (KVal (AStr s)) => EList [EStr s]
  | Some (KVal AFalsy) => EList []
  | Some (KVal (ASeq l)) => EList l
  | Some (KVal ANonIter) => ENonIter
  end.

(* self._client_address_set.union(expected) when client_address_list is configured (non-empty) *)
Definition combine (cfgl : list entry) (e : exp) : exp :=
  match cfgl with
  | [] => e
  | _ => match e with
         | ENone => EList cfgl
         | EList l => EList (cfgl ++ l)
         | ENonIter => ETypeErr
         | ETypeErr => ETypeErr
         end
  end.

Section Oracles.
  Variable pton4 : str -> pres.
  Variable pton6 : str -> pres.

  Definition check (e : exp) (client : str) : access :=
    match e with
    | ENone => Granted
    | EList l => match contains pton4 pton6 false l client with
                 | CTrue => Granted
                 | CFalse => Denied
                 | _ => AErr
                 end
    | ENonIter => match split46 pton4 pton6 client with None => Denied | Some _ => AErr end
                  (* a malformed client address is rejected before the collection is iterated *)
    | ETypeErr => AErr
    end.

  (* the lookup stage: None = the data source's exception propagates (action "error");
     otherwise (system known?, data if fetched) *)
  Definition stage1 (cfg : fcfg) (env : fenv) : option (bool * option klookup) :=
    if lookup cfg then
      match find env with
      | FRaise => if is_error (act cfg) then None else Some (false, None)
      | FNone => Some (false, None)
      | FFound =>
          if negb (key_set cfg) && negb (template cfg) then Some (true, None)
          else match getd env with
               | GRaise => if is_error (act cfg) then None else Some (true, None)
               | GData k => Some (true, Some k)
               end
      end
    else Some (false, None).

  Definition effective (cfg : fcfg) (st : bool * option klookup) : exp :=
    combine (cfg_list cfg) (if key_set cfg then key_expected (fst st) (snd st) else ENone).

  (* result and number of file-system accesses (open / template render) *)
  Definition file_handle (cfg : fcfg) (env : fenv) (client : str) : hres * N :=
    match stage1 cfg env with
    | None => (HError, 0)
    | Some st =>
        match check (effective cfg st) client with
        | Denied => (HForbidden, 0)
        | AErr => (HError, 0)
        | Granted =>
            if lookup cfg && is_notfound (nores cfg) && negb (fst st) then (HNotFound, 0)
            else match fs env with
                 | FsContent => (HContent, 1)
                 | FsMissing => (HNotFound, 1)
                 | FsOSError => (HError, 1)
                 | FsPermission => (HForbidden, 1)
                 | FsNoPath => (HNotFound, 0)
                 end
        end
    end.

  (* sqlite_update: get_data is called without try (an exception propagates); result and number
     of data-store operations *)
  Definition update_stage (key : bool) (g : get_out) : option (bool * option klookup) :=
    if key then match g with GRaise => None | GData k => Some (true, Some k) end
    else Some (true, None).

  (* what happens once access is granted: the request body of the ...from_request_body actions
     is read and parsed first (bad request, nothing stored), then ONE data-store operation, which
     may fail (e.g. database locked: internal error, nothing stored) *)
  Definition update_apply (bad_body store_fault : bool) : hres * N :=
    if bad_body then (HBadRequest, 0) else if store_fault then (HError, 0) else (HOk, 1).

  Definition update_handle_f (bad_body store_fault : bool) (key : bool) (cfgl : list entry) (g : get_out)
             (client : str) : hres * N :=
    match update_stage key g with
    | None => (HError, 0)
    | Some st =>
        match check (combine cfgl (if key then key_expected (fst st) (snd st) else ENone)) client with
        | Denied => (HForbidden, 0)
        | AErr => (HError, 0)
        | Granted => update_apply bad_body store_fault
        end
    end.

  Definition update_handle (key : bool) (cfgl : list entry) (g : get_out) (client : str) : hres * N :=
    match update_stage key g with
    | None => (HError, 0)
    | Some st =>
        match check (combine cfgl (if key then key_expected (fst st) (snd st) else ENone)) client with
        | Denied => (HForbidden, 0)
        | AErr => (HError, 0)
        | Granted => (HOk, 1)
        end
    end.

  (* ---- specification vocabulary ---- *)
  Definition restricted (key : bool) (cfgl : list entry) : bool :=
    key || match cfgl with [] => false | _ => true end.
  (* the client is in the union of the listed entries and those under the key (128-bit embedding) *)
  Definition is_member (e : exp) (client : str) : bool :=
    match e with
    | EList l => member pton4 pton6 l client
    | _ => false
    end.
  Definition entry_ok (e : entry) : bool := match e with EStr _ => true | EBad => false end.
  Definition exp_well_typed (e : exp) : bool :=
    match e with EList l => forallb entry_ok l | _ => false end.
  (* the data source fails and the configuration makes that visible (action "error") *)
  Definition ds_visible_failure (cfg : fcfg) (env : fenv) : bool :=
    match stage1 cfg env with None => true | Some _ => false end.
End Oracles.
