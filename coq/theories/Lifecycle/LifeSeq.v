(* Sequential-history semantics of the two servers (instances of Seq.v).  Definitions only. *)
From Coq Require Import List Arith Bool.
From VF Require Import Lifecycle.Pool Lifecycle.Seq Lifecycle.TftpLife Lifecycle.HttpLife.
Import ListNotations.

Definition tview (g : glob) : list nat := [b2 (err g); b2 (sock_open (sock g)); b2 (mt_live (mt g))].
(* a read request is answered iff the socket is open and the main thread is in its loop *)
Definition tserving (g : glob) : nat := b2 (sock_open (sock g) && loop_pc (mt g)).
(* the main thread enters the handler of a request: it advances to M_recv (at most three steps) *)
Definition tbusy1 (v : variants) (g : glob) : glob :=
  match mt g with M_recv => g | _ => match mstep v g with Some g' => g' | None => g end end.
Definition tbusy (v : variants) (g : glob) : glob := tbusy1 v (tbusy1 v (tbusy1 v g)).
Definition talive (g : glob) : bool := mt_live (mt g).
Definition tseq (v : variants) : glob -> list sop -> list (list nat) :=
  run_seq glob cpc op lock (cstep v) (mstep v) is_idle Idle Start Stop StartF StartT tview (tbusy v) talive tserving.
Definition tseq_step (v : variants) :=
  seq_step glob cpc op lock (cstep v) (mstep v) is_idle Idle Start Stop StartF StartT tview (tbusy v) talive tserving.

Definition hview (g : hglob) : list nat := [b2 (herr g); b2 (hsock_open (hsock g)); b2 (hmt_live (hmt g))].
(* an HTTP request: refused when the listening socket is closed; answered when the accept loop
   runs; otherwise the connection is accepted by the kernel backlog and never answered *)
Definition hserving (g : hglob) : nat :=
  if hsock_open (hsock g) then (if hloop_pc (hmt g) && negb (sreq g) then 1 else 2) else 0.
Definition hseq (close_on_stop cleanup : bool) : hglob -> list sop -> list (list nat) :=
  run_seq hglob hpc hop hlock (hcstep close_on_stop cleanup) hmstep his_idle HIdle HStart HStop HStartF HStartT hview (fun g => g) (fun g => hmt_live (hmt g)) hserving.
Definition hseq_step (close_on_stop cleanup : bool) :=
  seq_step hglob hpc hop hlock (hcstep close_on_stop cleanup) hmstep his_idle HIdle HStart HStop HStartF HStartT hview (fun g => g) (fun g => hmt_live (hmt g)) hserving.
