(* C17 - Jinja engine: edits always show up; includes and python-module access confined.
   Property theorems; each is closed by a lemma from Jinja/*Proofs.v. *)
From Coq Require Import String.
From Coq Require Import List NArith ZArith Bool Arith Lia.
From VF Require Import Base.Sx Jinja.PosixPath Jinja.PosixPathProofs Jinja.Engine Jinja.EngineProofs
  Jinja.Allow Jinja.AllowProofs C17.Entry.
Import ListNotations.
Local Open Scope nat_scope.

(* The engine's own loader (no root_dir; cache on or off): for every include mode, base context and every
   history of edits (create / change / delete any file - also edits that leave the mtime as it was) and
   renders (any template, any caller context), the long-lived engine returns for each render what a fresh
   engine returns.  Assumption built into the history semantics: every edit gives the file a new stat
   version (ctime_ns, mtime_ns, ino, size) - the kernel moves ctime on every write. *)
Theorem C17_edits_visible : forall fuel cfg h, arity_bug cfg = false -> root_dir cfg = None ->
  run fuel cfg est0 h = run_fresh fuel cfg est0 h.
Proof.
  intros fuel cfg h Hb Hr. apply edits_visible; auto. unfold history_ok, fsl_cached. now rewrite Hr.
Qed.
Print Assumptions C17_edits_visible.

(* All four loader variants.  history_ok cfg h: with root_dir AND cache_enabled (jinja2.FileSystemLoader,
   whose up-to-date test is the mtime alone) every edit of the history must change the MTIME; in every other
   configuration nothing is assumed beyond the new stat version.  What is excluded is exactly the
   situation of C17_refuted_D18_fsl_mtime_only below. *)
Theorem C17_edits_visible_partial : forall fuel cfg h, arity_bug cfg = false -> history_ok cfg h = true ->
  run fuel cfg est0 h = run_fresh fuel cfg est0 h.
Proof. exact edits_visible. Qed.
Print Assumptions C17_edits_visible_partial.

(* Two live engines: whatever a second engine is configured with, whenever it is constructed, re-constructed with
   other settings or used, the renders of the first engine are those of its own history (engines share the
   file system and nothing else - no per-engine setting lives in a class or module) *)
Theorem C17_engines_independent : forall fuel cfgA h cfgB st cacheB,
  run2 fuel cfgA cfgB st cacheB h = run fuel cfgA st (only_A h).
Proof. exact engines_independent. Qed.
Print Assumptions C17_engines_independent.

(* a fresh engine renders the cache-free specification after ANY history, in every configuration *)
Theorem C17_fresh_is_spec : forall fuel cfg h, arity_bug cfg = false ->
  run_fresh fuel cfg est0 h = run_spec fuel cfg est0 h.
Proof. exact fresh_is_spec. Qed.
Print Assumptions C17_fresh_is_spec.

Theorem C17_render_is_spec : forall fuel cfg h, arity_bug cfg = false -> history_ok cfg h = true ->
  run fuel cfg est0 h = run_spec fuel cfg est0 h.
Proof. intros. apply run_is_spec; auto using inv0. Qed.
Print Assumptions C17_render_is_spec.

(* the up-to-date callback never raises, and a render fails only if a fresh engine's fails *)
Theorem C17_render_never_fails_from_cache : forall fuel cfg h, arity_bug cfg = false -> history_ok cfg h = true ->
  ~ In ETypeError (run fuel cfg est0 h) /\
  (forall k, nth_error (run fuel cfg est0 h) k = nth_error (run_fresh fuel cfg est0 h) k).
Proof. exact render_never_fails_from_cache. Qed.
Print Assumptions C17_render_never_fails_from_cache.

(* relative_includes on: an include t1/../tm (plain components) in the template [/]d1/../dn/base
   names [/]d1/../dn/t1/../tm; relative_includes off: the name is taken as written *)
Theorem C17_include_relative : forall cfg (absolute : bool) dcomps base tcomps,
  forallb plain dcomps = true -> plain base = true -> forallb plain tcomps = true -> tcomps <> [] ->
  let pre := if absolute then [SL] else [] in
  join_path cfg (join_slash tcomps) (pre ++ join_slash (dcomps ++ [base])) =
    if relative_includes cfg then pre ++ join_slash (dcomps ++ tcomps) else join_slash tcomps.
Proof.
  intros cfg a d b t Hd Hb Ht Hne pre. unfold join_path. destruct (relative_includes cfg); [|reflexivity].
  now apply join_updir.
Qed.
Print Assumptions C17_include_relative.

(* the same for ANY include name of non-empty components (plain, "." or ".."): it is interpreted component by
   component starting in the directory of the including template - normpath's loop, "." stays, ".." goes up *)
Theorem C17_include_relative_dots : forall cfg (absolute : bool) dcomps base tcomps,
  relative_includes cfg = true ->
  forallb plain dcomps = true -> plain base = true -> forallb comp_ok tcomps = true -> tcomps <> [] ->
  let pre := if absolute then [SL] else [] in
  join_path cfg (join_slash tcomps) (pre ++ join_slash (dcomps ++ [base])) =
    match pre ++ join_slash (rev (fold_left (norm_step absolute) tcomps (rev dcomps))) with [] => DOT | r => r end.
Proof.
  intros cfg a d b t Hrel Hd Hb Ht Hne pre. unfold join_path. rewrite Hrel. now apply join_updir_general.
Qed.
Print Assumptions C17_include_relative_dots.

(* configuration-supplied context overrides the caller's *)
Theorem C17_config_context_wins : forall caller base k, NoDup (map fst base) ->
  ctx_get (merge_ctx caller base) k = match alookup base k with Some v => v | None => ctx_get caller k end.
Proof. exact config_context_wins. Qed.
Print Assumptions C17_config_context_wins.

(* access granted iff some entry is "*", or equals the module, or is "p.*" with the module starting with "p." *)
Theorem C17_allow_spec : forall allow m,
  allowed 1 allow m = true <->
  exists e, In e allow /\ (e = STAR \/ e = m \/ exists p rest, e = p ++ DOTSTAR /\ m = p ++ [46%N] ++ rest).
Proof. exact allow_spec. Qed.
Print Assumptions C17_allow_spec.

(* for every limit (1024 in the code), every allow-list and every sequence of queries starting from
   an empty cache: each answer is the uncached test, and the cache never exceeds the limit *)
Theorem C17_allow_cache_transparent : forall limit allow qs,
  snd (check_all 1 limit allow [] qs) = map (allowed 1 allow) qs /\
  length (fst (check_all 1 limit allow [] qs)) <= Nat.max limit 1.
Proof.
  intros limit allow qs. split.
  - apply allow_cache_transparent. intros m b. discriminate.
  - apply cache_bounded. cbn. lia.
Qed.
Print Assumptions C17_allow_cache_transparent.

(* python[key]: an attribute value reaches the template only if key = m.a (split at the LAST dot), the
   allow-list admits the full dotted name m, m really is an importable module and has the attribute *)
Theorem C17_getitem_confined : forall allow is_module has_attr key,
  getitem 1 allow is_module has_attr key = GValue ->
  exists m a, rsplit_dot key = Some (m, a) /\ allowed 1 allow m = true /\ is_module m = true /\ has_attr m a = true.
Proof. exact getitem_confined. Qed.
Print Assumptions C17_getitem_confined.

(* ---- the executable checker accepts the model ---- *)
Lemma list_eqb_refl {A} (f : A -> A -> bool) : (forall a, f a a = true) -> forall l, list_eqb f l l = true.
Proof. intros Hf. induction l as [|a l IH]; cbn; [reflexivity|]. now rewrite Hf, IH. Qed.
Lemma res_eqb_refl r : res_eqb r r = true.
Proof. destruct r; cbn; auto using N.eqb_refl. apply EngineProofs.bytes_eqb_refl. Qed.

Theorem C17_holds : forall c, valid c -> holds c (run_model c) = [].
Proof.
  intros [cfg h|cut limit allow qs|allow mods attrs keys]; cbn [valid].
  - intros [Hb Hh]. cbn [run_model holds]. rewrite run_is_spec by auto using inv0.
    now rewrite (list_eqb_refl res_eqb res_eqb_refl).
  - intros ->. cbn [run_model]. destruct (C17_allow_cache_transparent limit allow qs) as [H1 H2].
    destruct (check_all 1 limit allow [] qs) as [c' bs]. cbn [fst snd] in H1, H2. subst bs. cbn [holds].
    rewrite (list_eqb_refl Bool.eqb eqb_reflx). apply Nat.leb_le in H2. now rewrite H2.
  - intros _. cbn [run_model holds]. now rewrite (list_eqb_refl N.eqb N.eqb_refl).
Qed.
Print Assumptions C17_holds.

Lemma C17_validb_valid c : validb c = true -> valid c.
Proof.
  destruct c as [cfg h|cut limit allow qs|allow mods attrs keys]; cbn [validb valid].
  - intros H. apply andb_true_iff in H as [H1 H2]. apply negb_true_iff in H1. auto.
  - intros H. now apply Nat.eqb_eq in H.
  - auto.
Qed.
Theorem C17_covered_cases : forall c, validb c = true -> holds c (run_model c) = [].
Proof. intros c H. apply C17_holds. now apply C17_validb_valid. Qed.
Print Assumptions C17_covered_cases.

(* ---- the behaviour before fix 58671db (D12): root_dir + cache_enabled = False ---- *)
Definition R : bytes := [47; 114]%N.                             (* "/r" *)
Definition MAIN : bytes := [109]%N.                              (* "m" *)
Definition cfg_d12 (bug : bool) : config :=
  {| root_dir := Some R; cache_enabled := false; relative_includes := true; cwd := R; arity_bug := bug; base_ctx := [] |}.
Definition hist_d12 : list step :=
  [Edit (R ++ [47%N] ++ MAIN) (Some {| items := [Text [65%N]]; export := []; broken := 0 |}) false; Render MAIN []; Render MAIN []].

Theorem C17_refuted_old_callback_arity :
  run 3 (cfg_d12 true) est0 hist_d12 = [Ok [65%N]; ETypeError] /\
  holds (CEngine (cfg_d12 true) hist_d12) (run_model (CEngine (cfg_d12 true) hist_d12)) =
    ["render_never_fails_from_cache"%string].
Proof. split; vm_compute; reflexivity. Qed.

(* non-vacuity: a history with an (mtime-keeping) edit of an included file between two renders, relative include from
   a sub-directory, own loader with cache; the second render shows the new text *)
Definition cfg_nv : config :=
  {| root_dir := None; cache_enabled := true; relative_includes := true; cwd := R; arity_bug := false;
     base_ctx := [([97%N], [49%N])] |}.
Definition P_MAIN : bytes := R ++ [47; 115; 47; 109]%N.          (* /r/s/m *)
Definition P_INC : bytes := R ++ [47; 115; 47; 105]%N.           (* /r/s/i *)
Definition hist_nv : list step :=
  [Edit P_MAIN (Some {| items := [Text [77%N]; Var [97%N]; Include [105%N]]; export := []; broken := 0 |}) false;
   Edit P_INC (Some {| items := [Text [73%N]]; export := []; broken := 0 |}) false;
   Render P_MAIN [([97%N], [50%N])];
   Edit P_INC (Some {| items := [Text [74%N]]; export := []; broken := 0 |}) true;
   Render P_MAIN []].
Example C17_nonvacuous :
  valid (CEngine cfg_nv hist_nv) /\
  run_model (CEngine cfg_nv hist_nv) = OEngine [Ok [77; 49; 73]%N; Ok [77; 49; 74]%N].
Proof. split; [split; reflexivity | vm_compute; reflexivity]. Qed.

(* ---- D18 (known finding, not repaired): root_dir + cache_enabled uses jinja2.FileSystemLoader, whose
   up-to-date test compares st_mtime only; an edit that keeps the mtime is never noticed ---- *)
Definition cfg_d18 : config :=
  {| root_dir := Some R; cache_enabled := true; relative_includes := true; cwd := R; arity_bug := false; base_ctx := [] |}.
Definition hist_d18 (keep : bool) : list step :=
  [Edit (R ++ [47%N] ++ MAIN) (Some {| items := [Text [65%N]]; export := []; broken := 0 |}) false; Render MAIN [];
   Edit (R ++ [47%N] ++ MAIN) (Some {| items := [Text [66%N]]; export := []; broken := 0 |}) keep; Render MAIN []].
Theorem C17_refuted_D18_fsl_mtime_only :
  run 5 cfg_d18 est0 (hist_d18 true) = [Ok [65%N]; Ok [65%N]] /\
  run_fresh 5 cfg_d18 est0 (hist_d18 true) = [Ok [65%N]; Ok [66%N]] /\
  holds (CEngine cfg_d18 (hist_d18 true)) (run_model (CEngine cfg_d18 (hist_d18 true))) = ["edits_visible"%string] /\
  (* the same edit with a new mtime is noticed, and so is the mtime-keeping edit by the own loader *)
  run 5 cfg_d18 est0 (hist_d18 false) = [Ok [65%N]; Ok [66%N]] /\
  history_ok cfg_d18 (hist_d18 true) = false /\ history_ok cfg_d18 (hist_d18 false) = true.
Proof. repeat split; vm_compute; reflexivity. Qed.

(* an edit to content that does not compile: every render raises (as a fresh engine's) until the file is repaired;
   the old compiled template is never served again *)
Example C17_broken_edit :
  run 6 cfg_nv est0
    [Edit P_MAIN (Some {| items := [Text [77%N]]; export := []; broken := 0 |}) false; Render P_MAIN [];
     Edit P_MAIN (Some {| items := []; export := []; broken := 1 |}) false; Render P_MAIN []; Render P_MAIN [];
     Edit P_MAIN (Some {| items := [Text [78%N]]; export := []; broken := 0 |}) false; Render P_MAIN []]
  = [Ok [77%N]; EBroken 1; EBroken 1; Ok [78%N]].
Proof. vm_compute. reflexivity. Qed.

(* the mutant prefix test startswith(allowed[:-2]) lets "osx" through "os.*" *)
Example C17_allow_prefix_mutant :
  allowed 1 [[111; 115; 46; 42]%N] [111; 115; 120]%N = false /\
  allowed 2 [[111; 115; 46; 42]%N] [111; 115; 120]%N = true.
Proof. split; vm_compute; reflexivity. Qed.
