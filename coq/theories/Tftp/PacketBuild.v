(* The packet builders of vinegar/tftp/protocol.py that every transfer uses: data_packet,
   error_packet, options_ack_packet.  They are functions from values to byte strings: the result
   depends on the arguments only (in particular not on earlier or later calls - the server keeps a
   packet for retransmission while other transfers build theirs).  Definitions and short proofs. *)
From Coq Require Import String.
From Coq Require Import List NArith ZArith Bool Lia.
From VF Require Import Base.Sx.
Import ListNotations.
Open Scope N_scope.

Definition enc_u16 (n : N) : list N := [n / 256; n mod 256].
Definition enc_data (blk : N) (payload : list N) : list N := [0; 3] ++ enc_u16 blk ++ payload.
Definition enc_error (code : N) (msg : list N) : list N := [0; 5] ++ enc_u16 code ++ msg ++ [0].
Definition enc_oack (opts : list (list N * list N)) : list N :=
  [0; 6] ++ flat_map (fun p => fst p ++ [0] ++ snd p ++ [0]) opts.

(* what a receiver reads back from a DATA packet *)
Definition dec_data (d : list N) : option (N * list N) :=
  match d with
  | 0 :: 3 :: hi :: lo :: payload => Some (hi * 256 + lo, payload)
  | _ => None
  end.

Theorem data_roundtrip blk payload : blk < 65536 -> dec_data (enc_data blk payload) = Some (blk, payload).
Proof.
  intros H. unfold enc_data, enc_u16, dec_data. cbn [app].
  f_equal. f_equal. rewrite N.mul_comm. symmetry. apply N.div_mod. discriminate.
Qed.

Theorem data_injective b1 p1 b2 p2 : b1 < 65536 -> b2 < 65536 ->
  enc_data b1 p1 = enc_data b2 p2 -> b1 = b2 /\ p1 = p2.
Proof.
  intros H1 H2 E. pose proof (data_roundtrip b1 p1 H1) as R1. rewrite E, (data_roundtrip b2 p2 H2) in R1.
  injection R1 as -> ->. auto.
Qed.

(* sx entry: (kind args) -> bytes;  kind 3 = (3 blk payload), 5 = (5 code msg), 6 = (6 ((k v) ...)) *)
Definition de_opt (x : sx) : option (list N * list N) :=
  match x with L [B k; B v] => Some (k, v) | _ => None end.
Definition build_entry (x : sx) : sx :=
  match x with
  | L [I 3%Z; b; B p] => match asN b with Some b => B (enc_data b p) | None => sxS "bad-case" end
  | L [I 5%Z; c; B m] => match asN c with Some c => B (enc_error c m) | None => sxS "bad-case" end
  | L [I 6%Z; o] => match asListOf de_opt o with Some o => B (enc_oack o) | None => sxS "bad-case" end
  | _ => sxS "bad-input"
  end.
