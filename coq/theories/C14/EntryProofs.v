(* C14: the executable checker accepts the model. *)
From Coq Require Import String.
From Coq Require Import List NArith ZArith Bool Arith.
From VF Require Import Base.Sx TextFile.Model TextFile.Proofs C14.Entry.
Import ListNotations.
Open Scope N_scope.

Lemma sx_eqb_refl a : sx_eqb a a = true.
Proof. unfold sx_eqb, list_N_eqb. destruct (list_eq_dec N.eq_dec (print a) (print a)); congruence. Qed.
Lemma aeqb_refl a : aeqb a a = true.
Proof. apply sx_eqb_refl. Qed.
Lemma deqb_refl a : deqb a a = true.
Proof. apply sx_eqb_refl. Qed.
Lemma keqb_refl a : keqb a a = true.
Proof. apply sx_eqb_refl. Qed.
Lemma ostr_eqb_true a b : ostr_eqb a b = true -> a = b.
Proof.
  destruct a, b; cbn; try discriminate; auto. intros H. f_equal. now apply str_eqb_true.
Qed.

Section Holds.
  Variable O : oracle.
  Variable c : cfg.
  Hypothesis hash_injective : forall a b, o_hash O a = o_hash O b -> a = b.

  Definition is_spec (a : answer) : Prop := exists f cl, a = spec_answer O c f cl.

  Lemma spec_aget_is_get f cl k v : spec_answer O c f cl = AGet k v -> exists id, cl = CGet id.
  Proof.
    destruct cl as [id|key x]; [eauto|]. intros H. exfalso.
    destruct f as [| |s|e0]; try discriminate. cbn [spec_answer] in H.
    destruct (first_error O c [] (file_lines s)); discriminate.
  Qed.

  Lemma vt_pair_spec a b p q : is_spec a -> is_spec b -> In p (vt_key a) -> In q (vt_key b) -> vt_pair p q = true.
  Proof.
    intros (f1 & cl1 & H1) (f2 & cl2 & H2) Hp Hq. unfold vt_pair.
    destruct a as [k1 v1| |]; cbn [vt_key In] in Hp; try contradiction. destruct Hp as [<-|[]].
    destruct b as [k2 v2| |]; cbn [vt_key In] in Hq; try contradiction. destruct Hq as [<-|[]].
    cbn [fst snd].
    destruct (ostr_eqb v1 v2) eqn:Hv; [|reflexivity].
    apply ostr_eqb_true in Hv. subst v2.
    symmetry in H1, H2.
    destruct (spec_aget_is_get _ _ _ _ H1) as [id1 ->]. destruct (spec_aget_is_get _ _ _ _ H2) as [id2 ->].
    rewrite (spec_get_version O c hash_injective _ _ _ _ _ _ _ H1 H2).
    unfold list_N_eqb. destruct (list_eq_dec N.eq_dec (print (kids_sx k2)) (print (kids_sx k2))); congruence.
  Qed.

  Lemma vt_all_spec l : Forall is_spec l -> vt_all l = true.
  Proof.
    intros H. unfold vt_all. rewrite Forall_forall in H.
    apply forallb_forall. intros p Hp. apply forallb_forall. intros q Hq.
    apply in_flat_map in Hp. destruct Hp as (a & Ha & Hp).
    apply in_flat_map in Hq. destruct Hq as (b & Hb & Hq).
    exact (vt_pair_spec a b p q (H a Ha) (H b Hb) Hp Hq).
  Qed.

  Lemma spec_run_answers : forall h memo fs, Forall is_spec (answers (spec_run O c memo fs h)).
  Proof.
    induction h as [|s h IH]; intros memo fs; [constructor|].
    destruct s as [v f'|cl|cl flt]; cbn [spec_run]; [apply IH| |].
    - cbn [answers flat_map fst snd app]. repeat constructor; try (eexists _, cl; reflexivity). apply IH.
    - cbn [answers flat_map fst snd app]. repeat constructor; try (eexists _, cl; reflexivity). apply IH.
  Qed.

  Lemma check_spec_run : forall h memo fs, check O c memo fs h (spec_run O c memo fs h) = [].
  Proof.
    induction h as [|s h IH]; intros memo fs; [reflexivity|].
    destruct s as [v f'|cl|cl flt]; cbn [spec_run check]; [apply IH| |].
    - unfold call_clauses. rewrite !deqb_refl. cbn [app]. apply IH.
    - rewrite !deqb_refl. cbn [app]. apply IH.
  Qed.
End Holds.

Lemma holds_model (cs : case) : valid cs -> holds cs (run_model cs) = [].
Proof.
  intros [(content_of & Hc) Hinj]. unfold holds, run_model.
  rewrite (run_spec (oracle_of (tabs cs)) (ccfg cs) content_of (hist cs) (init cs) fresh Hc (inv_fresh _ _ _)).
  cbn [fver fresh]. rewrite check_spec_run.
  rewrite (vt_all_spec _ _ Hinj) by apply spec_run_answers. reflexivity.
Qed.

(* ---------- validb is sound ---------- *)
Fixpoint fassoc (v : N) (l : list (N * fstate)) : option fstate :=
  match l with [] => None | (v', f) :: r => if v =? v' then Some f else fassoc v r end.

Lemma functionalb_assoc l : functionalb l = true -> forall p, In p l -> fassoc (fst p) l = Some (snd p).
Proof.
  intros Hf. unfold functionalb in Hf. rewrite forallb_forall in Hf.
  assert (G : forall l', (forall q, In q l' -> In q l) -> forall p, In p l -> In p l' -> fassoc (fst p) l' = Some (snd p)).
  { induction l' as [|[v' f'] l' IH]; intros Hsub p Hp Hin; [destruct Hin|]. cbn [fassoc].
    destruct (N.eqb_spec (fst p) v') as [He|Hne].
    - specialize (Hf p Hp). rewrite forallb_forall in Hf. specialize (Hf (v', f') (Hsub _ (or_introl eq_refl))).
      cbn [fst snd] in Hf. rewrite He, N.eqb_refl in Hf. cbn [negb orb] in Hf.
      destruct (fstate_eq_dec (snd p) f'); [congruence|discriminate].
    - destruct Hin as [<-|Hin]; [cbn in Hne; congruence|]. apply IH; auto. intros q Hq. apply Hsub. now right. }
  intros p Hp. apply (G l); auto.
Qed.

Lemma pairs_consistent content_of : forall h fs,
  (forall p, In p (pairs_of fs h) -> content_of (fst p) = snd p) -> cons_h content_of fs h.
Proof.
  induction h as [|s h IH]; intros fs Hp; [exact Logic.I|].
  destruct s as [v f|cl|cl [e|tok]]; cbn [cons_h pairs_of] in *.
  - split; [symmetry; apply (Hp (v, f)); now left|]. apply IH. intros p Hin. apply Hp. now right.
  - apply IH, Hp.
  - apply IH, Hp.
  - split; [symmetry; apply (Hp (tok, snd fs)); now left|]. apply IH. intros p Hin. apply Hp. now right.
Qed.

Lemma assoc_in {V} k (t : list (str * V)) v : assoc str_eqb k t = Some v -> In (k, v) t.
Proof.
  induction t as [|[k' v'] t IH]; [discriminate|]. cbn [assoc].
  destruct (str_eqb k k') eqn:E; [|intros H; right; now apply IH].
  intros H. inversion H; subst. apply str_eqb_true in E. subst. now left.
Qed.

Lemma hash_table_ok_inj (tb : tables) : hash_table_okb (t_hash tb) = true ->
  forall a b, o_hash (oracle_of tb) a = o_hash (oracle_of tb) b -> a = b.
Proof.
  intros H a b. apply andb_true_iff in H. destruct H as [H0 Hd]. rewrite forallb_forall in H0, Hd.
  cbn [oracle_of o_hash].
  destruct (assoc str_eqb a (t_hash tb)) as [ha|] eqn:Ea; destruct (assoc str_eqb b (t_hash tb)) as [hb|] eqn:Eb.
  - intros <-. apply assoc_in in Ea, Eb. specialize (Hd _ Ea). rewrite forallb_forall in Hd. specialize (Hd _ Eb).
    cbn [fst snd] in Hd. apply orb_true_iff in Hd. destruct Hd as [Hd|Hd]; [now apply str_eqb_true|].
    unfold str_eqb in Hd. destruct (list_eq_dec N.eq_dec ha ha); [discriminate|congruence].
  - intros ->. apply assoc_in in Ea. specialize (H0 _ Ea). cbn in H0. discriminate.
  - intros <-. apply assoc_in in Eb. specialize (H0 _ Eb). cbn in H0. discriminate.
  - intros H. now inversion H.
Qed.

Lemma validb_valid (cs : case) : validb cs = true -> valid cs.
Proof.
  unfold validb, valid. intros H. apply andb_true_iff in H. destruct H as [Hf Hh].
  split; [|now apply hash_table_ok_inj].
  set (l := init cs :: pairs_of (init cs) (hist cs)) in *.
  exists (fun v => match fassoc v l with Some f => f | None => FMissing end).
  pose proof (functionalb_assoc l Hf) as Ha.
  split.
  - rewrite (Ha (init cs)); [reflexivity|now left].
  - apply pairs_consistent. intros p Hp. rewrite (Ha p); [reflexivity|now right].
Qed.
