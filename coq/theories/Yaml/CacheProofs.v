(* Lemmas about the LRU cache model and the cache layers of the YAML target source (C12). *)
From Coq Require Import List NArith ZArith Bool Arith Lia.
From VF Require Import PyVal.Val PyVal.ValProofs Merge.Merge Yaml.Target Yaml.TargetProofs Yaml.Cache.
Import ListNotations.

Section LruFacts.
  Variable A : Type.
  Notation lru := (lru A).

  Lemma find_app_none (f : str * A -> bool) l1 l2 : find f l1 = None -> find f (l1 ++ l2) = find f l2.
  Proof. induction l1 as [|x r IH]; cbn [find app]; [reflexivity|]. destruct (f x); [discriminate | exact IH]. Qed.

  Lemma find_remove_none k (l : lru) : find (key_is k) (lru_remove k l) = None.
  Proof.
    unfold lru_remove. induction l as [|x r IH]; cbn [filter find]; [reflexivity|].
    destruct (key_is k x) eqn:E; cbn [negb]; [exact IH|]. cbn [find]. now rewrite E.
  Qed.

  Lemma remove_length k (l : lru) : length (lru_remove k l) <= length l.
  Proof. unfold lru_remove. induction l as [|x r IH]; cbn [filter length]; [lia|]. destruct (negb (key_is k x)); cbn [length]; lia. Qed.

  Lemma remove_incl k (l : lru) x : In x (lru_remove k l) -> In x l.
  Proof. unfold lru_remove. intros H. now apply filter_In in H. Qed.

  Lemma remove_found_length k (l : lru) e : find (key_is k) l = Some e -> length (lru_remove k l) < length l.
  Proof.
    unfold lru_remove. induction l as [|x r IH]; cbn [find filter length]; [discriminate|].
    destruct (key_is k x) eqn:E; cbn [negb].
    - intros _. pose proof (remove_length k r). unfold lru_remove in *. lia.
    - intros F. specialize (IH F). cbn [length]. lia.
  Qed.

  (* get after set, unless capacity is zero *)
  Theorem lru_get_after_set cap k v (l : lru) : 1 <= cap -> fst (lru_get k (lru_set cap k v l)) = Some v.
  Proof.
    intros Hc. unfold lru_set. destruct cap as [|c]; [lia|].
    assert (F : forall r, find (key_is k) r = None -> find (key_is k) (r ++ [(k, v)]) = Some (k, v)).
    { intros r Hr. rewrite find_app_none by assumption. cbn [find]. unfold key_is. cbn [fst]. now rewrite str_eqb_refl. }
    pose proof (find_remove_none k l) as N.
    destruct (S c <? length (lru_remove k l ++ [(k, v)])) eqn:El.
    - destruct (lru_remove k l) as [|y r] eqn:Er.
      + cbn [app length] in El. apply Nat.ltb_lt in El. lia.
      + cbn [app tl]. cbn [find] in N. destruct (key_is k y) eqn:Ey; [discriminate|].
        unfold lru_get. rewrite (F r N). reflexivity.
    - unfold lru_get. rewrite (F _ N). reflexivity.
  Qed.

  (* never more entries than the capacity *)
  Theorem lru_set_length cap k v (l : lru) : length l <= cap -> length (lru_set cap k v l) <= cap.
  Proof.
    intros Hl. unfold lru_set. destruct cap as [|c]; [assumption|].
    pose proof (remove_length k l) as R.
    destruct (S c <? length (lru_remove k l ++ [(k, v)])) eqn:El.
    - destruct (lru_remove k l ++ [(k, v)]) as [|y r] eqn:E; cbn [tl length] in *; [lia|].
      assert (length (y :: r) = length (lru_remove k l) + 1) by (rewrite <- E, app_length; cbn; lia). cbn [length] in *. lia.
    - apply Nat.ltb_ge in El. exact El.
  Qed.
  Theorem lru_get_length k (l : lru) : length (snd (lru_get k l)) <= length l.
  Proof.
    unfold lru_get. destruct (find (key_is k) l) as [e|] eqn:F; cbn [snd]; [|lia].
    rewrite app_length. cbn [length]. pose proof (remove_found_length k l e F). lia.
  Qed.

  (* what a lookup returns was stored under that key, and the operations invent nothing *)
  Theorem lru_get_sound k (l : lru) v : fst (lru_get k l) = Some v -> In (k, v) l.
  Proof.
    unfold lru_get. destruct (find (key_is k) l) as [e|] eqn:F; cbn [fst]; [|discriminate].
    intros E. injection E as <-. apply find_some in F as [Hin Hk]. unfold key_is in Hk. apply str_eqb_eq in Hk.
    destruct e as [k' x]. cbn [fst snd] in *. now subst.
  Qed.
  Theorem lru_get_incl k (l : lru) x : In x (snd (lru_get k l)) -> In x l.
  Proof.
    unfold lru_get. destruct (find (key_is k) l) as [e|] eqn:F; cbn [snd]; [|auto].
    intros Hin. apply in_app_or in Hin as [Hin|[<-|[]]]; [now apply remove_incl in Hin|].
    apply (lru_get_sound k l (snd e)). unfold lru_get. now rewrite F.
  Qed.
  Theorem lru_set_incl cap k v (l : lru) x : In x (lru_set cap k v l) -> x = (k, v) \/ In x l.
  Proof.
    unfold lru_set. destruct cap as [|c]; [auto|].
    assert (G : In x (lru_remove k l ++ [(k, v)]) -> x = (k, v) \/ In x l).
    { intros Hin. apply in_app_or in Hin as [Hin|[<-|[]]]; [right; now apply remove_incl in Hin | now left]. }
    destruct (S c <? length (lru_remove k l ++ [(k, v)])); [|exact G].
    intros Hin. apply G. destruct (lru_remove k l ++ [(k, v)]); [destruct Hin | now right].
  Qed.

  (* when full, a new key evicts the least recently used entry *)
  Theorem lru_evicts_least_recent cap k v (l : lru) : 1 <= cap -> length l = cap -> find (key_is k) l = None ->
    lru_set cap k v l = tl l ++ [(k, v)].
  Proof.
    intros Hc Hl Hn. unfold lru_set. destruct cap as [|c]; [lia|].
    assert (R : lru_remove k l = l).
    { unfold lru_remove. clear Hl. induction l as [|x r IH]; cbn [filter find] in *; [reflexivity|].
      destruct (key_is k x); [discriminate|]. cbn [negb]. now rewrite IH. }
    rewrite R, app_length. cbn [length]. rewrite Hl.
    replace (S c <? S c + 1) with true by (symmetry; apply Nat.ltb_lt; lia).
    destruct l; [discriminate | reflexivity].
  Qed.
  (* a lookup makes the entry the most recently used one *)
  Theorem lru_get_moves_to_end k (l : lru) v : fst (lru_get k l) = Some v -> snd (lru_get k l) = lru_remove k l ++ [(k, v)].
  Proof. unfold lru_get. destruct (find (key_is k) l) as [e|]; cbn [fst snd]; [intros E; now injection E as <- | discriminate]. Qed.
End LruFacts.
