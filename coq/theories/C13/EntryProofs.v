(* The executable checker of C13 accepts the model. *)
From Coq Require Import String.
From Coq Require Import List NArith ZArith Bool Arith Lia.
From VF Require Import Base.Sx PyVal.Val PyVal.ValProofs PyVal.Codec Merge.Merge Merge.MergeProofs C13.Entry.
Import ListNotations.

Lemma same_dict_refl d : same_dict d d = true.
Proof. apply same_refl. Qed.
Lemma exc_eqb_refl e : exc_eqb e e = true.
Proof. apply Z.eqb_refl. Qed.
Lemma gres_eqb_refl r : gres_eqb r r = true.
Proof. destruct r as [[d v]|e]; cbn [gres_eqb]; [now rewrite same_dict_refl, str_eqb_refl | apply exc_eqb_refl]. Qed.
Lemma call_eqb_refl c : call_eqb c c = true.
Proof. destruct c as [[[i s] d] v]. cbn [call_eqb]. now rewrite Nat.eqb_refl, !str_eqb_refl, same_dict_refl. Qed.
Lemma ostr_eqb_refl o : ostr_eqb o o = true.
Proof. destruct o; cbn [ostr_eqb]; [apply str_eqb_refl | reflexivity]. Qed.
Lemma fres_eqb_refl r : fres_eqb r r = true.
Proof. destruct r as [o|e]; cbn [fres_eqb]; [apply ostr_eqb_refl | apply exc_eqb_refl]. Qed.
Lemma list_eqb_refl' {A} (eq : A -> A -> bool) l : (forall x, eq x x = true) -> list_eqb eq l l = true.
Proof. intros Hr. apply list_eqb_refl. apply Forall_forall. auto. Qed.

Lemma holds_merge_model ml ms a b : wf (VDict a) = true -> wf (VDict b) = true ->
  holds_merge ml ms a b (merge ml ms a b) a b = [].
Proof.
  intros Wa Wb. destruct (wf_dict_parts _ Wa) as (Ha & _ & _). destruct (wf_dict_parts _ Wb) as (Hb & _ & _).
  unfold holds_merge. rewrite !same_dict_refl. cbn [andb]. rewrite app_nil_r.
  destruct (merge ml ms a b) as [m|e] eqn:E.
  - rewrite (merge_keys _ _ _ _ _ E). fold (spec_keys a b).
    rewrite list_eqb_refl' by apply same_refl. cbn [app].
    assert (V : forallb (value_ok ml ms a b m) (spec_keys a b) = true).
    { apply forallb_forall. intros k Hk. pose proof (merge_lookup ml ms a b m Ha Hb E k) as L.
      unfold value_ok. destruct (lookup k a) as [x|] eqn:Eka; destruct (lookup k b) as [y|] eqn:Ekb.
      - destruct L as (z & Hz & Lz). rewrite Hz, Lz. apply same_refl.
      - rewrite L. apply same_refl.
      - rewrite L. apply same_refl.
      - exfalso. unfold spec_keys in Hk. apply in_app_or in Hk as [Hk|Hk].
        + apply (lookup_none_notin k a); auto. unfold hashable_keys in Ha. rewrite Forall_forall in Ha. auto.
        + apply filter_In in Hk as [Hk _]. apply (lookup_none_notin k b); auto.
          unfold hashable_keys in Hb. rewrite Forall_forall in Hb. auto. }
    rewrite V. cbn [app].
    destruct (existsb (clash_item ml ms b) a) eqn:X; [|reflexivity].
    apply existsb_exists in X as [[k x] [Hin Hc]]. unfold clash_item in Hc. cbn [fst snd] in Hc.
    destruct (lookup k b) as [y|] eqn:El; [|discriminate].
    destruct (merge_ok_all _ _ _ _ _ E k x y Hin El) as [z Hz]. rewrite Hz in Hc. discriminate.
  - pose proof (merge_err_type _ _ _ _ _ E) as ->.
    apply merge_err in E as (k & x & y & Hin & Hl & Hc).
    assert (X : existsb (clash_item ml ms b) a = true).
    { apply existsb_exists. exists (k, x). split; [assumption|]. unfold clash_item. cbn [fst snd]. now rewrite Hl, Hc. }
    rewrite X. reflexivity.
Qed.

Lemma holds_chain_model ml ms ht srcs sys pd pv fk fv :
  let ss := map (mk_source ht) srcs in
  holds_chain ml ms ht srcs sys pd pv fk fv
    (fst (comp_get (table_H ht) ml ms 0 ss sys pd pv)) (snd (comp_get (table_H ht) ml ms 0 ss sys pd pv))
    (fst (comp_find 0 ss fk fv)) (snd (comp_find 0 ss fk fv)) = [].
Proof.
  intros ss. subst ss. rewrite comp_get_fold, comp_find_spec.
  destruct (find_spec 0 (map (mk_source ht) srcs) fk fv) as [sl sr] eqn:Ef.
  unfold holds_chain. rewrite Ef. cbn [fst snd].
  rewrite gres_eqb_refl, (list_eqb_refl' call_eqb) by apply call_eqb_refl.
  rewrite (list_eqb_refl' Nat.eqb) by apply Nat.eqb_refl. now rewrite fres_eqb_refl.
Qed.

Lemma holds_hist_model ml ms ht steps : holds_hist ml ms ht steps (hist_model ml ms ht steps) = [].
Proof.
  unfold hist_model. induction steps as [|st r IH]; cbn [map holds_hist]; [reflexivity|].
  pose proof (holds_chain_model ml ms ht (st_srcs st) (st_sys st) (st_pd st) (st_pv st) (st_fk st) (st_fv st)) as G. cbn zeta in G.
  destruct (comp_get (table_H ht) ml ms 0 (map (mk_source ht) (st_srcs st)) (st_sys st) (st_pd st) (st_pv st)) as [glog gres].
  destruct (comp_find 0 (map (mk_source ht) (st_srcs st)) (st_fk st) (st_fv st)) as [flog fres].
  cbn [fst snd] in G. now rewrite G, IH.
Qed.

Lemma cons_eqb_refl (l : list (res unit)) :
  list_eqb (fun a b => match a, b with Ok _, Ok _ => true | Err e, Err e' => exc_eqb e e' | _, _ => false end) l l = true.
Proof. apply list_eqb_refl'. intros [u|e]; [reflexivity | apply exc_eqb_refl]. Qed.

Lemma holds_model c : valid c -> holds c (run_model c) = [].
Proof.
  destruct c as [ml ms a b | ml ms ht srcs sys pd pv fk fv | ml ms a b c' | ml ms ht steps | ml ms ht fails fexc tries steps];
    cbn [valid run_model].
  - intros [Wa Wb]. cbn [holds]. now apply holds_merge_model.
  - intros _. pose proof (holds_chain_model ml ms ht srcs sys pd pv fk fv) as G. cbn zeta in G.
    destruct (comp_get (table_H ht) ml ms 0 (map (mk_source ht) srcs) sys pd pv) as [glog gres].
    destruct (comp_find 0 (map (mk_source ht) srcs) fk fv) as [flog fres]. exact G.
  - intros E. cbn [holds]. unfold holds_assoc. now rewrite E.
  - intros E. cbn [holds]. rewrite holds_hist_model. cbn [app]. now rewrite E.
  - intros _. cbn [holds]. rewrite cons_eqb_refl. cbn [app].
    destruct (built (construct fexc tries fails)); [apply holds_hist_model | reflexivity].
Qed.
