(* C05 - Client-address restrictions fail closed, leak nothing, deny before any change.
   Property theorems only; each is closed by a lemma from the proof files.
   Oracles: socket.inet_pton for AF_INET / AF_INET6 are the universally quantified [pton4] [pton6]
   with the premise [pton_lengths] (4 resp. 16 bytes); data source, key lookup, file system and data
   store are outcome parameters of the handler models. *)
From Coq Require Import String.
From Coq Require Import List NArith Bool Arith Lia.
From VF Require Import Addr.Text Addr.IPv6 IpMatch.Match IpMatch.MatchProofs IpMatch.Handlers IpMatch.HandlersProofs
  C05.Entry C05.HoldsProof.
Import ListNotations.
Open Scope N_scope.

(* the bytewise-and-mask algorithm equals the arithmetic definition for EVERY prefix length *)
Theorem C05_subnet_arith : forall a net m, length a = length net -> all_bytes a = true -> all_bytes net = true ->
  m <= 8 * N.of_nat (length a) ->
  (in_subnet a net m = true <->
   to_N a / 2 ^ (8 * N.of_nat (length a) - m) = to_N net / 2 ^ (8 * N.of_nat (length a) - m)).
Proof. exact subnet_arith. Qed.
Print Assumptions C05_subnet_arith.

(* contains_ip_address on a collection of strings = membership in the union of the well-formed
   entries, IPv4 and IPv4-mapped IPv6 embedded at the same 128-bit value ([member]); malformed
   entries, a malformed client, masks out of range contribute nothing *)
Theorem C05_membership_spec : forall pton4 pton6, pton_lengths pton4 pton6 -> forall set addr,
  well_typed set ->
  contains pton4 pton6 false set addr = if member pton4 pton6 set addr then CTrue else CFalse.
Proof. intros p4 p6 [A B]. exact (membership_spec p4 p6 A B). Qed.
Print Assumptions C05_membership_spec.

(* True only for members, whatever else (ill-typed entries, raise flag) is involved *)
Theorem C05_contains_sound : forall pton4 pton6, pton_lengths pton4 pton6 -> forall r set addr,
  contains pton4 pton6 r set addr = CTrue -> member pton4 pton6 set addr = true.
Proof. intros p4 p6 [A B]. exact (contains_sound p4 p6 A B). Qed.
Print Assumptions C05_contains_sound.

Theorem C05_fail_closed_file : forall pton4 pton6, pton_lengths pton4 pton6 -> forall cfg env client n,
  restricted (key_set cfg) (cfg_list cfg) = true ->
  file_handle pton4 pton6 cfg env client = (HContent, n) ->
  exists st, stage1 cfg env = Some st /\ is_member pton4 pton6 (effective cfg st) client = true.
Proof. intros p4 p6 [A B]. exact (fail_closed_file p4 p6 A B). Qed.
Print Assumptions C05_fail_closed_file.

Theorem C05_fail_closed_update : forall pton4 pton6, pton_lengths pton4 pton6 -> forall key cfgl g client,
  restricted key cfgl = true ->
  snd (update_handle pton4 pton6 key cfgl g client) <> 0 ->
  exists st, update_stage key g = Some st /\
    is_member pton4 pton6 (combine cfgl (if key then key_expected (fst st) (snd st) else ENone)) client = true.
Proof. intros p4 p6 [A B]. exact (fail_closed_update p4 p6 A B). Qed.
Print Assumptions C05_fail_closed_update.

(* not a member => no file-system access, neither content nor the not-found decision *)
Theorem C05_deny_before_change_file : forall pton4 pton6, pton_lengths pton4 pton6 -> forall cfg env client,
  restricted (key_set cfg) (cfg_list cfg) = true ->
  (forall st, stage1 cfg env = Some st -> is_member pton4 pton6 (effective cfg st) client = false) ->
  snd (file_handle pton4 pton6 cfg env client) = 0 /\
  fst (file_handle pton4 pton6 cfg env client) <> HContent /\
  fst (file_handle pton4 pton6 cfg env client) <> HNotFound.
Proof. intros p4 p6 [A B]. exact (deny_before_change_file p4 p6 A B). Qed.
Print Assumptions C05_deny_before_change_file.

(* not a member => store log = [] *)
Theorem C05_deny_before_change_update : forall pton4 pton6, pton_lengths pton4 pton6 -> forall key cfgl g client,
  restricted key cfgl = true ->
  (forall st, update_stage key g = Some st ->
     is_member pton4 pton6 (combine cfgl (if key then key_expected (fst st) (snd st) else ENone)) client = false) ->
  snd (update_handle pton4 pton6 key cfgl g client) = 0 /\ fst (update_handle pton4 pton6 key cfgl g client) <> HOk.
Proof. intros p4 p6 [A B]. exact (deny_before_change_update p4 p6 A B). Qed.
Print Assumptions C05_deny_before_change_update.

(* the same for EVERY configured action of sqlite_update (delete_data, delete_value, set_value,
   set_json/text_value_from_request_body: one store operation each), also with an unparsable
   request body and with a failing data store: a non-member gets forbidden (or the data source's
   error) and nothing is stored; a store operation happens only for members; and every outcome
   other than OK leaves the store untouched *)
Theorem C05_deny_before_change_update_faults : forall pton4 pton6, pton_lengths pton4 pton6 ->
  forall bad_body store_fault key cfgl g client, restricted key cfgl = true ->
  (forall st, update_stage key g = Some st ->
     is_member pton4 pton6 (combine cfgl (if key then key_expected (fst st) (snd st) else ENone)) client = false) ->
  snd (update_handle_f pton4 pton6 bad_body store_fault key cfgl g client) = 0 /\
  (fst (update_handle_f pton4 pton6 bad_body store_fault key cfgl g client) = HForbidden \/
   fst (update_handle_f pton4 pton6 bad_body store_fault key cfgl g client) = HError).
Proof. intros p4 p6 [A B]. exact (deny_before_change_update_f p4 p6 A B). Qed.
Print Assumptions C05_deny_before_change_update_faults.

Theorem C05_fail_closed_update_faults : forall pton4 pton6, pton_lengths pton4 pton6 ->
  forall bad_body store_fault key cfgl g client, restricted key cfgl = true ->
  snd (update_handle_f pton4 pton6 bad_body store_fault key cfgl g client) <> 0 ->
  exists st, update_stage key g = Some st /\
    is_member pton4 pton6 (combine cfgl (if key then key_expected (fst st) (snd st) else ENone)) client = true.
Proof. intros p4 p6 [A B]. exact (fail_closed_update_f p4 p6 A B). Qed.
Print Assumptions C05_fail_closed_update_faults.

Theorem C05_failed_update_changes_nothing : forall pton4 pton6 bad_body store_fault key cfgl g client,
  fst (update_handle_f pton4 pton6 bad_body store_fault key cfgl g client) <> HOk ->
  snd (update_handle_f pton4 pton6 bad_body store_fault key cfgl g client) = 0.
Proof. exact update_failure_changes_nothing. Qed.
Print Assumptions C05_failed_update_changes_nothing.

(* a non-member of a well-typed collection receives forbidden, or the error when the data source
   fails visibly: a function of the failure mode only *)
Theorem C05_no_leak : forall pton4 pton6, pton_lengths pton4 pton6 -> forall cfg env client,
  (stage1 cfg env = None -> file_handle pton4 pton6 cfg env client = (HError, 0)) /\
  (forall st, stage1 cfg env = Some st -> exp_well_typed (effective cfg st) = true ->
     is_member pton4 pton6 (effective cfg st) client = false ->
     file_handle pton4 pton6 cfg env client = (HForbidden, 0)).
Proof. intros p4 p6 [A B]. exact (no_leak p4 p6 A B). Qed.
Print Assumptions C05_no_leak.

(* identical for every file system, known/unknown system, with/without data, both lookup_no_result_actions *)
Theorem C05_no_leak_independent : forall pton4 pton6, pton_lengths pton4 pton6 ->
  forall cfg1 env1 cfg2 env2 client,
  nonmember pton4 pton6 cfg1 env1 client -> nonmember pton4 pton6 cfg2 env2 client ->
  ds_visible_failure cfg1 env1 = ds_visible_failure cfg2 env2 ->
  file_handle pton4 pton6 cfg1 env1 client = file_handle pton4 pton6 cfg2 env2 client.
Proof. intros p4 p6 [A B]. exact (no_leak_independent p4 p6 A B). Qed.
Print Assumptions C05_no_leak_independent.

(* adding malformed / ill-typed / out-of-range entries anywhere never turns a deny into True *)
Theorem C05_malformed_never_widens : forall pton4 pton6, pton_lengths pton4 pton6 ->
  forall set extra1 extra2 addr,
  Forall (useless pton4 pton6) extra1 -> Forall (useless pton4 pton6) extra2 ->
  member pton4 pton6 set addr = false ->
  contains pton4 pton6 false (extra1 ++ set ++ extra2) addr <> CTrue.
Proof. intros p4 p6 [A B]. exact (malformed_never_widens p4 p6 A B). Qed.
Print Assumptions C05_malformed_never_widens.

(* ... and in the handlers: with a non-member the result is never content, whatever ill-typed
   values sit under the key or in the list (they may only turn forbidden into an error) *)
Theorem C05_never_widens_file : forall pton4 pton6, pton_lengths pton4 pton6 -> forall cfg env client n,
  restricted (key_set cfg) (cfg_list cfg) = true ->
  (forall st, stage1 cfg env = Some st -> is_member pton4 pton6 (effective cfg st) client = false) ->
  file_handle pton4 pton6 cfg env client <> (HContent, n).
Proof. intros p4 p6 [A B]. exact (never_widens_file p4 p6 A B). Qed.
Print Assumptions C05_never_widens_file.

(* the executable checker accepts the model *)
Theorem C05_holds : forall c, valid c -> holds c (run_model c) = [].
Proof. exact holds_model. Qed.
Print Assumptions C05_holds.

(* [valid c] is by definition the boolean [validb c] (C05/Entry.v) being true: every hypothesis of
   C05_holds is decidable from the case.  The driver reports validb for every evaluated case (5th item of its
   answer); where it is 1 the theorem applies to exactly that case. *)
Theorem C05_validb_valid : forall c, validb c = true -> valid c.
Proof. intros c H. exact H. Qed.
Print Assumptions C05_validb_valid.

Theorem C05_covered_cases : forall c, validb c = true -> holds c (run_model c) = [].
Proof. intros c H. apply C05_holds. apply C05_validb_valid. exact H. Qed.
Print Assumptions C05_covered_cases.

(* the same for histories: every step within the hypotheses *)
Definition valid_historyb (h : list case) : bool := forallb validb h.
Theorem C05_covered_histories : forall h, valid_historyb h = true -> holds_history h (run_history h) = [].
Proof.
  intros h H. apply holds_history_model. unfold valid_historyb in H. rewrite forallb_forall in H.
  apply Forall_forall. exact H.
Qed.
Print Assumptions C05_covered_histories.

(* the modelled handlers are stateless: in a history of requests on one handler object every
   step is decided as if it were the only one - the i-th observation is the single-request
   observation of the i-th request, whatever came before (in particular: a request for system A,
   granted or denied, never changes the decision for a later request for system B) *)
Theorem C05_handler_stateless : forall h i,
  nth_error (run_history h) i = option_map run_model (nth_error h i).
Proof. exact history_pointwise. Qed.
Print Assumptions C05_handler_stateless.

Theorem C05_decisions_independent_of_history : forall h1 h2 c d,
  last (run_history (h1 ++ [c])) d = run_model c /\
  last (run_history (h1 ++ [c])) d = last (run_history (h2 ++ [c])) d.
Proof. exact history_stateless. Qed.
Print Assumptions C05_decisions_independent_of_history.

(* the checker applied step by step accepts the model's history *)
Theorem C05_holds_history : forall h, valid_history h -> holds_history h (run_history h) = [].
Proof. exact holds_history_model. Qed.
Print Assumptions C05_holds_history.

(* ---- non-vacuity ---- *)
Definition ex_p4 : list (str * pres) :=
  [ ([49; 57; 50; 46; 49; 54; 56; 46; 55; 55; 46; 49; 50; 57], PBytes [192; 168; 77; 129]);   (* 192.168.77.129 *)
    ([49; 57; 50; 46; 49; 54; 56; 46; 55; 55; 46; 48], PBytes [192; 168; 77; 0]) ].           (* 192.168.77.0 *)
Definition ex_net25 : str := [49; 57; 50; 46; 49; 54; 56; 46; 55; 55; 46; 48; 47; 50; 53].   (* 192.168.77.0/25 *)
Definition ex_net24 : str := [49; 57; 50; 46; 49; 54; 56; 46; 55; 55; 46; 48; 47; 50; 52].   (* 192.168.77.0/24 *)
Definition ex_client : str := [49; 57; 50; 46; 49; 54; 56; 46; 55; 55; 46; 49; 50; 57].
Example C05_oracle_satisfiable : pton_lengths (tab_pton ex_p4) (tab_pton []).
Proof. split; [apply (tab_ok_len 4)|apply (tab_ok_len 16)]; vm_compute; reflexivity. Qed.
(* .129 is outside 192.168.77.0/25 and inside /24: the partial-byte boundary *)
Example C05_nonvacuous_contains :
  contains (tab_pton ex_p4) (tab_pton []) false [EStr ex_net25] ex_client = CFalse /\
  contains (tab_pton ex_p4) (tab_pton []) false [EStr ex_net25; EBad] ex_client = CTypeError /\
  contains (tab_pton ex_p4) (tab_pton []) false [EStr ex_net25; EStr ex_net24; EBad] ex_client = CTrue /\
  member (tab_pton ex_p4) (tab_pton []) [EStr ex_net25; EBad; EStr ex_net24] ex_client = true.
Proof. vm_compute. auto. Qed.
Definition ex_case (cl : list Match.entry) : case :=
  {| ckind := KFile; craise := false; centries := cl; cclient := ex_client; ckey := true; cact := AIgnore;
     cnores := NRNotFound; ctemplate := false; clookup := true; cfind := FNone; cgetd := GRaise; cfs := FsContent; cmethod_ok := true; cbad_body := false; cstore_fault := false;
     p4tab := ex_p4; p6tab := []; cref := Some false |}.
(* unknown system, non-member: forbidden and no file access (not: not-found) *)
Example C05_nonvacuous_handler :
  valid (ex_case [EStr ex_net25]) /\ run_model (ex_case [EStr ex_net25]) = {| ocode := 2; ocount := 0; odetail := 0 |} /\
  run_model {| ckind := KFile; craise := false; centries := [EStr ex_net24]; cclient := ex_client; ckey := true;
               cact := AIgnore; cnores := NRNotFound; ctemplate := false; clookup := true; cfind := FNone;
               cgetd := GRaise; cfs := FsContent; cmethod_ok := true; cbad_body := false; cstore_fault := false;
               p4tab := ex_p4; p6tab := []; cref := None |}
    = {| ocode := 1; ocount := 0; odetail := 0 |}.
Proof. vm_compute. auto. Qed.
