(* C14: the executable checker accepts the model. *)
From Coq Require Import String.
From Coq Require Import List NArith ZArith Bool Arith.
From VF Require Import Base.Sx TextFile.Model TextFile.Proofs C14.Entry.
Import ListNotations.
Open Scope N_scope.

Lemma sx_eqb_refl a : sx_eqb a a = true.
Proof. unfold sx_eqb, list_N_eqb. destruct (list_eq_dec N.eq_dec (print a) (print a)); congruence. Qed.
Lemma aeqb_refl a : aeqb a a = true.
Proof. apply sx_eqb_refl. Qed.
Lemma deqb_refl a : deqb a a = true.
Proof. apply sx_eqb_refl. Qed.
Lemma keqb_refl a : keqb a a = true.
Proof. apply sx_eqb_refl. Qed.
Lemma ostr_eqb_true a b : ostr_eqb a b = true -> a = b.
Proof.
  destruct a, b; cbn; try discriminate; auto. intros H. f_equal. now apply str_eqb_true.
Qed.

Section Holds.
  Variable O : oracle.
  Variable c : cfg.
  Hypothesis hash_injective : forall a b, o_hash O a = o_hash O b -> a = b.

  Definition is_spec (a : answer) : Prop := exists f cl, a = spec_answer O c f cl.

  Lemma spec_aget_is_get f cl k v : spec_answer O c f cl = AGet k v -> exists id, cl = CGet id.
  Proof.
    destruct cl as [id|key x]; [eauto|]. intros H. exfalso.
    destruct f as [| |s|e0]; try discriminate. cbn [spec_answer] in H.
    destruct (first_error O c [] (file_lines s)); discriminate.
  Qed.

  Lemma vt_pair_spec a b p q : is_spec a -> is_spec b -> In p (vt_key a) -> In q (vt_key b) -> vt_pair p q = true.
  Proof.
    intros (f1 & cl1 & H1) (f2 & cl2 & H2) Hp Hq. unfold vt_pair.
    destruct a as [k1 v1| |]; cbn [vt_key In] in Hp; try contradiction. destruct Hp as [<-|[]].
    destruct b as [k2 v2| |]; cbn [vt_key In] in Hq; try contradiction. destruct Hq as [<-|[]].
    cbn [fst snd].
    destruct (ostr_eqb v1 v2) eqn:Hv; [|reflexivity].
    apply ostr_eqb_true in Hv. subst v2.
    symmetry in H1, H2.
    destruct (spec_aget_is_get _ _ _ _ H1) as [id1 ->]. destruct (spec_aget_is_get _ _ _ _ H2) as [id2 ->].
    rewrite (spec_get_version O c hash_injective _ _ _ _ _ _ _ H1 H2).
    unfold list_N_eqb. destruct (list_eq_dec N.eq_dec (print (kids_sx k2)) (print (kids_sx k2))); congruence.
  Qed.

  Lemma vt_all_spec l : Forall is_spec l -> vt_all l = true.
  Proof.
    intros H. unfold vt_all. rewrite Forall_forall in H.
    apply forallb_forall. intros p Hp. apply forallb_forall. intros q Hq.
    apply in_flat_map in Hp. destruct Hp as (a & Ha & Hp).
    apply in_flat_map in Hq. destruct Hq as (b & Hb & Hq).
    exact (vt_pair_spec a b p q (H a Ha) (H b Hb) Hp Hq).
  Qed.

  Lemma spec_run_answers : forall h memo fs, Forall is_spec (answers (spec_run O c memo fs h)).
  Proof.
    induction h as [|s h IH]; intros memo fs; [constructor|].
    destruct s as [v f'|cl|cl flt]; cbn [spec_run]; [apply IH| |].
    - cbn [answers flat_map fst snd app]. repeat constructor; try (eexists _, cl; reflexivity). apply IH.
    - cbn [answers flat_map fst snd app]. repeat constructor; try (eexists _, cl; reflexivity). apply IH.
  Qed.

  Lemma check_spec_run : forall h memo fs, check O c memo fs h (spec_run O c memo fs h) = [].
  Proof.
    induction h as [|s h IH]; intros memo fs; [reflexivity|].
    destruct s as [v f'|cl|cl flt]; cbn [spec_run check]; [apply IH| |].
    - unfold call_clauses. rewrite !deqb_refl. cbn [app]. apply IH.
    - rewrite !deqb_refl. cbn [app]. apply IH.
  Qed.
End Holds.

Lemma holds_model (cs : case) : valid cs -> holds cs (run_model cs) = [].
Proof.
  intros [(content_of & Hc) Hinj]. unfold holds, run_model.
  rewrite (run_spec (oracle_of (tabs cs)) (ccfg cs) content_of (hist cs) (init cs) fresh Hc (inv_fresh _ _ _)).
  cbn [fver fresh]. rewrite check_spec_run.
  rewrite (vt_all_spec _ _ Hinj) by apply spec_run_answers. reflexivity.
Qed.
