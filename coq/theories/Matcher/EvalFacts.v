(* Evaluation of matcher expressions: agreement with the documented truth table, the
   short-circuit order, and transparency of the expression cache. *)
From Coq Require Import String.
From Coq Require Import List NArith Bool Arith Lia.
From VF Require Import Matcher.Model.
Import ListNotations.

Section EvalFacts.
  Variable V : variants.
  Variable truth : atom -> nat -> tv.

  Definition atom_clean (i : nat) (a : atom) : Prop :=
    tv_fault (truth a i) = None /\
    (lookup_escapes V = false \/ tv_through_scalar (truth a i) = false).

  Lemma atom_val_clean a i : atom_clean i a -> atom_val V truth a i = VB (tv_val (truth a i)).
  Proof. unfold atom_val. intros [-> [-> | ->]]; [reflexivity|]. now rewrite andb_false_r. Qed.

  (* every atom that is reached yields a truth value: the result is the Boolean reading *)
  Lemma eval_visited e i : Forall (atom_clean i) (visited V truth e i) ->
    eval V truth e i = VB (denote truth e i).
  Proof.
    induction e as [a|e IH|a IHa b IHb|a IHa b IHb]; cbn [visited eval denote]; intros H.
    - inversion H; subst. now apply atom_val_clean.
    - now rewrite IH.
    - destruct (eval V truth a i) as [[|]|t].
      + apply Forall_app in H as [Ha Hb]. injection (IHa Ha) as Hd. rewrite <- Hd. cbn [andb]. now apply IHb.
      + injection (IHa H) as Hd. now rewrite <- Hd.
      + discriminate (IHa H).
    - destruct (eval V truth a i) as [[|]|t].
      + injection (IHa H) as Hd. now rewrite <- Hd.
      + apply Forall_app in H as [Ha Hb]. injection (IHa Ha) as Hd. rewrite <- Hd. cbn [orb]. now apply IHb.
      + discriminate (IHa H).
  Qed.

  Lemma visited_incl e i : incl (visited V truth e i) (atoms e).
  Proof.
    induction e as [a|e IH|a IHa b IHb|a IHa b IHb]; cbn [visited atoms].
    - apply incl_refl.
    - exact IH.
    - destruct (eval V truth a i) as [[|]|t].
      + now apply incl_app_app.
      + now apply incl_appl.
      + now apply incl_appl.
    - destruct (eval V truth a i) as [[|]|t].
      + now apply incl_appl.
      + now apply incl_app_app.
      + now apply incl_appl.
  Qed.

  Theorem eval_spec e i : (forall a, In a (atoms e) -> atom_clean i a) ->
    eval V truth e i = VB (denote truth e i).
  Proof.
    intros H. apply eval_visited. apply Forall_forall. intros a Ha. apply H. now apply visited_incl in Ha.
  Qed.

  (* an exception is the exception of the last atom visited; everything before it was a truth value *)
  Lemma eval_exc e i t : eval V truth e i = VExc t ->
    exists pre a, visited V truth e i = pre ++ [a] /\ atom_val V truth a i = VExc t /\
                  Forall (fun b => exists v, atom_val V truth b i = VB v) pre.
  Proof.
    induction e as [a|e IH|a IHa b IHb|a IHa b IHb]; cbn [visited eval]; intros H.
    - exists [], a. auto.
    - destruct (eval V truth e i) as [v|t'] eqn:E; [discriminate|]. injection H as ->. now apply IH.
    - destruct (eval V truth a i) as [[|]|t'] eqn:Ea.
      + destruct (IHb H) as (pre & x & Hv & Hx & Hpre).
        exists (visited V truth a i ++ pre), x. rewrite Hv, app_assoc. split; [reflexivity|]. split; [exact Hx|].
        apply Forall_app. split; [|exact Hpre]. clear - Ea.
        revert Ea. generalize true.
        induction a as [a0|e IH|a1 IH1 a2 IH2|a1 IH1 a2 IH2]; cbn [visited eval]; intros v Ea.
        * constructor; [eauto|constructor].
        * destruct (eval V truth e i) as [v'|]; [|discriminate]. now apply (IH v').
        * destruct (eval V truth a1 i) as [[|]|] eqn:E1; [|now apply (IH1 false)|discriminate].
          apply Forall_app. split; [now apply (IH1 true)|now apply (IH2 v)].
        * destruct (eval V truth a1 i) as [[|]|] eqn:E1; [now apply (IH1 true)| |discriminate].
          apply Forall_app. split; [now apply (IH1 false)|now apply (IH2 v)].
      + discriminate.
      + injection H as ->. now apply IHa.
    - destruct (eval V truth a i) as [[|]|t'] eqn:Ea.
      + discriminate.
      + destruct (IHb H) as (pre & x & Hv & Hx & Hpre).
        exists (visited V truth a i ++ pre), x. rewrite Hv, app_assoc. split; [reflexivity|]. split; [exact Hx|].
        apply Forall_app. split; [|exact Hpre]. clear - Ea.
        revert Ea. generalize false.
        induction a as [a0|e IH|a1 IH1 a2 IH2|a1 IH1 a2 IH2]; cbn [visited eval]; intros v Ea.
        * constructor; [eauto|constructor].
        * destruct (eval V truth e i) as [v'|]; [|discriminate]. now apply (IH v').
        * destruct (eval V truth a1 i) as [[|]|] eqn:E1; [|now apply (IH1 false)|discriminate].
          apply Forall_app. split; [now apply (IH1 true)|now apply (IH2 v)].
        * destruct (eval V truth a1 i) as [[|]|] eqn:E1; [now apply (IH1 true)| |discriminate].
          apply Forall_app. split; [now apply (IH1 false)|now apply (IH2 v)].
      + injection H as ->. now apply IHa.
  Qed.

  (* short-circuit: the right operand is not visited when the left one decides *)
  Lemma and_short a b i : eval V truth a i = VB false ->
    eval V truth (And a b) i = VB false /\ visited V truth (And a b) i = visited V truth a i.
  Proof. intros H. cbn [eval visited]. now rewrite H. Qed.
  Lemma or_short a b i : eval V truth a i = VB true ->
    eval V truth (Or a b) i = VB true /\ visited V truth (Or a b) i = visited V truth a i.
  Proof. intros H. cbn [eval visited]. now rewrite H. Qed.
End EvalFacts.

(* evaluation depends on the variant only through the atoms *)
Lemma eval_ext V V' truth e i :
  (forall a, In a (atoms e) -> atom_val V truth a i = atom_val V' truth a i) ->
  eval V truth e i = eval V' truth e i.
Proof.
  induction e as [a|e IH|a IHa b IHb|a IHa b IHb]; cbn [eval atoms]; intros H.
  - apply H. now left.
  - now rewrite IH.
  - rewrite IHa, IHb; [reflexivity| |]; intros x Hx; apply H; apply in_or_app; auto.
  - rewrite IHa, IHb; [reflexivity| |]; intros x Hx; apply H; apply in_or_app; auto.
Qed.

(* within the depth limit the recursive evaluation is the plain one *)
Lemma eval_lim_enough V truth e i : forall lim, (depth e <= lim)%nat -> eval_lim V truth lim e i = eval V truth e i.
Proof.
  induction e as [a|e IH|a IHa b IHb|a IHa b IHb]; intros [|l] H; cbn [depth] in H; try lia; cbn [eval_lim eval].
  - reflexivity.
  - rewrite IH by lia. reflexivity.
  - rewrite IHa, IHb by lia. reflexivity.
  - rewrite IHa, IHb by lia. reflexivity.
Qed.

Lemma eval_v_enough V truth e i :
  eval_depth_limit V = 0%nat \/ (depth e <= eval_depth_limit V)%nat -> eval_v V truth e i = eval V truth e i.
Proof.
  unfold eval_v. intros [->|H]; [reflexivity|]. destruct (eval_depth_limit V) eqn:E; [reflexivity|].
  now apply eval_lim_enough.
Qed.

(* a chain deeper than the limit raises RecursionError on every environment, whatever the operands are *)
Lemma eval_lim_spine V truth i e : forall lim, (lim < spine e)%nat ->
  eval_lim V truth lim e i = VExc (lit "RecursionError").
Proof.
  induction e as [a|e IH|a IHa b IHb|a IHa b IHb]; intros [|l] H; cbn [spine] in H; try reflexivity; try lia;
    cbn [eval_lim]; [rewrite IH by lia|rewrite IHa by lia|rewrite IHa by lia]; reflexivity.
Qed.

(* calls are independent of each other: the i-th result is the evaluation on the i-th environment alone,
   whatever was evaluated before on the same (cached) expression *)
Lemma outcome_nth V truth n e i d : (i < n)%nat ->
  nth i (outcome V truth n (Ok e)) d = eval_v V truth e i.
Proof.
  intros Hi. cbn [outcome]. rewrite (nth_indep _ d (eval_v V truth e 0)) by (now rewrite map_length, seq_length).
  rewrite map_nth. rewrite seq_nth by exact Hi. reflexivity.
Qed.

(* ---------- the cache ---------- *)
Section Cache.
  Variable V : variants.
  Variable compile : atom -> cres.

  Definition cache_sound (c : cache) : Prop :=
    forall s e, In (s, e) c -> parse V compile s = Ok e.

  Lemma str_eqb_eq a : forall b, str_eqb a b = true <-> a = b.
  Proof.
    induction a as [|c a IH]; intros [|d b]; cbn; try (split; congruence).
    rewrite andb_true_iff, N.eqb_eq, IH. split; [intros [-> ->]; reflexivity|intros [= -> ->]; auto].
  Qed.

  Lemma cache_find_in s c e : cache_find s c = Some e -> In (s, e) c.
  Proof.
    induction c as [|[k x] c IH]; cbn; [discriminate|].
    destruct (str_eqb k s) eqn:E.
    - apply str_eqb_eq in E as ->. intros [= ->]. now left.
    - intros H. right. now apply IH.
  Qed.

  Lemma cache_remove_incl s c : incl (cache_remove s c) c.
  Proof.
    induction c as [|[k x] c IH]; cbn; [apply incl_refl|].
    destruct (str_eqb k s); [now apply incl_tl|]. apply incl_cons; [now left|now apply incl_tl].
  Qed.

  Lemma firstn_incl {A} n : forall l : list A, incl (firstn n l) l.
  Proof.
    induction n as [|n IH]; intros [|x l]; cbn [firstn]; try (intros z Hz; now destruct Hz).
    intros z [->|Hz]; [now left|right; now apply IH].
  Qed.

  (* the cached entry point returns what the parser returns and keeps the cache sound,
     whatever was evicted *)
  Theorem cached_parse_transparent c s : cache_sound c ->
    fst (cached_parse V compile c s) = parse V compile s /\ cache_sound (snd (cached_parse V compile c s)).
  Proof.
    intros Hc. unfold cached_parse. destruct (cache_find s c) as [e|] eqn:Ef.
    - apply cache_find_in in Ef. cbn [fst snd]. split; [symmetry; now apply Hc|].
      intros s' e' [[= <- <-]|Hin]; [now apply Hc|]. apply Hc. now apply cache_remove_incl in Hin.
    - destruct (parse V compile s) as [e|x] eqn:Ep; cbn [fst snd]; split; auto.
      intros s' e' Hin. apply firstn_incl in Hin. destruct Hin as [[= <- <-]|Hin]; [exact Ep|now apply Hc].
  Qed.

  Lemma cache_sound_nil : cache_sound [].
  Proof. intros s e []. Qed.
End Cache.
