#!/usr/bin/env python3
"""
tools/coverage_gaps.py [Cxx ...] : which statements of the anchored functions did the correspondence never execute?

Runs each quick check with VERIF_COVERAGE=1 (line coverage of the real code while the harness drives it, see
harness/common.py) and prints, per anchored function, the source lines that were never executed.  A line listed here
is code the model is not tied to by the correspondence: either the generator has a gap (close it) or the line is
outside what the property is about (say so in docs/Cxx.md).  Not a registered check; a review aid (this is how the
unreachable branch behind D20 would have shown up).
"""
import json
import os
import subprocess
import sys

V = os.path.dirname(os.path.dirname(os.path.abspath(__file__)))
REPO = os.environ.get("VERIF_REPO", "/repo")


def main():
    ids = sys.argv[1:] or ["C%02d" % i for i in range(1, 19)]
    for pid in ids:
        env = dict(os.environ, VERIF_COVERAGE="1")
        p = subprocess.run(["./check", pid, "--tier", "quick"], cwd=V, env=env, stdout=subprocess.PIPE, stderr=subprocess.STDOUT, text=True)
        ev = os.path.join(V, "evidence", pid + ".json")
        if REPO != "/repo":
            ev = os.path.join(V, "replays", "evidence-%s-scratch.json" % pid)
        d = json.load(open(ev))
        cov = (d.get("coverage") or {}).get("anchor_coverage") or {}
        print("== %s (exit %d)" % (pid, p.returncode))
        for rel, e in sorted(cov.items()):
            if not isinstance(e, dict) or "anchored_functions" not in e:
                print("  ", rel, e if not isinstance(e, dict) else {k: v for k, v in e.items() if k != "anchored_functions"})
                continue
            src = open(os.path.join(REPO, rel)).read().split("\n")
            for fn, st in sorted(e["anchored_functions"].items()):
                if st["missing_lines"]:
                    print("   %s:%s  %s%% of %d statements; never executed:" % (rel, fn, st["percent"], st["statements"]))
                    for ln in st["missing_lines"]:
                        print("      %5d  %s" % (ln, src[ln - 1].rstrip()[:110]))


if __name__ == "__main__":
    main()
