(* Python value trees shared by the data-source models (C11, C12, C13).
   Definitions only; lemmas are in ValProofs.v.

   dict  = association list in Python insertion order
   set   = list, compared up to permutation
   bool and int are kept apart (Python's True == 1 is outside the model: the
   generators never mix them as keys / set members / list elements). *)
From Coq Require Import List NArith ZArith Bool Arith.
Import ListNotations.

Definition str := list N.

Inductive val :=
| VNone
| VBool (b : bool)
| VInt (z : Z)
| VStr (s : str)
| VBytes (s : str)
| VList (l : list val)
| VTuple (l : list val)
| VSet (l : list val)
| VDict (d : list (val * val))
| VOpaque (t : N).

Definition dict := list (val * val).

(* exception classes that matter to some property of the family *)
Inductive exc :=
| TypeError | ValueError | KeyError | RuntimeError | FileNotFoundError | OSError
| YamlError | TemplateError | OutOfFuel | OtherError (tag : N).

Inductive res (A : Type) := Ok (a : A) | Err (e : exc).
Arguments Ok {A}. Arguments Err {A}.
Definition bind {A B} (r : res A) (f : A -> res B) : res B :=
  match r with Ok a => f a | Err e => Err e end.

(* ---- induction principle for the nested occurrences ---- *)
Section ValInd.
  Variable P : val -> Prop.
  Hypothesis HNone : P VNone.
  Hypothesis HBool : forall b, P (VBool b).
  Hypothesis HInt : forall z, P (VInt z).
  Hypothesis HStr : forall s, P (VStr s).
  Hypothesis HBytes : forall s, P (VBytes s).
  Hypothesis HList : forall l, Forall P l -> P (VList l).
  Hypothesis HTuple : forall l, Forall P l -> P (VTuple l).
  Hypothesis HSet : forall l, Forall P l -> P (VSet l).
  Hypothesis HDict : forall d, Forall (fun kv => P (fst kv) /\ P (snd kv)) d -> P (VDict d).
  Hypothesis HOpaque : forall t, P (VOpaque t).
  Fixpoint val_ind' (v : val) : P v :=
    match v with
    | VNone => HNone | VBool b => HBool b | VInt z => HInt z | VStr s => HStr s | VBytes s => HBytes s
    | VList l => HList l ((fix go l := match l return Forall P l with
                            | [] => Forall_nil _ | x :: r => Forall_cons _ (val_ind' x) (go r) end) l)
    | VTuple l => HTuple l ((fix go l := match l return Forall P l with
                            | [] => Forall_nil _ | x :: r => Forall_cons _ (val_ind' x) (go r) end) l)
    | VSet l => HSet l ((fix go l := match l return Forall P l with
                            | [] => Forall_nil _ | x :: r => Forall_cons _ (val_ind' x) (go r) end) l)
    | VDict d => HDict d ((fix go d := match d return Forall (fun kv => P (fst kv) /\ P (snd kv)) d with
                          | [] => Forall_nil _
                          | (k, x) :: r => @Forall_cons _ (fun kv => P (fst kv) /\ P (snd kv)) (k, x) r
                                             (conj (val_ind' k) (val_ind' x)) (go r) end) d)
    | VOpaque t => HOpaque t
    end.
End ValInd.

Fixpoint str_eqb (a b : str) : bool :=
  match a, b with
  | [], [] => true
  | x :: a', y :: b' => (x =? y)%N && str_eqb a' b'
  | _, _ => false
  end.

(* ---- equality ----
   [veq false] is Python's ==  (dicts and sets compare without order);
   [veq true] additionally requires the same key order in every dict: it is
   the comparison the checkers use when a property speaks about key order. *)
Section ListEq.
  Variable A : Type.
  Variable eq : A -> A -> bool.
  Fixpoint list_eqb (x y : list A) : bool :=
    match x, y with
    | [], [] => true
    | p :: x', q :: y' => eq p q && list_eqb x' y'
    | _, _ => false
    end.
End ListEq.
Arguments list_eqb {A}.

Section Assoc.
  Variable hit : val -> bool.           (* "is this stored key equal to the searched one" *)
  Fixpoint assoc (d : dict) : option val :=
    match d with
    | [] => None
    | (k', v) :: r => if hit k' then Some v else assoc r
    end.
End Assoc.

Fixpoint veq (ord : bool) (a b : val) {struct a} : bool :=
  match a, b with
  | VNone, VNone => true
  | VBool x, VBool y => Bool.eqb x y
  | VInt x, VInt y => (x =? y)%Z
  | VStr x, VStr y => str_eqb x y
  | VBytes x, VBytes y => str_eqb x y
  | VOpaque x, VOpaque y => (x =? y)%N
  | VList x, VList y => list_eqb (veq ord) x y
  | VTuple x, VTuple y => list_eqb (veq ord) x y
  | VSet x, VSet y =>
      (length x =? length y)%nat && forallb (fun p => existsb (veq ord p) y) x
  | VDict x, VDict y =>
      if ord then
        list_eqb (fun kp kq => veq ord (fst kp) (fst kq) && veq ord (snd kp) (snd kq)) x y
      else
        (length x =? length y)%nat &&
        forallb (fun kp => match assoc (veq ord (fst kp)) y with
                           | Some q => veq ord (snd kp) q
                           | None => false
                           end) x
  | _, _ => false
  end.

Definition py_eq : val -> val -> bool := veq false.     (* Python == *)
Definition same : val -> val -> bool := veq true.       (* == and same key order *)

(* ---- dict and container operations (Python insertion order) ---- *)
Definition lookup (k : val) (d : dict) : option val := assoc (py_eq k) d.
Definition has (k : val) (d : dict) : bool := match lookup k d with Some _ => true | None => false end.
Definition keys (d : dict) : list val := map fst d.
(* x in list *)
Definition mem (x : val) (l : list val) : bool := existsb (py_eq x) l.
(* d[k] = v : an existing key keeps its position *)
Fixpoint dict_set (k v : val) (d : dict) : dict :=
  match d with
  | [] => [(k, v)]
  | (k', v') :: r => if py_eq k k' then (k', v) :: r else (k', v') :: dict_set k v r
  end.
Fixpoint dict_del (k : val) (d : dict) : dict :=
  match d with
  | [] => []
  | (k', v') :: r => if py_eq k k' then r else (k', v') :: dict_del k r
  end.

(* values Python can hash (keys, set members) *)
Fixpoint hashable (v : val) : bool :=
  match v with
  | VNone | VBool _ | VInt _ | VStr _ | VBytes _ => true
  | VTuple l => forallb hashable l
  | _ => false
  end.

Fixpoint nodupb (l : list val) : bool :=
  match l with
  | [] => true
  | x :: r => negb (mem x r) && nodupb r
  end.

(* well-formed: what a Python object graph of these types can be -
   keys and set members hashable and pairwise different *)
Fixpoint wf (v : val) : bool :=
  match v with
  | VList l | VTuple l => forallb wf l
  | VSet l => forallb hashable l && nodupb l
  | VDict d => forallb (fun kv => hashable (fst kv) && wf (snd kv)) d && nodupb (map fst d)
  | _ => true
  end.
Definition wf_dict (d : dict) : bool := wf (VDict d).
