(* Owicki-Gries style invariant proof for the generic pool of Pool.v.

   The instance supplies boolean assertion tables over its FINITE globals:
     gok g          global assertion,
     lok g me p     assertion of a caller thread at pc p (me = this thread owns the lock),
     act p / actb g "exclusive section" bookkeeping: the number of callers whose pc satisfies [act]
                    equals (if actb g then 1 else 0).
   and discharges the finite local obligations O1 (a caller step keeps its own assertions),
   O2 (a caller step keeps every other caller's assertion), O3 (same for the main thread), D1/D2
   (who can be blocked) by exhaustive computation.  This file lifts them, by induction, to pools
   with ANY number of caller threads, any operation lists and any schedule. *)
From Coq Require Import List Arith Bool Lia.
From VF Require Import Lifecycle.Pool.
Import ListNotations.

Definition b2n (b : bool) : nat := if b then 1 else 0.

Definition me_after (l l' : lk) (me : bool) : bool :=
  match l, l' with LCaller, LCaller => me | _, LCaller => true | _, _ => false end.

Definition lock_disc (l : lk) (me : bool) (l' : lk) : bool :=
  match l with
  | LCaller => if me then negb (lk_eqb l' LMain) else lk_eqb l' LCaller
  | LFree => negb (lk_eqb l' LMain)
  | LMain => lk_eqb l' LMain
  end.

Lemma nth_error_upd_same {A} (l : list A) i a x :
  nth_error l i = Some x -> nth_error (upd i a l) i = Some a.
Proof.
  revert i; induction l as [|y r IH]; intros [|i] H; cbn in *; try discriminate; auto.
Qed.

Lemma nth_error_upd_other {A} (l : list A) i j a :
  i <> j -> nth_error (upd i a l) j = nth_error l j.
Proof.
  revert i j; induction l as [|y r IH]; intros [|i] [|j] H; cbn; auto; try congruence.
Qed.

Lemma length_upd {A} (l : list A) i a : length (upd i a l) = length l.
Proof. revert i; induction l as [|y r IH]; intros [|i]; cbn; auto. Qed.

Section Count.
  Variables (A : Type) (P : A -> bool).
  Fixpoint count (l : list A) : nat :=
    match l with [] => 0 | x :: r => b2n (P x) + count r end.

  Lemma count_upd l i x a : nth_error l i = Some x ->
    count (upd i a l) + b2n (P x) = count l + b2n (P a).
  Proof.
    revert i; induction l as [|y r IH]; intros [|i] H; cbn in *; try discriminate.
    - injection H as ->. lia.
    - specialize (IH _ H). lia.
  Qed.

  Lemma count_one l i x : nth_error l i = Some x -> P x = true -> 1 <= count l.
  Proof.
    revert i; induction l as [|y r IH]; intros [|i] H Hx; cbn in *; try discriminate.
    - injection H as ->. rewrite Hx. cbn. lia.
    - specialize (IH _ H Hx). lia.
  Qed.

  Lemma count_two l i j x y : i <> j -> nth_error l i = Some x -> nth_error l j = Some y ->
    P x = true -> P y = true -> 2 <= count l.
  Proof.
    revert i j; induction l as [|z r IH]; intros [|i] [|j] Hij Hi Hj Hx Hy; cbn in *;
      try discriminate; try congruence.
    - injection Hi as ->. rewrite Hx. pose proof (count_one _ _ _ Hj Hy). cbn. lia.
    - injection Hj as ->. rewrite Hy. pose proof (count_one _ _ _ Hi Hx). cbn. lia.
    - assert (i <> j) by congruence. specialize (IH _ _ H Hi Hj Hx Hy). lia.
  Qed.

  Lemma count_zero_all l : count l = 0 -> forall x, In x l -> P x = false.
  Proof.
    induction l as [|y r IH]; cbn; intros H x Hin; [tauto|].
    destruct Hin as [->|Hin].
    - destruct (P x); cbn in H; [lia|reflexivity].
    - apply IH; [lia|exact Hin].
  Qed.
End Count.

Section PoolProofs.
  Variables (G PC OP : Type).
  Variable lkof : G -> lk.
  Variable cstep : G -> bool -> PC -> option OP -> option (G * PC * bool).
  Variable mstep : G -> option G.
  Variable is_idle : PC -> bool.
  Variables (gok : G -> bool) (lok : G -> bool -> PC -> bool) (act : PC -> bool) (actb : G -> bool).

  Notation st := (st G PC OP).
  Notation caller := (caller PC OP).
  Notation step := (step G PC OP lkof cstep mstep).
  Notation run := (run G PC OP lkof cstep mstep).
  Notation isme := (isme G PC OP lkof).

  Definition cact (c : caller) : bool := act (pc c).

  Hypothesis O1 : forall g me p o g' p' b,
    gok g = true -> lok g me p = true -> (me = true -> lkof g = LCaller) ->
    cstep g me p o = Some (g', p', b) ->
    gok g' = true /\ lok g' (me_after (lkof g) (lkof g') me) p' = true /\
    lock_disc (lkof g) me (lkof g') = true /\
    b2n (actb g') + b2n (act p) = b2n (actb g) + b2n (act p').

  Hypothesis O2 : forall g me p o g' p' b me2 q,
    gok g = true -> lok g me p = true -> lok g me2 q = true ->
    me && me2 = false -> act p && act q = false ->
    cstep g me p o = Some (g', p', b) -> lok g' me2 q = true.

  Hypothesis O3 : forall g g', gok g = true -> mstep g = Some g' ->
    gok g' = true /\ actb g' = actb g /\ lk_eqb (lkof g) LCaller = lk_eqb (lkof g') LCaller /\
    forall me q, lok g me q = true -> lok g' me q = true.

  Record Inv (s : st) : Prop := {
    inv_g : gok (g s) = true;
    inv_owner : lkof (g s) = LCaller -> owner s < length (callers s);
    inv_l : forall i c, nth_error (callers s) i = Some c -> lok (g s) (isme s i) (pc c) = true;
    inv_c : count _ cact (callers s) = b2n (actb (g s))
  }.

  Lemma isme_lk s i : isme s i = true -> lkof (g s) = LCaller.
  Proof. unfold Pool.isme. destruct (lkof (g s)); congruence. Qed.

  Lemma isme_unique s i j : isme s i = true -> isme s j = true -> i = j.
  Proof.
    unfold Pool.isme. destruct (lkof (g s)); try congruence.
    intros H1 H2. apply Nat.eqb_eq in H1, H2. congruence.
  Qed.

  Theorem inv_step s ch s' : Inv s -> step s ch = Some s' -> Inv s'.
  Proof.
    intros [Hg Ho Hl Hc] Hs. destruct ch as [i|]; cbn [Pool.step] in Hs.
    - destruct (nth_error (callers s) i) as [c|] eqn:Hi; [|discriminate].
      destruct (cstep (g s) (isme s i) (pc c) (hd_error (todo c))) as [[[g' p'] b]|] eqn:Hcs; [|discriminate].
      injection Hs as <-.
      destruct (O1 _ _ _ _ _ _ _ Hg (Hl _ _ Hi) (isme_lk s i) Hcs) as (Hg' & Hl' & Hd & Hn).
      set (s' := {| g := g'; owner := _; callers := _ |}).
      assert (Eme : forall j, isme s' j =
                 if Nat.eqb i j then me_after (lkof (g s)) (lkof g') (isme s i) else isme s j).
      { intros j. unfold Pool.isme, s'; cbn [g owner]. unfold lock_disc in Hd. unfold Pool.isme in Hd.
        destruct (Nat.eqb i j) eqn:Eij.
        - apply Nat.eqb_eq in Eij; subst j.
          destruct (lkof (g s)), (lkof g'); cbn [me_after]; auto using Nat.eqb_refl.
        - destruct (lkof (g s)) eqn:E1, (lkof g') eqn:E2; cbn in Hd |- *; auto; try discriminate.
          all: destruct (Nat.eqb (owner s) i) eqn:E3; cbn in Hd; try discriminate;
            apply Nat.eqb_eq in E3; rewrite E3; symmetry; exact Eij. }
      split.
      + exact Hg'.
      + cbn [g owner callers s']. rewrite length_upd. intros E.
        destruct (lkof (g s)) eqn:E1; rewrite ?E; try (apply nth_error_Some; congruence).
        apply Ho; reflexivity.
      + intros j c' Hj. cbn [callers s'] in Hj. rewrite Eme.
        destruct (Nat.eqb i j) eqn:Eij.
        * apply Nat.eqb_eq in Eij; subst j. rewrite (nth_error_upd_same _ _ _ _ Hi) in Hj.
          injection Hj as <-. exact Hl'.
        * apply Nat.eqb_neq in Eij. rewrite nth_error_upd_other in Hj by exact Eij.
          change (g s') with g'.
          eapply O2; [exact Hg | exact (Hl _ _ Hi) | exact (Hl _ _ Hj) | | | exact Hcs].
          -- destruct (isme s i) eqn:A, (isme s j) eqn:B; auto.
             exfalso. apply Eij. eapply isme_unique; eauto.
          -- destruct (act (pc c)) eqn:A, (act (pc c')) eqn:B; auto. exfalso.
             pose proof (count_two _ cact _ _ _ _ _ Eij Hi Hj A B) as H2.
             rewrite Hc in H2. destruct (actb (g s)); cbn in H2; lia.
      + cbn [g callers s'].
        pose proof (count_upd _ cact _ _ _ {| pc := p'; todo := if b then tl (todo c) else todo c |} Hi) as Hu.
        unfold cact at 2 4 in Hu. cbn [pc] in Hu. lia.
    - destruct (mstep (g s)) as [g'|] eqn:Hm; [|discriminate]. injection Hs as <-.
      destruct (O3 _ _ Hg Hm) as (Hg' & Ha & Hk & Hq).
      assert (Eme : forall j, isme {| g := g'; owner := owner s; callers := callers s |} j = isme s j).
      { intros j. unfold Pool.isme; cbn [g owner].
        destruct (lkof (g s)), (lkof g'); cbn in Hk; try discriminate; auto. }
      split; cbn [g owner callers].
      + exact Hg'.
      + intros E. apply Ho. destruct (lkof (g s)), (lkof g'); cbn in Hk; try discriminate; auto.
      + intros j c Hj. rewrite Eme. apply Hq. apply Hl. exact Hj.
      + rewrite Ha. exact Hc.
  Qed.

  Theorem inv_run sch : forall s, Inv s -> Inv (run s sch).
  Proof.
    induction sch as [|ch r IH]; intros s Hi; cbn; auto.
    destruct (step s ch) eqn:E; auto. apply IH. eapply inv_step; eauto.
  Qed.

  (* ---------- nobody is stuck ---------- *)
  Hypothesis D1 : forall g me p o,
    gok g = true -> lok g me p = true ->
    is_idle p && match o with None => true | Some _ => false end = false ->
    cstep g me p o = None ->
    (lkof g = LCaller /\ me = false) \/ mstep g <> None.
  Hypothesis D2 : forall g p o, gok g = true -> lok g true p = true ->
    cstep g true p o <> None \/ mstep g <> None.

  Notation all_done := (all_done G PC OP is_idle).
  Notation done_caller := (done_caller PC OP is_idle).

  Theorem no_deadlock s : Inv s -> all_done s = false ->
    exists ch, step s ch <> None.
  Proof.
    intros [Hg Ho Hl Hc] Hnd. unfold Pool.all_done in Hnd.
    assert (exists i c, nth_error (callers s) i = Some c /\ done_caller c = false) as (i & c & Hi & Hdc).
    { clear -Hnd. induction (callers s) as [|x r IH]; cbn in Hnd; [discriminate|].
      destruct (done_caller x) eqn:E.
      - destruct (IH Hnd) as (i & c & H1 & H2). exists (S i), c. auto.
      - exists 0, x. auto. }
    destruct (cstep (g s) (isme s i) (pc c) (hd_error (todo c))) as [r|] eqn:Hcs.
    - exists (C i). cbn. rewrite Hi, Hcs. destruct r as [[? ?] ?]. discriminate.
    - assert (Hd : is_idle (pc c) && match hd_error (todo c) with None => true | Some _ => false end = false).
      { unfold Pool.done_caller in Hdc. destruct (todo c); cbn; auto. }
      destruct (D1 _ _ _ _ Hg (Hl _ _ Hi) Hd Hcs) as [[Hlk Hme]|Hm].
      + specialize (Ho Hlk). destruct (nth_error (callers s) (owner s)) as [c2|] eqn:H2;
          [|apply nth_error_None in H2; lia].
        assert (Hm2 : isme s (owner s) = true).
        { unfold Pool.isme. rewrite Hlk. apply Nat.eqb_refl. }
        pose proof (Hl _ _ H2) as Hl2. rewrite Hm2 in Hl2.
        destruct (D2 _ _ (hd_error (todo c2)) Hg Hl2) as [Hne|Hne].
        * exists (C (owner s)). cbn. rewrite H2, Hm2.
          destruct (cstep (g s) true (pc c2) (hd_error (todo c2))) as [[[? ?] ?]|]; congruence.
        * exists M. cbn. destruct (mstep (g s)); congruence.
      + exists M. cbn. destruct (mstep (g s)); congruence.
  Qed.

  (* ---------- when every caller has returned ---------- *)
  Variable quiet : G -> bool.
  Hypothesis F1 : forall g p, is_idle p = true -> lok g true p = false /\ act p = false.
  Hypothesis F2 : forall g, gok g = true -> lk_eqb (lkof g) LCaller = false -> actb g = false ->
    quiet g = true.

  Definition all_idle (l : list caller) : Prop := forall c, In c l -> is_idle (pc c) = true.

  Theorem idle_quiet s : Inv s -> all_idle (callers s) -> quiet (g s) = true.
  Proof.
    intros [Hg Ho Hl Hc] Hid. apply F2; auto.
    - destruct (lkof (g s)) eqn:E; auto. exfalso.
      specialize (Ho eq_refl).
      destruct (nth_error (callers s) (owner s)) as [c2|] eqn:H2; [|apply nth_error_None in H2; lia].
      pose proof (Hl _ _ H2) as Hl2.
      assert (Hm2 : isme s (owner s) = true) by (unfold Pool.isme; rewrite E; apply Nat.eqb_refl).
      rewrite Hm2 in Hl2.
      destruct (F1 (g s) (pc c2) (Hid _ (nth_error_In _ _ H2))) as [F _]. congruence.
    - destruct (actb (g s)) eqn:E; auto. exfalso. cbn in Hc.
      assert (Hz : forall l, (forall c, In c l -> is_idle (pc c) = true) -> count _ cact l = 0).
      { induction l as [|x r IH]; cbn; auto. intros H.
        unfold cact at 1. destruct (F1 (g s) (pc x) (H x (or_introl eq_refl))) as [_ ->]. cbn.
        apply IH. intros c Hin. apply H. right. exact Hin. }
      rewrite (Hz _ Hid) in Hc. discriminate.
  Qed.

  (* ---------- packaged: pools started from the initial globals ---------- *)
  Variable g0 : G.
  Variable idle : PC.
  Hypothesis g0_ok : gok g0 = true.
  Hypothesis g0_lk : lkof g0 = LFree.
  Hypothesis g0_act : actb g0 = false.
  Hypothesis idle_lok : lok g0 false idle = true.
  Hypothesis idle_act : act idle = false.

  Definition pool (ops : list (list OP)) : st :=
    {| g := g0; owner := 0; callers := map (fun l => {| pc := idle; todo := l |}) ops |}.

  Lemma pool_inv ops : Inv (pool ops).
  Proof.
    split; cbn [g owner callers pool].
    - exact g0_ok.
    - rewrite g0_lk. discriminate.
    - intros i c Hi. unfold Pool.isme; cbn [g pool]. rewrite g0_lk.
      apply nth_error_In in Hi. apply in_map_iff in Hi. destruct Hi as (l & <- & _). exact idle_lok.
    - rewrite g0_act. cbn. induction ops as [|l r IH]; cbn; auto.
      unfold cact at 1; cbn [pc]. rewrite idle_act. cbn. exact IH.
  Qed.

  Theorem pool_concurrent ops sch :
    let s := run (pool ops) sch in
    Inv s /\
    (all_done s = false -> exists ch, step s ch <> None) /\
    (all_done s = true -> quiet (g s) = true).
  Proof.
    intros s. assert (Hi : Inv s) by (apply inv_run; apply pool_inv).
    split; [exact Hi|]. split.
    - apply no_deadlock. exact Hi.
    - intros Hd. apply idle_quiet; auto. intros c Hc. unfold Pool.all_done in Hd.
      rewrite forallb_forall in Hd. specialize (Hd c Hc). unfold Pool.done_caller in Hd.
      apply andb_prop in Hd. tauto.
  Qed.
End PoolProofs.
