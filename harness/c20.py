"""C20 - server lifecycle: idempotent start/stop, restartable, ports/resources released.

Three kinds of cases (mirrors coq/theories/C20/Entry.v):
  seq   a history of start/stop/request on ONE real server object on ::1 (real sockets, real threads);
        after every operation: did the call raise, is the port still bound (bind probe), how many
        server threads live (threading.enumerate), was the request answered
  conc  2-4 real threads issuing start/stop on one server object, serialised by harness/sched.py at
        the source lines of start/stop/_run (and socketserver's serve_forever/shutdown) with a
        cooperative lock; ALL schedules with a bounded number of pre-emptions are run; the observation
        is the set of final states reached (+ any exception / deadlock, with the schedule as witness)
  xfer  one real _TftpReadRequest under the fake socket for every way a transfer can end
"""
import http
import io
import itertools
import logging
import multiprocessing
import os
import socket as real_socket
import struct
import sys
import tempfile
import threading
import time
import types

import common
from common import Check, sx, hist
import fake_net
import sched
from vinegar.tftp import server as S
from vinegar.tftp import protocol as P
from vinegar.http import server as H
import socketserver

logging.disable(logging.CRITICAL)

START, STOP, REQUEST, STOP_BUSY, START_PORT_TAKEN, START_THREAD_FAIL, STOP_OPEN_CONN = 0, 1, 2, 4, 5, 6, 7
OPNAME = {0: "start", 1: "stop", 2: "request", 3: "tick", 4: "stop_while_handler_blocks",
          5: "start_while_port_is_taken", 6: "start_while_thread_creation_fails",
          7: "stop_while_a_client_connection_is_open"}


# ============================================================================ real-server histories
class _TftpHandler(S.TftpRequestHandler):
    """serves b"hello"; a request for the file "block" makes can_handle (which runs on the server's main
    thread) wait until the harness releases it"""
    def __init__(self):
        self.entered = threading.Event()
        self.release = threading.Event()

    def can_handle(self, filename, context):
        if filename == "block":
            self.entered.set()
            self.release.wait(12.0)
        return True

    def handle(self, filename, client_address, server_address, context):
        return io.BytesIO(b"hello")


class _HttpHandler(H.HttpRequestHandler):
    def can_handle(self, uri, context):
        return True

    def handle(self, request_info, body, context):
        return http.HTTPStatus.OK, None, io.BytesIO(b"hello")


_port_counter = [0]


def _free_port(kind):
    """a port below the kernel's ephemeral range (so that no client socket of a parallel worker or of
    another process lands on it), different per worker process"""
    for _ in range(200):
        _port_counter[0] += 1
        port = 10000 + (os.getpid() * 131 + _port_counter[0] * 7) % 20000
        if _port_bound(kind, port) == 0:
            return port
    raise RuntimeError("no free port")


def _port_bound(kind, port, expect=None):
    """like _port_bound1; a result that differs from what the caller expects is re-probed (a transient
    foreign socket must not be taken for a leak)"""
    r = _port_bound1(kind, port)
    for _ in range(3):
        if expect is None or r == expect:
            return r
        time.sleep(0.05)
        r = _port_bound1(kind, port)
    return r


def _port_bound1(kind, port):
    """1 iff a socket still holds the port: bind probe, for UDP without SO_REUSEADDR; for TCP with
    SO_REUSEADDR so that connections in TIME_WAIT do not count while a listening socket still does"""
    typ = real_socket.SOCK_DGRAM if kind == "tftp" else real_socket.SOCK_STREAM
    s = real_socket.socket(real_socket.AF_INET6, typ)
    if kind != "tftp":
        s.setsockopt(real_socket.SOL_SOCKET, real_socket.SO_REUSEADDR, 1)
    try:
        s.bind(("::1", port))
        return 0
    except OSError:
        return 1
    finally:
        s.close()


def _tftp_request(port):
    c = real_socket.socket(real_socket.AF_INET6, real_socket.SOCK_DGRAM)
    try:
        c.settimeout(0.4)
        c.sendto(b"\x00\x01f\x00octet\x00", ("::1", port))
        try:
            data, addr = c.recvfrom(2048)
        except (real_socket.timeout, ConnectionRefusedError, OSError):
            return 0
        if data[:2] == b"\x00\x03":
            c.sendto(b"\x00\x04" + data[2:4], addr)
            return 1 if data[4:] == b"hello" else 3
        return 3
    finally:
        c.close()


def _http_request(port):
    c = real_socket.socket(real_socket.AF_INET6, real_socket.SOCK_STREAM)
    try:
        c.settimeout(0.5)
        try:
            c.connect(("::1", port))
        except (ConnectionRefusedError, real_socket.timeout, OSError):
            return 0
        try:
            c.sendall(b"GET /x HTTP/1.0\r\n\r\n")
            buf = b""
            while True:
                d = c.recv(4096)
                if not d:
                    break
                buf += d
        except real_socket.timeout:
            return 2
        except OSError:
            return 2 if not buf else 3
        return 1 if buf.startswith(b"HTTP/1.0 200") and buf.endswith(b"hello") else (2 if not buf else 3)
    finally:
        c.close()


def _extra_threads(baseline, want):
    """number of live threads beyond the baseline, after letting request threads finish"""
    t0 = time.time()
    n = None
    while time.time() - t0 < 1.5:
        n = len([t for t in threading.enumerate() if t not in baseline and t.is_alive()])
        if n == want:
            return n
        time.sleep(0.01)
    return n


_port_shared = [False]


def _udp_port_shared(port):
    """more than one UDP socket on this port: TftpServer sets SO_REUSEADDR, so the TFTP server of ANOTHER check
    running at the same time may have bound the same port between our probe and our bind"""
    n = 0
    for fn in ("/proc/net/udp6", "/proc/net/udp"):
        try:
            with open(fn) as f:
                for ln in f.readlines()[1:]:
                    parts = ln.split()
                    if len(parts) > 1 and parts[1].rsplit(":", 1)[-1].lower() == "%04x" % port:
                        n += 1
        except OSError:
            pass
    return n > 1


def run_history(kind, h, hold=1.5):
    """a history on a port of its own; run again on another port if, after one of its starts, the UDP port turned
    out to be shared with a foreign socket (requests would go astray between the two processes)"""
    obs = None
    for _ in range(4):
        _port_shared[0] = False
        obs = _run_history(kind, h, hold)
        if not _port_shared[0]:
            break
    return obs


def _run_history(kind, h, hold=1.5):
    """returns the per-operation observations [raised, port bound, live server threads, request outcome, hang]"""
    baseline = set(threading.enumerate())
    port = _free_port(kind)
    handler = None
    # virtual time for Thread.join(timeout) inside the server modules: a finite time-out elapses ten times faster
    # (a handler held for 1.5 s outlasts a join of up to 15 s); joins without time-out are unaffected
    class _FastJoinThread(threading.Thread):
        def join(self, timeout=None):
            return super().join(None if timeout is None else timeout / 10.0)
    _shim = types.SimpleNamespace(**{k: getattr(threading, k) for k in dir(threading) if not k.startswith("__")})
    _shim.Thread = _FastJoinThread
    _mod = S if kind == "tftp" else H
    _hist_patch = _Patch()
    sched.patch_module_use(_mod, threading, _shim, _hist_patch.set)
    if kind == "tftp":
        handler = _TftpHandler()
        srv = S.TftpServer([handler], "::1", port, default_timeout=0.3, max_retries=0)
    else:
        srv = H.HttpServer([_HttpHandler()], "::1", port)
    obs = []
    raised = 0
    expect_running = 0
    try:
        for o in h:
            served = 0
            hang = 0
            if o in (START, STOP):
                done = []

                def call(o=o):
                    try:
                        (srv.start if o == START else srv.stop)()
                        done.append(0)
                    except BaseException as e:      # noqa
                        done.append(1)
                th = threading.Thread(target=call, daemon=True)
                th.start()
                th.join(5.0)
                if th.is_alive():
                    hang = 1
                    baseline.add(th)
                elif done and done[0]:
                    raised = 1
                else:
                    expect_running = 1 if o == START else 0
                    if o == START and kind == "tftp" and _udp_port_shared(port):
                        _port_shared[0] = True
            elif o == STOP_OPEN_CONN:
                # stop() while a client holds an open, idle connection (HTTP: TCP connection without a request line;
                # TFTP has no connections: a plain stop()): stop() must return within its deadline all the same
                idle = None
                if kind == "http" and expect_running:
                    idle = real_socket.socket(real_socket.AF_INET6, real_socket.SOCK_STREAM)
                    try:
                        idle.settimeout(1.0)
                        idle.connect(("::1", port))
                        time.sleep(0.15)          # let the server accept it and start the worker thread
                    except OSError:
                        idle.close()
                        idle = None
                done = []

                def call_stop2():
                    try:
                        srv.stop()
                        done.append(0)
                    except BaseException:      # noqa
                        done.append(1)
                th = threading.Thread(target=call_stop2, daemon=True)
                th.start()
                th.join(2.5)
                stuck = th.is_alive()
                if idle is not None:
                    idle.close()               # the client goes away: a worker blocked on it ends
                if stuck:
                    hang = 1
                    th.join(3.0)
                    if th.is_alive():
                        baseline.add(th)
                    else:
                        expect_running = 0
                elif done and done[0]:
                    raised = 1
                else:
                    expect_running = 0
            elif o == START_THREAD_FAIL:
                # start() while the OS refuses a new thread: socket(), bind() succeed, Thread.start() raises once
                mod = S if kind == "tftp" else H
                armed = [True]

                class _FailingThread(_FastJoinThread):
                    def start(self):
                        if armed[0]:
                            armed[0] = False
                            raise RuntimeError("cannot start new thread")
                        return super().start()
                shim = types.SimpleNamespace(**{k: getattr(threading, k) for k in dir(threading) if not k.startswith("__")})
                shim.Thread = _FailingThread
                done = []

                def call_start():
                    try:
                        srv.start()
                        done.append(0)
                    except RuntimeError:
                        done.append(1)
                    except BaseException:      # noqa
                        done.append(2)
                fail_patch = _Patch()
                _hist_patch.undo()
                sched.patch_module_use(mod, threading, shim, fail_patch.set)
                try:
                    th = threading.Thread(target=call_start, daemon=True)
                    th.start()
                    th.join(5.0)
                finally:
                    fail_patch.undo()
                    sched.patch_module_use(_mod, threading, _shim, _hist_patch.set)
                if th.is_alive():
                    hang = 1
                    baseline.add(th)
                elif done and done[0] == 2:
                    raised = 1
                else:
                    served = 1 if (done and done[0] == 1) else 0       # "the call raised"
                    if done and done[0] == 0:
                        expect_running = 1
            elif o == START_PORT_TAKEN:
                # start() while a foreign socket holds the port: bind fails; the call must raise (unless the server
                # is already running), release everything it took, and leave the object as it was
                foreign = None
                if not expect_running:
                    typ = real_socket.SOCK_DGRAM if kind == "tftp" else real_socket.SOCK_STREAM
                    foreign = real_socket.socket(real_socket.AF_INET6, typ)
                    try:
                        foreign.bind(("::1", port))
                        if kind != "tftp":
                            foreign.listen(1)
                    except OSError:
                        # the port is still held (by a socket the server object leaked): the call below meets
                        # that socket instead of ours; the leak shows in the observations
                        foreign.close()
                        foreign = "leaked"
                done = []

                def call_start():
                    try:
                        srv.start()
                        done.append(0)
                    except OSError:
                        done.append(1)
                    except BaseException:      # noqa
                        done.append(2)
                th = threading.Thread(target=call_start, daemon=True)
                th.start()
                th.join(5.0)
                if foreign is not None and foreign != "leaked":
                    foreign.close()
                if th.is_alive():
                    hang = 1
                    baseline.add(th)
                elif done and done[0] == 2:
                    raised = 1
                else:
                    served = 1 if (done and done[0] == 1) else 0       # "the call raised OSError"
                    if foreign is None:
                        expect_running = 1
            elif o == STOP_BUSY:
                # stop() while the main thread sits in a request handler: has stop() returned, with the main
                # thread still alive, before the handler is released (deadline 1.5 s)?
                blocked = False
                if kind == "tftp" and expect_running:
                    handler.entered.clear()
                    handler.release.clear()
                    bc = real_socket.socket(real_socket.AF_INET6, real_socket.SOCK_DGRAM)
                    bc.sendto(b"\x00\x01block\x00octet\x00", ("::1", port))
                    blocked = handler.entered.wait(1.0)
                done = []

                def call_stop():
                    try:
                        srv.stop()
                        done.append(0)
                    except BaseException:      # noqa
                        done.append(1)
                th = threading.Thread(target=call_stop, daemon=True)
                th.start()
                th.join(hold if blocked else 5.0)
                if blocked:
                    returned = not th.is_alive()
                    live = len([t for t in threading.enumerate() if t not in baseline and t is not th and t.is_alive()])
                    served = 1 if (returned and live >= 1) else 0       # "stop() returned while the main thread is alive"
                    handler.release.set()
                    try:                   # let the released transfer finish quickly: acknowledge its only block
                        bc.settimeout(1.0)
                        data, addr = bc.recvfrom(2048)
                        if data[:2] == b"\x00\x03":
                            bc.sendto(b"\x00\x04" + data[2:4], addr)
                    except OSError:
                        pass
                    th.join(5.0)
                if kind == "tftp" and expect_running:
                    bc.close()
                if th.is_alive():
                    hang = 1
                    baseline.add(th)
                elif done and done[0]:
                    raised = 1
                else:
                    expect_running = 0
            elif o == REQUEST:
                served = (_tftp_request if kind == "tftp" else _http_request)(port)
            obs.append([raised, _port_bound(kind, port, expect_running), _extra_threads(baseline, expect_running), served, hang])
            if hang:
                break
    finally:
        _hist_patch.undo()
        if handler is not None:
            handler.release.set()
        try:
            t = threading.Thread(target=srv.stop, daemon=True)
            t.start()
            t.join(2.0)
        except Exception:
            pass
        # whatever the object still holds, found by type (no private names)
        for v in list(vars(srv).values()):
            try:
                if isinstance(v, real_socket.socket):
                    v.close()
                elif isinstance(v, socketserver.BaseServer):
                    v.server_close()
            except Exception:
                pass
    return obs


def _job(job):
    """worker-process entry: a seq history or the schedule enumeration of one conc case"""
    if job[0] == "seq":
        return run_history(job[1], job[2], *(job[3:4]))
    _, kind, pre, ops, bound, budget_s = job
    return conc_explore(kind, pre, ops, bound, deadline=time.time() + budget_s)


# ============================================================================ scheduled start/stop
class _FakeListenSock:
    """stands in for the TFTP listening socket in scheduled runs: never receives anything; once closed every
    operation fails with EBADF like a real socket"""
    def __init__(self, registry):
        self.closed = False
        self.poison = False        # set after the run: makes a main loop that is still alive exit
        registry.append(self)

    def _live(self):
        if self.closed:
            raise OSError(9, "Bad file descriptor")

    def setsockopt(self, *a):
        self._live()

    def settimeout(self, t):
        self._live()

    def bind(self, addr):
        self._live()

    def getsockname(self):
        self._live()
        return ("::1", 69, 0, 0)

    def fileno(self):
        return -1 if self.closed else 7

    def recvmsg(self, *a):
        if self.poison:
            raise SystemExit()
        self._live()
        raise real_socket.timeout()

    def recvfrom(self, *a):
        if self.poison:
            raise SystemExit()
        self._live()
        raise real_socket.timeout()

    def sendto(self, *a):
        self._live()

    def close(self):
        self.closed = True


class _FakeSelector:
    def __init__(self):
        pass

    def __enter__(self):
        return self

    def __exit__(self, *a):
        pass

    def register(self, sockobj, ev):
        self.sock = sockobj

    def select(self, timeout=None):
        if getattr(self.sock, "_verif_poisoned", False):
            raise SystemExit()
        if self.sock.fileno() == -1:
            raise ValueError("Invalid file descriptor: -1")
        return []


class _Patch:
    """temporarily replace attributes of modules"""
    def __init__(self):
        self.saved = []

    def set(self, obj, name, value):
        self.saved.append((obj, name, getattr(obj, name)))
        setattr(obj, name, value)

    def undo(self):
        for obj, name, old in reversed(self.saved):
            setattr(obj, name, old)
        self.saved = []


TFTP_FILES = [S.__file__]
TFTP_FUNCS = sched.with_fallback(["start", "stop", "_run"], [(S.__file__, ["start", "stop", "_run"])])
HTTP_FILES = [H.__file__, socketserver.__file__]
HTTP_FUNCS = sched.with_fallback(["start", "stop", "_run", "serve_forever", "shutdown", "server_close"],
                                 [(H.__file__, ["start", "stop", "_run"])])


def _server_class(mod):
    """(name, class) of the socketserver class the HTTP server module defines - found by type, not by name"""
    hits = [(k, v) for k, v in vars(mod).items() if isinstance(v, type) and issubclass(v, socketserver.BaseServer)
            and v.__module__ == mod.__name__]
    if not hits:
        raise LookupError("no socketserver.BaseServer subclass defined in %s" % mod.__name__)
    return hits[0]


class ConcScenario:
    """one server object, caller threads each running a list of start/stop calls"""
    def __init__(self, kind, pre, ops):
        self.kind = kind
        self.patch = _Patch()
        self.socks = []
        self.servers = []
        self.raised = []
        if kind == "tftp":
            sched.patch_module_use(S, threading, sched.shim(), self.patch.set)
            sock_shim = types.SimpleNamespace(**{k: getattr(real_socket, k) for k in dir(real_socket)
                                                 if not k.startswith("__")})
            sock_shim.socket = lambda **k: _FakeListenSock(self.socks)
            sock_shim.socket = _mk_fake = (lambda *a, **k: _FakeListenSock(self.socks))
            sched.patch_module_use(S, real_socket, sock_shim, self.patch.set)
            self.srv = S.TftpServer([_TftpHandler()], "::1", 0)
        else:
            sh = sched.shim()
            sched.patch_module_use(H, threading, sh, self.patch.set)
            sched.patch_module_use(socketserver, threading, sh, self.patch.set)
            self.patch.set(socketserver, "_ServerSelector", _FakeSelector)
            servers = self.servers
            base_name, base = _server_class(H)

            class Recording(base):
                def __init__(self, *a, **k):
                    super().__init__(*a, **k)
                    servers.append(self)
            self.patch.set(H, base_name, Recording)
            self.srv = H.HttpServer([_HttpHandler()], "::1", 0)
        self.pre = pre
        self.bodies = [self._body(i, l) for i, l in enumerate(ops)]
        if pre:
            # a solo start() before the caller threads begin
            self.prologue = self.srv.start

    def _body(self, i, l):
        def body():
            for o in l:
                try:
                    (self.srv.start if o else self.srv.stop)()
                except sched.Abandoned:
                    raise
                except BaseException as e:      # noqa
                    self.raised.append((i, OPNAME[0 if o else 1], type(e).__name__, str(e)[:80]))
            return None
        return body

    def finish(self, results, status, s):
        """called with every thread frozen: classify the final state"""
        if self.kind == "tftp":
            nopen = len([x for x in self.socks if not x.closed])
        else:
            nopen = len([x for x in self.servers if x.socket.fileno() != -1])
        nlive = len(s.live_background())
        # the flag is read if the object still has it under this name; otherwise the state is judged by behaviour only
        flag = getattr(self.srv, "_running", None)
        running = bool(flag) if flag is not None else (nopen == 1 and nlive == 1)
        exc = [r for r in results if r is not None and r[0] == "exc"]
        if running and nopen == 1 and nlive == 1:
            final = 1
        elif (not running) and nopen == 0 and nlive == 0:
            final = 0
        else:
            final = 2
        return {"raised": list(self.raised) + [("thread", "?", r[1], r[2]) for r in exc],
                "deadlock": status != "ok", "status": status, "final": final,
                "detail": {"running": running, "open_sockets": nopen, "live_threads": nlive}}

    def cleanup(self):
        try:
            pass
        finally:
            for x in self.socks:
                x.poison = True
            for x in self.servers:
                x._verif_poisoned = True
                try:
                    x.socket.close()
                except Exception:
                    pass
            self.patch.undo()

    def _stop_quietly(self):
        try:
            self.srv.stop()
        except BaseException:       # noqa
            pass


def conc_explore(kind, pre, ops, max_preempt, budget=None, deadline=None):
    """all schedules with <= max_preempt pre-emptions; returns (obs, witness, nruns)"""
    files, funcs = (TFTP_FILES, TFTP_FUNCS) if kind == "tftp" else (HTTP_FILES, HTTP_FUNCS)
    finals = set()
    raised = deadlock = 0
    witness = None
    n = 0
    for schedule, out in sched.explore(lambda: ConcScenario(kind, pre, ops), files, funcs, max_preempt=max_preempt,
                                       max_decisions=1500, budget=budget, deadline=deadline):
        n += 1
        v = out.verdict
        finals.add(v["final"])
        bad = False
        if v["raised"]:
            raised = 1
            bad = True
        if v["deadlock"]:
            deadlock = 1
            bad = True
        if v["final"] == 2:
            bad = True
        if bad and witness is None:
            witness = {"schedule": [list(p) for p in schedule], "verdict": v, "decisions": out.decisions[:400]}
    return [raised, deadlock, sorted(finals)], witness, n


# ============================================================================ transfer endings
HRES = {"file": 0, "tftperror": 1, "exception": 2}
XEND = {"completed": 0, "timeout": 1, "overflow": 2, "clienterror": 3, "invalid": 4, "aborted": 5, "internal": 6}


class _Stream(fake_net.ChunkedStream):
    def __init__(self, content, chunks, fail_read_at=None, bad_fileno=False):
        super().__init__(content, chunks)
        self.fail_read_at = fail_read_at
        self.bad_fileno = bad_fileno
        self.nreads = 0
        self.closes = 0

    def read(self, n=-1):
        self.nreads += 1
        if self.fail_read_at is not None and self.nreads >= self.fail_read_at:
            raise RuntimeError("disk on fire")
        return super().read(n)

    def fileno(self):
        if self.bad_fileno:
            raise RuntimeError("no fileno today")
        return super().fileno()

    close_raises = False

    def close(self):
        self.closes += 1
        super().close()
        if self.close_raises:
            raise OSError(5, "Input/output error")      # e.g. a deferred write/flush error reported by close()


class _Spin(BaseException):
    """stops a transfer thread that keeps retrying a failing call for ever (not an Exception: the code under
    test must not be able to catch it)"""


class _Sock(fake_net.FakeSock):
    """fake transfer socket with fault injection: fault = None | ("send_once", k) | ("send_from", k) |
    ("recv_err", j): the k-th sendto() raises OSError once / every sendto() from the k-th on raises / the j-th
    recvfrom() raises OSError"""
    SPIN_LIMIT = 300

    def __init__(self, script, clock, log, fail_error_send, fault=None):
        super().__init__(script, clock, log)
        self.fail_error_send = fail_error_send
        self.fault = tuple(fault) if fault else None
        self.nsend = 0
        self.nrecv = 0
        self.nfail = 0

    def _failed(self, err):
        self.nfail += 1
        self.log.append(("send_failed",))
        if self.nfail > self.SPIN_LIMIT:
            self.log.append(("spin",))
            raise _Spin()
        raise err

    def sendto(self, data, addr):
        self.nsend += 1
        if self.fault and ((self.fault[0] == "send_once" and self.nsend == self.fault[1])
                           or (self.fault[0] == "send_from" and self.nsend >= self.fault[1])):
            self._failed(OSError(101, "Network is unreachable"))
        if self.fail_error_send and bytes(data[:2]) == b"\x00\x05" and addr == fake_net.CLI:
            self._failed(OSError(101, "Network is unreachable"))
        super().sendto(data, addr)

    def recvfrom(self, n):
        self.nrecv += 1
        if self.fault and self.fault[0] == "recv_err" and self.nrecv == self.fault[1]:
            self.log.append(("recv_failed",))
            raise ConnectionRefusedError(111, "Connection refused")
        return super().recvfrom(n)


def ack(n):
    return b"\x00\x04" + struct.pack("!H", n & 0xFFFF)


def _xfer_private(cls, c, x, script, clock, log, nsock, options, handler, uncaught):
    def mk(*a, **k):
        if not c["sock_ok"]:
            raise OSError(24, "Too many open files")
        nsock[0] += 1
        return _Sock(list(script), clock, log, c["send_err_raises"], c.get("fault"))
    old_hook = threading.excepthook
    threading.excepthook = lambda args: uncaught.append(args.exc_type.__name__)
    threads = []
    # socket, time, threading and the loggers of the module, wherever and however it imported them
    undo, loggers = fake_net.patch_module(S, clock, mk, None, threads)
    hdl = fake_net._Log(log)
    saved = [(lg, lg.level, lg.propagate) for lg in loggers]
    for lg in loggers:
        lg.addHandler(hdl)
        lg.setLevel(logging.INFO)
        lg.propagate = False
    logging.disable(logging.NOTSET)
    ended = 1
    try:
        cls("f", P.TransferMode.OCTET, options, fake_net.CLI, fake_net.SRV, handler, None,
            2, 30, 1, 65464, None if x == "overflow" else 0)
        for th in list(threads):
            end = time.time() + 5
            while True:
                try:
                    th.join(120 if x == "overflow" else 20)
                    break
                except RuntimeError:          # created, not yet started
                    if time.time() > end:
                        break
                    time.sleep(0.0005)
            if th.is_alive():
                ended = 0
    finally:
        undo()
        for lg, lvl, prop in saved:
            lg.removeHandler(hdl)
            lg.setLevel(lvl)
            lg.propagate = prop
        logging.disable(logging.CRITICAL)
        threading.excepthook = old_hook
    return ended


def _xfer_public(c, x, script, log, nsock, options, handler, uncaught):
    """the same transfer through the PUBLIC path (a real TftpServer whose request socket is a fake delivering one read
    request; harness/fake_net.py): used when the private transfer class is not there under its name with the
    constructor this harness knows (refactorings)"""
    def factory(script_, clock_, log_, proc_=0):
        if not c["sock_ok"]:
            raise OSError(24, "Too many open files")
        nsock[0] += 1
        return _Sock(script_, clock_, log_, c["send_err_raises"], c.get("fault"))
    old_hook = threading.excepthook
    threading.excepthook = lambda args: uncaught.append(args.exc_type.__name__)
    logging.disable(logging.NOTSET)
    try:
        fake_net.run_transfer(script, handler, options, default_timeout=2, max_timeout=30, max_retries=1,
                              max_block_size=65464, wrap=None if x == "overflow" else 0, shared_log=log,
                              sock_class=factory, public=True)
    finally:
        logging.disable(logging.CRITICAL)
        threading.excepthook = old_hook
    return 0 if ("hang",) in log else 1


def run_xfer(c):
    """one real _TftpReadRequest; returns [sockets closed, files closed, thread ended, logger.exception calls,
    thread died with an exception]"""
    bs = 8
    nblocks = c.get("nblocks", 3)
    content = bytes((i * 7 + 3) & 0xFF for i in range(bs * (nblocks - 1) + 3))
    x = c["xend"]
    options = {"blksize": str(bs)}
    if c["tsize"]:
        options["tsize"] = "0"
    script = []
    t = 1
    if c["hres"] == "file" and not c["tsize"] or c["hres"] == "file":
        if x in ("completed", "overflow", "internal"):
            script.append((t, fake_net.CLI, ack(0)))
            t += 1
            for i in range(nblocks + (70000 if x == "overflow" else 0)):
                script.append((t, fake_net.CLI, ack(i + 1)))
                t += 1
        elif x == "clienterror":
            script += [(1, fake_net.CLI, ack(0)), (2, fake_net.CLI, b"\x00\x05\x00\x01nope\x00")]
        elif x == "aborted":
            script += [(1, fake_net.CLI, ack(0)), (2, fake_net.CLI, b"\x00\x05\x00\x08bye\x00")]
        elif x == "invalid":
            script += [(1, fake_net.CLI, ack(0)), (2, fake_net.OTH, ack(1)), (3, fake_net.CLI, b"\x00\x63zz")]
        elif x == "timeout":
            script += [(1, fake_net.CLI, ack(0))]
    streams = []

    tmpfiles = []

    def handler(filename, client, server, context):
        if c["hres"] == "tftperror":
            raise S.TftpError("no such file", P.ErrorCode.FILE_NOT_FOUND)
        if c["hres"] == "exception":
            raise KeyError("boom")
        kind = c.get("stream", "chunked")
        if kind == "bytesio":
            # a REAL io.BytesIO (isinstance checks and buffer exports in the code under test apply)
            st = io.BytesIO(bytes(8 * 65540) if x == "overflow" else content)
            streams.append(st)
            return st
        if kind == "file":
            fd, path = tempfile.mkstemp(prefix="vf_c20_")
            os.write(fd, bytes(8 * 65540) if x == "overflow" else content)
            os.close(fd)
            tmpfiles.append(path)
            st = open(path, "rb")
            streams.append(st)
            return st
        if x == "overflow":
            st = _Stream(bytes(8 * 65540), [], None, c["tsize"])
        else:
            st = _Stream(content, [5, 3, 8], 2 if x == "internal" else None, c["tsize"])
            st.close_raises = bool(c.get("fault") and c["fault"][0] == "close_raises")
        streams.append(st)
        return st

    clock = [0.0]
    log = []
    nsock = [0]
    uncaught = []
    cls = fake_net.private_class()
    if cls is not None:
        ended = _xfer_private(cls, c, x, script, clock, log, nsock, options, handler, uncaught)
    else:
        ended = _xfer_public(c, x, script, log, nsock, options, handler, uncaught)
    for pth in tmpfiles:
        try:
            os.remove(pth)
        except OSError:
            pass
    closes = len([e for e in log if e == ("close_sock",)])
    # the file object's own state after the thread has ended (not merely "close() was called")
    fclosed = len([s for s in streams if s.closed])
    for st_ in streams:
        try:
            st_.close()
        except Exception:      # noqa  (e.g. BufferError while a buffer export is alive)
            pass
    logexc = len([e for e in log if e[0] == "logexc"])
    if ("spin",) in log:
        # the thread kept retrying a failing call and had to be stopped from outside: on its own it would never
        # have ended nor left its with-blocks
        ended, closes, fclosed = 0, 0, 0
    uncaught = [u for u in uncaught if u != "_Spin"]
    return [closes, fclosed, ended, logexc, 1 if uncaught else 0]


# ============================================================================ the check
class C20(Check):
    ident = "C20"
    technique = ("Coq proof (Owicki-Gries invariant over a lock-protected state machine, any number of threads and "
                 "schedules; resource-stack proof over all transfer exit paths) + correspondence on real servers, "
                 "schedule enumeration over real threads, and fake-socket transfer endings")
    rule = ("seq: all histories over {start,stop,request} up to a length on one real TFTP and one real HTTP server "
            "object on ::1, observed after every call by bind probe, thread enumeration and a real request; "
            "conc: 2-4 caller threads x start/stop lists, every schedule with a bounded number of pre-emptions at "
            "source-line granularity of start/stop/_run (serve_forever/shutdown for HTTP); xfer: every modelled "
            "combination of socket creation / handler result / tsize failure / transfer ending / failing ERROR send; "
            "non-trivial = history containing stop after start, conc case with both a start and a stop, xfer with an "
            "abnormal ending; distinct by the case")
    assumptions = [
        "CPython executes each modelled step (attribute read/write, lock acquire/release, thread start/join) atomically",
        "threading.Lock is a mutex; Thread.join returns only after the target function has returned",
        "socket.close() releases the port immediately (kernel teardown); `with` calls __exit__ on every exit",
        "socketserver: shutdown() sets the request flag and waits for serve_forever to acknowledge; server_close() closes the listening socket",
    ]
    search_budget_s = 60
    trusted_extra = ["harness/sched.py (deterministic scheduler, cooperative Lock/Event/Thread), fake listening socket and fake selector in scheduled runs"]

    def __init__(self):
        self._witness = {}
        self._conc_runs = 0

    # ---------------------------------------------------------------- generation
    def gen(self, tier, rng):
        # quick: all histories up to length 3, every length-4 history that contains stop-after-start, and a
        # seeded sample of longer ones (each history costs real waiting time: ~0.1 s per stop)
        L = 3 if tier == "quick" else 6
        for kind in ("tftp", "http"):
            for n in range(1, L + 1):
                for h in itertools.product((START, STOP, REQUEST), repeat=n):
                    yield {"kind": "seq", "srv": kind, "h": list(h)}
            if tier == "quick":
                for h in itertools.product((START, STOP, REQUEST), repeat=4):
                    if any(h[i] == START and STOP in h[i + 1:] for i in range(4)) and h.count(REQUEST) <= 1:
                        yield {"kind": "seq", "srv": kind, "h": list(h)}
                for _ in range(16):
                    n = rng.choice([5, 6])
                    yield {"kind": "seq", "srv": kind, "h": [rng.choice((START, STOP, REQUEST, START, STOP)) for _ in range(n)]}
        # start() while the port is taken by a foreign socket (bind fails), before/after/between the other calls
        for kind in ("tftp", "http"):
            for h in ([START_PORT_TAKEN, START, REQUEST, STOP], [START, START_PORT_TAKEN, STOP, START_PORT_TAKEN, START, REQUEST],
                      [START_PORT_TAKEN, START_PORT_TAKEN, STOP, START, STOP]):
                yield {"kind": "seq", "srv": kind, "h": h}
        # start() while thread creation fails after the bind succeeded; then stop / start / request
        for kind in ("tftp", "http"):
            for h in ([START_THREAD_FAIL, STOP], [START_THREAD_FAIL, STOP, START, REQUEST, STOP],
                      [START, START_THREAD_FAIL, STOP, START_THREAD_FAIL, STOP, START, REQUEST]):
                yield {"kind": "seq", "srv": kind, "h": h}
            if kind == "tftp":
                yield {"kind": "seq", "srv": kind, "h": [START_THREAD_FAIL, START_THREAD_FAIL, START, REQUEST, STOP]}
        # stop() while a client connection is open but idle
        for kind in ("tftp", "http"):
            for h in ([START, STOP_OPEN_CONN], [START, REQUEST, STOP_OPEN_CONN, START, REQUEST, STOP]):
                yield {"kind": "seq", "srv": kind, "h": h}
        if tier != "quick":
            # the handler is held for longer than any plausible join time-out (real wall-clock time: 6.5 s);
            # the quick tier holds it for 1.5 s only, see docs/C20.md
            yield {"kind": "seq", "srv": "tftp", "h": [START, STOP_BUSY], "hold": 6.5}
            yield {"kind": "seq", "srv": "tftp", "h": [START, REQUEST, STOP_BUSY, START, REQUEST], "hold": 6.5}
        # stop() while a request handler blocks on the main thread (costs ~1.5 s each)
        yield {"kind": "seq", "srv": "tftp", "h": [START, STOP_BUSY]}
        yield {"kind": "seq", "srv": "tftp", "h": [START, REQUEST, STOP_BUSY, START, REQUEST]}
        if tier != "quick":
            yield {"kind": "seq", "srv": "tftp", "h": [STOP_BUSY, START, STOP_BUSY, STOP]}
            yield {"kind": "seq", "srv": "tftp", "h": [START, STOP_BUSY, STOP_BUSY, START, STOP_BUSY]}
        # transfers
        for so in (1, 0):
            for hres in ("file", "tftperror", "exception"):
                for ts in (0, 1):
                    for x in XEND:
                        for se in (0, 1):
                            if x == "overflow" and (tier == "quick" or ts or not so or hres != "file"):
                                continue
                            if (not so or hres != "file") and (x != "completed" or ts):
                                continue     # the ending is irrelevant when the transfer never starts
                            if ts and x != "completed":
                                continue     # the size computation fails before the transfer
                            yield {"kind": "xfer", "sock_ok": so, "hres": hres, "tsize": ts, "xend": x,
                                   "send_err_raises": se}
                            # the same endings with a real io.BytesIO and a real file as the handler's file object
                            # (multi-block content: early endings leave data unread)
                            if so and hres == "file" and not ts and x != "internal":
                                for stream in ("bytesio", "file"):
                                    yield {"kind": "xfer", "sock_ok": so, "hres": hres, "tsize": ts, "xend": x,
                                           "send_err_raises": se, "stream": stream}
        # faults inside the transfer (client acknowledges everything): the k-th sendto() on the transfer socket
        # fails once / every sendto() from the k-th on fails (OACK = send 1, DATA blocks = sends 2..4), the j-th
        # recvfrom() fails, close() of the file raises; in every case the thread must end with socket and file closed
        base = {"kind": "xfer", "sock_ok": 1, "hres": "file", "tsize": 0, "xend": "completed", "send_err_raises": 0}
        for k in (1, 2, 3, 4):
            for stream in ("chunked", "bytesio"):
                yield dict(base, fault=["send_once", k], stream=stream)
                yield dict(base, fault=["send_from", k], stream=stream)
            yield dict(base, fault=["recv_err", k])
        yield dict(base, fault=["recv_err", 2], stream="file")
        yield dict(base, fault=["send_from", 3], stream="file")
        for x in ("completed", "timeout", "clienterror", "invalid"):
            yield dict(base, xend=x, fault=["close_raises"])
        # concurrent start/stop
        single = [[1], [0]]
        double = [[1, 0], [0, 1]]
        for kind in ("tftp", "http"):
            for pre in (0, 1):
                for a in single + double:
                    for b in single + double:
                        if a <= b:
                            small = len(a) + len(b) <= 2
                            yield {"kind": "conc", "srv": kind, "pre": pre, "ops": [a, b],
                                   "bound": (2 if small and a != b and pre else 1) if tier == "quick" else (3 if small and a != b else 2)}
                for ops in ([[1], [0], [1]], [[0], [0], [1]], [[1], [0], [0]], [[1, 0], [0], [1]]):
                    yield {"kind": "conc", "srv": kind, "pre": pre, "ops": ops, "bound": 1 if tier == "quick" else 2}
                yield {"kind": "conc", "srv": kind, "pre": pre, "ops": [[1], [0], [1], [0]],
                       "bound": 1 if tier == "quick" else 2}

    # ---------------------------------------------------------------- implementation
    def impl(self, c):
        if c["kind"] == "seq":
            return run_history(c["srv"], c["h"], c.get("hold", 1.5))
        if c["kind"] == "xfer":
            return run_xfer(c)
        return self._conc_done(c, conc_explore(c["srv"], c["pre"], c["ops"], c["bound"],
                                               deadline=time.time() + self._conc_budget()))

    def _conc_budget(self):
        return 60 if getattr(self, "tier", "quick") == "quick" else 400

    def _conc_done(self, c, res):
        obs, witness, n = res
        self._conc_runs += n
        if witness is not None:
            self._witness[self._key(c)] = witness
        return obs

    def _key(self, c):
        return repr(sorted((k, repr(v)) for k, v in c.items()))

    def evaluate(self, cases):
        """seq and conc cases run in worker processes (a history needs ~0.1 s of real waiting per stop, a
        conc case enumerates hundreds of schedules); results come back in order"""
        jobs = []
        for i, c in enumerate(cases):
            if c["kind"] == "seq":
                jobs.append((i, ("seq", c["srv"], c["h"], c.get("hold", 1.5))))
            elif c["kind"] == "conc":
                jobs.append((i, ("conc", c["srv"], c["pre"], c["ops"], c["bound"], self._conc_budget())))
        pre = {}
        if len(jobs) > 4:
            # longest jobs first
            order = sorted(jobs, key=lambda j: -(1000 * j[1][4] + sum(map(len, j[1][3])) if j[1][0] == "conc" else 1))
            with multiprocessing.get_context("fork").Pool(min(14, common.NPROC), initializer=common.die_with_parent) as pool:
                res = pool.map(_job, [j for _, j in order], chunksize=1)
            for (i, j), r in zip(order, res):
                pre[i] = r if j[0] == "seq" else self._conc_done(cases[i], r)
        obs = [pre[i] if i in pre else self.impl(c) for i, c in enumerate(cases)]
        lines = [self.line(c, o) for c, o in zip(cases, obs)]
        outs = common.run_model(self.ident, lines)
        res = []
        for c, o, ln, out in zip(cases, obs, lines, outs):
            if out.startswith("!") or out.startswith("#"):
                raise RuntimeError(f"{self.ident}: driver rejected case {ln[:300]} -> {out[:100]}")
            r = common.unsx(out)
            m = r[0]
            if c["kind"] == "conc" and m[0] == o[0] and m[1] == o[1] and set(o[2]) <= set(m[2]) and o[2]:
                # nondeterministic outcome: the implementation's finals must be among the model's
                m = [m[0], m[1], list(o[2])]
            if c["kind"] == "xfer" and len(o) == 5 and len(m) == 5:
                # C20 is about resources and the thread's end.  Two components of the observation are shown but
                # are not part of what is compared: (3) the number of logger.exception records - C20 says nothing
                # about log records; (4) where the MODEL has an exception leave the thread (an environment fault
                # propagating: failing final ERROR send / size computation / close), the implementation may as
                # well catch it - permitted, not demanded (the checker: transfer_thread_ends_cleanly is <=).
                # An escape the model does not have stays a failure.
                m = list(m)
                m[3] = o[3]
                if m[4] == 1 and o[4] == 0:
                    m[4] = 0
            res.append((c, o, m, common.names(r[1]), common.names(r[2]), r[3:]))
        return res

    def line(self, c, obs):
        srv = 0 if c.get("srv") == "tftp" else 1
        if c["kind"] == "seq":
            return sx([0, srv, c["h"], obs])
        if c["kind"] == "conc":
            return sx([1, srv, c["pre"], c["ops"], obs])
        xend, se, cf = c["xend"], c["send_err_raises"], 0
        f = c.get("fault")
        if f:
            # what the fault means for the model: a failing socket call inside the block exchange ends it through
            # the internal-error path (the final ERROR send fails too when sends keep failing)
            if f[0] == "send_once" or f[0] == "recv_err":
                xend, se = "internal", se
            elif f[0] == "send_from":
                xend, se = "internal", 1
            elif f[0] == "close_raises":
                cf = 1
        return sx([2, c["sock_ok"], HRES[c["hres"]], c["tsize"], XEND[xend], se, cf, obs])

    def canon(self, obs):
        return [list(x) if isinstance(x, (list, tuple)) else x for x in obs]

    def nontrivial(self, c, obs):
        if c["kind"] == "seq":
            h = c["h"]
            if any(h[i] == START and STOP in h[i + 1:] for i in range(len(h))):
                return ("seq", c["srv"], tuple(h))
            return None
        if c["kind"] == "conc":
            flat = [o for l in c["ops"] for o in l]
            return ("conc", c["srv"], c["pre"], repr(c["ops"])) if (1 in flat and 0 in flat) else None
        return ("xfer", self._key(c)) if (c.get("fault") or c["xend"] != "completed" or c["hres"] != "file" or not c["sock_ok"]
                                          or c["tsize"] or c["send_err_raises"]) else None

    def show(self, c):
        d = dict(c)
        if c["kind"] == "seq":
            d["history"] = [OPNAME[o] for o in c["h"]]
        if c["kind"] == "conc":
            d["threads"] = [[OPNAME[0 if o else 1] for o in l] for l in c["ops"]]
            w = self._witness.get(self._key(c))
            if w is not None:
                d["failing_schedule"] = w
        return d

    def shrink(self, c):
        if c["kind"] == "seq":
            h = c["h"]
            for i in range(len(h)):
                yield dict(c, h=h[:i] + h[i + 1:])
        elif c["kind"] == "conc":
            ops = c["ops"]
            if len(ops) > 2:
                for i in range(len(ops)):
                    yield dict(c, ops=ops[:i] + ops[i + 1:])
            for i, l in enumerate(ops):
                if len(l) > 1:
                    for j in range(len(l)):
                        yield dict(c, ops=ops[:i] + [l[:j] + l[j + 1:]] + ops[i + 1:])
            if c["bound"] > 1:
                yield dict(c, bound=c["bound"] - 1)

    def search(self, rng, deadline):
        # raise the pre-emption bound by one around the concurrent cases, and longer histories
        for c in self.gen("quick", rng):
            if time.time() > deadline:
                return
            if c["kind"] == "conc":
                yield dict(c, bound=c["bound"] + 1)
        for c in self.gen("thorough", rng):
            if time.time() > deadline:
                return
            if c["kind"] == "seq" and len(c["h"]) > 4:
                yield c

    def extra_checks(self, tier, rng, report):
        report["extra"]["scheduled_runs"] = self._conc_runs


if __name__ == "__main__":
    raise SystemExit(C20().main())
