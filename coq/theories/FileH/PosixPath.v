(* Model of posixpath.join and posixpath.normpath on str paths.
   Definitions only; proofs are in PosixPathProofs.v. *)
From Coq Require Import List NArith Bool Arith.
From VF Require Import FileH.Str.
Import ListNotations.
Open Scope N_scope.

(* one step of os.path.join(a, *p) *)
Definition join2 (path b : str) : str :=
  if starts_with [SL] b then b
  else if is_nil path || ends_with [SL] path then path ++ b
  else path ++ SL :: b.

Definition path_join (a : str) (ps : list str) : str := fold_left join2 ps a.

(* number of initial slashes that normpath keeps: 0, 1 or 2 *)
Definition initial_slashes (p : str) : nat :=
  if starts_with [SL] p
  then if starts_with [SL; SL] p && negb (starts_with [SL; SL; SL] p) then 2%nat else 1%nat
  else 0%nat.

(* loop body of normpath; the list of kept components is held in reverse order *)
Definition norm_step (init : bool) (st : list str) (comp : str) : list str :=
  if eqb_str comp [] || eqb_str comp [DOT] then st
  else if negb (eqb_str comp [DOT; DOT])
          || (negb init && is_nil st)
          || (match st with top :: _ => eqb_str top [DOT; DOT] | [] => false end)
       then comp :: st
       else match st with _ :: st' => st' | [] => [] end.

Definition norm_comps (init : bool) (comps : list str) : list str :=
  rev (fold_left (norm_step init) comps []).

Definition normpath (p : str) : str :=
  match p with
  | [] => [DOT]
  | _ =>
      let k := initial_slashes p in
      let r := repeat SL k ++ join SL (norm_comps (0 <? k)%nat (split_on SL p)) in
      match r with [] => [DOT] | _ => r end
  end.
