(* C07 - TFTP option negotiation follows RFC 2347-2349; the transfer honours the OACK.
   Property theorems only; each is closed by a lemma of Tftp/CodecProofs.v, Tftp/MonitorProofs.v
   or C07/HoldsProof.v.  [negotiate ncurrent] is the model of the option handling of the code
   as it is now; [oack_spec] is the declarative specification (Tftp/NegSpec.v). *)
From Coq Require Import String.
From Coq Require Import List NArith ZArith Bool Lia.
From VF Require Import Base.Sx Tftp.Readers Tftp.Codec Tftp.NegSpec Tftp.CodecProofs Tftp.Transfer Tftp.Run
  Tftp.Monitor Tftp.MonitorProofs Tftp.Entries C07.Entry C07.HoldsProof.
Import ListNotations.
Open Scope N_scope.

(* "decimal" as the code reads it ([1-9][0-9]* then int()) is: the string is the decimal print of n >= 1 *)
Theorem C07_decimal_reading : forall s n, positive_int s = Some n <-> 1 <= n /\ s = dec n.
Proof. exact positive_int_iff. Qed.
Print Assumptions C07_decimal_reading.

Theorem C07_dec_roundtrip : forall n, 1 <= n -> positive_int (dec n) = Some n.
Proof. exact positive_int_dec. Qed.
Print Assumptions C07_dec_roundtrip.

(* the option handling of the code computes exactly the declarative specification *)
Theorem C07_negotiate_is_spec : forall lim netascii k opts,
  negotiate ncurrent lim netascii k opts = spec_negotiated lim (oack_spec lim netascii k opts).
Proof. exact negotiate_is_spec. Qed.
Print Assumptions C07_negotiate_is_spec.

Theorem C07_oack_iff_accepted : forall lim na k opts,
  n_oack (negotiate ncurrent lim na k opts) <> [] <-> (1 <= accepted_count (oack_spec lim na k opts))%nat.
Proof. exact oack_iff_accepted. Qed.
Print Assumptions C07_oack_iff_accepted.

Theorem C07_oack_subset_of_request : forall lim na k opts name v,
  In (name, v) (n_oack (negotiate ncurrent lim na k opts)) ->
  exists k0 v0, In (k0, v0) opts /\ lower k0 = name.
Proof. exact oack_subset_of_request. Qed.
Print Assumptions C07_oack_subset_of_request.

Theorem C07_blksize_rule : forall lim na k opts,
  let r := negotiate ncurrent lim na k opts in
  (forall n, requested opts (lit "blksize") = Some (dec n) -> 8 <= n ->
     oack_get r "blksize" = Some (dec (N.min n (max_bs lim))) /\ n_bs r = N.min n (max_bs lim)) /\
  ((forall n, 8 <= n -> requested opts (lit "blksize") <> Some (dec n)) ->
     oack_get r "blksize" = None /\ n_bs r = 512).
Proof. exact blksize_rule. Qed.
Print Assumptions C07_blksize_rule.

(* times are in ticks of 1/1024 s: default_timeout and max_timeout may be fractional numbers of seconds (1.5 s =
   1536 ticks); an acknowledged timeout of n seconds is used as n * 1024 ticks, otherwise the default is used
   EXACTLY (not truncated to whole seconds) *)
Theorem C07_timeout_rule : forall lim na k opts,
  let r := negotiate ncurrent lim na k opts in
  (forall n, requested opts (lit "timeout") = Some (dec n) -> 1 <= n /\ n * TICKS_PER_SECOND <= max_tmo lim ->
     oack_get r "timeout" = requested opts (lit "timeout") /\ n_tmo r = n * TICKS_PER_SECOND) /\
  ((forall n, 1 <= n /\ n * TICKS_PER_SECOND <= max_tmo lim -> requested opts (lit "timeout") <> Some (dec n)) ->
     oack_get r "timeout" = None /\ n_tmo r = default_tmo lim).
Proof. exact timeout_rule. Qed.
Print Assumptions C07_timeout_rule.

Theorem C07_tsize_rule : forall lim na k opts,
  let r := negotiate ncurrent lim na k opts in
  (requested opts (lit "tsize") = Some (lit "0") -> na = false -> forall sz, size_known k = Some sz ->
     oack_get r "tsize" = Some (dec sz)) /\
  (requested opts (lit "tsize") <> Some (lit "0") \/ na = true \/ size_known k = None ->
     oack_get r "tsize" = None).
Proof. exact tsize_rule. Qed.
Print Assumptions C07_tsize_rule.

(* also part of C08: no transfer size is announced for a netascii transfer *)
Theorem C07_netascii_no_tsize : forall lim k opts, oack_get (negotiate ncurrent lim true k opts) "tsize" = None.
Proof. exact netascii_no_tsize. Qed.
Print Assumptions C07_netascii_no_tsize.

(* the announced transfer size is the number of bytes the DATA packets of the transfer carry *)
Theorem C07_tsize_is_payload : forall c v, valid c ->
  oack_get (t_neg c) "tsize" = Some v -> v = dec (total_len (t_blocks c)).
Proof. exact tsize_is_payload. Qed.
Print Assumptions C07_tsize_is_payload.

(* read-request codec: decode . encode = id on RFC-shaped requests, and only those are accepted *)
Theorem C07_rrq_roundtrip : forall fn md m opts,
  clean fn -> clean md -> mode_of_str md = Some m -> Forall (fun p => clean (fst p) /\ clean (snd p)) opts ->
  decode_rrq (encode_rrq fn md opts) = Some (fn, m, dict_of opts).
Proof. exact rrq_roundtrip. Qed.
Print Assumptions C07_rrq_roundtrip.

Theorem C07_rrq_decode_shape : forall d f m o,
  decode_rrq d = Some (f, m, o) ->
  exists fn md opts,
    d = encode_rrq fn md opts /\ nul_free fn /\ nul_free md /\ pairs_nul_free opts /\
    f = ascii_ignore fn /\ mode_of_str (ascii_ignore md) = Some m /\ o = dict_of (map ascii_pair opts).
Proof. exact rrq_decode_shape. Qed.
Print Assumptions C07_rrq_decode_shape.

(* the transfer honours the OACK: for EVERY script of incoming datagrams the model's trace is accepted by
   the monitor parameterised with the negotiated block size and time-out (first packet = that OACK at
   time 0, block 1 only after ACK 0, block sizes, time-outs exactly one interval after the send) *)
Theorem C07_transfer_uses_oack : forall c, MonitorProofs.valid c -> monitor c (run_transfer_case c) = [].
Proof. exact monitor_accepts. Qed.
Print Assumptions C07_transfer_uses_oack.

(* the executable checker that judges the implementation accepts every trace of the model *)
Theorem C07_holds : forall c, MonitorProofs.valid c /\ valid c -> holds c (run_model c) = [].
Proof.
  intros c [Hm Hv]. unfold holds, run_model.
  rewrite monitor_accepts by exact Hm. rewrite own_clauses_hold by exact Hv. reflexivity.
Qed.
Print Assumptions C07_holds.

(* the driver's `covered` flag (C07.Entry.entry) implies the hypotheses of C07_holds *)
Lemma C07_validb_valid c : validb c = true -> valid c.
Proof.
  unfold validb, valid, kind_consistent. intros H.
  repeat match type of H with _ && _ = true => apply andb_true_iff in H; destruct H as [H ?] end.
  repeat match goal with X : negb _ = true |- _ => apply negb_true_iff in X end.
  repeat split.
  - destruct (t_nv c) as [a b]; cbn in *; subst; reflexivity.
  - apply N.leb_le; assumption.
  - destruct (size_known (t_kind c)); [apply N.eqb_eq; assumption|exact Logic.I].
  - destruct (t_wrap c) as [w|]; [|discriminate].
    match goal with X : negb (w =? 65535)%N = true |- _ => apply negb_true_iff in X; apply N.eqb_neq in X end.
    congruence.
Qed.
Theorem C07_covered_cases : forall c, Monitor.validb c && validb c = true -> holds c (run_model c) = [].
Proof.
  intros c H. apply andb_true_iff in H as [H1 H2]. apply C07_holds. split;
    [apply MonitorProofs.validb_valid; exact H1|apply C07_validb_valid; exact H2].
Qed.
Print Assumptions C07_covered_cases.

(* the repaired defects violate the rules *)
Theorem C07_blksize_rule_refuted_D2 :
  exists lim na k opts,
    requested opts (lit "blksize") = Some (dec 1400) /\ 8 <= 1400 /\
    oack_get (negotiate nv_D2 lim na k opts) "blksize" <> Some (dec (N.min 1400 (max_bs lim))).
Proof. exact blksize_rule_refuted_D2. Qed.
Print Assumptions C07_blksize_rule_refuted_D2.

Theorem C07_tsize_rule_refuted_D3_offset :
  exists lim k opts sz,
    requested opts (lit "tsize") = Some (lit "0") /\ size_known k = Some sz /\
    oack_get (negotiate nv_D3 lim false k opts) "tsize" <> Some (dec sz).
Proof. exact tsize_rule_refuted_D3_offset. Qed.
Print Assumptions C07_tsize_rule_refuted_D3_offset.

Theorem C07_tsize_rule_refuted_D3_pipe :
  exists lim k opts, size_known k = None /\ oack_get (negotiate nv_D3 lim false k opts) "tsize" <> None.
Proof. exact tsize_rule_refuted_D3_pipe. Qed.
Print Assumptions C07_tsize_rule_refuted_D3_pipe.

(* ... and the checker rejects the traces of the old variants (these are the corpus witnesses) *)
Definition ex_D2 : tcase :=
  {| t_content := [1; 2; 3]; t_chunks := []; t_netascii := false;
     t_options := [(lit "blksize", lit "1400")];
     t_limits := {| max_bs := 1024; max_tmo := 30720; default_tmo := 2048 |}; t_retries := 1; t_wrap := Some 0;
     t_kind := KNoFileno; t_events := [Recv 1 0 [0; 4; 0; 0]; Recv 2 0 [0; 4; 0; 1]];
     t_proc := 0; t_v := current; t_nv := nv_D2; t_na_always_skip := false |}.
Definition ex_D3 : tcase :=
  {| t_content := [5; 6; 7; 8; 9; 10]; t_chunks := []; t_netascii := false;
     t_options := [(lit "TSIZE", lit "0")];
     t_limits := {| max_bs := 1024; max_tmo := 30720; default_tmo := 2048 |}; t_retries := 1; t_wrap := Some 0;
     t_kind := KRealFile 10 4 true; t_events := [Recv 1 0 [0; 4; 0; 0]; Recv 2 0 [0; 4; 0; 1]];
     t_proc := 0; t_v := current; t_nv := nv_D3; t_na_always_skip := false |}.
Theorem C07_refuted_D2 : holds ex_D2 (run_model ex_D2) <> [].
Proof. vm_compute. discriminate. Qed.
Print Assumptions C07_refuted_D2.
Theorem C07_refuted_D3 : holds ex_D3 (run_model ex_D3) <> [].
Proof. vm_compute. discriminate. Qed.
Print Assumptions C07_refuted_D3.

(* a fractional default time-out (1.5 s = 1536 ticks) is used exactly when the time-out option is not acknowledged
   (here: rejected because it exceeds the fractional maximum of 2.5 s), and the acknowledged whole number otherwise *)
Definition ex_fractional (tm : str) : tcase :=
  {| t_content := [1; 2; 3]; t_chunks := []; t_netascii := false; t_options := [(lit "timeout", tm)];
     t_limits := {| max_bs := 65464; max_tmo := 2560; default_tmo := 1536 |}; t_retries := 1; t_wrap := Some 0;
     t_kind := KNoFileno; t_events := []; t_proc := 0%Z;
     t_v := current; t_nv := ncurrent; t_na_always_skip := false |}.
Example C07_fractional_default :
  proj_negotiation (run_model (ex_fractional (lit "3"))) =
    L [L [I 0; L [I 3; I 1; I 3]]; L [I 1536]; L [I 1536; L [I 3; I 1; I 3]]; L [I 3072]]%Z /\
  n_tmo (t_neg (ex_fractional (lit "2"))) = 2048 /\
  holds (ex_fractional (lit "3")) (run_model (ex_fractional (lit "3"))) = [] /\
  holds (ex_fractional (lit "2")) (run_model (ex_fractional (lit "2"))) = [].
Proof. vm_compute. repeat split; reflexivity. Qed.

(* non-vacuity: mixed-case names, a duplicate differing in case (the later one wins), clamping, an echoed
   time-out, a transfer size at a non-zero offset, an unknown option; three blocks of 9, 9 and 2 bytes *)
Definition ex_case : tcase :=
  {| t_content := [1; 2; 3; 4; 5; 6; 7; 8; 9; 10; 11; 12; 13; 14; 15; 16; 17; 18; 19; 20]; t_chunks := [];
     t_netascii := false;
     t_options := [(lit "blksize", lit "8"); (lit "TimeOut", lit "3"); (lit "BLKSIZE", lit "1400");
                   (lit "windowsize", lit "4"); (lit "tsize", lit "0")];
     t_limits := {| max_bs := 9; max_tmo := 5120; default_tmo := 2048 |}; t_retries := 1; t_wrap := Some 0;
     t_kind := KBytesIO 23 3;
     t_events := [Recv 1 0 [0; 4; 0; 0]; Recv 2 0 [0; 4; 0; 1]; Recv 3 0 [0; 4; 0; 2]; Recv 4 0 [0; 4; 0; 3]];
     t_proc := 0; t_v := current; t_nv := ncurrent; t_na_always_skip := false |}.
Example C07_nonvacuous :
  (MonitorProofs.valid ex_case /\ valid ex_case) /\
  n_oack (t_neg ex_case) = [(lit "blksize", lit "9"); (lit "timeout", lit "3"); (lit "tsize", lit "20")] /\
  data_payloads (run_model ex_case) = [[1; 2; 3; 4; 5; 6; 7; 8; 9]; [10; 11; 12; 13; 14; 15; 16; 17; 18]; [19; 20]] /\
  holds ex_case (run_model ex_case) = [].
Proof.
  split; [|split; [|split]]; try (vm_compute; reflexivity).
  split.
  - unfold MonitorProofs.valid. cbn. repeat split; lia.
  - unfold valid, kind_consistent. cbn. repeat split; try lia; discriminate.
Qed.
