(* Model of vinegar/transform/ipv4_address.py.  Definitions only. *)
From Coq Require Import List NArith Bool.
From VF Require Import Addr.Text.
Import ListNotations.
Open Scope N_scope.

(* _IPV4_REGEXP.fullmatch:  ([0-9]+)\.([0-9]+)\.([0-9]+)\.([0-9]+)(?:/([0-9]+))?
   hand-written recogniser returning the five groups *)
Definition digits1 (s : str) : option (str * str) :=
  let (g, r) := span is_digit s in
  match g with [] => None | _ => Some (g, r) end.

Definition dot_then (r : str) : option str :=
  match r with c :: r' => if c =? DOT then Some r' else None | [] => None end.

Record groups4 := { g1 : str; g2 : str; g3 : str; g4 : str; g5 : option str }.

Definition match4 (s : str) : option groups4 :=
  match digits1 s with None => None | Some (a, r) =>
  match dot_then r with None => None | Some r =>
  match digits1 r with None => None | Some (b, r) =>
  match dot_then r with None => None | Some r =>
  match digits1 r with None => None | Some (c, r) =>
  match dot_then r with None => None | Some r =>
  match digits1 r with None => None | Some (d, r) =>
  match r with
  | [] => Some {| g1 := a; g2 := b; g3 := c; g4 := d; g5 := None |}
  | x :: r' =>
      if x =? SLASH then
        match digits1 r' with
        | Some (m, []) => Some {| g1 := a; g2 := b; g3 := c; g4 := d; g5 := Some m |}
        | _ => None
        end
      else None
  end end end end end end end end.

Definition is_match4 (s : str) : bool := match match4 s with Some _ => true | None => false end.

(* _str_to_addr_bytes_and_mask; None = ValueError *)
Definition parse4 (s : str) : option (list N * option N) :=
  match match4 s with
  | None => None
  | Some g =>
      match py_int_digits (g1 g), py_int_digits (g2 g), py_int_digits (g3 g), py_int_digits (g4 g) with
      | Some a, Some b, Some c, Some d =>
          match g5 g with
          | None => if forallb (fun x => x <=? 255) [a; b; c; d] then Some ([a; b; c; d], None) else None
          | Some gm =>
              match py_int_digits gm with
              | None => None
              | Some m =>
                  if forallb (fun x => x <=? 255) [a; b; c; d]
                  then if m <=? 32 then Some ([a; b; c; d], Some m) else None
                  else None
              end
          end
      | _, _, _, _ => None
      end
  end.

Definition fmt_mask (m : option N) : str :=
  match m with None => [] | Some m => SLASH :: print_dec m end.
Definition fmt4 (bs : list N) (m : option N) : str :=
  intercalate [DOT] (map print_dec bs) ++ fmt_mask m.

Definition normalize4 (raise_error : bool) (s : str) : res :=
  match parse4 s with
  | None => malformed raise_error s
  | Some (bs, m) => Ok (fmt4 bs m)
  end.

Definition strip_mask4 (raise_error : bool) (s : str) : res :=
  match parse4 s with
  | None => malformed raise_error s
  | Some _ => Ok (fst (cut SLASH s))
  end.

Definition to_N32 (bs : list N) : N :=
  match bs with
  | [a; b; c; d] => N.shiftl a 24 + N.shiftl b 16 + N.shiftl c 8 + d
  | _ => 0
  end.
Definition bytes32 (x : N) : list N :=
  [N.land (N.shiftr x 24) 255; N.land (N.shiftr x 16) 255; N.land (N.shiftr x 8) 255; N.land x 255].

(* (2**32 - 1) & ~(2 ** (32 - mask) - 1) *)
Definition netmask_int (bits m : N) : N := N.ldiff (2 ^ bits - 1) (2 ^ (bits - m) - 1).
Definition hostmask_int (bits m : N) : N := 2 ^ (bits - m) - 1.

Definition net_address4 (raise_error : bool) (s : str) : res :=
  match parse4 s with
  | None => malformed raise_error s
  | Some (bs, None) => malformed raise_error s
  | Some (bs, Some m) => Ok (fmt4 (bytes32 (N.land (to_N32 bs) (netmask_int 32 m))) (Some m))
  end.

Definition broadcast_address4 (raise_error : bool) (s : str) : res :=
  match parse4 s with
  | None => malformed raise_error s
  | Some (bs, None) => malformed raise_error s
  | Some (bs, Some m) => Ok (fmt4 (bytes32 (N.lor (to_N32 bs) (hostmask_int 32 m))) None)
  end.
