(* C05 (being completed) *)
From Coq Require Import List NArith Bool.
From VF Require Import Addr.Text IpMatch.Match IpMatch.MatchProofs.
Import ListNotations.
Open Scope N_scope.
Theorem C05_subnet_arith : forall a net m, length a = length net -> all_bytes a = true -> all_bytes net = true ->
  m <= 8 * N.of_nat (length a) ->
  (in_subnet a net m = true <->
   to_N a / 2 ^ (8 * N.of_nat (length a) - m) = to_N net / 2 ^ (8 * N.of_nat (length a) - m)).
Proof. exact subnet_arith. Qed.
Print Assumptions C05_subnet_arith.
