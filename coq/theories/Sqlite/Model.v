(* Model of vinegar/utils/sqlite_store.py (DataStore), vinegar/data_source/sqlite.py
   (SQLiteSource) and vinegar/request_handler/sqlite_update.py
   (HttpSQLiteUpdateRequestHandler) over ONE shared table.
   Definitions only; proofs are in Sqlite/Proofs.v.

   Strings are UTF-8 byte strings (SQLite's BINARY collation compares them bytewise).
   Every DataStore operation is one statement on an autocommit connection and is
   modelled as ONE atomic step on the table (assumption, see docs/C15.md). *)
From Coq Require Import String.
From Coq Require Import List NArith ZArith Bool Arith.
From VF Require Import Base.Sx.
Import ListNotations.
Open Scope N_scope.

Definition str := list N.
Definition str_eqb (a b : str) : bool := if list_eq_dec N.eq_dec a b then true else false.
Fixpoint str_leb (a b : str) : bool :=
  match a, b with
  | [], _ => true
  | _ :: _, [] => false
  | x :: a', y :: b' => if x <? y then true else if y <? x then false else str_leb a' b'
  end.

(* ---- Python values handed to set_value / found in results ---- *)
Inductive pkey := KStr (s : str) | KInt (z : Z) | KBool (b : bool) | KNone | KBad.   (* KBad: e.g. a tuple as key *)
Inductive pv :=
| PNone | PBool (b : bool) | PInt (z : Z) | PFloat (r : str) (* float.hex() *) | PStr (s : str)
| PList (l : list pv) | PTuple (l : list pv) | PDict (l : list (pkey * pv))
| POther (e : N).  (* not JSON: set, bytes, object (TypeError = 2); a container that contains itself (ValueError = 1) *)

(* ---- DataStore._check_value ---- *)
Definition key_is_str (k : pkey) : bool := match k with KStr _ => true | _ => false end.
Fixpoint check_value (v : pv) : bool :=
  match v with
  | PNone | PBool _ | PInt _ | PFloat _ | PStr _ => true
  | PList l => forallb check_value l
  | PDict l => (fix go (l : list (pkey * pv)) : bool :=
                  match l with
                  | [] => true
                  | (k, x) :: r => key_is_str k && check_value x && go r
                  end) l
  | PTuple _ | POther _ => false
  end.
(* the exception _check_value raises: that of the first offending item in its traversal order *)
Definition first_some {A} (f : A -> option N) : list A -> option N :=
  fix go (l : list A) : option N :=
    match l with [] => None | a :: r => match f a with Some e => Some e | None => go r end end.
Fixpoint check_err (v : pv) : option N :=
  match v with
  | PNone | PBool _ | PInt _ | PFloat _ | PStr _ => None
  | PList l => first_some check_err l
  | PDict l => (fix go (l : list (pkey * pv)) : option N :=
                  match l with
                  | [] => None
                  | (k, x) :: r => if key_is_str k then match check_err x with Some e => Some e | None => go r end
                                   else Some 2
                  end) l
  | PTuple _ => Some 2
  | POther e => Some e
  end.
(* the exception json.dumps raises (tuples and int/bool/None keys are fine for the encoder) *)
Fixpoint dumps_err (v : pv) : option N :=
  match v with
  | PNone | PBool _ | PInt _ | PFloat _ | PStr _ => None
  | PList l | PTuple l => first_some dumps_err l
  | PDict l => (fix go (l : list (pkey * pv)) : option N :=
                  match l with
                  | [] => None
                  | (k, x) :: r => match k with
                                   | KBad => Some 2
                                   | _ => match dumps_err x with Some e => Some e | None => go r end
                                   end
                  end) l
  | POther e => Some e
  end.
Definition err_or (d : N) (o : option N) : N := match o with Some e => e | None => d end.

(* ---- the stated effect of json.loads(json.dumps(v)) ---- *)
Definition bstr (s : string) : str := bytes_of_string s.
Definition key_image (k : pkey) : option str :=
  match k with
  | KStr s => Some s
  | KInt z => Some (print_Z z)
  | KBool true => Some (bstr "true")
  | KBool false => Some (bstr "false")
  | KNone => Some (bstr "null")
  | KBad => None                               (* json.dumps raises TypeError *)
  end.
Definition pkey_eqb (a b : pkey) : bool :=
  match a, b with
  | KStr x, KStr y => str_eqb x y
  | KInt x, KInt y => Z.eqb x y
  | KBool x, KBool y => Bool.eqb x y
  | KNone, KNone => true
  | KBad, KBad => true
  | _, _ => false
  end.
(* d[k] = v on an ordered dict *)
Fixpoint dset (k : pkey) (v : pv) (l : list (pkey * pv)) : list (pkey * pv) :=
  match l with
  | [] => [(k, v)]
  | (k', v') :: r => if pkey_eqb k k' then (k', v) :: r else (k', v') :: dset k v r
  end.
Definition omapl {A B} (f : A -> option B) : list A -> option (list B) :=
  fix go (l : list A) : option (list B) :=
    match l with
    | [] => Some []
    | a :: r => match f a, go r with Some b, Some r' => Some (b :: r') | _, _ => None end
    end.
Fixpoint json_image (v : pv) : option pv :=
  match v with
  | PNone | PBool _ | PInt _ | PFloat _ | PStr _ => Some v
  | PList l => option_map PList (omapl json_image l)
  | PTuple l => option_map PList (omapl json_image l)
  | PDict l =>
      option_map (fun items => PDict (fold_left (fun acc kv => dset (fst kv) (snd kv) acc) items []))
        ((fix go (l : list (pkey * pv)) : option (list (pkey * pv)) :=
            match l with
            | [] => Some []
            | (k, x) :: r =>
                match key_image k, json_image x, go r with
                | Some k', Some x', Some r' => Some ((KStr k', x') :: r')
                | _, _, _ => None
                end
            end) l)
  | POther _ => None
  end.

(* ---- exceptions ---- *)
Definition err := N.
Definition EValue : err := 1.
Definition ETypeErr : err := 2.
Definition EKey : err := 7.

(* ---- oracles ---- *)
Record oracle := {
  o_loads : str -> pv;                      (* json.loads of a stored text *)
  o_int : str -> option Z;                  (* int(header value); None = ValueError *)
  o_jsonbody : str -> option (pv * str);    (* json.load of raw bytes: value and its json.dumps text; None = ValueError *)
  o_textbody : str -> option (pv * str);    (* raw.decode(): the str and its json.dumps text; None = UnicodeDecodeError *)
  o_unquote : str -> str                    (* urllib.parse.unquote *)
}.

(* ---- the table: PRIMARY KEY (system_id, key) -> JSON text ---- *)
Definition tkey := (str * str)%type.
Definition tbl := list (tkey * str).
Definition tkey_eqb (a b : tkey) : bool := str_eqb (fst a) (fst b) && str_eqb (snd a) (snd b).
Definition tkey_leb (a b : tkey) : bool :=
  if str_eqb (fst a) (fst b) then str_leb (snd a) (snd b) else str_leb (fst a) (fst b).
Fixpoint tlookup (k : tkey) (m : tbl) : option str :=
  match m with
  | [] => None
  | (k', t) :: r => if tkey_eqb k k' then Some t else tlookup k r
  end.
(* INSERT OR REPLACE *)
Fixpoint tset (k : tkey) (t : str) (m : tbl) : tbl :=
  match m with
  | [] => [(k, t)]
  | (k', t') :: r => if tkey_eqb k k' then (k, t) :: r else (k', t') :: tset k t r
  end.
Definition tdel (k : tkey) (m : tbl) : tbl := filter (fun e => negb (tkey_eqb k (fst e))) m.
Definition tdelall (s : str) (m : tbl) : tbl := filter (fun e => negb (str_eqb s (fst (fst e)))) m.

(* ORDER BY: insertion sort *)
Section Sort.
  Variable A : Type.
  Variable leb : A -> A -> bool.
  Fixpoint ins (x : A) (l : list A) : list A :=
    match l with
    | [] => [x]
    | y :: r => if leb x y then x :: l else y :: ins x r
    end.
  Fixpoint isort (l : list A) : list A :=
    match l with [] => [] | x :: r => ins x (isort r) end.
End Sort.
Arguments ins {A}.
Arguments isort {A}.

(* the mutating statements *)
Inductive mop := MSet (s k t : str) | MDel (s k : str) | MDelAll (s : str).
Definition apply_mop (m : tbl) (o : mop) : tbl :=
  match o with
  | MSet s k t => tset (s, k) t m
  | MDel s k => tdel (s, k) m
  | MDelAll s => tdelall s m
  end.
(* the reading statements *)
Definition rows (s : str) (m : tbl) : list (str * str) :=          (* SELECT key, value WHERE system_id=? ORDER BY key *)
  isort (fun a b => str_leb (fst a) (fst b))
        (map (fun e => (snd (fst e), snd e)) (filter (fun e => str_eqb s (fst (fst e))) m)).
Definition find_systems (k t : str) (m : tbl) : list str :=         (* WHERE key=? AND value=? ORDER BY system_id *)
  isort str_leb (map (fun e => fst (fst e)) (filter (fun e => str_eqb k (snd (fst e)) && str_eqb t (snd e)) m)).
Fixpoint dedup (l : list str) : list str :=
  match l with
  | [] => []
  | x :: r => if existsb (str_eqb x) r then dedup r else x :: dedup r
  end.
Definition list_systems (m : tbl) : list str := isort str_leb (dedup (map (fun e => fst (fst e)) m)).
Definition dump (m : tbl) : tbl := isort (fun a b => tkey_leb (fst a) (fst b)) m.

(* ---- results ---- *)
Inductive result :=
| RUnit                                   (* None *)
| RVal (v : pv)                           (* get_value *)
| RRows (l : list (str * pv))             (* DataStore.get_data: dict in key order *)
| RList (l : list str)                    (* find_systems, list_systems *)
| ROpt (o : option str)                   (* SQLiteSource.find_system *)
| RData (v : pv)                          (* SQLiteSource.get_data: wrapped dict (version not observed) *)
| RHttp (status : N)
| RNoMatch                                (* prepare_context: handler not responsible *)
| RRaise (e : err).

(* ---- DataStore ---- *)
Inductive sop :=
| OSet (s k : str) (v : pv) (txt : option str)     (* txt = json.dumps(v), None = TypeError; oracle supplied with the value *)
| OGet (s k : str) | OGetData (s : str) | ODel (s k : str) | ODelAll (s : str)
| OFind (k : str) (v : pv) (txt : option str) | OList.
Definition store_step (O : oracle) (strict : bool) (o : sop) (m : tbl) : option mop * result :=
  match o with
  | OSet s k v txt =>
      if strict && negb (check_value v) then (None, RRaise (err_or 2 (check_err v)))
      else match txt with
           | None => (None, RRaise (err_or 2 (dumps_err v)))
           | Some t => (Some (MSet s k t), RUnit)
           end
  | OGet s k => (None, match tlookup (s, k) m with Some t => RVal (o_loads O t) | None => RRaise EKey end)
  | OGetData s => (None, RRows (map (fun kt => (fst kt, o_loads O (snd kt))) (rows s m)))
  | ODel s k => (Some (MDel s k), RUnit)
  | ODelAll s => (Some (MDelAll s), RUnit)
  | OFind k v txt => (None, match txt with Some t => RList (find_systems k t m) | None => RRaise (err_or 2 (dumps_err v)) end)
  | OList => (None, RList (list_systems m))
  end.

(* ---- SQLiteSource ---- *)
Record srccfg := { prefix : str; find_enabled : bool }.
Fixpoint split_colon (s : str) (cur : str) : list str :=
  match s with
  | [] => [rev_append cur []]
  | c :: r => if c =? 58 then rev_append cur [] :: split_colon r [] else split_colon r (c :: cur)
  end.
Fixpoint wrap (comps : list str) (d : pv) : pv :=
  match comps with
  | [] => d
  | c :: r => PDict [(KStr c, wrap r d)]
  end.
Fixpoint strip_prefix (p s : str) : option str :=
  match p with
  | [] => Some s
  | x :: p' => match s with y :: s' => if x =? y then strip_prefix p' s' else None | [] => None end
  end.
Definition is_empty (s : str) : bool := match s with [] => true | _ => false end.
Definition source_data (O : oracle) (c : srccfg) (s : str) (m : tbl) : pv :=
  let d := PDict (map (fun kt => (KStr (fst kt), o_loads O (snd kt))) (rows s m)) in
  if is_empty (prefix c) then d else wrap (split_colon (prefix c) []) d.
Definition single (l : list str) : option str := match l with [x] => Some x | _ => None end.
(* the key consulted in the table, if any *)
Definition source_key (c : srccfg) (lookup_key : str) : option str :=
  if negb (find_enabled c) then None
  else if is_empty (prefix c) then Some lookup_key
  else strip_prefix (prefix c ++ [58]) lookup_key.
Inductive qop := QGet (s : str) | QFind (key : str) (v : pv) (txt : option str).
Definition source_step (O : oracle) (c : srccfg) (q : qop) (m : tbl) : result :=
  match q with
  | QGet s => RData (source_data O c s m)
  | QFind key v txt =>
      match source_key c key with
      | None => ROpt None
      | Some k => match txt with
                  | Some t => ROpt (single (find_systems k t m))
                  | None => RRaise (err_or 2 (dumps_err v))
                  end
      end
  end.

(* ---- HttpSQLiteUpdateRequestHandler ---- *)
Inductive haction :=
| ADeleteData | ADeleteValue (k : str) | ASetValue (k : str) (v : pv) (txt : option str)
| ASetJson (k : str) | ASetText (k : str).
Record hcfg := { req_path : str; act : haction; restricted : bool }.  (* req_path with trailing "/" *)
Record request := {
  meth : str; uri : str;
  allowed : bool;                 (* contains_ip_address(client_address_list, client) - oracle, C05's subject *)
  clen : option str;              (* Content-Length header *)
  body : str;
  via_server : bool }.            (* the request is sent to the real vinegar HttpServer in front of the handler *)
Fixpoint has_sub (p s : str) : bool :=
  match s with
  | [] => is_empty p
  | _ :: r => match strip_prefix p s with Some _ => true | None => has_sub p r end
  end.
Fixpoint before_q (s : str) : str :=
  match s with [] => [] | c :: r => if c =? 63 then [] else c :: before_q r end.
(* prepare_context: the system id the request addresses *)
Definition context_system (O : oracle) (c : hcfg) (u : str) : option str :=
  if existsb (N.eqb 0) u || has_sub [37; 48; 48] u then None
  else match strip_prefix (req_path c) (o_unquote O (before_q u)) with
       | Some s => if is_empty s then None else Some s
       | None => None
       end.
Definition POST : str := [80; 79; 83; 84].
Definition body_bytes (O : oracle) (r : request) : option str :=       (* body.read(int(Content-Length)) *)
  match o_int O (match clen r with Some h => h | None => [48] end) with
  | None => None
  | Some n => Some (if (n <? 0)%Z then body r else firstn (Z.to_nat n) (body r))
  end.
Definition set_checked (s k : str) (v : pv) (txt : option str) : option mop * result :=
  if negb (check_value v) then (None, RRaise (err_or 2 (check_err v)))
  else match txt with
       | None => (None, RRaise (err_or 2 (dumps_err v)))
       | Some t => (Some (MSet s k t), RHttp 200)
       end.
Definition handler_step (O : oracle) (c : hcfg) (r : request) : option mop * result :=
  match context_system O c (uri r) with
  | None => (None, RNoMatch)
  | Some s =>
      if negb (str_eqb (meth r) POST) then (None, RHttp 405)
      else if restricted c && negb (allowed r) then (None, RHttp 403)
      else match act c with
           | ADeleteData => (Some (MDelAll s), RHttp 200)
           | ADeleteValue k => (Some (MDel s k), RHttp 200)
           | ASetValue k v txt => set_checked s k v txt
           | ASetJson k =>
               match body_bytes O r with
               | None => (None, RHttp 400)
               | Some raw => match o_jsonbody O raw with
                             | None => (None, RHttp 400)
                             | Some (v, t) => set_checked s k v (Some t)
                             end
               end
           | ASetText k =>
               match body_bytes O r with
               | None => (None, RHttp 400)
               | Some raw => match o_textbody O raw with
                             | None => (None, RHttp 400)
                             | Some (v, t) => set_checked s k v (Some t)
                             end
               end
           end
  end.

(* ---- several handles on one table ---- *)
Record handles := { stores : list bool; sources : list srccfg; handlers : list hcfg }.
Inductive step :=
| SStore (i : nat) (o : sop) | SSource (i : nat) (q : qop) | SHandler (i : nat) (r : request)
| SLock (b : bool)        (* another connection takes (BEGIN IMMEDIATE) / gives up (ROLLBACK) the write lock *)
| SExt (o : mop).         (* a statement issued by a foreign program directly on the database file *)
Definition E_NO_HANDLE : err := 96.
Definition EOperational : err := 20.     (* sqlite3.OperationalError: database is locked *)
Definition do_step (O : oracle) (H : handles) (st : step) (m : tbl) : option mop * result :=
  match st with
  | SStore i o => match nth_error (stores H) i with
                  | Some strict => store_step O strict o m
                  | None => (None, RRaise E_NO_HANDLE)
                  end
  | SSource i q => match nth_error (sources H) i with
                   | Some c => (None, source_step O c q m)
                   | None => (None, RRaise E_NO_HANDLE)
                   end
  | SHandler i r => match nth_error (handlers H) i with
                    | Some c => handler_step O c r
                    | None => (None, RRaise E_NO_HANDLE)
                    end
  | SLock _ => (None, RUnit)
  | SExt o => (Some o, RUnit)
  end.
(* Fault dimension "database locked": while another connection holds the write lock, a step that would issue
   a mutating statement fails with OperationalError after the busy timeout and writes nothing; everything
   that is decided before the statement (strict check, method, access, body decoding) and all reads are as
   usual. *)
Definition do_step_l (O : oracle) (H : handles) (st : step) (lk : bool) (m : tbl) : option mop * result * bool :=
  match st with
  | SLock b => (None, RUnit, b)
  | _ => match do_step O H st m with
         | (Some o, res) => if lk then (None, RRaise EOperational, lk) else (Some o, res, lk)
         | (None, res) => (None, res, lk)
         end
  end.
Definition apply_omop (m : tbl) (o : option mop) : tbl := match o with Some x => apply_mop m x | None => m end.
(* What the client of the real HTTP server sees (http/server.py:_delegate_request): no responsible handler -> 404,
   an exception of the handler -> 500, otherwise the handler's status.  The server hands the UNDECODED request
   target to the handler, so the addressed system is the same as for a direct call. *)
Definition http_view (r : result) : result :=
  match r with RNoMatch => RHttp 404 | RRaise _ => RHttp 500 | _ => r end.
Definition view (st : step) (r : result) : result :=
  match st with SHandler _ q => if via_server q then http_view r else r | _ => r end.
(* observation: per step the result and the table as another process reads it right after the step *)
Fixpoint run (O : oracle) (H : handles) (steps : list step) (lk : bool) (m : tbl) : list (result * tbl) :=
  match steps with
  | [] => []
  | st :: r =>
      match do_step_l O H st lk m with
      | (o, res, lk') =>
          let m' := apply_omop m o in
          (view st res, dump m') :: run O H r lk' m'
      end
  end.
Fixpoint final (O : oracle) (H : handles) (steps : list step) (lk : bool) (m : tbl) : tbl :=
  match steps with
  | [] => m
  | st :: r => final O H r (snd (do_step_l O H st lk m)) (apply_omop m (fst (fst (do_step_l O H st lk m))))
  end.
Fixpoint lock_after (steps : list step) (lk : bool) : bool :=
  match steps with
  | [] => lk
  | SLock b :: r => lock_after r b
  | _ :: r => lock_after r lk
  end.

(* ---- a writer process that is killed ----
   The writer executes its mutating statements one after the other (each atomic) and acknowledges
   each completed one on a pipe; a kill can happen between any two of these events. *)
Inductive wevent := WExec | WAck.
Record wstate := { w_tbl : tbl; w_done : nat; w_acked : nat }.
Definition wstep (ops : list mop) (w : wstate) (e : wevent) : option wstate :=
  match e with
  | WExec => if Nat.eqb (w_done w) (w_acked w) then
               match nth_error ops (w_done w) with
               | Some o => Some {| w_tbl := apply_mop (w_tbl w) o; w_done := S (w_done w); w_acked := w_acked w |}
               | None => None
               end
             else None
  | WAck => if Nat.ltb (w_acked w) (w_done w) then
              Some {| w_tbl := w_tbl w; w_done := w_done w; w_acked := S (w_acked w) |}
            else None
  end.
Fixpoint wrun (ops : list mop) (w : wstate) (tr : list wevent) : option wstate :=
  match tr with
  | [] => Some w
  | e :: r => match wstep ops w e with Some w' => wrun ops w' r | None => None end
  end.
