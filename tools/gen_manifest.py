"""Regenerate MANIFEST.json from props_meta.json (claimed checks) and properties.jsonl."""
import json, os
V = os.path.dirname(os.path.dirname(os.path.abspath(__file__)))
meta = {f[:-5]: json.load(open(os.path.join(V, "meta", f))) for f in sorted(os.listdir(os.path.join(V, "meta"))) if f.endswith(".json")}
props = [json.loads(l) for l in open(os.path.join(V, "properties.jsonl"))]
na_reasons = json.load(open(os.path.join(V, "not_applicable.json"))) if os.path.exists(os.path.join(V, "not_applicable.json")) else {}
checks, na = [], []
for p in props:
    i = p["id"]
    if i in meta:
        m = meta[i]
        checks.append({
            "property_id": i,
            "quick_cmd": f"./check {i} --tier quick",
            "thorough_cmd": f"./check {i} --tier thorough",
            "evidence_file": f"/verif/evidence/{i}.json",
            "replay_cmd_template": f"./check {i} --replay {{path}}",
            "engine": "coq-model",
            "level_claimed": {"category": "proof", "text": m["text"], "design_ref": m["design_ref"]},
            "level_note": m["level_note"],
            "technique": m["technique"],
        })
    else:
        na.append({"property_id": i, "reason": na_reasons.get(i, "check not built yet in this development; the design in DESIGN.md section 5 applies, nothing is claimed for it")})
man = {
    "version": 1,
    "setup_cmd": "./setup.sh",
    "hooks": {"guard": "VINEGAR_VERIF", "enable": "no source hooks: the real code is driven through fakes injected by the harness process (VERIF_REPO selects the tree, default /repo)",
              "baseline_off_cmd": "cd /repo && /venv/bin/python -m pytest -ra -q -p no:cacheprovider --timeout=900 --continue-on-collection-errors",
              "source_commits": [], "add_only": True},
    "engines": [{"name": "coq-model", "path": "coq/", "serves_properties": [c["property_id"] for c in checks],
                 "kind_free_text": "Coq 8.16 models + theorems (coq/theories), extracted with ExtrOcamlBasic to OCaml drivers (ocaml/), differential correspondence harness in Python (harness/)"}],
    "checks": checks,
    "not_applicable": na,
    "notes": "Every check: (1) rebuilds the Coq development and verifies the property theorems compile with closed Print Assumptions, (2) runs the real code from /repo's working tree and the extracted model on the same cases, (3) evaluates the proved-sound checker `holds` on the implementation's observations. See DESIGN.md.",
}
json.dump(man, open(os.path.join(V, "MANIFEST.json"), "w"), indent=1)
print("claimed:", [c["property_id"] for c in checks])
