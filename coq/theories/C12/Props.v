(* C12 - YAML target caching is transparent: never stale, isolated, versions track data.
   Property theorems only; each is closed by a lemma from the proof files.

   Hypotheses about the hash H (version_for_str) - explicit premises of the theorems below:
     H_inj      forall a b, H a = H b -> a = b          (no collisions; an idealisation of md5 / murmur3)
     H_nobar    forall s, ~ In "|" (H s)                 (hex digits)
     H_noplus   forall s, ~ In "+" (H s)                 (hex digits)
     H_nonempty forall s, H s <> ""
   (a fixed output length cannot be assumed together with global injectivity; "|"-freeness is what the
   splitting of joined version strings needs).  Other premises: the variant has the "+" tag (e62fc38) and
   does not re-render (fe12c42); yaml.safe_load returns well-formed values; every call is [faithful]: its
   target matcher is the one its (system id, preceding-data version) stand for, i.e. the version
   identifies the preceding data.  C12_hash_hypotheses_satisfiable instantiates them. *)
From Coq Require Import String.
From Coq Require Import List NArith ZArith Bool Arith Lia.
From VF Require Import Base.Sx PyVal.Val PyVal.ValProofs PyVal.Codec Merge.Merge Yaml.Target Yaml.TargetProofs Yaml.Exec
  Yaml.ExecProofs Yaml.Cache Yaml.CacheProofs Yaml.Validity Yaml.HistoryProofs C12.Entry C12.EntryProofs.
Import ListNotations.

(* ---- lru_spec ---- *)
Theorem C12_lru_get_after_set : forall (A : Type) cap k (v : A) l, (1 <= cap)%nat ->
  fst (lru_get k (lru_set cap k v l)) = Some v.
Proof. exact lru_get_after_set. Qed.
Print Assumptions C12_lru_get_after_set.

Theorem C12_lru_size_bounded : forall (A : Type) cap k (v : A) l, (length l <= cap)%nat ->
  (length (lru_set cap k v l) <= cap)%nat /\ (length (snd (lru_get k l)) <= length l)%nat.
Proof. intros. split; [now apply lru_set_length | apply lru_get_length]. Qed.
Print Assumptions C12_lru_size_bounded.

(* a lookup returns only what was stored under that key; get and set invent no entries *)
Theorem C12_lru_returns_only_what_was_set : forall (A : Type) cap k (v : A) l x,
  (fst (lru_get k l) = Some v -> In (k, v) l) /\
  (In x (snd (lru_get k l)) -> In x l) /\
  (In x (lru_set cap k v l) -> x = (k, v) \/ In x l).
Proof. intros. repeat split; [apply lru_get_sound | apply lru_get_incl | apply lru_set_incl]. Qed.
Print Assumptions C12_lru_returns_only_what_was_set.

Theorem C12_lru_eviction_order : forall (A : Type) cap k (v : A) l,
  (1 <= cap)%nat -> length l = cap -> find (key_is k) l = None ->
  lru_set cap k v l = tl l ++ [(k, v)].
Proof. exact lru_evicts_least_recent. Qed.
Print Assumptions C12_lru_eviction_order.

Theorem C12_lru_get_marks_recent : forall (A : Type) k l (v : A),
  fst (lru_get k l) = Some v -> snd (lru_get k l) = lru_remove k l ++ [(k, v)].
Proof. exact lru_get_moves_to_end. Qed.
Print Assumptions C12_lru_get_marks_recent.

(* ---- item_validity_is_state_independent ----
   [item_cvalid sys it] (Validity.v) speaks about the item alone: top = evaluation of some text under the
   matcher of (sys, some version) with the version built from them; every file entry = what some text
   parses to; result = merge of some valid piece list with its aggregate version.  Such an item is usable
   ("same version => same data" in every layer) by every later call of that system, whatever the tree. *)
Theorem C12_item_validity_is_state_independent : forall V C H yload mo,
  tag_after V = true ->
  (forall a b, H a = H b -> a = b) -> (forall s, ~ In BAR (H s)) -> (forall s, ~ In PLUS (H s)) -> (forall s, H s <> []) ->
  forall sys pv it, item_cvalid V C H yload mo sys it -> item_ok V C H yload (mo sys pv) pv it.
Proof. exact cvalid_usable. Qed.
Print Assumptions C12_item_validity_is_state_independent.

(* everything compile_data returns or stores is content valid again *)
Theorem C12_compile_stores_valid_items : forall V C H yload mo,
  (forall a b, H a = H b -> a = b) ->
  forall render_o t sys pv, rerender V = false ->
  (forall text v, yload text = Ok v -> wf v = true) ->
  forall oc d v o, item_cvalid V C H yload mo sys oc ->
  compile V C H render_o yload (mo sys pv) t pv oc = Ok (d, v, o) ->
  cres_valid V C H yload (d, v) /\ match o with Some new => item_cvalid V C H yload mo sys new | None => True end.
Proof. intros. eapply compile_valid; eauto. Qed.
Print Assumptions C12_compile_stores_valid_items.

(* the aggregate version determines the piece data - with the "+" tag *)
Theorem C12_versions_determine_pieces : forall V H yload,
  tag_after V = true ->
  (forall a b, H a = H b -> a = b) -> (forall s, ~ In BAR (H s)) -> (forall s, ~ In PLUS (H s)) -> (forall s, H s <> []) ->
  forall pl pl', Forall (piece_ok V H yload) pl -> Forall (piece_ok V H yload) pl' ->
  aggregate_version H (map snd pl) = aggregate_version H (map snd pl') -> map fst pl = map fst pl'.
Proof. exact aggregate_determines_pieces. Qed.
Print Assumptions C12_versions_determine_pieces.

(* ---- cache_transparent ----
   for every history of calls (each with its own tree, rendered texts, system and preceding version),
   over ANY cache that honours the contract "get returns nothing or an item stored under that key; get
   and set store nothing but the item being set", started in a valid state: every get_data returns
   exactly the specified data and version for the snapshot of that moment *)
Theorem C12_cache_transparent_any_cache : forall V C H yload mo,
  tag_after V = true -> rerender V = false ->
  (forall text v, yload text = Ok v -> wf v = true) ->
  (forall a b, H a = H b -> a = b) -> (forall s, ~ In BAR (H s)) -> (forall s, ~ In PLUS (H s)) -> (forall s, H s <> []) ->
  forall (S : Type) (cget : str -> S -> option item * S) (cset : str -> item -> S -> S) (stored : S -> str -> item -> Prop),
  (forall k st it st', cget k st = (Some it, st') -> stored st k it) ->
  (forall k st o st' k' it, cget k st = (o, st') -> stored st' k' it -> stored st k' it) ->
  (forall k v st k' it, stored (cset k v st) k' it -> (k' = k /\ it = v) \/ stored st k' it) ->
  forall ks st, cache_valid V C H yload mo S stored st -> Forall (faithful mo) ks ->
  history_with V C H yload S cget cset st ks = map (spec_full_of_call V C H yload) ks.
Proof. intros. eapply history_transparent; eauto. Qed.
Print Assumptions C12_cache_transparent_any_cache.

(* YamlTargetSource.get_data over its LRU cache of any size, and over NullCache (size 0), from the empty cache *)
Theorem C12_cache_transparent : forall V C H yload mo,
  tag_after V = true -> rerender V = false ->
  (forall text v, yload text = Ok v -> wf v = true) ->
  (forall a b, H a = H b -> a = b) -> (forall s, ~ In BAR (H s)) -> (forall s, ~ In PLUS (H s)) -> (forall s, H s <> []) ->
  forall cap ks, Forall (faithful mo) ks ->
  run_history V C H yload cap [] ks = map (spec_full_of_call V C H yload) ks.
Proof. exact lru_history_transparent. Qed.
Print Assumptions C12_cache_transparent.

(* ... which is what a newly constructed source returns at that moment *)
Theorem C12_equals_fresh_source : forall V C H yload mo,
  tag_after V = true -> rerender V = false ->
  (forall text v, yload text = Ok v -> wf v = true) ->
  (forall a b, H a = H b -> a = b) -> (forall s, ~ In BAR (H s)) -> (forall s, ~ In PLUS (H s)) -> (forall s, H s <> []) ->
  forall cap ks, Forall (faithful mo) ks ->
  run_history V C H yload cap [] ks = map (fresh_result V C H yload) ks.
Proof.
  intros V C H yload mo Ht Hr Hy Hi Hb Hp Hn cap ks Hf.
  rewrite (lru_history_transparent V C H yload mo Ht Hr Hy Hi Hb Hp Hn cap ks Hf).
  apply map_ext_in. intros k Hk. symmetry. rewrite Forall_forall in Hf.
  apply (fresh_full V C H yload mo Ht Hr Hy Hi Hb Hp Hn k (Hf k Hk)).
Qed.
Print Assumptions C12_equals_fresh_source.

(* ---- version_tracks_data: two specified results (of any two calls, in particular of one system) whose
   data differ have different version strings ---- *)
Theorem C12_version_tracks_data : forall V C H yload mo,
  tag_after V = true -> rerender V = false ->
  (forall text v, yload text = Ok v -> wf v = true) ->
  (forall a b, H a = H b -> a = b) -> (forall s, ~ In BAR (H s)) -> (forall s, ~ In PLUS (H s)) -> (forall s, H s <> []) ->
  forall k k' d v d' v', faithful mo k -> faithful mo k' ->
  spec_full_of_call V C H yload k = Ok (d, v) -> spec_full_of_call V C H yload k' = Ok (d', v') ->
  d <> d' -> v <> v'.
Proof.
  intros V C H yload mo Ht Hr Hy Hi Hb Hp Hn k k' d v d' v' Hf Hf' E E' Hd Ev. apply Hd.
  exact (spec_version_tracks V C H yload mo Ht Hr Hy Hi Hb Hp Hn k k' d v d' v' Hf Hf' E E' Ev).
Qed.
Print Assumptions C12_version_tracks_data.

(* ---- concurrency-ready form (for C19): calls interleaved arbitrarily ----
   [run_events]: EGet i = call i reads its cache item and compiles on the snapshot it sees; ESet i = it
   stores the item it built, any time later - after other calls' gets and sets, twice, or never.  Whatever
   the event order, every call returns what is specified for the snapshot it read and the cache stays
   valid: a concurrent set can only install another valid item. *)
Theorem C12_concurrent_set_harmless : forall V C H yload mo,
  tag_after V = true -> rerender V = false ->
  (forall text v, yload text = Ok v -> wf v = true) ->
  (forall a b, H a = H b -> a = b) -> (forall s, ~ In BAR (H s)) -> (forall s, ~ In PLUS (H s)) -> (forall s, H s <> []) ->
  forall (S : Type) (cget : str -> S -> option item * S) (cset : str -> item -> S -> S) (stored : S -> str -> item -> Prop),
  (forall k st it st', cget k st = (Some it, st') -> stored st k it) ->
  (forall k st o st' k' it, cget k st = (o, st') -> stored st' k' it -> stored st k' it) ->
  (forall k v st k' it, stored (cset k v st) k' it -> (k' = k /\ it = v) \/ stored st k' it) ->
  forall calls, Forall (faithful mo) calls ->
  forall evs st, cache_valid V C H yload mo S stored st ->
    cache_valid V C H yload mo S stored (snd (run_events V C H yload S cget cset calls evs st [])) /\
    Forall (fun ir => exists k, nth_error calls (fst ir) = Some k /\ snd ir = spec_full_of_call V C H yload k)
           (fst (run_events V C H yload S cget cset calls evs st [])).
Proof.
  intros. eapply events_transparent; eauto. intros i sys it [].
Qed.
Print Assumptions C12_concurrent_set_harmless.

(* the LRU cache of any size and the NullCache honour the cache contract used above *)
Theorem C12_lru_honours_contract : forall cap,
  (forall k st it st', cache_get cap k st = (Some it, st') -> lru_stored st k it) /\
  (forall k st o st' k' it, cache_get cap k st = (o, st') -> lru_stored st' k' it -> lru_stored st k' it) /\
  (forall k v st k' it, lru_stored (lru_set cap k v st) k' it -> (k' = k /\ it = v) \/ lru_stored st k' it).
Proof. intros cap. split; [apply lru_get_sound' | split; [apply lru_get_keeps' | apply lru_set_keeps']]. Qed.
Print Assumptions C12_lru_honours_contract.

(* ---- faults ----
   A call during which os.stat or open fails for some file is a call on a snapshot with a Broken / Unreadable node:
   it is covered by the theorems above (its specified result is the error).  Moreover a failed call stores
   nothing: the cache is what the lookup left (an LRU touch at most), so later calls find valid items only. *)
Theorem C12_failed_call_stores_nothing : forall V C H yload (S : Type) cget cset st k e,
  snd (step_with V C H yload S cget cset st k) = Err e ->
  fst (step_with V C H yload S cget cset st k) = snd (cget (k_sys k) st).
Proof.
  intros V C H yload S cget cset st k e. unfold step_with. destruct (cget (k_sys k) st) as [old st1]. cbn [snd].
  destruct (compile_call V C H yload k (match old with Some it => it | None => empty_item end)) as [[[d v] [new|]]|e'];
    cbn [fst snd]; intros E; try discriminate; reflexivity.
Qed.
Print Assumptions C12_failed_call_stores_nothing.

(* one call over a cache whose item is usable (kept: the step lemma under the weaker, snapshot-relative premise) *)
Theorem C12_cache_transparent_step : forall V C H yload cap st k,
  rerender V = false ->
  (forall text v, yload text = Ok v -> wf v = true) ->
  (forall it, In (k_sys k, it) st -> usable V C H yload k it) ->
  step_data (snd (get_data_step V C H yload cap st k)) = spec_of_call V C H yload k.
Proof. intros. now apply step_transparent. Qed.
Print Assumptions C12_cache_transparent_step.

(* with cache_size 0 the long-lived source is literally a new source at every call *)
Theorem C12_null_cache_is_fresh : forall V C H yload ks st,
  run_history V C H yload 0 st ks = map (fresh_result V C H yload) ks.
Proof. intros. apply null_history. Qed.
Print Assumptions C12_null_cache_is_fresh.

(* a new source returns the specification's data (C11) *)
Theorem C12_fresh_is_spec : forall V C H yload k,
  rerender V = false ->
  (forall text v, yload text = Ok v -> wf v = true) ->
  step_data (fresh_result V C H yload k) = spec_of_call V C H yload k.
Proof. intros. now apply fresh_data. Qed.
Print Assumptions C12_fresh_is_spec.

(* the executable checker used on the implementation's observations accepts the model: every history,
   every cache size, all clauses (returns_current_data, fresh_source_data, version_equals_fresh,
   version_tracks_data) *)
Theorem C12_holds : forall c, valid c -> holds c (run_model c) = [].
Proof. exact holds_model. Qed.
Print Assumptions C12_holds.

(* the driver's `covered` flag (5th item of the entry's answer) is the hypothesis of C12_holds: current variant and a
   well-formed YAML table, both decidable from the case (the hash premises are discharged for the executable hash,
   faithfulness holds by construction of the calls from the case) *)
Theorem C12_validb_valid : forall c, validb c = true -> valid c.
Proof. intros c H. exact H. Qed.
Print Assumptions C12_validb_valid.
Theorem C12_covered_cases : forall c, validb c = true -> holds c (run_model c) = [].
Proof. intros c H. apply C12_holds. exact H. Qed.
Print Assumptions C12_covered_cases.
(* LRU-only cases: the checker is textual equality of the observation with [lru_run]; it accepts the model for every
   capacity, key set and operation sequence *)
Theorem C12_lru_cases_covered : forall cap keys ops,
  str_eqb (print (L (map sx_of_lobs (lru_run cap keys ops [])))) (print (L (map sx_of_lobs (lru_run cap keys ops [])))) = true.
Proof. intros. apply str_eqb_refl. Qed.
Print Assumptions C12_lru_cases_covered.

(* the hypotheses about H are satisfiable: the executable model's hash has all four properties *)
Theorem C12_hash_hypotheses_satisfiable :
  (forall a b, model_H a = model_H b -> a = b) /\ (forall s, ~ In BAR (model_H s)) /\
  (forall s, ~ In PLUS (model_H s)) /\ (forall s, model_H s <> []).
Proof. repeat split; [apply model_H_inj | apply model_H_nobar | apply model_H_noplus | apply model_H_nonempty]. Qed.
Print Assumptions C12_hash_hypotheses_satisfiable.

(* isolation: in the model a returned tree is a value; nothing a caller does to it can reach the cache
   state, which get_data_step threads explicitly.  The code half (deepcopy on return) is carried by the
   correspondence, which scribbles over every returned tree. *)

(* ---- e62fc38: without the "+" tag two different piece sequences share one version list ---- *)
Definition cfg0 : config := {| allow_empty_top := false; cfg_ml := false; cfg_ms := true; engine_on := false; suffix := s_yaml |}.
Definition vs (s : string) : val := VStr (bytes_of_string s).
Definition bs (s : string) : str := bytes_of_string s.
Definition TX : str := [88]%N.  Definition TY : str := [89]%N.  Definition TZ : str := [90]%N.
Definition TT1 : str := [49]%N. Definition TT2 : str := [50]%N.
Definition yl_w : list (str * res val) :=
  [(TT1, Ok (VDict [(vs "*", VList [vs "a.X"; vs "b.Y"; vs "a.X"])]));
   (TT2, Ok (VDict [(vs "*", VList [vs "a.X"])]));
   (TX, Ok (VDict [(vs "k", VInt 1); (vs "include", VList [vs ".n"]); (vs "m", VInt 1)]));
   (TY, Ok (VDict [(vs "m", VInt 2); (vs "include", VList [vs ".n"]); (vs "k", VInt 2)]));
   (TZ, Ok (VDict []))].
Definition tree1 : fstree :=
  [([bs "top.yaml"], File TT1); ([bs "a"; bs "X.yaml"], File TX); ([bs "a"; bs "n.yaml"], File TZ);
   ([bs "b"; bs "Y.yaml"], File TY); ([bs "b"; bs "n.yaml"], File TZ)].
Definition tree2 : fstree :=
  [([bs "top.yaml"], File TT2); ([bs "a"; bs "X.yaml"], File TX); ([bs "a"; bs "n"; bs "init.yaml"], File TX);
   ([bs "a"; bs "n"; bs "n"; bs "init.yaml"], File TY); ([bs "a"; bs "n"; bs "n"; bs "n.yaml"], File TZ);
   ([bs "b"; bs "Y.yaml"], File TY); ([bs "b"; bs "n.yaml"], File TZ)].
Definition mt_w : list (str * res bool) := [(bs "*", Ok true)].
Definition case_w (V : variants) : case :=
  {| cV := V; cC := cfg0; cCap := 64; cYload := yl_w; cMatch := [([115]%N, [], mt_w)];
     cCalls := [ {| q_sys := [115]%N; q_pv := []; q_tree := tree1; q_render := [] |};
                 {| q_sys := [115]%N; q_pv := []; q_tree := tree2; q_render := [] |} ] |}.
Definition pre_e62fc38 : variants := {| tag_after := false; rerender := false; marker_compared := false; empty_raises := false |}.

Theorem C12_refuted_e62fc38 :
  holds (case_w pre_e62fc38) (run_model (case_w pre_e62fc38)) =
    ["returns_current_data"%string] /\
  holds (case_w current_variants) (run_model (case_w current_variants)) = [].
Proof. split; vm_compute; reflexivity. Qed.

(* what the stale answer looks like: the old data {k: 1, m: 1} where the tree now yields {k: 2, m: 1} *)
Example C12_refuted_e62fc38_data :
  map (fun p => step_data (fst p)) (run_model (case_w pre_e62fc38)) =
    [Ok [(vs "k", VInt 1); (vs "m", VInt 1)]; Ok [(vs "k", VInt 1); (vs "m", VInt 1)]] /\
  map (fun p => step_data (fst p)) (run_model (case_w current_variants)) =
    [Ok [(vs "k", VInt 1); (vs "m", VInt 1)]; Ok [(vs "k", VInt 2); (vs "m", VInt 1)]].
Proof. split; vm_compute; reflexivity. Qed.

(* non-vacuity: a valid case with capacity 2, a two-call history over different snapshots, faithful calls *)
Definition case_nv : case :=
  {| cV := current_variants; cC := cfg0; cCap := 2; cYload := yl_w; cMatch := cMatch (case_w current_variants);
     cCalls := cCalls (case_w current_variants) |}.
Example C12_nonvacuous :
  valid case_nv /\ Forall (faithful (mo_of case_nv)) (map (mk_call case_nv) (cCalls case_nv)) /\
  map (fun p => step_data (fst p)) (run_model case_nv) =
    [Ok [(vs "k", VInt 1); (vs "m", VInt 1)]; Ok [(vs "k", VInt 2); (vs "m", VInt 1)]].
Proof. split; [vm_compute; reflexivity | split; [repeat constructor | vm_compute; reflexivity]]. Qed.
