"""C01/C08/C02: the packet builders of vinegar/tftp/protocol.py (data_packet, error_packet, options_ack_packet)
against Tftp/PacketBuild.v (binary c01pkt), and as VALUES: a packet built earlier is not changed by building another
one (the server keeps a packet for retransmission while other transfers build theirs), and it is an immutable bytes."""
import time

import common
from common import sx, unsx
from vinegar.tftp import protocol as P


def build(case):
    try:
        return _build(case)
    except Exception as ex:        # a builder that raises is observed, not a crash of the check
        return b"<raised " + type(ex).__name__.encode() + b">"


def _build(case):
    k = case[0]
    if k == 3:
        return P.data_packet(case[1], case[2])
    if k == 5:
        return P.error_packet(P.ErrorCode(case[1]), case[2].decode("ascii"))
    return P.options_ack_packet({a.decode("ascii"): b.decode("ascii") for a, b in case[1]})


def cases(tier, rng):
    quick = tier == "quick"
    for blk in (0, 1, 2, 255, 256, 65534, 65535):
        for n in (0, 1, 8, 511, 512, 513, 1428, 65464):
            yield (3, blk, bytes((i * 7 + blk) % 256 for i in range(n)))
    for code in range(0, 9):
        for msg in (b"", b"x", b"File not found.", b"a" * 300):
            yield (5, code, msg)
    for opts in ([(b"blksize", b"8")], [(b"tsize", b"0"), (b"timeout", b"255")], [(b"blksize", b"65464"), (b"timeout", b"1"), (b"tsize", b"123456789")]):
        yield (6, opts)
    for _ in range(200 if quick else 3000):
        yield (3, rng.randrange(0, 65536), bytes(rng.randrange(256) for _ in range(rng.choice([0, 1, 8, 100, 512]))))


def pkt_checks(tier, rng, report, ident="C01"):
    t0 = time.time()
    cs = list(cases(tier, rng))
    built = [build(c) for c in cs]           # all kept alive, like packets waiting for their acknowledgement
    snap = [bytes(b) for b in built]
    outs = common.run_model("c01pkt", [sx(list(c)) for c in cs])
    failing, dis = [], 0
    for c, b, s0, out in zip(cs, built, snap, outs):
        m = unsx(out)
        clauses = []
        if type(b) is not bytes:
            clauses.append(ident + ":packet_is_an_immutable_value")
        if bytes(b) != s0:
            clauses.append(ident + ":packet_unchanged_by_later_packets")
        if s0 != m:
            clauses.append(ident + ":packet_bytes")
        if clauses:
            dis += 1
            if len(failing) < 2:
                failing.append(({"_extra": True, "part": "packet-builders", "packet": common._jsonable(list(c))}, clauses,
                                common._jsonable(bytes(b)), common._jsonable(m)))
    report["evaluations"] += len(cs)
    report["disagreements"] += dis
    report["impl_failures"] += dis
    report["extra"].update({"packet_builder_cases": len(cs), "packet_builder_failures": dis,
                            "packet_builder_wall_s": round(time.time() - t0, 1)})
    report.setdefault("extra_failing", []).extend(failing)
