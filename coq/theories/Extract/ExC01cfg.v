From Coq Require Import ExtrOcamlBasic.
From Coq Require Extraction.
From VF Require Import Base.Sx C01.CfgEntry.
Definition main := wrap cfg_entry.
Extraction "../ocaml/gen/c01cfg_model.ml" main.
