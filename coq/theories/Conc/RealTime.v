(* Real-time order.  A call that RETURNED before another call was INVOKED must precede it in the witness
   order.  The harness records for every call the calls that had returned when it was invoked
   ([preds]: for each other thread the index of its last call that had returned).  The base machine is
   instrumented: the shared object carries the number of calls each thread has completed; the first
   access of a call (inside its critical section) checks that all its predecessors are complete, the last
   one counts the call as complete.  A call placed before one of its predecessors gets the result None,
   which no observation has; so `search` over the instrumented machine decides
   "linearizable AND respecting real-time order".  The instrumented programs are still single critical
   sections with the same number of micro-steps: lock_linearizable applies unchanged. *)
From Coq Require Import List Arith Bool.
From VF Require Import Conc.Machine Conc.MachineProofs.
Import ListNotations.

Fixpoint incr (i : nat) (l : list nat) : list nat :=
  match l, i with
  | [], _ => []
  | x :: r, 0 => S x :: r
  | x :: r, S k => x :: incr k r
  end.

Section RT.
  Variables (O W LS Call Res : Type).
  Variable begin : Call -> LS.
  Variable body : Call -> list (LS -> O -> W -> LS * O).
  Variable ret : LS -> Res.

  (* a call with its thread index and its real-time predecessors (thread, call index) *)
  Definition rcall := (Call * (nat * list (nat * nat)))%type.
  Definition robj := (O * list nat)%type.
  Record rls := { base : LS; who : nat; preds : list (nat * nat); rt_ok : bool }.

  Definition rbegin (c : rcall) : rls :=
    {| base := begin (fst c); who := fst (snd c); preds := snd (snd c); rt_ok := true |}.
  Definition preds_done (ps : list (nat * nat)) (dn : list nat) : bool :=
    forallb (fun p => Nat.ltb (snd p) (nth (fst p) dn 0)) ps.

  Definition guard (l : rls) (o : robj) : rls :=
    {| base := base l; who := who l; preds := preds l; rt_ok := rt_ok l && preds_done (preds l) (snd o) |}.
  Definition lift (f : LS -> O -> W -> LS * O) (l : rls) (o : robj) (w : W) : rls * robj :=
    let '(b', o') := f (base l) (fst o) w in
    ({| base := b'; who := who l; preds := preds l; rt_ok := rt_ok l |}, (o', snd o)).
  Definition mark (l : rls) (o : robj) : robj := (fst o, incr (who l) (snd o)).

  (* first access: guard first; last access: mark afterwards *)
  Definition first_step (f : rls -> robj -> W -> rls * robj) : rls -> robj -> W -> rls * robj :=
    fun l o w => f (guard l o) o w.
  Definition last_step (f : rls -> robj -> W -> rls * robj) : rls -> robj -> W -> rls * robj :=
    fun l o w => let '(l', o') := f l o w in (l', mark l' o').
  Fixpoint mark_last (fs : list (rls -> robj -> W -> rls * robj)) : list (rls -> robj -> W -> rls * robj) :=
    match fs with
    | [] => []
    | [f] => [last_step f]
    | f :: r => f :: mark_last r
    end.
  Definition rbody (c : rcall) : list (rls -> robj -> W -> rls * robj) :=
    match map lift (body (fst c)) with
    | [] => [last_step (first_step (fun l o _ => (l, o)))]
    | f :: r => mark_last (first_step f :: r)
    end.
  Definition rprog (c : rcall) : list (mstep robj W rls) := cs_prog robj W rls (rbody c).
  Definition rret (l : rls) : option Res := if rt_ok l then Some (ret (base l)) else None.

  Lemma rprog_cs c : rprog c = cs_prog robj W rls (rbody c).
  Proof. reflexivity. Qed.
End RT.

Definition opt_eqb {A} (eqb : A -> A -> bool) (a b : option A) : bool :=
  match a, b with Some x, Some y => eqb x y | None, None => true | _, _ => false end.
Lemma opt_eqb_refl {A} (eqb : A -> A -> bool) : (forall x, eqb x x = true) -> forall o, opt_eqb eqb o o = true.
Proof. intros H [x|]; cbn; auto. Qed.

Definition unwrap {A} (d : A) (o : option A) : A := match o with Some x => x | None => d end.
Definition no_none {A} (l : list (list (option A))) : bool :=
  forallb (forallb (fun o => match o with Some _ => true | None => false end)) l.
Lemma wrap_unwrap {A} (d : A) (l : list (list (option A))) :
  no_none l = true -> map (map (@Some A)) (map (map (unwrap d)) l) = l.
Proof.
  induction l as [|t r IH]; cbn; auto. intros H. apply andb_prop in H. destruct H as [H1 H2].
  f_equal; auto. clear -H1. induction t as [|o t IH]; cbn in *; auto.
  apply andb_prop in H1. destruct H1 as [Ho Ht]. destruct o; [|discriminate]. cbn. f_equal. auto.
Qed.
